(* Model of compare_locales/compare/content.py ContentComparer.compare and
   ContentComparer.add, with Parser.findDuplicates (parser/base.py) and the
   part of compare/observer.py Observer.notify / updateStats that records the
   notifications and the stats dictionary.  Definitions only; proofs are in
   Proofs/CompareProofs.v.

   AddRemove.__iter__ and KeyedTuple.__getitem__ are the models of
   Model/AddRemove.v (imported, not copied).

   What the parsers deliver is data: an entity carries its key, the class of
   its value ([c_val]; two values are == iff [veq] says so), the result of
   count_words(), whether it is a parser.Junk, and an identity ([c_id]) used to
   name it in `skips` and to look up the checker's findings.  The filter
   verdict (what observers.notify returns for missingEntity/obsoleteEntity) and
   the checker are parameters. *)
From Coq Require Import ZArith NArith List Bool Arith.
From CL Require Import Base.Sx Base.Res Base.Str Regex.Rx Model.Parse Model.AddRemove
  Generated.RxC03.
Import ListNotations.
Local Open Scope nat_scope.

(* return value of ObserverList.notify: "error", "ignore", or the one other
   value the filters produce ("warning") *)
Inductive verdict := VError | VIgnore | VWarning.

Definition is_ignore (v : verdict) : bool :=
  match v with VIgnore => true | _ => false end.

(* one tuple yielded by checker.check(refent, l10nent): tp == "error"?, and the
   identity of the message text (positions and texts are the checker's) *)
Record finding := mkfinding { f_error : bool; f_msg : Z }.

Record stats := mkstats {
  s_missing : nat; s_missing_w : nat; s_report : nat; s_obsolete : nat;
  s_changed : nat; s_changed_w : nat; s_unchanged : nat; s_unchanged_w : nat;
  s_keys : nat
}.

Definition stats0 : stats := mkstats 0 0 0 0 0 0 0 0 0.

Definition stats_add (a b : stats) : stats :=
  mkstats (s_missing a + s_missing b) (s_missing_w a + s_missing_w b)
          (s_report a + s_report b) (s_obsolete a + s_obsolete b)
          (s_changed a + s_changed b) (s_changed_w a + s_changed_w b)
          (s_unchanged a + s_unchanged b) (s_unchanged_w a + s_unchanged_w b)
          (s_keys a + s_keys b).

(* the order of Generated.C03Facts.c03_stats_keys *)
Definition stats_fields (s : stats) : list nat :=
  [s_missing s; s_missing_w s; s_report s; s_obsolete s; s_changed s; s_changed_w s;
   s_unchanged s; s_unchanged_w s; s_keys s].

Section Compare.
Context {K V : Type} (eqb : K -> K -> bool) (veq : V -> V -> bool).
(* isinstance(entity_id, str) and self.keyRE.search(entity_id) *)
Context (keyname : K -> bool).

Record cent := mkcent {
  c_key : K;
  c_val : V;
  c_words : nat;        (* count_words() *)
  c_junk : bool;        (* isinstance(_, parser.Junk) *)
  c_id : Z
}.

(* observers.notify(category, l10n, data) calls, in order *)
Inductive note :=
| NDup (in_l10n : bool) (k : K) (n : nat)   (* "<k> occurs <n> times": warning for the reference, error for l10n *)
| NRefJunk                                  (* warning "Parser error in en-US" *)
| NMissing (k : K)                          (* missingEntity *)
| NObsolete (k : K)                         (* obsoleteEntity *)
| NJunk (id : Z)                            (* error junk.error_message() *)
| NCheck (err : bool) (msg : Z).            (* checker finding: error / warning *)

Inductive category := CatError | CatWarning | CatMissing | CatObsolete.

Definition note_cat (n : note) : category :=
  match n with
  | NDup true _ _ => CatError
  | NDup false _ _ => CatWarning
  | NRefJunk => CatWarning
  | NMissing _ => CatMissing
  | NObsolete _ => CatObsolete
  | NJunk _ => CatError
  | NCheck true _ => CatError
  | NCheck false _ => CatWarning
  end.

(* ---- Parser.findDuplicates ------------------------------------------------
   found = Counter(entity.key for entity in entities)
   for entity_id, cnt in found.items(): if cnt > 1: yield ...                  *)
Fixpoint counter_add (k : K) (m : list (K * nat)) : list (K * nat) :=
  match m with
  | [] => [(k, 1)]
  | (k', n) :: m' => if eqb k k' then (k', S n) :: m' else (k', n) :: counter_add k m'
  end.

Definition counter (l : list K) : list (K * nat) :=
  fold_left (fun m k => counter_add k m) l [].

Definition find_duplicates (ents : list cent) : list (K * nat) :=
  filter (fun kn => 1 <? snd kn) (counter (map c_key ents)).

(* ---- the state of compare() ---------------------------------------------- *)
Record acc := mkacc {
  a_stats : stats;
  a_missings : list K;      (* missings *)
  a_skips : list Z;         (* skips, by identity of the entity appended *)
  a_notes : list note
}.

Definition acc0 : acc := mkacc stats0 [] [] [].

(* sequential composition of effects: counters add up, lists are appended to *)
Definition acc_app (a d : acc) : acc :=
  mkacc (stats_add (a_stats a) (a_stats d)) (a_missings a ++ a_missings d)
        (a_skips a ++ a_skips d) (a_notes a ++ a_notes d).

Definition notes_only (ns : list note) : acc := mkacc stats0 [] [] ns.

Context (flt : K -> verdict).                 (* verdict for missingEntity / obsoleteEntity *)
Context (chk : cent -> cent -> list finding). (* checker.check(refent, l10nent); [] without a checker *)
Context (merge : bool).                       (* merge_file is not None *)
Context (ref l10n : list cent).

Definition getitem (k : K) (ents : list cent) : result cent := kt_getitem eqb c_key k ents.

(* Entry.equals: self.key == other.key and self.val == other.val *)
Definition equals (a b : cent) : bool := eqb (c_key a) (c_key b) && veq (c_val a) (c_val b).

(* `l10nent not in skips`: entities define no __eq__, list membership is identity *)
Definition in_skips (id : Z) (skips : list Z) : bool := existsb (Z.eqb id) skips.

(* the loop over checker.check(refent, l10nent), as far as `skips` goes:
     if tp == "error" and merge_file is not None and l10nent not in skips:
         skips.append(l10nent)
   returns what is appended to [skips] *)
Fixpoint check_skips (id : Z) (skips : list Z) (fs : list finding) : list Z :=
  match fs with
  | [] => []
  | f :: fs' =>
      if f_error f && merge && negb (in_skips id skips)
      then id :: check_skips id (skips ++ [id]) fs'
      else check_skips id skips fs'
  end.

(* the effect of one iteration of `for action, entity_id in ar:`;
   [skips] is the list as it stands when the iteration starts *)
Definition iteration (skips : list Z) (x : label * K) : result acc :=
  let (action, entity_id) := x in
  match action with
  | Delete =>
      (* missing entity *)
      do refent <- getitem entity_id ref;
      if c_junk refent then
        Ok (notes_only [NRefJunk])                       (* warning; continue *)
      else
        match flt entity_id with                         (* notify("missingEntity") *)
        | VIgnore => Ok (notes_only [NMissing entity_id])  (* continue *)
        | VError =>
            Ok (mkacc (mkstats 1 (c_words refent) 0 0 0 0 0 0 0) [entity_id] []
                      [NMissing entity_id])
        | VWarning =>
            Ok (mkacc (mkstats 0 0 1 0 0 0 0 0 0) [] [] [NMissing entity_id])
        end
  | Add =>
      (* obsolete entity or junk *)
      do l10nent <- getitem entity_id l10n;
      if c_junk l10nent then
        Ok (mkacc stats0 [] (if merge then [c_id l10nent] else []) [NJunk (c_id l10nent)])
      else
        match flt entity_id with                         (* notify("obsoleteEntity") *)
        | VIgnore => Ok (notes_only [NObsolete entity_id])
        | _ => Ok (mkacc (mkstats 0 0 0 1 0 0 0 0 0) [] [] [NObsolete entity_id])
        end
  | Equal =>
      (* entity found in both ref and l10n, check for changed *)
      do refent <- getitem entity_id ref;
      do l10nent <- getitem entity_id l10n;
      do counted <-
        (if keyname entity_id then Ok (mkstats 0 0 0 0 0 0 0 0 1)
         else if c_junk refent then
           (* parser.Junk has neither equals() nor count_words(): AttributeError.
              Base/Res.v has no tag of that name; RuntimeError stands for it. *)
           Raise RuntimeError
         else if equals refent l10nent then Ok (mkstats 0 0 0 0 0 0 1 (c_words refent) 0)
         else Ok (mkstats 0 0 0 0 1 (c_words refent) 0 0 0));
      (* run checks: an error entity is skipped when merging, once; every finding is notified *)
      let fs := chk refent l10nent in
      Ok (mkacc counted [] (check_skips (c_id l10nent) skips fs)
                (map (fun f => NCheck (f_error f) (f_msg f)) fs))
  end.

Fixpoint run (a : acc) (steps : list (label * K)) : result acc :=
  match steps with
  | [] => Ok a
  | x :: steps' =>
      match iteration (a_skips a) x with
      | Ok d => run (acc_app a d) steps'
      | Raise t => Raise t
      end
  end.

(* ContentComparer.compare after both files were parsed: the stats dict passed
   to updateStats, the notify calls, and the `missing` and `skips` arguments of
   the merge() call *)
Definition compare : result acc :=
  let ar := addremove eqb (map c_key ref) (map c_key l10n) in
  let dups := map (fun kn => NDup false (fst kn) (snd kn)) (find_duplicates ref) ++
              map (fun kn => NDup true (fst kn) (snd kn)) (find_duplicates l10n) in
  run (notes_only dups) ar.

(* ---- Observer (quiet = 0) ---------------------------------------------------
   An observer whose filter ignores a missing/obsolete key records nothing for
   it; errors and warnings are recorded and counted (the filter is assumed not
   to ignore message texts or the file itself).                                  *)
Definition observed (n : note) : bool :=
  match n with
  | NMissing k | NObsolete k => negb (is_ignore (flt k))
  | _ => true
  end.

Definition details (a : acc) : list note := filter observed (a_notes a).

Definition count_cat (c : category) (ns : list note) : nat :=
  length (filter (fun n => match note_cat n, c with
                           | CatError, CatError | CatWarning, CatWarning => true
                           | _, _ => false
                           end) ns).

(* summary[locale] after notify + updateStats: errors, warnings, then the stats *)
Definition summary (a : acc) : list nat :=
  count_cat CatError (details a) :: count_cat CatWarning (details a) :: stats_fields (a_stats a).

End Compare.

(* ---- ContentComparer.add ------------------------------------------------------
   if notify("missingFile") == "ignore": return
   entities = [e for e in entities if not isinstance(e, parser.Junk)]
   updateStats({"missing": len(entities)})
   missing_w = 0; for e in entities: missing_w += e.count_words()
   updateStats({"missing_w": missing_w})                                           *)
Section AddFile.
Context {K V : Type}.

Definition add_file (file_verdict : verdict) (ents : list (@cent K V)) : option (nat * nat) :=
  if is_ignore file_verdict then None
  else
    let entities := filter (fun e => negb (c_junk e)) ents in
    Some (length entities, fold_left (fun missing_w e => missing_w + c_words e) entities 0).

End AddFile.

(* ---- Python keys ----------------------------------------------------------------
   compare-locales uses str keys, and (msgid, msgctxt) tuples for PO. *)
Inductive pykey :=
| KS (s : str)
| KT (msgid : str) (msgctxt : option str).

Definition pykey_eqb (a b : pykey) : bool :=
  match a, b with
  | KS s, KS t => str_eqb s t
  | KT i c, KT j d =>
      str_eqb i j && match c, d with
                     | None, None => true
                     | Some x, Some y => str_eqb x y
                     | _, _ => false
                     end
  | _, _ => false
  end.

(* isinstance(entity_id, str) and self.keyRE.search(entity_id) *)
Definition py_keyname (k : pykey) : bool :=
  match k with
  | KS s => match osearch rx_keyRE s 0 with Some _ => true | None => false end
  | KT _ _ => false
  end.
