(* Lint of a file from its TEXT, for the formats whose parser is a regular-expression walk
   (Model/ParseFormats.v): the entity objects the linter sees (Entity / Junk objects with
   their key, raw value and position methods), Entry.equals, and the body of
   L10nLinter.lint_file on them (Model/Lint.v).  Definitions only.

   Per format: the walk, the value_position method of its entity class ([vp]), and what
   .val makes of the raw value ([val]).  Parameters: the checker (after getChecker) and the
   value of the class counter Junk.junkid when the run starts (process state: junk keys are
   "_junk_<counter>_<start>-<end>"). *)
From Coq Require Import ZArith NArith List Bool.
From CL Require Import Base.Sx Base.Res Base.Str Model.Entry Model.Parse Model.CheckProps Model.Lint.
Import ListNotations.

Definition zspan (sp : nat * nat) : Lint.span := (Z.of_nat (fst sp), Z.of_nat (snd sp)).
Definition sp_text (s : str) (sp : nat * nat) : str := slice s (fst sp) (snd sp).
Definition osp_text (s : str) (o : option (nat * nat)) : str :=
  match o with Some sp => sp_text s sp | None => [] end.

(* "_junk_%d_%d-%d" % (junkid, span[0], span[1]) *)
Definition s_junk_ : str := [95; 106; 117; 110; 107; 95]%N.
Definition junk_key (n : nat) (sp : nat * nat) : str :=
  s_junk_ ++ str_of_nat n ++ 95%N :: str_of_nat (fst sp) ++ 45%N :: str_of_nat (snd sp).

Definition count_junk (es : list entry) : nat :=
  length (filter (fun e => match Entry.e_kind e with KJunk => true | _ => false end) es).

Section Format.
Variable vp : str -> option Lint.span -> vpos -> result pos.   (* value_position of the class *)
Variable val : str -> result str.                              (* .val from raw_val *)

(* the objects parser.parse() holds, for the localizable entries of a walk; [j] is
   Junk.junkid before the entry is made.  The identity e_id is the start offset. *)
Fixpoint fmt_entities (s : str) (j : nat) (es : list entry) : list (@entity str) :=
  match es with
  | [] => []
  | e :: es' =>
      match Entry.e_kind e with
      | KEntity =>
          mkEntity (fst (e_span e)) (osp_text s (Entry.e_key e)) false (osp_text s (Entry.e_val e))
                   (entry_position s (zspan (e_span e)))
                   (vp s (option_map zspan (Entry.e_val e)))
          :: fmt_entities s j es'
      | KJunk =>
          (* Junk has no value_position method (AttributeError); lint never asks *)
          mkEntity (fst (e_span e)) (junk_key (S j) (e_span e)) true (sp_text s (e_span e))
                   (entry_position s (zspan (e_span e)))
                   (fun _ => Raise NotSupported)
          :: fmt_entities s (S j) es'
      | _ => fmt_entities s j es'
      end
  end.

(* .val: the entity class's view of the raw value; Junk.val is its text *)
Definition ent_val (e : @entity str) : result str :=
  if e_junk e then Ok (e_raw e) else val (e_raw e).

(* Entry.equals: self.key == other.key and self.val == other.val *)
Definition fmt_equals (a b : @entity str) : result bool :=
  if str_eqb (Lint.e_key a) (Lint.e_key b) then
    do x <- ent_val a; do y <- ent_val b; Ok (str_eqb x y)
  else Ok false.

Variable walkf : str -> result (list entry).

(* the body of lint_file: the reference text (if there is a reference file) is parsed
   first, then the file *)
Definition lint_text {Msg : Type} (j0 : nat) (chk : option (@checker str Msg))
           (text : str) (ref : option str) : result (list (@finding str Msg)) :=
  do r <- match ref with
          | None => Ok (None, j0)
          | Some rt => do es <- walkf rt;
                       Ok (Some (fmt_entities rt j0 (filter is_localizable es)),
                           (j0 + count_junk es)%nat)
          end;
  do es <- walkf text;
  let current := fmt_entities text (snd r) (filter is_localizable es) in
  lint_entities str_eqb fmt_equals (new_linter str_eqb current chk (fst r)) current.
End Format.
