(* "Plain" inputs of the .properties checker (Model/CheckProps.v), and the checker
   adapted to the interfaces of the end-to-end models of the comparison
   (Model/Compare.v, Model/CompareText.v) and of the linter (Model/Lint.v,
   Model/LintText.v).  Definitions only; proofs in Proofs/CheckSilentProofs.v and
   Proofs/E2EChecked.v.

   [plain_in c]: the reference value has no per cent sign, the localized
   entity's text has no U+FFFD, its raw value has no backslash, and the plural
   branch is not selected ([is_plural c = Ok false]: no comment, or a comment
   without the Localization_and_Plurals literal, or the key pluralRule, or an
   all-digits reference value).  The localized VALUE is not constrained: when
   the reference has no printf arguments checkPrintf is not called. *)
From Coq Require Import ZArith NArith List Bool Arith.
From CL Require Import Base.Sx Base.Res Base.Str Regex.Rx Model.Entry Model.Parse
  Model.ParseFormats Model.Unescape Model.CheckProps Model.CheckPropsSpec
  Model.Compare Model.Lint.
Import ListNotations.

Definition c_pct : N := 37%N.
Definition c_fffd : N := 65533%N.
Definition c_backslash : N := 92%N.

Definition plain_in (c : check_in) : bool :=
  negb (mem_N c_pct (ref_val c)) && negb (mem_N c_fffd (l10n_all c)) &&
  negb (mem_N c_backslash (l10n_raw c)) &&
  match is_plural c with Ok false => true | _ => false end.

(* lint: the entity against itself *)
Definition self_in (comment : option str) (key all val raw : str) (locale : option str) : check_in :=
  mkin comment key val key all val raw locale.

(* ---- what the checker reads beyond key and value: from the file's TEXT --------------
   The end-to-end models identify an entity by the offset at which its span
   starts.  [aux_at text id] walks the text with the parser model and returns,
   for the entity whose span starts at [id]: pre_comment.all (if it has an
   attached comment), .all (from the start of the comment, or of the entity, to
   the end of the entity) and raw_val.  An offset that starts no entity gives
   (None, [], []). *)
Record aux := mkaux { x_comment : option str; x_all : str; x_raw : str }.

Definition aux_none : aux := mkaux None [] [].

Definition span_text (s : str) (sp : nat * nat) : str := slice s (fst sp) (snd sp).

Definition aux_of_entry (s : str) (e : entry) : aux :=
  mkaux (option_map (span_text s) (Entry.e_pre e))
        (all_text s e)
        (match Entry.e_val e with Some v => span_text s v | None => [] end).

Fixpoint find_entry (id : nat) (es : list entry) : option entry :=
  match es with
  | [] => None
  | e :: es' => if Nat.eqb (fst (Entry.e_span e)) id then Some e else find_entry id es'
  end.

Definition aux_at (text : str) (id : nat) : aux :=
  match walk_properties text with
  | Ok es => match find_entry id (filter is_localizable es) with
             | Some e => aux_of_entry text e
             | None => aux_none
             end
  | Raise _ => aux_none
  end.

(* ---- the identity of a message text, for Model/Compare.v's findings ---------------- *)
Definition msg_id (m : str) : Z := fold_left (fun a c => (a * 1114112 + Z.of_N c)%Z) m 0%Z.

Definition is_error_sev (sev : str) : bool := str_eqb sev s_error.

(* a raise of the checker (none of the modelled inputs produces one) is kept visible as an
   error finding with a negative identity *)
Definition cmp_findings (r : result (list CheckProps.finding)) : list Compare.finding :=
  match r with
  | Ok fs => map (fun f : CheckProps.finding =>
                 mkfinding (is_error_sev (CheckProps.f_sev f)) (msg_id (CheckProps.f_msg f))) fs
  | Raise t => [mkfinding true (-1 - tag_code t)%Z]
  end.

Definition key_str (k : pykey) : str := match k with KS s => s | KT m _ => m end.

(* checker.check(refent, l10nent) inside ContentComparer.compare on two .properties TEXTS *)
Definition cmp_check_in (locale : option str) (ref_text l10n_text : str)
           (a b : @cent pykey str) : check_in :=
  let xa := aux_at ref_text (Z.to_nat (c_id a)) in
  let xb := aux_at l10n_text (Z.to_nat (c_id b)) in
  mkin (x_comment xa) (key_str (c_key a)) (c_val a) (key_str (c_key b)) (x_all xb) (c_val b)
       (x_raw xb) locale.

Definition props_chk (locale : option str) (ref_text l10n_text : str)
           (a b : @cent pykey str) : list Compare.finding :=
  cmp_findings (CheckProps.check (cmp_check_in locale ref_text l10n_text a b)).

(* ---- the linter: checker.check(current_entity, current_entity) ---------------------- *)
Definition lint_level (sev : str) : level := if is_error_sev sev then LError else LWarning.

Definition lint_cres (f : CheckProps.finding) : @cres str :=
  mkCres (lint_level (CheckProps.f_sev f))
         (if CheckProps.f_entpos f then EntityPos (Z.of_nat (CheckProps.f_pos f))
          else ValuePos (VOff (Z.of_nat (CheckProps.f_pos f))))
         (CheckProps.f_msg f) (msg_id (CheckProps.f_cat f)).

Definition s_raise : str := [114; 97; 105; 115; 101]%N.      (* "raise" *)

Definition lint_check_in (locale : option str) (text : str) (e : @entity str) : result check_in :=
  match props_val (Lint.e_raw e) with
  | Raise t => Raise t
  | Ok v =>
      let x := aux_at text (Lint.e_id e) in
      Ok (self_in (x_comment x) (Lint.e_key e) (x_all x) v (Lint.e_raw e) locale)
  end.

(* L10nLinter.lint_file: getChecker(File(path, path, locale=REFERENCE_LOCALE)); the locale
   is a parameter here *)
Definition props_lint_chk (locale : option str) (text : str) : @checker str str :=
  fun e _ =>
    match lint_check_in locale text e with
    | Raise t => [mkCres LError (EntityPos 0) s_raise (-1 - tag_code t)%Z]
    | Ok c =>
        match CheckProps.check c with
        | Ok fs => map lint_cres fs
        | Raise t => [mkCres LError (EntityPos 0) s_raise (-1 - tag_code t)%Z]
        end
    end.
