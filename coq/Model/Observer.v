(* Model of compare_locales/compare/observer.py (Observer, ObserverList) and of
   the exit status of commands.py CompareLocales.handle.  Definitions only;
   proofs are in Proofs/ObserverProofs.v.

   Thresholds, category names, summary keys and exit statuses come from
   Generated/ObserverFacts.v (read from the source on every run).

   A step returns the state AFTER the call together with the call's outcome
   ([Ok v] or [Raise tag]): a Python exception leaves the mutations made before
   it in place. *)
From Coq Require Import ZArith NArith List Bool Arith.
From CL Require Import Base.Sx Base.Res Base.Str Model.Tree Generated.ObserverFacts.
Import ListNotations.

(* what a filter / notify returns.  The project filters return "error",
   "warning" or "ignore"; any other string is [VOther] *)
Inductive verdict := VError | VWarning | VIgnore | VOther (n : N).

Definition verdict_eqb (a b : verdict) : bool :=
  match a, b with
  | VError, VError | VWarning, VWarning | VIgnore, VIgnore => true
  | VOther n, VOther m => N.eqb n m
  | _, _ => false
  end.
Definition is_ignore (v : verdict) : bool := verdict_eqb v VIgnore.
Definition is_error (v : verdict) : bool := verdict_eqb v VError.

Inductive category :=
| MissingFile | ObsoleteFile | MissingEntity | ObsoleteEntity | CError | CWarning | COther.

(* the category string of a notify call, against the names in the source *)
Definition classify (s : str) : category :=
  if str_eqb s name_missingFile then MissingFile
  else if str_eqb s name_obsoleteFile then ObsoleteFile
  else if str_eqb s name_missingEntity then MissingEntity
  else if str_eqb s name_obsoleteEntity then ObsoleteEntity
  else if str_eqb s name_error then CError
  else if str_eqb s name_warning then CWarning
  else COther.

(* the [data] argument: None, a str (id; 0 is ""), or a tuple (PO keys) *)
Inductive data := DNone | DStr (n : N) | DTup (n : N).

Definition data_eqb (a b : data) : bool :=
  match a, b with
  | DNone, DNone => true
  | DStr n, DStr m | DTup n, DTup m => N.eqb n m
  | _, _ => false
  end.

(* the [file] argument: identity (for the filter), .locale, and what
   Tree.__getitem__ sees *)
Record file := { f_id : N; f_locale : N; f_leaf : leafkind }.

(* filter(file, entity=None) *)
Definition filter_t := file -> data -> verdict.

(* the dicts appended to the details *)
Inductive item :=
| IFile (missing : bool) (rv : verdict)   (* {"missingFile" | "obsoleteFile": rv} *)
| IEntity (missing : bool) (d : data)     (* {"missingEntity" | "obsoleteEntity": data} *)
| IMsg (is_err : bool) (d : data).        (* {"error" | "warning": data} *)

Definition counters := list (str * nat).
Definition summary_t := list (N * counters).

Record ostate := { o_summary : summary_t; o_details : tree item; o_error : bool }.

Definition init_state : ostate :=
  {| o_summary := []; o_details := empty_tree; o_error := false |}.

Definition set_error (st : ostate) : ostate :=
  {| o_summary := o_summary st; o_details := o_details st; o_error := true |}.
Definition with_summary (st : ostate) (s : summary_t) : ostate :=
  {| o_summary := s; o_details := o_details st; o_error := o_error st |}.
Definition with_details (st : ostate) (t : tree item) : ostate :=
  {| o_summary := o_summary st; o_details := t; o_error := o_error st |}.

(* the defaultdict factory *)
Definition fresh_counters : counters := map (fun k => (k, 0)) summary_keys.

(* d[k] += n on a plain dict: None is KeyError *)
Fixpoint cincr (k : str) (n : nat) (c : counters) : option counters :=
  match c with
  | [] => None
  | (k', v) :: c' =>
      if str_eqb k k' then Some ((k', v + n) :: c')
      else match cincr k n c' with Some c'' => Some ((k', v) :: c'') | None => None end
  end.

(* self.summary[loc][k] += n.  The defaultdict creates the locale's counters
   before the inner lookup can fail; the bool is false on KeyError *)
Fixpoint sum_add (loc : N) (k : str) (n : nat) (s : summary_t) : summary_t * bool :=
  match s with
  | [] =>
      match cincr k n fresh_counters with
      | Some c => ([(loc, c)], true)
      | None => ([(loc, fresh_counters)], false)
      end
  | (l, c) :: s' =>
      if N.eqb loc l then
        match cincr k n c with
        | Some c' => ((l, c') :: s', true)
        | None => ((l, c) :: s', false)
        end
      else let (s'', okay) := sum_add loc k n s' in ((l, c) :: s'', okay)
  end.

Definition file_parts (f : file) : key := leaf_parts (f_locale f) (f_leaf f).

(* self.details[file].append(it) *)
Definition add_detail (st : ostate) (f : file) (it : item) : result ostate :=
  do t <- tree_getitem (o_details st) (file_parts f) [it];
  Ok (with_details st t).

Definition is_file_cat (c : category) : bool :=
  match c with MissingFile | ObsoleteFile => true | _ => false end.

Definition cat_name (c : category) : str :=
  match c with
  | MissingFile => name_missingFile | ObsoleteFile => name_obsoleteFile
  | MissingEntity => name_missingEntity | ObsoleteEntity => name_obsoleteEntity
  | CError => name_error | CWarning => name_warning | COther => []
  end.

(* is the detail of a (non-ignored) event of category c kept at quiet level q *)
Definition shown (q : nat) (c : category) : bool :=
  match c with
  | MissingFile => negb (thr_files_hidden <=? q)
  | ObsoleteFile => negb (thr_files_hidden <=? q) && (q =? thr_obsolete_file_shown)
  | MissingEntity => q <? thr_missingEntity
  | ObsoleteEntity => q <? thr_obsoleteEntity
  | CError => q <? thr_error
  | CWarning => q <? thr_warning
  | COther => false
  end.

(* Observer.notify *)
Definition notify (q : nat) (flt : option filter_t) (st : ostate)
           (c : category) (f : file) (d : data) : ostate * result verdict :=
  match c with
  | MissingFile | ObsoleteFile =>
      let missing := match c with MissingFile => true | _ => false end in
      let rv := match flt with Some g => g f DNone | None => VError end in
      if is_ignore rv || (thr_files_hidden <=? q) then (st, Ok rv)
      else if (q =? thr_obsolete_file_shown) || missing then
        match add_detail st f (IFile missing rv) with
        | Ok st' => (st', Ok rv)
        | Raise t => (st, Raise t)
        end
      else (st, Ok rv)
  | _ =>
      let rv := match flt with Some g => g f d | None => VError end in
      if match flt with Some _ => is_ignore rv | None => false end then (st, Ok rv)
      else
        match c with
        | MissingEntity | ObsoleteEntity =>
            let missing := match c with MissingEntity => true | _ => false end in
            if (missing && (q <? thr_missingEntity))
               || (negb missing && (q <? thr_obsoleteEntity)) then
              match add_detail st f (IEntity missing d) with
              | Ok st' => (st', Ok rv)
              | Raise t => (st, Raise t)
              end
            else (st, Ok rv)
        | CError | CWarning =>
            let is_err := match c with CError => true | _ => false end in
            let st1 := if is_err then set_error st else st in
            let r2 := if (is_err && (q <? thr_error)) || (negb is_err && (q <? thr_warning))
                      then add_detail st1 f (IMsg is_err d) else Ok st1 in
            match r2 with
            | Raise t => (st1, Raise t)
            | Ok st2 =>
                let (s', okay) := sum_add (f_locale f) (cat_name c ++ summary_suffix) 1
                                          (o_summary st2) in
                (with_summary st2 s', if okay then Ok rv else Raise KeyError)
            end
        | _ => (st, Ok rv)
        end
  end.

(* the loop of Observer.updateStats *)
Fixpoint stats_loop (st : ostate) (loc : N) (stats : list (str * nat)) : ostate * result unit :=
  match stats with
  | [] => (st, Ok tt)
  | (cat, v) :: r =>
      let st1 := if str_eqb cat stats_errors_key then set_error st else st in
      let (s', okay) := sum_add loc cat v (o_summary st1) in
      let st2 := with_summary st1 s' in
      if okay then stats_loop st2 loc r else (st2, Raise KeyError)
  end.

(* the dummy entity key '' passed by updateStats *)
Definition empty_entity : data := DStr 0.

Definition update_stats (flt : option filter_t) (st : ostate) (f : file)
           (stats : list (str * nat)) : ostate * result unit :=
  if match flt with Some g => is_ignore (g f empty_entity) | None => false end
  then (st, Ok tt)
  else stats_loop st (f_locale f) stats.

(* ---- ObserverList ------------------------------------------------------- *)
Record oconf := { c_quiet : nat; c_filter : option filter_t }.
Record lstate := { l_own : ostate; l_obs : list (oconf * ostate) }.

Definition init_list (confs : list oconf) : lstate :=
  {| l_own := init_state; l_obs := map (fun c => (c, init_state)) confs |}.

(* {observer.notify(category, file, data) for observer in self.observers}:
   in list order; an exception stops the comprehension *)
Fixpoint notify_all (obs : list (oconf * ostate)) (c : category) (f : file) (d : data)
  : list (oconf * ostate) * result (list verdict) :=
  match obs with
  | [] => ([], Ok [])
  | (cf, st) :: obs' =>
      let (st', r) := notify (c_quiet cf) (c_filter cf) st c f d in
      match r with
      | Raise t => ((cf, st') :: obs', Raise t)
      | Ok v =>
          let (obs'', r') := notify_all obs' c f d in
          ((cf, st') :: obs'', match r' with Ok vs => Ok (v :: vs) | Raise t => Raise t end)
      end
  end.

(* a Python set of verdicts: first occurrences *)
Fixpoint vset (l : list verdict) : list verdict :=
  match l with
  | [] => []
  | v :: l' => v :: filter (fun w => negb (verdict_eqb v w)) (vset l')
  end.

(* ObserverList.notify; [q] is the list's own quiet level *)
Definition lnotify (q : nat) (st : lstate) (c : category) (f : file) (d : data)
  : lstate * result verdict :=
  let (obs', r) := notify_all (l_obs st) c f d in
  match r with
  | Raise t => ({| l_own := l_own st; l_obs := obs' |}, Raise t)
  | Ok rvs0 =>
      let rvs := vset rvs0 in
      if forallb is_ignore rvs then ({| l_own := l_own st; l_obs := obs' |}, Ok VIgnore)
      else
        (* our return value doesn't count *)
        let (own', r0) := notify q None (l_own st) c f d in
        let st' := {| l_own := own'; l_obs := obs' |} in
        match r0 with
        | Raise t => (st', Raise t)
        | Ok _ =>
            let rvs' := filter (fun v => negb (is_ignore v)) rvs in
            if existsb is_error rvs' then (st', Ok VError)
            else match rvs' with
                 | [v] => (st', Ok v)
                 | _ => (st', Raise AssertionError)
                 end
        end
  end.

Fixpoint stats_all (obs : list (oconf * ostate)) (f : file) (stats : list (str * nat))
  : list (oconf * ostate) * result unit :=
  match obs with
  | [] => ([], Ok tt)
  | (cf, st) :: obs' =>
      let (st', r) := update_stats (c_filter cf) st f stats in
      match r with
      | Raise t => ((cf, st') :: obs', Raise t)
      | Ok _ => let (obs'', r') := stats_all obs' f stats in ((cf, st') :: obs'', r')
      end
  end.

Definition lupdate_stats (st : lstate) (f : file) (stats : list (str * nat))
  : lstate * result unit :=
  let (obs', r) := stats_all (l_obs st) f stats in
  match r with
  | Raise t => ({| l_own := l_own st; l_obs := obs' |}, Raise t)
  | Ok _ =>
      let (own', r0) := update_stats None (l_own st) f stats in
      ({| l_own := own'; l_obs := obs' |}, r0)
  end.

(* ---- histories ---------------------------------------------------------- *)
Inductive event :=
| ENotify (c : category) (f : file) (d : data)
| EStats (f : file) (stats : list (str * nat)).

Inductive outcome := OVerdict (v : verdict) | ONone | ORaise (t : tag).

Definition out_v (r : result verdict) : outcome :=
  match r with Ok v => OVerdict v | Raise t => ORaise t end.
Definition out_u (r : result unit) : outcome :=
  match r with Ok _ => ONone | Raise t => ORaise t end.

Definition ostep (q : nat) (flt : option filter_t) (st : ostate) (e : event) : ostate * outcome :=
  match e with
  | ENotify c f d => let (st', r) := notify q flt st c f d in (st', out_v r)
  | EStats f stats => let (st', r) := update_stats flt st f stats in (st', out_u r)
  end.

Definition lstep (q : nat) (st : lstate) (e : event) : lstate * outcome :=
  match e with
  | ENotify c f d => let (st', r) := lnotify q st c f d in (st', out_v r)
  | EStats f stats => let (st', r) := lupdate_stats st f stats in (st', out_u r)
  end.

(* the caller catches nothing in the real program; the harness catches every
   exception and goes on, which is what [run] does *)
Fixpoint orun (q : nat) (flt : option filter_t) (st : ostate) (h : list event) : ostate :=
  match h with
  | [] => st
  | e :: h' => orun q flt (fst (ostep q flt st e)) h'
  end.

Fixpoint lrun (q : nat) (st : lstate) (h : list event) : lstate * list outcome :=
  match h with
  | [] => (st, [])
  | e :: h' =>
      let (st', o) := lstep q st e in
      let (st'', os) := lrun q st' h' in (st'', o :: os)
  end.

(* ---- commands.py: rv = 1 if not return_zero and observers.error else 0 --- *)
Definition exit_code (return_zero : bool) (st : lstate) : Z :=
  if negb return_zero && o_error (l_own st) then exit_error else exit_ok.

(* ---- ObserverList.serializeDetails: one entry per output line ------------ *)
Inductive sline :=
| SKeyLine (indent : nat) (k : key)             (* "  " * depth + "/".join(key) *)
| SItem (indent : nat) (kind : nat) (d : data)  (* indent + marker + text *)
| SBlank.                                       (* "\n".join([]) for an empty value list *)

(* kinds: 0 ERROR, 1 WARNING, 2 "+", 3 "-", 4 add-and-localize, 5 remove.
   "ERROR: " + data needs a str; keystr(data) a str or an iterable *)
Definition ser_item (indent : nat) (it : item) : result sline :=
  match it with
  | IMsg is_err (DStr n) => Ok (SItem indent (if is_err then 0 else 1) (DStr n))
  | IMsg _ _ => Raise TypeError
  | IEntity _ DNone => Raise TypeError
  | IEntity missing d => Ok (SItem indent (if missing then 2 else 3) d)
  | IFile missing _ => Ok (SItem indent (if missing then 4 else 5) DNone)
  end.

Fixpoint ser_items (indent : nat) (its : list item) : result (list sline) :=
  match its with
  | [] => Ok []
  | it :: r => do l <- ser_item indent it; do ls <- ser_items indent r; Ok (l :: ls)
  end.

Fixpoint ser_rows (rows : list (row item)) : result (list sline) :=
  match rows with
  | [] => Ok []
  | RKey depth k :: r => do ls <- ser_rows r; Ok (SKeyLine depth k :: ls)
  | RValue depth v :: r =>
      do l <- ser_items (S depth) v;
      do ls <- ser_rows r;
      Ok (match l with [] => [SBlank] | _ => l end ++ ls)
  end.

Definition serialize_details (st : lstate) : result (list sline) :=
  ser_rows (getContent (o_details (l_own st)) 0).
