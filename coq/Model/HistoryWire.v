(* Instances of the C18 state machine (Model/History.v).

   1. [wire_*]: the instance run by the extracted model.  The pure parts are
      tables measured in FRESH interpreters (one per operation) and sent with
      the request; the model computes, for a history over those operations,
      every output (entry objects with the junk ids and contexts they get in
      that history) and the whole process state after every operation.
   2. [toy_*]: a small concrete instance used by the examples of
      Properties/C18.v: a line-oriented parser with a defines-like filter flag
      and a compare-like report built on the AddRemove / KeyedTuple models.
   Definitions only. *)
From Coq Require Import ZArith NArith List Bool Arith.
From CL Require Import Base.Sx Base.Res Base.Str Model.AddRemove Model.History.
Import ListNotations.
Local Open Scope nat_scope.

(* ===================================================================== *)
(* 1. the wire instance                                                    *)
(* ===================================================================== *)
Definition to_span (s : sx) : span := (to_nat (nth_sx 0 s), to_nat (nth_sx 1 s)).
Definition of_span (p : span) : sx := L [of_nat (fst p); of_nat (snd p)].

Definition to_pentry (s : sx) : pentry :=
  match to_nat (nth_sx 0 s) with
  | 0 => PEnt (to_nat (nth_sx 1 s)) (to_span (nth_sx 2 s)) (to_span (nth_sx 3 s))
              (to_option to_span (nth_sx 4 s))
  | 1 => PLit (to_str (nth_sx 1 s)) (to_str (nth_sx 2 s)) (to_str (nth_sx 3 s))
  | 2 => PJunk (to_nat (nth_sx 1 s)) (to_nat (nth_sx 2 s))
  | 3 => PLitJunk (to_str (nth_sx 1 s))
  | _ => PGhost
  end.

(* rows [f; text; flag; entries; final flag] *)
Fixpoint wire_walk (rows : list sx) (f : fmt) (t : str) (fl : bool) : list pentry * bool :=
  match rows with
  | [] => ([], fl)
  | r :: rest =>
      if Nat.eqb (to_nat (nth_sx 0 r)) f && str_eqb (to_str (nth_sx 1 r)) t
         && Bool.eqb (to_bool (nth_sx 2 r)) fl
      then (to_list to_pentry (nth_sx 3 r), to_bool (nth_sx 4 r))
      else wire_walk rest f t fl
  end.

Definition vop_tag (v : vop) : nat :=
  match v with
  | VCompare _ _ _ x | VLint _ _ _ x | VMerge _ _ x | VSerialize _ _ _ x => x
  end.

Fixpoint lookup_nat (rows : list sx) (x : nat) : option sx :=
  match rows with
  | [] => None
  | r :: rest => if Nat.eqb (to_nat (nth_sx 0 r)) x then Some (nth_sx 1 r) else lookup_nat rest x
  end.

Fixpoint nodup_b (l : list str) : bool :=
  match l with
  | [] => true
  | x :: r => negb (existsb (str_eqb x) r) && nodup_b r
  end.

(* decides [coll_free] *)
Definition coll_free_b (Lk : list kent) : bool :=
  let js := map render (junk_keys Lk) in
  nodup_b js && forallb (fun j => negb (existsb (str_eqb j) (str_keys Lk))) js.

Definition collision_marker : sx := L [A (-7)].
Definition missing_marker : sx := L [A (-8)].

(* the report measured in a fresh interpreter, unless a junk key collides in
   this history (then the model makes no prediction: marker) *)
Definition wire_res (rows : list sx) (v : vop) (Ls : list (list kent)) : sx :=
  if coll_free_b (concat Ls)
  then match lookup_nat rows (vop_tag v) with Some r => r | None => missing_marker end
  else collision_marker.

Definition wire_dtd (rows : list sx) (v : vop) : option str :=
  option_map to_str (lookup_nat rows (vop_tag v)).

Definition wire_fc := (nat * nat * str)%type.
Definition wire_fc_compute (c ver : nat) (loc : str) : wire_fc := (c, ver, loc).

Definition opt_str_eqb (a b : option str) : bool :=
  match a, b with
  | None, None => true
  | Some x, Some y => str_eqb x y
  | _, _ => false
  end.

(* rows [c; version; locale; path; [entity]; verdict] *)
Fixpoint wire_fc_query (rows : list sx) (e : wire_fc) (path : str) (ent : option str) : sx :=
  match rows with
  | [] => missing_marker
  | r :: rest =>
      let '(c, ver, loc) := e in
      if Nat.eqb (to_nat (nth_sx 0 r)) c && Nat.eqb (to_nat (nth_sx 1 r)) ver
         && str_eqb (to_str (nth_sx 2 r)) loc && str_eqb (to_str (nth_sx 3 r)) path
         && opt_str_eqb (to_option to_str (nth_sx 4 r)) ent
      then nth_sx 5 r
      else wire_fc_query rest e path ent
  end.

(* rows [pattern; path; result] *)
Fixpoint wire_rx_match (rows : list sx) (pat path : str) : sx :=
  match rows with
  | [] => missing_marker
  | r :: rest =>
      if str_eqb (to_str (nth_sx 0 r)) pat && str_eqb (to_str (nth_sx 1 r)) path
      then nth_sx 2 r else wire_rx_match rest pat path
  end.

(* rows [matcher; path; result] *)
Fixpoint wire_m_match (rows : list sx) (m : nat) (path : str) : sx :=
  match rows with
  | [] => missing_marker
  | r :: rest =>
      if Nat.eqb (to_nat (nth_sx 0 r)) m && str_eqb (to_str (nth_sx 1 r)) path
      then nth_sx 2 r else wire_m_match rest m path
  end.

Definition to_vop (s : sx) : vop :=
  let f := to_nat (nth_sx 1 s) in
  match to_nat (nth_sx 0 s) with
  | 2 => VCompare f (to_str (nth_sx 2 s)) (to_str (nth_sx 3 s)) (to_nat (nth_sx 4 s))
  | 3 => VLint f (to_option to_str (nth_sx 2 s)) (to_str (nth_sx 3 s)) (to_nat (nth_sx 4 s))
  | 4 => VMerge f (to_list to_str (nth_sx 2 s)) (to_nat (nth_sx 3 s))
  | _ => VSerialize f (to_str (nth_sx 2 s)) (to_str (nth_sx 3 s)) (to_nat (nth_sx 4 s))
  end.

Definition to_op (s : sx) : op :=
  match to_nat (nth_sx 0 s) with
  | 0 => Parse (to_nat (nth_sx 1 s)) (to_str (nth_sx 2 s))
  | 1 => Rewalk (to_nat (nth_sx 1 s))
  | 6 => FilterQ (to_nat (nth_sx 1 s)) (to_str (nth_sx 2 s)) (to_str (nth_sx 3 s))
                 (to_option to_str (nth_sx 4 s))
  | 7 => Reconfig (to_nat (nth_sx 1 s))
  | 8 => MozMatch (to_str (nth_sx 1 s)) (to_str (nth_sx 2 s))
  | 9 => MatcherQ (to_nat (nth_sx 1 s)) (to_str (nth_sx 2 s))
  | _ => Do (to_vop s)
  end.

Section Wire.
Variable tabs : sx.     (* [walks; reports; dtd texts; filter; mozpath; matcher] *)

Definition rows (n : nat) : list sx := to_list (fun x => x) (nth_sx n tabs).

Definition wstate := gstate wire_fc str nat.

Definition wire_step : wstate -> op -> wstate * out sx :=
  step sx wire_fc str nat
       (wire_walk (rows 0)) (wire_res (rows 1)) (wire_dtd (rows 2))
       wire_fc_compute (wire_fc_query (rows 3))
       (fun p => p) (wire_rx_match (rows 4)) (A 1)
       (fun m => m) (wire_m_match (rows 5)).

(* an entry object as a caller sees it now: the key it was given and the
   slices its properties take from its own context *)
Definition enc_ent (h : list ctx) (e : ent) : sx :=
  L [of_str (render (e_key e));
     of_list of_str (obs_data (ctx_contents h (e_ctx e)) (e_data e))].

Definition enc_out (h : list ctx) (o : out sx) : sx :=
  match o with
  | OEnts es => L [A 0; of_list (enc_ent h) es]
  | OVal v => L [A 1; v]
  | ONone => L [A 2]
  end.

(* the observable process state; probes = [configs; patterns; matchers] *)
Definition enc_state (probes : sx) (st : wstate) : sx :=
  L [L [of_nat (g_junkid st); of_option of_nat (g_xjunkid st)];
     of_list (fun f => match g_pctx st f with
                       | None => L []
                       | Some c => match nth_error (g_heap st) c with
                                   | None => L [A (-1)]
                                   | Some cx => L [of_str (c_contents cx); of_bool (c_flag cx)]
                                   end
                       end) (seq 0 7);
     of_str (g_dtdtext st);
     of_list (fun c => match g_fcache st c with
                       | None => L []
                       | Some (l, _) => L [of_str l]
                       end) (to_list to_nat (nth_sx 0 probes));
     of_list (fun p => of_bool (match g_recache st p with Some _ => true | None => false end))
             (to_list to_str (nth_sx 1 probes));
     of_list (fun m => of_bool (match g_mcache st m with Some _ => true | None => false end))
             (to_list to_nat (nth_sx 2 probes))].

(* run a history: per operation [output; state]; then every entry list
   re-observed at the very end (entries must have survived) *)
Fixpoint wire_run (probes : sx) (h : list op) (st : wstate) (acc : list sx)
         (ents : list (list ent)) : sx :=
  match h with
  | [] => L [L (rev acc); of_list (of_list (enc_ent (g_heap st))) (rev ents)]
  | o :: r =>
      let p := wire_step st o in
      let es := match snd p with OEnts es => es | _ => [] end in
      wire_run probes r (fst p)
               (L [enc_out (g_heap (fst p)) (snd p); enc_state probes (fst p)] :: acc)
               (es :: ents)
  end.

End Wire.

(* request: [tables; probes; history] *)
Definition wire_history (x : sx) : sx :=
  wire_run (nth_sx 0 x) (nth_sx 1 x) (to_list to_op (nth_sx 2 x))
           (init wire_fc str nat) [] [].

(* ===================================================================== *)
(* 2. the toy instance                                                     *)
(* ===================================================================== *)
(* A line-oriented format: a line containing "=" is an entity (key before,
   value after), the line "#f" switches the filter flag on (format 4 only, like
   "#filter emptyLines" of .inc files), an empty line is junk in format 4
   unless the flag is set and ignored otherwise, any other line is junk. *)
Fixpoint index_of (c : N) (s : str) (i : nat) : option nat :=
  match s with
  | [] => None
  | x :: r => if N.eqb x c then Some i else index_of c r (S i)
  end.

Definition toy_line (f : fmt) (l : str) (a : nat) (fl : bool) : list pentry * bool :=
  let b := a + length l in
  match l with
  | [] => if Nat.eqb f 4 && negb fl then ([PJunk a (S a)], fl) else ([], fl)
  | _ =>
      if Nat.eqb f 4 && str_eqb l [35; 102]%N then ([], true)
      else match index_of 61%N l 0 with
           | Some i => ([PEnt a (a, b) (a, a + i) (Some (a + i + 1, b))], fl)
           | None => ([PJunk a b], fl)
           end
  end.

(* cur: the current line reversed, a: its start offset *)
Fixpoint toy_scan (f : fmt) (s : str) (cur : str) (a : nat) (fl : bool) : list pentry * bool :=
  match s with
  | [] => match cur with [] => ([], fl) | _ => toy_line f (rev cur) a fl end
  | c :: r =>
      if N.eqb c 10%N then
        let p := toy_line f (rev cur) a fl in
        let q := toy_scan f r [] (a + length cur + 1) (snd p) in
        (fst p ++ fst q, snd q)
      else toy_scan f r (c :: cur) a fl
  end.

Definition toy_walk (f : fmt) (t : str) (fl : bool) : list pentry * bool := toy_scan f t [] 0 fl.

(* a compare-like report: AddRemove over the keys as strings, entries looked
   up by key as KeyedTuple does (last one wins); junk is reported without its
   key, entities with it; a common key compares the two values *)
Definition kkey (k : kent) : str := render (fst (fst k)).

Definition kval (k : kent) : str :=
  match snd k with
  | PEnt _ _ _ (Some v) => slice (snd (fst k)) (fst v) (snd v)
  | PLit _ v _ => v
  | PJunk a b => slice (snd (fst k)) a b
  | _ => []
  end.

Definition toy_item (R Lc : list kent) (p : label * str) : Z * str :=
  let (lab, k) := p in
  match lab with
  | Delete =>
      match kt_getitem str_eqb kkey k R with
      | Ok e => if is_junk_key (fst (fst e)) then (10, []) (* warning: parser error in en-US *)
                else (1, k)                                  (* missing entity k *)
      | Raise _ => (-1, [])
      end%Z
  | Add =>
      match kt_getitem str_eqb kkey k Lc with
      | Ok e => if is_junk_key (fst (fst e)) then (12, kval e)  (* error: unparsed content *)
                else (2, k)                                     (* obsolete entity k *)
      | Raise _ => (-1, [])
      end%Z
  | Equal =>
      match kt_getitem str_eqb kkey k R, kt_getitem str_eqb kkey k Lc with
      | Ok a, Ok b => if str_eqb (kval a) (kval b) then (3, k) else (4, k)  (* unchanged / changed *)
      | _, _ => (-1, [])
      end%Z
  end.

Definition toy_res (v : vop) (Ls : list (list kent)) : list (Z * str) :=
  match Ls with
  | [R; Lc] => map (toy_item R Lc) (addremove str_eqb (map kkey R) (map kkey Lc))
  | _ => []
  end.

(* a report that reads the entries without their junk ids: satisfies the
   contract outright *)
Definition canon_res (v : vop) (Ls : list (list kent)) : list (list (str * option span * str * pentry)) :=
  map (map (fun k : kent => (canon_key (fst (fst k)), snd (fst k), snd k))) Ls.

Definition toy_dtd (v : vop) : option str := None.

Definition tstate := gstate (nat * nat * str) str nat.

Definition toy_step {V} (res : vop -> list (list kent) -> V) (dflt : V)
  : tstate -> op -> tstate * out V :=
  step V (nat * nat * str) str nat toy_walk res toy_dtd
       (fun c ver loc => (c, ver, loc)) (fun _ _ _ => dflt)
       (fun p => p) (fun _ _ => dflt) dflt (fun m => m) (fun _ _ => dflt).

Definition toy_run {V} (res : vop -> list (list kent) -> V) (dflt : V)
  : list op -> tstate -> tstate :=
  run V (nat * nat * str) str nat toy_walk res toy_dtd
      (fun c ver loc => (c, ver, loc)) (fun _ _ _ => dflt)
      (fun p => p) (fun _ _ => dflt) dflt (fun m => m) (fun _ _ => dflt).

Definition tinit : tstate := init (nat * nat * str) str nat.
