(* A directory tree and os.walk over it: what the file list [fs] of
   Model/ProjectFiles.v stands for.  Definitions only.

   A directory is the list of its entries in listing order (os.scandir), an
   entry a name and a file or a directory.  os.walk(top) is top-down: the files
   of a directory first, then its sub-directories in listing order; the paths
   ProjectFiles._files builds are mozpath.join(dir, name) = dir + "/" + name. *)
From Coq Require Import NArith List Bool.
From CL Require Import Base.Str Model.ProjectFiles.
Import ListNotations.

Inductive tree :=
| TFile
| TDir (entries : list (str * tree)).

Definition child_path (base name : str) : str := base ++ [SLASH] ++ name.

(* the files below the directory t whose path is base, in os.walk order *)
Fixpoint walk_tree (base : str) (t : tree) : list str :=
  match t with
  | TFile => []                     (* os.walk of something that is no directory: nothing *)
  | TDir es =>
      flat_map (fun e => match e with
                         | (n, TFile) => [child_path base n]
                         | (_, TDir _) => []
                         end) es ++
      flat_map (fun e => match e with
                         | (_, TFile) => []
                         | (n, (TDir _) as d) => walk_tree (child_path base n) d
                         end) es
  end.

(* the entry of a directory with a given name *)
Fixpoint entry (n : str) (es : list (str * tree)) : option tree :=
  match es with
  | [] => None
  | (n', t) :: es' => if str_eqb n n' then Some t else entry n es'
  end.

(* the node reached from t through the names segs *)
Fixpoint subtree (t : tree) (segs : list str) : option tree :=
  match segs with
  | [] => Some t
  | s :: segs' =>
      match t with
      | TFile => None
      | TDir es => match entry s es with
                   | Some t' => subtree t' segs'
                   | None => None
                   end
      end
  end.

(* root/seg1/.../segk *)
Fixpoint dirpath (root : str) (segs : list str) : str :=
  match segs with
  | [] => root
  | s :: segs' => dirpath (child_path root s) segs'
  end.

Definition has_slash (s : str) : bool := existsb (N.eqb SLASH) s.

(* names contain no '/', and a directory lists a name once *)
Fixpoint wf_tree (t : tree) : Prop :=
  match t with
  | TFile => True
  | TDir es =>
      NoDup (map fst es) /\
      (fix all (es : list (str * tree)) : Prop :=
         match es with
         | [] => True
         | (n, t') :: es' => has_slash n = false /\ wf_tree t' /\ all es'
         end) es
  end.
