(* ContentComparer.compare from the two TEXTS of .properties or .dtd files, nothing supplied
   from outside: the parser model (Model/Parse.v, ParseFormats.v: PropertiesParser.walk),
   PropertiesEntity.key / .val (Model/Unescape.v: escape.sub(unescape, raw_val)),
   Entry.count_words (Model/CountWords.v), Junk.key / .val (parser/base.py), then
   Model/Compare.v.  Definitions only.

   An entity is identified ([c_id]) by the offset at which its span starts.
   Junk.key is "_junk_%d_%d-%d" % (junkid, span[0], span[1]) with the class-wide counter
   Junk.junkid, incremented by every Junk that is created: the counter is threaded
   through the two parses ([j0] is its value before the reference is read). *)
From Coq Require Import ZArith NArith List Bool Arith.
From CL Require Import Base.Sx Base.Res Base.Str Regex.Rx Model.Entry Model.Parse
  Model.ParseFormats Model.Unescape Model.CountWords Model.AddRemove Model.Compare.
Import ListNotations.
Local Open Scope nat_scope.

(* "%d" % n *)
Fixpoint dec_aux (fuel n : nat) (acc : str) : str :=
  match fuel with
  | 0 => acc
  | S f =>
      let acc' := N.of_nat (48 + n mod 10) :: acc in
      if n <? 10 then acc' else dec_aux f (n / 10) acc'
  end.
Definition dec (n : nat) : str := dec_aux (S n) n [].

Definition s_junk_ : str := of_ascii [95; 106; 117; 110; 107; 95].      (* "_junk_" *)

Definition junk_key (junkid : nat) (sp : span) : str :=
  s_junk_ ++ dec junkid ++ [95%N] ++ dec (fst sp) ++ [45%N] ++ dec (snd sp).

Definition text_of (s : str) (o : option span) : str :=
  match o with Some sp => slice s (fst sp) (snd sp) | None => [] end.

(* ---- generic in the format --------------------------------------------------------------
   [walkf]  Parser.walk of the format
   [valf]   Entity.val from the raw value text
   [bump]   whether getNext created (and dropped) a Junk before it produced this entity:
            the DTD parser does for parsed entities, which advances the counter *)
Section Text.
Context (walkf : str -> result (list entry)) (valf : str -> result str)
        (bump : str -> entry -> bool).

(* one localizable entry of the walk as the comparison sees it *)
Definition text_cent (j : nat) (s : str) (e : entry) : result (@cent pykey str * nat) :=
  match e_kind e with
  | KJunk =>
      (* Junk.__init__: junkid += 1; key from the new value; val = all *)
      Ok (mkcent (KS (junk_key (S j) (e_span e))) (text_of s (Some (e_span e))) 0 true
                 (Z.of_nat (fst (e_span e))), S j)
  | _ =>
      do v <- valf (text_of s (e_val e));           (* Entity.val *)
      do w <- count_words v;                        (* Entry.count_words *)
      Ok (mkcent (KS (text_of s (e_key e))) v w false (Z.of_nat (fst (e_span e))),
          if bump s e then S j else j)
  end.

Fixpoint text_cents (j : nat) (s : str) (es : list entry) : result (list (@cent pykey str) * nat) :=
  match es with
  | [] => Ok ([], j)
  | e :: es' =>
      do cj <- text_cent j s e;
      do rest <- text_cents (snd cj) s es';
      Ok (fst cj :: fst rest, snd rest)
  end.

(* p.readFile(f); p.parse(): the localizable entries *)
Definition parse_text (j : nat) (s : str) : result (list (@cent pykey str) * nat) :=
  do es <- walkf s;
  text_cents j s (filter is_localizable es).

(* ContentComparer.compare on two texts *)
Definition compare_texts (j0 : nat) (flt : pykey -> verdict)
    (chk : @cent pykey str -> @cent pykey str -> list finding) (merge : bool)
    (ref_text l10n_text : str) : result (@acc pykey) :=
  do r <- parse_text j0 ref_text;
  do l <- parse_text (snd r) l10n_text;
  compare pykey_eqb str_eqb py_keyname flt chk merge (fst r) (fst l).

End Text.

(* ---- .properties: PropertiesEntity.val = escape.sub(unescape, raw_val) ----------------- *)
Definition no_bump (s : str) (e : entry) : bool := false.
Definition parse_properties := parse_text walk_properties props_val no_bump.
Definition compare_properties := compare_texts walk_properties props_val no_bump.

(* ---- .dtd: DTDEntityMixin.val = html_unescape(raw_val), CPython's html.unescape: an oracle.
   A parsed entity (<!ENTITY % x SYSTEM "..."> %x;) is found only after Parser.getNext has
   returned a Junk, which is dropped: the entity is one iff rePE matches where it starts
   (reKey cannot match there: "%" is no name character). *)
Definition dtd_bump (s : str) (e : entry) : bool :=
  match omatch Generated.RxParser.rx_dtd_pe s (fst (e_span e)) with Some _ => true | None => false end.
Definition parse_dtd (html_unescape : str -> str) :=
  parse_text walk_dtd (fun raw => Ok (html_unescape raw)) dtd_bump.
Definition compare_dtd (html_unescape : str -> str) :=
  compare_texts walk_dtd (fun raw => Ok (html_unescape raw)) dtd_bump.
