(* DTDEntityMixin.value_position for the (line, column) pairs the DTD checker
   derives from the XML parser: line_pos is 1-based within the value,
   col_pos 0-based within that line.
     line, col = super().value_position()       # position of the value start
     if line_pos == 1: col = col + col_pos
     else: col = col_pos; line += line_pos - 1                               *)
From Coq Require Import ZArith NArith List Bool Arith.
From CL Require Import Base.Sx Base.Res Model.LineCol.
Import ListNotations.

Definition dtd_value_position (s : list N) (val_start : nat) (line_pos col_pos : nat)
  : option (nat * nat) :=
  match linecol s val_start with
  | None => None
  | Some (line, col) =>
      if Nat.eqb line_pos 1 then Some (line, col + col_pos)
      else Some (line + line_pos - 1, col_pos)
  end.

(* Fluent: FluentEntity.value_position(offset) = position(offset), relative to the entry *)
Definition fluent_value_position (s : list N) (span : nat * nat) (offset : nat) :=
  position s span (Z.of_nat offset).
