(* C08 — Fluent: structural mismatches are errors, text differences never are.

   Theorems over the model of compare_locales/checks/fluent.py in
   Model/CheckFluent.v, for ALL entries of the AST of Model/Ftl.v (no bound on
   size or nesting; spans are arbitrary numbers).  The vocabulary of the
   statements (attr_names, bad_style, refs_under, missing_spec, duplicated, ...)
   is defined in Model/CheckFluentSpec.v without reference to the visitors.
   Severities, message templates, the literal "style", the CSS regular
   expressions and the plural tables are the generated facts.

   Modelled, not proved: the traversal order of fluent.syntax's
   Visitor.generic_visit (field order = constructor argument order in
   Model/Ftl.v, the walk functions), the parser's spans.  The order in which the
   missing-/obsolete-attribute errors of one position appear is that of a Python
   set of str and is left open (the theorems speak of sets / permutations). *)
From Coq Require Import ZArith NArith List Bool Arith Permutation Sorted.
From CL Require Import Base.Sx Base.Res Base.Str Regex.Rx
  Generated.RxC08 Generated.C08Facts Model.Ftl Model.CheckFluent Model.CheckFluentSpec
  Proofs.CheckFluentBase Proofs.CheckFluentErrors Proofs.CheckFluentRefs Proofs.CheckFluentDups.
Import ListNotations.

(* ---- errors -------------------------------------------------------------------------- *)
(* check_message yields an error exactly for: value presence differs, the sets of
   attribute names differ, a localized plain-text style attribute is not a CSS spec *)
Theorem C08_errors_iff : forall known r l,
  has_error (check_message known r l) = true <->
  ref_has_value r <> has_value l
  \/ ~ (forall n, In n (attr_names r) <-> In n (attr_names l))
  \/ bad_style l = true.
Proof. exact check_message_error_iff. Qed.

(* the same as one boolean equation *)
Theorem C08_errors_bool : forall known r l,
  has_error (check_message known r l) =
  negb (Bool.eqb (ref_has_value r) (has_value l)) || negb (same_attr_names r l) || bad_style l.
Proof. exact check_message_error. Qed.

(* same value presence, same attribute names, no bad style: never an error, whatever
   the text, the placeables, the variants, the locale *)
Theorem C08_same_shape_no_error : forall known r l,
  ref_has_value r = has_value l ->
  (forall n, In n (attr_names r) <-> In n (attr_names l)) ->
  bad_style l = false ->
  has_error (check_message known r l) = false.
Proof. exact same_shape_no_error. Qed.

(* what FluentChecker.check yields has an error iff the entry's message list has one:
   the encoding warnings of the base class, the stable sort and the rebasing of the
   positions add and remove none *)
Theorem C08_check_errors : forall locale r l all key issues known,
  check locale r l all key = Ok issues -> get_plural locale = Ok known ->
  existsb i_err issues = has_error (entry_msgs known r l).
Proof. exact check_error. Qed.

(* ---- references ------------------------------------------------------------------------ *)
(* the "missing reference" warnings are, in this order: for the value and then each
   attribute name of the reference once, every name referenced there (once, with the
   type of its last occurrence) that the localization does not reference under the
   same key; all at position 0 *)
Theorem C08_refs_missing : forall known r l,
  filter is_missing_ref (check_message known r l) = missing_spec r l.
Proof. exact missing_refs_exact. Qed.

(* the "obsolete reference" warnings are, in visiting order, the reference occurrences
   of the localization whose name the reference does not have under the same key, each
   at its own span start *)
Theorem C08_refs_obsolete : forall known r l,
  filter is_obsolete_ref (check_message known r l) = obsolete_spec r l.
Proof. exact obsolete_refs_exact. Qed.

(* the keys and the per-key dictionaries used by missing_spec: every key once; every
   referenced name once, typed by its last occurrence *)
Theorem C08_refs_keys : forall r,
  NoDup (ref_keys r) /\
  forall k, In k (ref_keys r) <-> k = None \/ exists n, k = Some n /\ In n (attr_names r).
Proof.
  intro r. split; [apply ref_keys_NoDup|]. intro k. unfold ref_keys. simpl. rewrite in_map_iff.
  split.
  - intros [H|[n [H Hn]]]; [left; congruence | right; exists n; split; [congruence | apply uniq_spec, Hn]].
  - intros [H|[n [H Hn]]]; [left; congruence | right; exists n; split; [congruence | apply uniq_spec, Hn]].
Qed.

Theorem C08_refs_dict : forall refs,
  NoDup (map fst (ref_dict refs)) /\
  forall n t, In (n, t) (ref_dict refs) <->
    exists x, find (fun x => str_eqb n (ref_name x)) (rev refs) = Some x /\ snd x = t.
Proof. intro refs. split; [apply ref_dict_NoDup | apply ref_dict_last]. Qed.

(* ---- duplicates ------------------------------------------------------------------------ *)
(* one warning per attribute whose name occurs more than once, at that attribute; these
   are all the duplicate-attribute warnings of the result *)
Theorem C08_duplicates : forall known r l,
  filter is_dup_attr (check_message known r l) = dup_attr_msgs (e_attrs l) /\
  Permutation (dup_attr_msgs (e_attrs l))
    (map (fun it => emit y_dup_attr_left KDupAttr (snd it) [fst it])
         (duplicated str_eqb (map (fun a => (a_name a, a_pos a)) (e_attrs l)))).
Proof. intros. split; [apply dup_attr_in_check_message | apply dup_attr_msgs_perm]. Qed.

(* one warning per variant whose key (same class, same text) occurs more than once in
   its select expression, at the key; for every select expression the visitor reaches *)
Theorem C08_duplicate_variants : forall known r l,
  filter is_dup_variant (check_message known r l) =
    flat_map dup_variant_msgs (selects_of (message_events l)) /\
  forall keys, Permutation (dup_variant_msgs keys)
    (map (fun it => emit y_dup_variant_left KDupVariant (snd it) [key_string (fst it)])
         (duplicated vkey_eqb keys)).
Proof. intros. split; [apply dup_variant_in_check_message | apply dup_variant_msgs_perm]. Qed.

(* ---- plural categories ------------------------------------------------------------------ *)
(* a select expression with a key among the locale's categories other than "other" and
   with a category of the locale missing gets one warning, at its first key, listing the
   missing categories sorted and without repetition; no other select expression gets one *)
Theorem C08_plurals : forall known r l,
  filter is_plural (check_message known r l) =
    flat_map (plural_msgs known) (selects_of (message_events l)) /\
  forall keys,
    match known with
    | None => plural_msgs known keys = []
    | Some kp =>
        (plural_expected kp keys ->
           exists k0 p0 rest missing,
             keys = (k0, p0) :: rest /\
             plural_msgs known keys = [emit y_missing_plural KPlural p0 [join s_comma missing]] /\
             StronglySorted str_lt missing /\
             forall c, In c missing <-> In c kp /\ ~ In c (given_plurals keys))
        /\ (~ plural_expected kp keys -> plural_msgs known keys = [])
    end.
Proof. intros. split; [apply plural_in_check_message | intro keys; apply plural_msgs_spec]. Qed.

(* ---- terms --------------------------------------------------------------------------------- *)
(* a localized Term: never an error, the reference plays no part, and the warnings are
   the duplicate attributes followed by the checks of every select expression *)
Theorem C08_terms : forall locale r r' l all key,
  e_term l = true ->
  check locale r l all key = check locale r' l all key /\
  (forall issues, check locale r l all key = Ok issues -> existsb i_err issues = false) /\
  (forall known, entry_msgs known r l =
     dup_attr_msgs (e_attrs l) ++ flat_map (check_variants known) (selects_of (term_events l))).
Proof.
  intros locale r r' l all key Ht. split; [apply check_term_independent, Ht|]. split.
  - intros issues H. exact (check_term_never_error _ _ _ _ _ _ Ht H).
  - intro known. unfold entry_msgs. rewrite Ht. apply check_term_exact.
Qed.

(* ---- positions -------------------------------------------------------------------------------- *)
(* messages.sort(key=position): a permutation, ascending, and stable *)
Theorem C08_sorted : forall l,
  Permutation (sort_msgs l) l /\
  StronglySorted pos_le (sort_msgs l) /\
  forall p, filter (fun m => m_pos m =? p) (sort_msgs l) = filter (fun m => m_pos m =? p) l.
Proof.
  intro l. split; [apply sort_msgs_perm|]. split; [apply sort_msgs_sorted|]. intro p. apply sort_msgs_stable.
Qed.

(* ---- nothing raises, no fuel runs out ------------------------------------------------------------- *)
Theorem C08_total : forall locale r l all key, exists issues, check locale r l all key = Ok issues.
Proof. exact check_total. Qed.

Theorem C08_plural_total : forall locale, exists v, get_plural locale = Ok v.
Proof. exact get_plural_total. Qed.

Theorem C08_css_total : forall val s off,
  rfinditer rx_c08_css_spec val <> None /\ rmatch rx_c08_css_sep s off <> MFuel.
Proof. intros. split; [apply css_spec_finditer_total | apply css_sep_match_total]. Qed.

(* ---- examples: the premises are satisfiable, concrete runs ------------------------------------------ *)
Definition s_a : str := [97]%N.
Definition s_title : str := [116; 105; 116; 108; 101]%N.
Definition s_label : str := [108; 97; 98; 101; 108]%N.
Definition s_foo : str := [102; 111; 111]%N.
Definition s_n : str := [110]%N.
Definition s_one : str := [111; 110; 101]%N.
Definition s_de : str := [100; 101]%N.
Definition s_ru : str := [114; 117]%N.
Definition s_k1 : str := [107; 49]%N.
Definition css_10px : str := [119; 105; 100; 116; 104; 58; 32; 49; 48; 112; 120]%N.
Definition css_3em : str := [119; 105; 100; 116; 104; 58; 32; 51; 101; 109]%N.
Definition css_nosemi : str :=
  [119; 105; 100; 116; 104; 58; 32; 49; 48; 112; 120; 32; 104; 101; 105; 103; 104; 116; 58; 32; 50; 101; 109]%N.

(* k1 = a{ foo }        .title = t        .style = width: 10px *)
Definition ex_ref : entry :=
  mkentry false 0 (Some (5, PText s_a (PPlace (EMsg 8 s_foo None) PNil)))
    [mkattr s_title 18 (PText [116]%N PNil); mkattr s_style 33 (PText css_10px PNil)].

(* other text, a select expression instead of the reference, attributes in another order *)
Definition ex_same_shape : entry :=
  mkentry false 100 (Some (105, PText [98; 98]%N
      (PPlace (ESel (EVar s_n) (VCons (KId s_one) 120 false (PText [120]%N PNil)
                               (VCons (KId s_one) 130 false (PText [120]%N PNil)
                               (VCons (KId s_other) 141 true (PText [121]%N PNil) VNil)))) PNil)))
    [mkattr s_style 150 (PText css_3em PNil); mkattr s_title 170 (PText [84]%N PNil)].

(* no value, another attribute, a style that lacks a semicolon *)
Definition ex_broken : entry :=
  mkentry false 100 None
    [mkattr s_label 110 (PText [84]%N PNil); mkattr s_style 125 (PText css_nosemi PNil);
     mkattr s_label 160 (PText [84]%N PNil)].

Example C08_example_same_shape :
  ref_has_value ex_ref = has_value ex_same_shape /\
  (forall n, In n (attr_names ex_ref) <-> In n (attr_names ex_same_shape)) /\
  bad_style ex_same_shape = false /\
  map (fun m => (m_err m, m_pos m, m_kind m)) (check_message (Some [s_one; [102; 101; 119]%N; s_other]) ex_ref ex_same_shape)
  = [(false, 120, KDupVariant); (false, 130, KDupVariant); (false, 120, KPlural);
     (false, 0, KCss); (false, 0, KMissRef false)].
Proof.
  split; [reflexivity|]. split; [apply same_attr_names_spec; vm_compute; reflexivity|].
  split; vm_compute; reflexivity.
Qed.

Example C08_example_broken :
  ref_has_value ex_ref <> has_value ex_broken /\
  ~ (forall n, In n (attr_names ex_ref) <-> In n (attr_names ex_broken)) /\
  bad_style ex_broken = true /\
  (exists issues, check (Some s_ru) ex_ref ex_broken s_a s_k1 = Ok issues /\
     map (fun i => (i_err i, i_pos i)) issues =
     [(true, 0); (true, 0); (true, 0); (false, 0); (false, 10); (false, 60); (true, 60)]%Z).
Proof.
  split; [discriminate|]. split.
  - intro H. assert (E : same_attr_names ex_ref ex_broken = true) by (apply same_attr_names_spec, H).
    vm_compute in E. discriminate.
  - split; [vm_compute; reflexivity|]. eexists. split; vm_compute; reflexivity.
Qed.

Example C08_example_plural :
  plural_expected [s_one; [102; 101; 119]%N; s_other] [(KId s_one, 7); (KId s_other, 20)] /\
  get_plural (Some s_ru) = Ok (Some [s_one; [102; 101; 119]%N; [109; 97; 110; 121]%N]) /\
  get_plural (Some (s_de ++ [45; 65; 84]%N)) = Ok (Some [s_one; s_other]).
Proof.
  split.
  - split; [exists s_one | exists [102; 101; 119]%N]; simpl.
    + split; [auto|]. split; [discriminate | auto].
    + split; [auto|]. intros [H|[H|[]]]; discriminate.
  - split; vm_compute; reflexivity.
Qed.

Example C08_example_term :
  let t := mkentry true 0 (Some (9, PText s_a PNil))
                   [mkattr s_title 15 (PText s_a PNil); mkattr s_title 30 (PText s_a PNil)] in
  e_term t = true /\
  check None ex_ref t s_a s_k1 = check None ex_broken t s_a s_k1 /\
  map (fun m => (m_err m, m_pos m)) (entry_msgs None ex_ref t) = [(false, 15); (false, 30)].
Proof. repeat split; vm_compute; reflexivity. Qed.
