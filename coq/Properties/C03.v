(* C03 — comparison reports exactly the missing, obsolete and changed strings.

   [compare eqb veq keyname flt chk merge ref l10n] (Model/Compare.v) is
   ContentComparer.compare after both files were parsed: AddRemove over the two
   key sequences (the model of C20, imported), one branch per step, the stats
   dict, the notify calls, `missings` and `skips`.  The statements hold for ALL
   entity lists, duplicates included; whenever an entity is looked up by key it
   is the LAST entity with that key (KeyedTuple), which the statements say
   explicitly through

     last_ent ents k e := exists pre post, ents = pre ++ e :: post /\ c_key e = k /\
                                           Forall (fun e' => c_key e' <> k) post
     present ents k    := exists e, last_ent ents k e /\ c_junk e = false
     same_val / diff_val ref l10n k :=
        exists er el, last_ent ref k er /\ last_ent l10n k el /\ equals er el = true / false
     words_at ents k   := count_words() of the last entity with key k
     card P n          := exists L, NoDup L /\ (forall k, In k L <-> P k) /\ n = length L
     card_sum P f n w  := ... /\ n = length L /\ w = list_sum (map f L)

   (Proofs/CompareSpec.v, Proofs/CompareProofs.v).  Theorems only; each is
   closed by a lemma of Proofs/. *)
From Coq Require Import ZArith NArith List Bool Arith Permutation.
From CL Require Import Base.Sx Base.Res Base.Str Model.AddRemove Model.Compare
  Proofs.AddRemoveProofs Proofs.CompareSpec Proofs.CompareProofs Proofs.CompareKeys
  Model.CountWords Proofs.CountWordsProofs Generated.C03Facts
  Model.Entry Model.Parse Model.ParseFormats Model.Unescape Model.CompareText
  Proofs.C02Props Proofs.C02Roundtrip Proofs.C02BlocksRx Proofs.C02BlocksVal Proofs.C02Blocks
  Proofs.C02BlocksJunkRx Proofs.C02BlocksJunk Proofs.CompareFlat Proofs.CompareTextProofs.
From CL Require Proofs.C02BlocksDtd Proofs.C02BlocksDtdJunk Proofs.CompareTextDtd.
Import ListNotations.
Local Open Scope nat_scope.

Section C03.
Context {K V : Type} (eqb : K -> K -> bool) (veq : V -> V -> bool) (keyname : K -> bool).
Hypothesis eqb_eq : forall a b, eqb a b = true <-> a = b.
Context (flt : K -> verdict) (chk : @cent K V -> @cent K V -> list finding) (merge : bool).
Context (ref l10n : list (@cent K V)).

Notation kr := (map c_key ref).
Notation kl := (map c_key l10n).
Notation run := (compare eqb veq keyname flt chk merge ref l10n).

(* AddRemove drives one iteration per distinct key of either file, however often
   keys repeat (C20_once needs duplicate-free sequences; this does not) *)
Theorem C03_one_step_per_key :
  NoDup (map snd (addremove eqb kr kl)) /\
  forall k, In k (map snd (addremove eqb kr kl)) <-> In k kr \/ In k kl.
Proof. split; [apply (steps_NoDup eqb eqb_eq)|intros k; apply (steps_In eqb keyname eqb_eq)]. Qed.

(* missing = the reference keys absent from the localization whose (last)
   reference entity is not Junk and for which the filter says "error": the list
   handed to merge enumerates exactly these keys once, the counter is its length,
   the word counter the sum of the reference word counts *)
Theorem C03_missing : forall r, run = Ok r ->
  NoDup (a_missings r) /\
  (forall k, In k (a_missings r) <->
     In k kr /\ ~ In k kl /\ flt k = VError /\ present ref k) /\
  s_missing (a_stats r) = length (a_missings r) /\
  s_missing_w (a_stats r) = list_sum (map (words_at eqb ref) (a_missings r)).
Proof. exact (compare_missing eqb veq keyname eqb_eq flt chk merge ref l10n). Qed.

(* report = likewise with the verdict "warning"; what an observer with this
   filter records: a missing / obsolete key iff it is not ignored; an ignored
   key appears nowhere *)
Theorem C03_report : forall r, run = Ok r ->
  card (fun k => In k kr /\ ~ In k kl /\ flt k = VWarning /\ present ref k)
       (s_report (a_stats r)) /\
  (forall k,
     (In (NMissing k) (details flt r) <->
        In k kr /\ ~ In k kl /\ flt k <> VIgnore /\ present ref k) /\
     (In (NObsolete k) (details flt r) <->
        In k kl /\ ~ In k kr /\ flt k <> VIgnore /\ present l10n k)) /\
  (forall k, flt k = VIgnore ->
     ~ In k (a_missings r) /\ ~ In (NMissing k) (details flt r) /\
     ~ In (NObsolete k) (details flt r)).
Proof.
  intros r H. split; [exact (compare_report eqb veq keyname eqb_eq flt chk merge ref l10n r H)|].
  pose proof (compare_details eqb veq keyname eqb_eq flt chk merge ref l10n r H) as Hd.
  split; [exact Hd|]. intros k Hk.
  destruct (compare_missing eqb veq keyname eqb_eq flt chk merge ref l10n r H) as (_ & Hm & _).
  destruct (Hd k) as [H1 H2]. rewrite Hm, H1, H2, Hk.
  repeat split; intros (_ & _ & Hf & _); try discriminate; apply Hf; reflexivity.
Qed.

(* obsolete = the localization keys absent from the reference, not Junk, not ignored *)
Theorem C03_obsolete : forall r, run = Ok r ->
  card (fun k => In k kl /\ ~ In k kr /\ flt k <> VIgnore /\ present l10n k)
       (s_obsolete (a_stats r)).
Proof. exact (compare_obsolete eqb veq keyname eqb_eq flt chk merge ref l10n). Qed.

(* every shared key is counted in exactly one of keys / unchanged / changed:
   keys iff the key-binding test holds, else unchanged iff the last reference
   entity equals the last localized one; with the reference word counts *)
Theorem C03_shared_once : forall r, run = Ok r ->
  card (fun k => shared ref l10n k /\ keyname k = true) (s_keys (a_stats r)) /\
  card_sum (fun k => shared ref l10n k /\ keyname k = false /\ same_val eqb veq ref l10n k)
           (words_at eqb ref) (s_unchanged (a_stats r)) (s_unchanged_w (a_stats r)) /\
  card_sum (fun k => shared ref l10n k /\ keyname k = false /\ diff_val eqb veq ref l10n k)
           (words_at eqb ref) (s_changed (a_stats r)) (s_changed_w (a_stats r)) /\
  (forall k, shared ref l10n k ->
     let A := keyname k = true in
     let B := keyname k = false /\ same_val eqb veq ref l10n k in
     let C := keyname k = false /\ diff_val eqb veq ref l10n k in
     (A /\ ~ B /\ ~ C) \/ (~ A /\ B /\ ~ C) \/ (~ A /\ ~ B /\ C)).
Proof.
  intros r H.
  destruct (compare_shared eqb veq keyname eqb_eq flt chk merge ref l10n r H) as (H1 & H2 & H3).
  repeat split; try assumption.
  exact (shared_classes eqb veq keyname eqb_eq ref l10n).
Qed.

(* nothing filtered, no Junk in the reference: the four counters partition the
   distinct reference keys *)
Theorem C03_partition : forall r,
  (forall k, flt k = VError) -> (forall e, In e ref -> c_junk e = false) ->
  run = Ok r ->
  card (fun k => In k kr)
       (s_missing (a_stats r) + s_changed (a_stats r) + s_unchanged (a_stats r) +
        s_keys (a_stats r)).
Proof.
  intros r Hf Hj H.
  exact (compare_partition eqb veq keyname eqb_eq flt chk merge ref l10n r Hf Hj H).
Qed.

(* the three word counters are the sums of the REFERENCE word counts over the
   missing, unchanged and changed keys *)
Theorem C03_words : forall r, run = Ok r ->
  card_sum (fun k => In k kr /\ ~ In k kl /\ flt k = VError /\ present ref k)
           (words_at eqb ref) (s_missing (a_stats r)) (s_missing_w (a_stats r)) /\
  card_sum (fun k => shared ref l10n k /\ keyname k = false /\ same_val eqb veq ref l10n k)
           (words_at eqb ref) (s_unchanged (a_stats r)) (s_unchanged_w (a_stats r)) /\
  card_sum (fun k => shared ref l10n k /\ keyname k = false /\ diff_val eqb veq ref l10n k)
           (words_at eqb ref) (s_changed (a_stats r)) (s_changed_w (a_stats r)) /\
  (forall k e, last_ent ref k e -> words_at eqb ref k = c_words e).
Proof.
  intros r H.
  destruct (compare_missing eqb veq keyname eqb_eq flt chk merge ref l10n r H) as (M1 & M2 & M3 & M4).
  destruct (compare_shared eqb veq keyname eqb_eq flt chk merge ref l10n r H) as (_ & H2 & H3).
  split; [exists (a_missings r); auto|]. repeat split; try assumption.
  exact (words_at_last eqb eqb_eq ref).
Qed.

(* a key occurring n > 1 times is announced once with n: a warning for the
   reference, an error for the localization, and nothing else is
   (kcount eqb k l := length (filter (eqb k) l)) *)
Theorem C03_duplicates : forall r, run = Ok r -> forall k n,
  (In (NDup false k n) (a_notes r) <-> n = kcount eqb k kr /\ 1 < n) /\
  (In (NDup true k n) (a_notes r) <-> n = kcount eqb k kl /\ 1 < n).
Proof. exact (compare_duplicates eqb veq keyname eqb_eq flt chk merge ref l10n). Qed.

(* when merging, an entity is skipped at most once, however many error-level
   findings the checker yields for it (entities are told apart by c_id); every
   skipped entity is the last localized entity of some key; nothing is skipped
   without a merge file *)
Theorem C03_skips_once : forall r,
  NoDup (map c_id l10n) -> run = Ok r ->
  NoDup (a_skips r) /\
  (forall id, In id (a_skips r) ->
     merge = true /\ exists k e, last_ent l10n k e /\ c_id e = id).
Proof. exact (compare_skips eqb veq keyname eqb_eq flt chk merge ref l10n). Qed.

(* the comparison raises only through Junk.equals: a reference Junk whose
   generated key is also a key of the localization and is not a key binding *)
Theorem C03_no_raise :
  (forall k e, last_ent ref k e -> c_junk e = true -> In k kl -> keyname k = true) ->
  exists r, run = Ok r.
Proof. exact (compare_no_raise eqb veq keyname eqb_eq flt chk merge ref l10n). Qed.

End C03.

(* ContentComparer.add for a missing file: unless the file is ignored, `missing`
   is the number of non-Junk reference entities (each one, also when keys repeat)
   and `missing_w` the sum of their word counts ... *)
Theorem C03_add_file : forall (K V : Type) (v : verdict) (ents : list (@cent K V)),
  add_file v ents =
  (if is_ignore v then None
   else Some (length (filter nonjunk ents), list_sum (map c_words (filter nonjunk ents)))) /\
  length (filter nonjunk ents) + length (filter (fun e => negb (nonjunk e)) ents) = length ents.
Proof.
  intros K V v ents. split; [apply add_file_counts|apply filter_partition_length].
Qed.

(* ... which is what comparing with an empty localization reports, provided no
   key repeats in the reference *)
Theorem C03_add_file_is_compare_empty :
  forall (K V : Type) (eqb : K -> K -> bool) (veq : V -> V -> bool) (keyname : K -> bool),
  (forall a b, eqb a b = true <-> a = b) ->
  forall chk merge (ref : list (@cent K V)) r,
  NoDup (map c_key ref) ->
  compare eqb veq keyname (fun _ => VError) chk merge ref [] = Ok r ->
  add_file VError ref = Some (s_missing (a_stats r), s_missing_w (a_stats r)).
Proof. intros K V eqb veq keyname H. exact (add_file_is_compare_empty eqb veq keyname H). Qed.

(* the instance that is extracted and run against the implementation: Python
   keys; the key-binding test, computed by the regex engine on the generated
   keyRE, holds exactly of the str keys that contain "key" or "Key" *)
Theorem C03_python_keys : forall a b : pykey, pykey_eqb a b = true <-> a = b.
Proof. exact pykey_eqb_eq. Qed.

Theorem C03_key_binding : forall k : pykey,
  py_keyname k = true <->
  exists s, k = KS s /\
            exists a c b, s = a ++ c :: 101%N :: 121%N :: b /\ (c = 107%N \/ c = 75%N).
Proof. exact py_keyname_spec. Qed.

(* Entry.count_words on the engine with re_br / re_sgml regenerated from the source:
   never out of fuel; on a value without '<' it is len(value.split()) *)
Theorem C03_count_words_total : forall s : str, exists n, count_words s = Ok n.
Proof. exact count_words_total. Qed.

Theorem C03_count_words_plain : forall s : str,
  ~ In 60%N s -> count_words s = Ok (split_count s false).
Proof. exact count_words_plain. Qed.

(* a break tag (<br>, <br/>, <br />) separates words, other markup is removed
   without separating:  "one<br/>two" 2, "one<br />two" 2, "one<br>two" 2,
   "one<b>two</b>" 1, "one <a href='x'>two</a> x" 3, "one<BR/>two" 1, "a &amp; b" 3 *)
Example C03_example_count_words :
  map (fun l => count_words (map N.of_nat l))
      [[111; 110; 101; 60; 98; 114; 47; 62; 116; 119; 111];
       [111; 110; 101; 60; 98; 114; 32; 47; 62; 116; 119; 111];
       [111; 110; 101; 60; 98; 114; 62; 116; 119; 111];
       [111; 110; 101; 60; 98; 62; 116; 119; 111; 60; 47; 98; 62];
       [111; 110; 101; 32; 60; 97; 32; 104; 114; 101; 102; 61; 39; 120; 39; 62; 116; 119; 111; 60; 47; 97; 62; 32; 120];
       [111; 110; 101; 60; 66; 82; 47; 62; 116; 119; 111];
       [97; 32; 38; 97; 109; 112; 59; 32; 98]]
  = [Ok 2; Ok 2; Ok 2; Ok 1; Ok 3; Ok 1; Ok 3].
Proof. vm_compute. reflexivity. Qed.

(* ---- END TO END for .properties: text x text -> report ---------------------------------
   [compare_properties j0 flt chk merge ref_text l10n_text] (Model/CompareText.v) is the whole
   pipeline on the two TEXTS: the parser model (C01/C02), PropertiesEntity.val
   (escape.sub(unescape, raw_val)), Entry.count_words, Junk.key/val with the junkid counter
   threaded through both parses ([j0] = its value before), then the comparison.  Nothing is
   supplied from outside except the checker [chk] (any function; the counters do not depend
   on it) and [merge].

   The reference is the text of a legal block list [bsR] (Proofs/C02Blocks.v: entities with
   attached comments, continuation lines, standalone comments, white space); the localization
   likewise, without or with ONE garbage region (Proofs/C02BlocksJunk.v).  [lR], [lL] are the
   lists of (KS key, unescaped value) of their records, where every raw value follows the
   token grammar of C02_unescape_properties:
     tokenized r kv := exists ts, toks_ok ts = true /\ raw value of r = render_toks ts /\
                                  kv = (KS (key of r), meaning_toks ts)
   Keys do not repeat within a file (with repeats the general theorems above apply).  Then,
   with nothing filtered, the comparison returns normally and
     missings = missing_keys lR lL      the reference keys absent from the localization,
                                          IN REFERENCE ORDER (filter over the reference keys)
     the stats dictionary = flat_stats .. lR lL =
       [|missing|; words missing; 0; |obsolete|; |changed|; words changed;
        |unchanged|; words unchanged; |key bindings|]
       obsolete  = localization keys absent from the reference
       shared keys: a key binding iff py_keyname (contains key/Key, C03_key_binding), else
       unchanged iff the two UNESCAPED values are equal (str_eqb), else changed
       words     = sums of wdf (= count_words, C03_count_words_total) of the REFERENCE values
     junk errors: none without garbage; with the garbage region at offset p exactly ONE,
       for the Junk entity that starts at p and whose text is the region
     and, when the checker is silent, the observer's summary is
       [errors = 0 resp. 1; warnings = 0] ++ the stats. *)
Theorem C03_end_to_end_properties :
  forall (chk : @cent pykey str -> @cent pykey str -> list finding) (merge : bool) (j0 : nat)
         (bsR bsL : list block) (lR lL : list (pykey * str)),
  Forall legal_block bsR -> adjacent_ok bsR -> Forall2 tokenized (records_of bsR) lR ->
  Forall legal_block bsL -> adjacent_ok bsL -> Forall2 tokenized (records_of bsL) lL ->
  NoDup (lkeys lR) -> NoDup (lkeys lL) ->
  exists r,
    compare_properties j0 (fun _ => VError) chk merge (file_text bsR) (file_text bsL) = Ok r /\
    (a_missings r = missing_keys pykey_eqb lR lL /\
     stats_fields (a_stats r) = flat_stats pykey_eqb str_eqb py_keyname wdf lR lL) /\
    filter (@is_njunk pykey) (a_notes r) = [] /\
    ((forall a b, chk a b = []) ->
     summary (fun _ => VError) r = 0 :: 0 :: flat_stats pykey_eqb str_eqb py_keyname wdf lR lL).
Proof.
  intros chk merge j0 bsR bsL lR lL H1 H2 H3 H4 H5 H6 H7 H8.
  exact (end_to_end_properties chk merge j0 bsR lR lL H1 H2 H3 H7 H8 bsL H4 H5 H6).
Qed.

Theorem C03_end_to_end_properties_junk :
  forall (chk : @cent pykey str -> @cent pykey str -> list finding) (merge : bool) (j0 : nat)
         (bsR bs1 : list block) (gl : list str) (bs2 : list block) (lR lL : list (pykey * str)),
  Forall legal_block bsR -> adjacent_ok bsR -> Forall2 tokenized (records_of bsR) lR ->
  Forall legal_block bs1 -> legal_garbage gl = true -> Forall legal_block bs2 ->
  jadjacent_ok (with_garbage bs1 gl bs2) ->
  Forall2 tokenized (records_of bs1 ++ records_of bs2) lL ->
  NoDup (lkeys lR) -> NoDup (lkeys lL) ->
  let textL := file_text bs1 ++ gtext gl ++ file_text bs2 in
  let p := length (file_text bs1) in
  (* the generated key of the Junk entity is no key of either file *)
  let jk := KS (junk_key (S j0) (p, p + length (gtext gl))) in
  ~ In jk (lkeys lR) -> ~ In jk (lkeys lL) ->
  exists r,
    compare_properties j0 (fun _ => VError) chk merge (file_text bsR) textL = Ok r /\
    (a_missings r = missing_keys pykey_eqb lR lL /\
     stats_fields (a_stats r) = flat_stats pykey_eqb str_eqb py_keyname wdf lR lL) /\
    filter (@is_njunk pykey) (a_notes r) = [NJunk (Z.of_nat p)] /\
    slice textL p (p + length (gtext gl)) = gtext gl /\
    ((forall a b, chk a b = []) ->
     summary (fun _ => VError) r = 1 :: 0 :: flat_stats pykey_eqb str_eqb py_keyname wdf lR lL).
Proof.
  intros chk merge j0 bsR bs1 gl bs2 lR lL H1 H2 H3 H4 H5 H6 H7 H8 H9 H10.
  exact (end_to_end_properties_junk chk merge j0 bsR lR lL H1 H2 H3 H9 H10 bs1 gl bs2 H4 H5 H6 H7 H8).
Qed.

(* reference   a=one two / okey=x / # note + b=tres<br/>vier / d=qA
   localization  a=uno / [garbage "garb"] / d=qA / c=v          (offsets: garbage at 6)
   the premises hold, and the kernel evaluates the pipeline on the two texts to the report
   the theorem predicts: okey and b missing (1 + 2 words), c obsolete, a changed (2 words),
   d unchanged (qA = qA after unescaping, 1 word), one junk error at offset 6 *)
Definition e2e_s (l : list nat) : str := map N.of_nat l.
Definition e2e_ent (cs : list cline) (k v : list nat) : block :=
  BEntity cs (e2e_s k) [] 61%N [] [] (e2e_s v) true.
Definition e2e_ref : list block :=
  [e2e_ent [] [97] [111; 110; 101; 32; 116; 119; 111];
   e2e_ent [] [111; 107; 101; 121] [120];
   e2e_ent [(35%N, e2e_s [32; 110; 111; 116; 101])] [98] [116; 114; 101; 115; 60; 98; 114; 47; 62; 118; 105; 101; 114];
   e2e_ent [] [100] [113; 92; 117; 48; 48; 52; 49]].
Definition e2e_l1 : list block := [e2e_ent [] [97] [117; 110; 111]].
Definition e2e_gl : list str := [e2e_s [103; 97; 114; 98]].
Definition e2e_l2 : list block := [e2e_ent [] [100] [113; 65]; e2e_ent [] [99] [118]].
Definition e2e_k (l : list nat) : pykey := KS (e2e_s l).
Definition e2e_lR : list (pykey * str) :=
  [(e2e_k [97], e2e_s [111; 110; 101; 32; 116; 119; 111]); (e2e_k [111; 107; 101; 121], e2e_s [120]);
   (e2e_k [98], e2e_s [116; 114; 101; 115; 60; 98; 114; 47; 62; 118; 105; 101; 114]);
   (e2e_k [100], e2e_s [113; 65])].
Definition e2e_lL : list (pykey * str) :=
  [(e2e_k [97], e2e_s [117; 110; 111]); (e2e_k [100], e2e_s [113; 65]); (e2e_k [99], e2e_s [118])].

Example C03_example_end_to_end :
  (Forall legal_block e2e_ref /\ adjacent_ok e2e_ref /\ Forall2 tokenized (records_of e2e_ref) e2e_lR) /\
  (Forall legal_block e2e_l1 /\ legal_garbage e2e_gl = true /\ Forall legal_block e2e_l2 /\
   jadjacent_ok (with_garbage e2e_l1 e2e_gl e2e_l2) /\
   Forall2 tokenized (records_of e2e_l1 ++ records_of e2e_l2) e2e_lL) /\
  (NoDup (lkeys e2e_lR) /\ NoDup (lkeys e2e_lL)) /\
  length (file_text e2e_l1) = 6 /\
  missing_keys pykey_eqb e2e_lR e2e_lL = [e2e_k [111; 107; 101; 121]; e2e_k [98]] /\
  flat_stats pykey_eqb str_eqb py_keyname wdf e2e_lR e2e_lL = [2; 3; 0; 1; 1; 2; 1; 1; 0] /\
  match compare_properties 0 (fun _ => VError) (fun _ _ => []) true (file_text e2e_ref)
                           (file_text e2e_l1 ++ gtext e2e_gl ++ file_text e2e_l2) with
  | Ok r => a_missings r = [e2e_k [111; 107; 101; 121]; e2e_k [98]] /\
            summary (fun _ => VError) r = [1; 0; 2; 3; 0; 1; 1; 2; 1; 1; 0] /\
            filter (@is_njunk pykey) (a_notes r) = [NJunk 6%Z] /\ a_skips r = [6%Z]
  | Raise _ => False
  end.
Proof.
  assert (Htok : forall k v raw ts, toks_ok ts = true -> raw = render_toks ts -> v = meaning_toks ts ->
                 forall c, tokenized (k, raw, c) (KS k, v)).
  { intros k v raw ts H1 H2 H3 c. exists ts. subst. auto. }
  split; [split; [repeat constructor|split; [vm_compute; reflexivity|]]|].
  { repeat constructor.
    - apply (Htok _ _ _ (map TPlain (e2e_s [111; 110; 101; 32; 116; 119; 111]))); reflexivity.
    - apply (Htok _ _ _ (map TPlain (e2e_s [120]))); reflexivity.
    - apply (Htok _ _ _ (map TPlain (e2e_s [116; 114; 101; 115; 60; 98; 114; 47; 62; 118; 105; 101; 114]))); reflexivity.
    - apply (Htok _ _ _ [TPlain 113%N; TUni (e2e_s [48; 48; 52; 49])]); reflexivity. }
  split; [split; [repeat constructor|split; [reflexivity|split; [repeat constructor|split; [vm_compute; reflexivity|]]]]|].
  { repeat constructor.
    - apply (Htok _ _ _ (map TPlain (e2e_s [117; 110; 111]))); reflexivity.
    - apply (Htok _ _ _ (map TPlain (e2e_s [113; 65]))); reflexivity.
    - apply (Htok _ _ _ (map TPlain (e2e_s [118]))); reflexivity. }
  split; [split; repeat constructor; cbn; intuition discriminate|].
  vm_compute. repeat split; reflexivity.
Qed.

(* ---- END TO END for .dtd --------------------------------------------------------------------
   The same for DTD files: [compare_dtd html_unescape ...] parses both texts with the DTD parser
   model, DTDEntityMixin.val = html_unescape(raw_val) (CPython's html.unescape: a parameter,
   any function), Entry.count_words; the files are texts of legal DTD block lists
   (Proofs/C02BlocksDtd.v: entities with attached comments, parameter entities, comments,
   white space; the localization without or with one garbage region, C02BlocksDtdJunk.v);
   the (key, value) lists are the records with the value passed through html_unescape
   ([dtd_pairs]).  The Junk counter also advances at parsed entities, so the generated Junk
   key is excluded for every counter value. *)
Theorem C03_end_to_end_dtd :
  forall (html_unescape : str -> str)
         (chk : @cent pykey str -> @cent pykey str -> list finding) (merge : bool) (j0 : nat)
         (bsR bsL : list C02BlocksDtd.block),
  let lR := CompareTextDtd.dtd_pairs html_unescape (C02BlocksDtd.records_of bsR) in
  let lL := CompareTextDtd.dtd_pairs html_unescape (C02BlocksDtd.records_of bsL) in
  Forall C02BlocksDtd.legal_block bsR -> C02BlocksDtd.adjacent_ok bsR ->
  Forall C02BlocksDtd.legal_block bsL -> C02BlocksDtd.adjacent_ok bsL ->
  NoDup (lkeys lR) -> NoDup (lkeys lL) ->
  exists r,
    compare_dtd html_unescape j0 (fun _ => VError) chk merge
                (C02BlocksDtd.file_text bsR) (C02BlocksDtd.file_text bsL) = Ok r /\
    (a_missings r = missing_keys pykey_eqb lR lL /\
     stats_fields (a_stats r) = flat_stats pykey_eqb str_eqb py_keyname wdf lR lL) /\
    filter (@is_njunk pykey) (a_notes r) = [] /\
    ((forall a b, chk a b = []) ->
     summary (fun _ => VError) r = 0 :: 0 :: flat_stats pykey_eqb str_eqb py_keyname wdf lR lL).
Proof.
  intros hu chk merge j0 bsR bsL lR lL H1 H2 H3 H4 H5 H6.
  exact (CompareTextDtd.end_to_end_dtd hu chk merge j0 bsR H1 H2 H5 bsL H3 H4 H6).
Qed.

Theorem C03_end_to_end_dtd_junk :
  forall (html_unescape : str -> str)
         (chk : @cent pykey str -> @cent pykey str -> list finding) (merge : bool) (j0 : nat)
         (bsR bs1 : list C02BlocksDtd.block) (g : str) (bs2 : list C02BlocksDtd.block),
  let lR := CompareTextDtd.dtd_pairs html_unescape (C02BlocksDtd.records_of bsR) in
  let lL := CompareTextDtd.dtd_pairs html_unescape
              (C02BlocksDtd.records_of bs1 ++ C02BlocksDtd.records_of bs2) in
  let textL := C02BlocksDtd.file_text bs1 ++ g ++ C02BlocksDtd.file_text bs2 in
  let p := length (C02BlocksDtd.file_text bs1) in
  Forall C02BlocksDtd.legal_block bsR -> C02BlocksDtd.adjacent_ok bsR ->
  Forall C02BlocksDtd.legal_block bs1 -> C02BlocksDtdJunk.legal_garbage g = true ->
  Forall C02BlocksDtd.legal_block bs2 ->
  C02BlocksDtdJunk.jadjacent_ok (C02BlocksDtdJunk.with_garbage bs1 g bs2) ->
  NoDup (lkeys lR) -> NoDup (lkeys lL) ->
  (forall n, ~ In (KS (junk_key n (p, p + length g))) (lkeys lR)) ->
  (forall n, ~ In (KS (junk_key n (p, p + length g))) (lkeys lL)) ->
  exists r,
    compare_dtd html_unescape j0 (fun _ => VError) chk merge (C02BlocksDtd.file_text bsR) textL = Ok r /\
    (a_missings r = missing_keys pykey_eqb lR lL /\
     stats_fields (a_stats r) = flat_stats pykey_eqb str_eqb py_keyname wdf lR lL) /\
    filter (@is_njunk pykey) (a_notes r) = [NJunk (Z.of_nat p)] /\
    slice textL p (p + length g) = g /\
    ((forall a b, chk a b = []) ->
     summary (fun _ => VError) r = 1 :: 0 :: flat_stats pykey_eqb str_eqb py_keyname wdf lR lL).
Proof.
  intros hu chk merge j0 bsR bs1 g bs2 lR lL textL p H1 H2 H3 H4 H5 H6 H7 H8 H9 H10.
  exact (CompareTextDtd.end_to_end_dtd_junk hu chk merge j0 bsR H1 H2 H7 bs1 g bs2 H3 H4 H5 H6 H8 H9 H10).
Qed.

(* reference     <!ENTITY a "one two">  <!ENTITY okey "x">  <!ENTITY b "tres<br/>vier">
   localization  <!ENTITY a "uno">  [garbage "garb "]  <!ENTITY c "v">     (html_unescape = id)
   the premises hold and the kernel evaluates the pipeline on the two texts *)
Definition d2e_ent (k v : list nat) : C02BlocksDtd.block :=
  C02BlocksDtd.BEntity None (e2e_s [32]) (e2e_s k) (e2e_s [32]) 34%N (e2e_s v) [].
Definition d2e_nl : C02BlocksDtd.block := C02BlocksDtd.BBlank (e2e_s [10]).
Definition d2e_ref : list C02BlocksDtd.block :=
  [d2e_ent [97] [111; 110; 101; 32; 116; 119; 111]; d2e_nl; d2e_ent [111; 107; 101; 121] [120]; d2e_nl;
   d2e_ent [98] [116; 114; 101; 115; 60; 98; 114; 47; 62; 118; 105; 101; 114]; d2e_nl].
Definition d2e_l1 : list C02BlocksDtd.block := [d2e_ent [97] [117; 110; 111]; d2e_nl].
Definition d2e_g : str := e2e_s [103; 97; 114; 98; 32].
Definition d2e_l2 : list C02BlocksDtd.block := [d2e_ent [99] [118]; d2e_nl].

Example C03_example_end_to_end_dtd :
  let hu := fun s : str => s in
  (Forall C02BlocksDtd.legal_block d2e_ref /\ C02BlocksDtd.adjacent_ok d2e_ref) /\
  (Forall C02BlocksDtd.legal_block d2e_l1 /\ C02BlocksDtdJunk.legal_garbage d2e_g = true /\
   Forall C02BlocksDtd.legal_block d2e_l2 /\
   C02BlocksDtdJunk.jadjacent_ok (C02BlocksDtdJunk.with_garbage d2e_l1 d2e_g d2e_l2)) /\
  length (C02BlocksDtd.file_text d2e_l1) = 18 /\
  match compare_dtd hu 0 (fun _ => VError) (fun _ _ => []) true (C02BlocksDtd.file_text d2e_ref)
                    (C02BlocksDtd.file_text d2e_l1 ++ d2e_g ++ C02BlocksDtd.file_text d2e_l2) with
  | Ok r => a_missings r = [e2e_k [111; 107; 101; 121]; e2e_k [98]] /\
            summary (fun _ => VError) r = [1; 0; 2; 3; 0; 1; 1; 2; 0; 0; 0] /\
            filter (@is_njunk pykey) (a_notes r) = [NJunk 18%Z] /\ a_skips r = [18%Z]
  | Raise _ => False
  end.
Proof.
  split; [split; [repeat constructor|vm_compute; reflexivity]|].
  split; [split; [repeat constructor|split; [reflexivity|split; [repeat constructor|vm_compute; reflexivity]]]|].
  vm_compute. repeat split; reflexivity.
Qed.

(* the full "never raises" statement is false of the faithful model: a
   localized key equal to the generated key of a reference Junk *)
Theorem C03_no_raise_refuted :
  exists (ref l10n : list (@cent pykey Z)),
    compare pykey_eqb Z.eqb py_keyname (fun _ => VError) (fun _ _ => []) false ref l10n
    = Raise RuntimeError.
Proof.
  exists [mkcent (KS [95; 106]%N) 0%Z 0 true 0%Z], [mkcent (KS [95; 106]%N) 1%Z 1 false 1000%Z].
  vm_compute. reflexivity.
Qed.

(* ---- non-vacuity ------------------------------------------------------------------ *)
Definition ex_s (l : list nat) : pykey := KS (map N.of_nat l).
(* reference: a=1  openkey=2  b=3(2 words)  a=4(3 words, the last "a")  junk
   l10n:      b=3  c=9  openkey=8  a=4  junk  c=10 *)
Definition ex_ref : list (@cent pykey Z) :=
  [mkcent (ex_s [97]) 1%Z 1 false 0%Z; mkcent (ex_s [111; 107; 101; 121]) 2%Z 1 false 1%Z;
   mkcent (ex_s [98]) 3%Z 2 false 2%Z; mkcent (ex_s [97]) 4%Z 3 false 3%Z;
   mkcent (ex_s [95; 49]) 5%Z 0 true 4%Z; mkcent (ex_s [100]) 6%Z 5 false 5%Z].
Definition ex_l10n : list (@cent pykey Z) :=
  [mkcent (ex_s [98]) 7%Z 2 false 1000%Z; mkcent (ex_s [99]) 9%Z 1 false 1001%Z;
   mkcent (ex_s [111; 107; 101; 121]) 8%Z 1 false 1002%Z; mkcent (ex_s [97]) 4%Z 3 false 1003%Z;
   mkcent (ex_s [95; 50]) 11%Z 0 true 1004%Z; mkcent (ex_s [99]) 10%Z 1 false 1005%Z].

(* a concrete run, evaluated by the kernel: d missing (5 words), c obsolete,
   b changed (2 words), a unchanged (the LAST a, 3 words), openkey a key binding;
   the notify calls in order; the summary with 2 errors and 2 warnings *)
Example C03_example :
  match compare pykey_eqb Z.eqb py_keyname (fun _ => VError) (fun _ _ => []) true ex_ref ex_l10n with
  | Ok r =>
      stats_fields (a_stats r) = [1; 5; 0; 1; 1; 2; 1; 3; 1] /\
      a_missings r = [ex_s [100]] /\ a_skips r = [1004%Z] /\
      a_notes r = [NDup false (ex_s [97]) 2; NDup true (ex_s [99]) 2; NObsolete (ex_s [99]);
                   NJunk 1004%Z; NRefJunk; NMissing (ex_s [100])] /\
      summary (fun _ => VError) r = [2; 2; 1; 5; 0; 1; 1; 2; 1; 3; 1]
  | Raise _ => False
  end.
Proof. vm_compute. repeat split; reflexivity. Qed.

(* the premises of C03_partition and C03_no_raise hold of a non-trivial input *)
Example C03_example_partition :
  let ref := filter (fun e => negb (c_junk e)) ex_ref in
  (forall e, In e ref -> c_junk e = false) /\
  match compare pykey_eqb Z.eqb py_keyname (fun _ => VError) (fun _ _ => []) false ref ex_l10n with
  | Ok r => s_missing (a_stats r) + s_changed (a_stats r) + s_unchanged (a_stats r) +
            s_keys (a_stats r) = 4
  | Raise _ => False
  end.
Proof.
  split; [|vm_compute; reflexivity].
  intros e He. apply filter_In in He. destruct He as [_ He]. destruct (c_junk e); [discriminate|reflexivity].
Qed.

(* a filter: d is only reported, c is ignored *)
Example C03_example_filter :
  let flt := fun k => if pykey_eqb k (ex_s [100]) then VWarning
                      else if pykey_eqb k (ex_s [99]) then VIgnore else VError in
  match compare pykey_eqb Z.eqb py_keyname flt (fun _ _ => []) false ex_ref ex_l10n with
  | Ok r => stats_fields (a_stats r) = [0; 0; 1; 0; 1; 2; 1; 3; 1] /\
            details flt r = [NDup false (ex_s [97]) 2; NDup true (ex_s [99]) 2;
                             NJunk 1004%Z; NRefJunk; NMissing (ex_s [100])]
  | Raise _ => False
  end.
Proof. vm_compute. split; reflexivity. Qed.

(* three findings, two of them errors, for the shared entity b (id 1000): it is
   skipped once; all three findings are notified *)
Example C03_example_skip_once :
  let chk := fun (a b : @cent pykey Z) =>
               if (c_id b =? 1000)%Z
               then [mkfinding true 1%Z; mkfinding false 2%Z; mkfinding true 3%Z] else [] in
  NoDup (map c_id ex_l10n) /\
  match compare pykey_eqb Z.eqb py_keyname (fun _ => VError) chk true ex_ref ex_l10n,
        compare pykey_eqb Z.eqb py_keyname (fun _ => VError) chk false ex_ref ex_l10n with
  | Ok r, Ok r' =>
      a_skips r = [1000%Z; 1004%Z] /\ a_skips r' = [] /\
      filter (fun n => match n with NCheck _ _ => true | _ => false end) (a_notes r) =
        [NCheck true 1%Z; NCheck false 2%Z; NCheck true 3%Z]
  | _, _ => False
  end.
Proof.
  split; [repeat constructor; cbn; intuition discriminate|].
  vm_compute. repeat split; reflexivity.
Qed.

Example C03_example_add_file :
  add_file VError ex_ref = Some (5, 12) /\ add_file VIgnore ex_ref = None.
Proof. vm_compute. split; reflexivity. Qed.

(* the stats dictionary of the source has exactly the nine counters of the model, in this order *)
Example C03_stats_keys :
  c03_stats_keys =
  map (map N.of_nat)
      [[109; 105; 115; 115; 105; 110; 103]; [109; 105; 115; 115; 105; 110; 103; 95; 119];
       [114; 101; 112; 111; 114; 116]; [111; 98; 115; 111; 108; 101; 116; 101];
       [99; 104; 97; 110; 103; 101; 100]; [99; 104; 97; 110; 103; 101; 100; 95; 119];
       [117; 110; 99; 104; 97; 110; 103; 101; 100];
       [117; 110; 99; 104; 97; 110; 103; 101; 100; 95; 119]; [107; 101; 121; 115]] /\
  length c03_stats_keys = length (stats_fields stats0).
Proof. vm_compute. split; reflexivity. Qed.

(* ---- END TO END with the checker of C06 instead of a parameter ------------------------------
   [props_chk locale ref_text l10n_text] (Model/CheckPlain.v) is the .properties checker model of
   C06 (Model/CheckProps.v: PropertiesChecker.check with Checker.check) behind the interface of
   [compare_properties]: for the two entities it is given it takes key and unescaped value from
   them and reads pre_comment.all, .all and raw_val from the TEXTS with the parser model, at the
   offset that identifies the entity; error/warning and the identity of the message text are
   kept, a raise of the checker would be an error finding.
   For plain files the silence assumed by C03_end_to_end_properties is proved (C06_check_plain_silent):
     - no reference value (unescaped) contains a per cent sign,
     - the reference text does not contain the Localization_and_Plurals literal,
     - the localized text contains no U+FFFD and no backslash,
   then, with that checker, the report is as before and the observer's summary is
   [errors = 0 (resp. 1 with one garbage region); warnings = 0] ++ the stats. *)
From CL Require Model.CheckProps.
From CL Require Import Model.CheckPlain Generated.C06Facts Proofs.E2ECheckedFinal.

Theorem C03_end_to_end_properties_checked :
  forall (locale : option str) (merge : bool) (j0 : nat)
         (bsR bsL : list block) (lR lL : list (pykey * str)),
  Forall legal_block bsR -> adjacent_ok bsR -> Forall2 tokenized (records_of bsR) lR ->
  Forall legal_block bsL -> adjacent_ok bsL -> Forall2 tokenized (records_of bsL) lL ->
  NoDup (lkeys lR) -> NoDup (lkeys lL) ->
  Forall (fun kv => CheckProps.mem_N c_pct (snd kv) = false) lR ->
  contains lit_plural_comment (file_text bsR) = false ->
  CheckProps.mem_N c_fffd (file_text bsL) = false -> CheckProps.mem_N c_backslash (file_text bsL) = false ->
  exists r,
    compare_properties j0 (fun _ => VError) (props_chk locale (file_text bsR) (file_text bsL)) merge
                       (file_text bsR) (file_text bsL) = Ok r /\
    (a_missings r = missing_keys pykey_eqb lR lL /\
     stats_fields (a_stats r) = flat_stats pykey_eqb str_eqb py_keyname wdf lR lL) /\
    filter (@is_njunk pykey) (a_notes r) = [] /\
    summary (fun _ => VError) r = 0 :: 0 :: flat_stats pykey_eqb str_eqb py_keyname wdf lR lL.
Proof.
  intros locale merge j0 bsR bsL lR lL H1 H2 H3 H4 H5 H6 H7 H8 H9 H10 H11 H12.
  exact (end_to_end_properties_checked locale merge j0 bsR lR lL H1 H2 H3 H7 H8 H9 H10 bsL H4 H5 H6 H11 H12).
Qed.

Theorem C03_end_to_end_properties_junk_checked :
  forall (locale : option str) (merge : bool) (j0 : nat)
         (bsR bs1 : list block) (gl : list str) (bs2 : list block) (lR lL : list (pykey * str)),
  Forall legal_block bsR -> adjacent_ok bsR -> Forall2 tokenized (records_of bsR) lR ->
  Forall legal_block bs1 -> legal_garbage gl = true -> Forall legal_block bs2 ->
  jadjacent_ok (with_garbage bs1 gl bs2) ->
  Forall2 tokenized (records_of bs1 ++ records_of bs2) lL ->
  NoDup (lkeys lR) -> NoDup (lkeys lL) ->
  Forall (fun kv => CheckProps.mem_N c_pct (snd kv) = false) lR ->
  contains lit_plural_comment (file_text bsR) = false ->
  let textL := file_text bs1 ++ gtext gl ++ file_text bs2 in
  let p := length (file_text bs1) in
  let jk := KS (junk_key (S j0) (p, p + length (gtext gl))) in
  ~ In jk (lkeys lR) -> ~ In jk (lkeys lL) ->
  CheckProps.mem_N c_fffd textL = false -> CheckProps.mem_N c_backslash textL = false ->
  exists r,
    compare_properties j0 (fun _ => VError) (props_chk locale (file_text bsR) textL) merge
                       (file_text bsR) textL = Ok r /\
    (a_missings r = missing_keys pykey_eqb lR lL /\
     stats_fields (a_stats r) = flat_stats pykey_eqb str_eqb py_keyname wdf lR lL) /\
    filter (@is_njunk pykey) (a_notes r) = [NJunk (Z.of_nat p)] /\
    summary (fun _ => VError) r = 1 :: 0 :: flat_stats pykey_eqb str_eqb py_keyname wdf lR lL.
Proof.
  intros locale merge j0 bsR bs1 gl bs2 lR lL H1 H2 H3 H4 H5 H6 H7 H8 H9 H10 H11 H12.
  exact (end_to_end_properties_junk_checked locale merge j0 bsR lR lL H1 H2 H3 H9 H10 H11 H12
           bs1 gl bs2 H4 H5 H6 H7 H8).
Qed.

(* the instantiated checker is the real one: on the texts  k = %S %d  /  k = %S  the run (parser,
   checker with its regular expressions and difflib, comparison) reports the one warning of
   C06 (trailing argument dropped) and counts it; on plain texts nothing *)
Example C03_example_checked :
  let s_ := map N.of_nat in
  let tR := s_ [107; 32; 61; 32; 37; 83; 32; 37; 100; 10] in
  let tL := s_ [107; 32; 61; 32; 37; 83; 10] in
  let pR := s_ [107; 32; 61; 32; 97; 10; 109; 32; 61; 32; 98; 10] in
  let pL := s_ [107; 32; 61; 32; 120; 10; 109; 32; 61; 32; 98; 10] in
  match compare_properties 0 (fun _ => VError) (props_chk None tR tL) false tR tL,
        compare_properties 0 (fun _ => VError) (props_chk None pR pL) false pR pL with
  | Ok r, Ok q =>
      summary (fun _ => VError) r = [0; 1; 0; 0; 0; 0; 1; 2; 0; 0; 0] /\
      match a_notes r with [NCheck false _] => True | _ => False end /\
      summary (fun _ => VError) q = [0; 0; 0; 0; 0; 0; 1; 1; 1; 1; 0]
  | _, _ => False
  end.
Proof. vm_compute. repeat split; reflexivity. Qed.
