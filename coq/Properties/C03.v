From Coq Require Import ZArith NArith List Bool.
From CL Require Import Base.Sx Base.Res Base.Str Model.AddRemove Model.Compare.
Import ListNotations.

Example C03_example_placeholder : stats_fields stats0 = [0;0;0;0;0;0;0;0;0]%nat.
Proof. reflexivity. Qed.
