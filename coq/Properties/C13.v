(* C13 — project enumeration finds every covered file once, correctly paired.
   Theorems over Model/ProjectFiles.v (ProjectFiles.__init__ / iter_locale /
   iter_reference / match / _files, compareProjects' dispatch) and Model/Toml.v.
   Path matching is a parameter: [matches], [sub], [prefix], [pat] are arbitrary
   functions (in the running model: the tables of the real Matcher objects); the
   contracts a theorem needs are explicit premises.  Each theorem is closed by a
   lemma of Proofs/ProjectFiles*.v / Proofs/TomlProofs.v.

   okey_lt a b  :=  okey_leb a b = true /\ a <> b      (Python's < on the l10n paths)
   ekey e       :=  the l10n path of a yielded tuple *)
From Coq Require Import ZArith NArith List Bool Arith Sorted.
From CL Require Import Base.Sx Base.Str Model.ProjectFiles Model.Toml
  Proofs.ProjectFilesBase Proofs.ProjectFilesProofs Proofs.ProjectFilesBuild Proofs.TomlProofs.
Import ListNotations.

Section C13.
Context {M : Type}.
Variable prefix : M -> str.
Variable pat : M -> N.
Variable realpath : str -> str.
Variable matches : M -> str -> bool.
Variable sub : M -> M -> str -> option str.
Variable with_locale : M -> M.
Variable with_merge : M -> M.
Variable fs : list str.

Notation build := (build prefix pat realpath with_locale with_merge).
Notation iter_locale := (iter_locale prefix matches sub fs).
Notation iterate := (iterate prefix matches sub fs).
Notation pf_match := (pf_match matches sub).
Notation excluded := (excluded matches sub).
Notation osub := (osub sub).

(* the walk that starts at the prefix of m reaches p: the prefix names a directory
   (or a partial segment inside one), or is the file p itself *)
Definition reachable (m : M) (p : str) : Prop :=
  In SLASH (prefix m) /\ (isfile fs (prefix m) = true -> p = prefix m).

(* yielded l10n paths are strictly increasing: sorted, each at most once; for a locale
   and for the reference self-validation *)
Theorem C13_sorted_nodup : forall f out,
  iterate f = POk out -> StronglySorted okey_lt (map ekey out).
Proof. exact (iterate_sorted prefix matches sub fs). Qed.

(* every matcher of the list is the matcher of a rule that is enabled for the locale, in
   a configuration enabled for the locale, of a project enabled for the locale; the
   exclude list likewise comes from excluded configurations only; the order is the reverse
   rule order (the last rule comes first), duplicates dropped *)
Theorem C13_matchers : forall locale hm ps f,
  build locale hm ps = POk f ->
  pf_locale f = locale /\
  (forall m, In m (pf_matchers f) ->
     exists c r, taking_part locale ps c /\ config_enabled locale c = true /\ In r (c_rules c) /\
                 rule_enabled locale r = true /\
                 m_l10n m = with_locale (r_l10n r) /\ m_ref m = r_ref r /\
                 m_merge m = (if hm then Some (with_merge (r_l10n r)) else None) /\
                 incl (r_test r) (m_test m)) /\
  (forall xms xm, pf_exclude f = Some xms -> In xm xms ->
     exists c r, excluding locale ps c /\ config_enabled locale c = true /\ In r (c_rules c) /\
                 rule_enabled locale r = true /\
                 m_l10n xm = with_locale (r_l10n r) /\ m_ref xm = r_ref r).
Proof. exact (build_spec prefix pat realpath with_locale with_merge). Qed.

Theorem C13_matcher_order : forall locale hm cs ms,
  build_matchers prefix pat realpath with_locale with_merge locale hm cs = POk ms ->
  subseq (map (fun m => (m_l10n m, m_ref m)) ms)
         (rev (map (fun r => (with_locale (r_l10n r), r_ref r)) (enabled_rules locale cs))).
Proof. exact (build_matchers_order prefix pat realpath with_locale with_merge). Qed.

(* no enabled rule is lost: it is represented in the list by its own matcher or, when it
   was dropped as a duplicate, by the matcher of a rule with the same (real) prefix and
   the same pattern *)
Theorem C13_rules_represented : forall locale hm ps f r,
  build locale hm ps = POk f ->
  In r (enabled_rules locale (fst (gather locale ps [] []))) ->
  exists m, In m (pf_matchers f) /\
    realpath (prefix (m_l10n m)) = realpath (prefix (with_locale (r_l10n r))) /\
    pat (m_l10n m) = pat (with_locale (r_l10n r)) /\
    ((m_l10n m = with_locale (r_l10n r) /\ m_ref m = r_ref r /\ incl (r_test r) (m_test m)) \/
     exists r', In r' (enabled_rules locale (fst (gather locale ps [] []))) /\
                m_l10n m = with_locale (r_l10n r') /\ m_ref m = r_ref r').
Proof. exact (build_complete prefix pat realpath with_locale with_merge). Qed.

(* soundness: a yielded tuple comes from an existing, non-excluded file that a matcher of
   the list matches — on its l10n side (the file is the l10n path), or on its reference
   side (the l10n path is the image of the reference file).  With C13_matchers: a rule of
   an enabled configuration for this locale. *)
Theorem C13_sound : forall f out k r mg t,
  iter_locale f = POk out -> In (k, r, mg, t) out ->
  exists m, In m (pf_matchers f) /\ t = m_test m /\
    ((exists p, k = Some p /\ In p fs /\ matches (m_l10n m) p = true /\
                excluded (pf_locale f) (pf_exclude f) p = false /\
                r = osub (m_l10n m) (m_ref m) p /\ mg = osub (m_l10n m) (m_merge m) p) \/
     (exists rm q, m_ref m = Some rm /\ In q fs /\ matches rm q = true /\
                   excluded (pf_locale f) (pf_exclude f) q = false /\
                   k = sub rm (m_l10n m) q /\ r = Some q /\ mg = osub rm (m_merge m) q)).
Proof. exact (iter_locale_sound prefix matches sub fs). Qed.

(* what "excluded" means: matched on either side by a matcher of the exclude list *)
Theorem C13_excluded : forall locale ex p,
  excluded locale ex p = true <->
  exists xms xm, ex = Some xms /\ In xm xms /\
    ((not_none locale = true /\ matches (m_l10n xm) p = true) \/
     (exists r, m_ref xm = Some r /\ matches r p = true)).
Proof. exact (excluded_spec matches sub). Qed.

Section Contracts.
(* C12_prefix: a path matched by a pattern starts with the pattern's prefix *)
Hypothesis prefix_contract : forall m p, matches m p = true -> starts_with (prefix m) p = true.
(* C11: the image of a path under sub is a path of the target pattern *)
Hypothesis sub_contract : forall m m' q p, sub m m' q = Some p -> matches m' p = true.

(* completeness, relative to the matcher list: every existing, non-excluded file matched
   on the l10n side is yielded under its own path, every one matched on the reference side
   under its image.  [reachable] is the hypothesis the proof forced: C13_prefix_file_refuted
   shows it cannot be dropped. *)
Theorem C13_complete : forall f out m p,
  iter_locale f = POk out -> In m (pf_matchers f) -> In p fs ->
  excluded (pf_locale f) (pf_exclude f) p = false ->
  (matches (m_l10n m) p = true -> reachable (m_l10n m) p ->
     exists r mg t, In (Some p, r, mg, t) out) /\
  (forall rm, m_ref m = Some rm -> matches rm p = true -> reachable rm p ->
     exists r mg t, In (sub rm (m_l10n m) p, r, mg, t) out).
Proof.
  intros f out m p H Hm Hp Hex. split.
  - intros Hmt [R1 R2].
    eapply (iter_locale_complete_l10n prefix matches sub fs); eauto.
    repeat split; auto.
  - intros rm Hr Hmt [R1 R2].
    eapply (iter_locale_complete_ref prefix matches sub fs); eauto.
    repeat split; auto.
Qed.

(* completeness relative to the RULES, under the additional contract that matchers with
   the same prefix and pattern match the same paths (what duplicate dropping assumes;
   C13_dedup_env_refuted shows the implementation's Matcher does not satisfy it when the
   environments differ): every existing, non-excluded file covered on the l10n side by an
   enabled rule of a participating configuration is yielded *)
Theorem C13_complete_rules : forall locale hm ps f out r p,
  (forall m m' q, realpath (prefix m) = realpath (prefix m') -> pat m = pat m' ->
                  matches m q = matches m' q) ->
  build locale hm ps = POk f -> iter_locale f = POk out ->
  In r (enabled_rules locale (fst (gather locale ps [] []))) ->
  In p fs -> matches (with_locale (r_l10n r)) p = true ->
  excluded (pf_locale f) (pf_exclude f) p = false ->
  (forall m, In m (pf_matchers f) -> matches (m_l10n m) p = true -> reachable (m_l10n m) p) ->
  exists rf mg t, In (Some p, rf, mg, t) out.
Proof.
  intros locale hm ps f out r p Hclass Hb Hi Hr Hp Hm Hex Hreach.
  destruct (build_complete prefix pat realpath with_locale with_merge _ _ _ _ _ Hb Hr)
    as [m [Hin [E1 [E2 _]]]].
  assert (Hm' : matches (m_l10n m) p = true) by (rewrite (Hclass _ _ p E1 E2); exact Hm).
  destruct (Hreach m Hin Hm') as [R1 R2].
  eapply (iter_locale_complete_l10n prefix matches sub fs); eauto.
  repeat split; auto.
Qed.

(* an existing localized file is paired by the first matcher of the list that covers it,
   i.e. (C13_matcher_order) by the last covering rule: exactly one tuple, with that
   rule's reference, merge path and tests *)
Theorem C13_claim : forall f out pre m0 post p,
  iter_locale f = POk out ->
  pf_matchers f = pre ++ m0 :: post ->
  (forall m, In m pre -> matches (m_l10n m) p = false) ->
  In p fs -> matches (m_l10n m0) p = true ->
  excluded (pf_locale f) (pf_exclude f) p = false -> reachable (m_l10n m0) p ->
  forall r mg t,
    In (Some p, r, mg, t) out <->
    (r = osub (m_l10n m0) (m_ref m0) p /\ mg = osub (m_l10n m0) (m_merge m0) p /\ t = m_test m0).
Proof.
  intros f out pre m0 post p H E Hpre Hp Hmt Hex [R1 R2].
  eapply (iter_locale_claim prefix matches sub fs sub_contract); eauto.
  repeat split; auto.
Qed.

(* enumeration = lookup for every existing localized file (that no later rule matches as
   a reference file): the tuple yielded for p is what match(p) returns *)
Theorem C13_lookup_agrees : forall f out pre m0 post p,
  iter_locale f = POk out -> pf_locale f <> None ->
  pf_matchers f = pre ++ m0 :: post ->
  (forall m, In m pre -> matches (m_l10n m) p = false) ->
  (forall m r, In m pre -> m_ref m = Some r -> matches r p = false) ->
  In p fs -> matches (m_l10n m0) p = true ->
  excluded (pf_locale f) (pf_exclude f) p = false -> reachable (m_l10n m0) p ->
  forall e, In e out /\ ekey e = Some p <-> pf_match f p = Some e.
Proof.
  intros f out pre m0 post p H Hl E Hpre Hpre' Hp Hmt Hex [R1 R2].
  eapply (lookup_agrees_l10n prefix matches sub fs sub_contract); eauto.
  repeat split; auto.
Qed.

(* lookup by reference path, for a reference file whose localized path no other
   (rule, file) pair produces (coverage does not overlap): match(q) is the yielded tuple *)
Theorem C13_lookup_agrees_reference : forall f out pre m0 post r0 q,
  iter_locale f = POk out ->
  pf_matchers f = pre ++ m0 :: post ->
  (forall m, In m pre -> matches (m_l10n m) q = false) ->
  (forall m r, In m pre -> m_ref m = Some r -> matches r q = false) ->
  matches (m_l10n m0) q = false ->
  m_ref m0 = Some r0 -> In q fs -> matches r0 q = true ->
  excluded (pf_locale f) (pf_exclude f) q = false -> reachable r0 q ->
  (forall v, In (sub r0 (m_l10n m0) q, v)
                (claims prefix matches sub fs (pf_locale f) (pf_exclude f) (pf_matchers f)) ->
             v = ref_info sub m0 r0 q) ->
  exists e, In e out /\ pf_match f q = Some e /\
            e = (sub r0 (m_l10n m0) q, Some q, osub r0 (m_merge m0) q, m_test m0).
Proof.
  intros f out pre m0 post r0 q H E Hpre Hpre' Hl Hr Hq Hmt Hex [R1 R2] Hu.
  eapply (lookup_agrees_ref prefix matches sub fs); eauto.
  repeat split; auto.
Qed.

End Contracts.

(* iteration raises nothing when sub is defined wherever the source pattern matches
   (Matcher.sub returns None only when match does) *)
Theorem C13_iter_total : forall f,
  (forall m r q, In m (pf_matchers f) -> m_ref m = Some r -> matches r q = true ->
                 sub r (m_l10n m) q <> None) ->
  exists out, iter_locale f = POk out.
Proof. exact (iter_locale_total prefix matches sub fs). Qed.

End C13.

(* ---- TOMLParser ------------------------------------------------------------------ *)
Section C13_Toml.
Variable load : str -> option toml_data.
Variable set_root : str -> str -> str.
Variable resolve : str -> str -> env_t -> str.

(* variables given to the parser override those of the file, in every configuration of
   the tree (included and excluded files, recursively), and every path rule is built
   with that environment; a variable the parser does not give has the file's value *)
Theorem C13_env_override : forall fuel path env ig c,
  parse load set_root resolve fuel path env ig = TOk c ->
  forall c', In c' (tconfigs c) ->
    (forall k, match dlast k env with
               | Some v => dget k (t_env c') = Some v
               | None => exists data, load (t_path c') = Some data /\
                                      dget k (t_env c') = dlast k (td_env data)
               end) /\
    Forall (fun r => tr_env r = t_env c') (t_rules c').
Proof. exact (parse_env load set_root resolve). Qed.

(* only the top configuration carries excludes (ExcludeError otherwise): the shape of
   [project] in Model/ProjectFiles.v *)
Theorem C13_excludes_top_only : forall fuel path env ig c,
  parse load set_root resolve fuel path env ig = TOk c ->
  Forall (fun ch => deep_excludes ch = false) (t_children c ++ t_excludes c).
Proof. exact (parse_excludes_top_only load set_root resolve). Qed.
End C13_Toml.

(* ---- a concrete project: premises are satisfiable, and a run ------------------------- *)
Module Ex.
Definition s (l : list nat) : str := of_ascii l.
(* "l/" and "r/" *)
Definition pl : str := s [108; 47].
Definition pr : str := s [114; 47].
(* matcher ids: 0 = the rule's l10n pattern, 1 = the same bound to the locale, 2 = reference *)
Definition prefix (m : nat) : str := match m with 1 => pl | 2 => pr | _ => [] end.
Definition matches (m : nat) (p : str) : bool := starts_with (prefix m) p.
Definition sub (m m' : nat) (p : str) : option str :=
  if matches m p then Some (prefix m' ++ skipn (length (prefix m)) p) else None.
Definition with_locale (m : nat) : nat := match m with 0 => 1 | _ => m end.
Definition fs : list str :=
  [s [108; 47; 98]; s [108; 47; 97]; s [114; 47; 97]; s [114; 47; 99]; s [120; 47; 97]].
Definition de : str := s [100; 101].
Definition cfg : cnode nat :=
  CNode (s [116]) (Some [de]) [mkrule 0 (Some 2) [7%N] None; mkrule 0 (Some 2) [9%N] (Some [de])] [].
Definition pf := build prefix (fun _ => 0%N) (fun x => x) with_locale (fun m => m)
                       (Some de) false [mkproject cfg []].
End Ex.

(* l/a and l/b exist; r/a, r/c exist: l/a compared, l/b obsolete, l/c missing; the two
   rules are duplicates, their tests are merged *)
Example C13_example :
  match Ex.pf with
  | POk f =>
      iterate Ex.prefix Ex.matches Ex.sub Ex.fs f =
      POk [(Some (Ex.s [108; 47; 97]), Some (Ex.s [114; 47; 97]), None, [9; 7]%N);
           (Some (Ex.s [108; 47; 98]), Some (Ex.s [114; 47; 98]), None, [9; 7]%N);
           (Some (Ex.s [108; 47; 99]), Some (Ex.s [114; 47; 99]), None, [9; 7]%N)]
      /\ map (fun c => action_code (fst c))
             (fst (drive Ex.fs
                (match iterate Ex.prefix Ex.matches Ex.sub Ex.fs f with POk es => es | _ => [] end)))
         = [2; 1; 0]%Z
  | PRaise _ => False
  end.
Proof. vm_compute. split; reflexivity. Qed.

(* the contracts and side conditions of C13_complete / C13_claim / C13_lookup_agrees hold
   of this project for the file l/a *)
Example C13_premises_example :
  (forall m p, Ex.matches m p = true -> starts_with (Ex.prefix m) p = true) /\
  (forall m m' q p, Ex.sub m m' q = Some p -> Ex.matches m' p = true) /\
  match Ex.pf with
  | POk f =>
      exists m0 post, pf_matchers f = [] ++ m0 :: post /\
        In (Ex.s [108; 47; 97]) Ex.fs /\
        Ex.matches (m_l10n m0) (Ex.s [108; 47; 97]) = true /\
        excluded Ex.matches Ex.sub (pf_locale f) (pf_exclude f) (Ex.s [108; 47; 97]) = false /\
        reachable Ex.prefix Ex.fs (m_l10n m0) (Ex.s [108; 47; 97]) /\
        pf_locale f <> None
  | PRaise _ => False
  end.
Proof.
  split; [intros m p H; exact H|]. split.
  - intros m m' q p. unfold Ex.sub. destruct (Ex.matches m q); [|discriminate].
    intro H. inversion H. unfold Ex.matches. apply starts_with_iff. eexists. reflexivity.
  - vm_compute. eexists. eexists. split; [reflexivity|].
    split; [right; left; reflexivity|]. split; [reflexivity|]. split; [reflexivity|].
    split; [|discriminate]. split; [right; left; reflexivity | discriminate].
Qed.

(* ---- refuted without [reachable]: a wildcard pattern whose prefix is itself a file --------
   rule l10n = "l/a*", files l/a and l/ab: _files yields the prefix and returns, the
   covered file l/ab is not enumerated although match() finds it. *)
Module ExR.
Definition pa : str := of_ascii [108; 47; 97].
Definition pab : str := of_ascii [108; 47; 97; 98].
Definition prefix (m : nat) : str := match m with 1 => pa | _ => [] end.
Definition matches (m : nat) (p : str) : bool := starts_with (prefix m) p.
Definition sub (m m' : nat) (p : str) : option str := None.
Definition fs : list str := [pa; pab].
Definition f : @pfiles nat :=
  mkpfiles (Some (of_ascii [100; 101])) [mkmrec 1 None None []] None.
End ExR.

Theorem C13_prefix_file_refuted :
  exists out,
    (forall m p, ExR.matches m p = true -> starts_with (ExR.prefix m) p = true) /\
    In ExR.pab ExR.fs /\
    (exists m, In m (pf_matchers ExR.f) /\ ExR.matches (m_l10n m) ExR.pab = true) /\
    excluded ExR.matches ExR.sub (pf_locale ExR.f) (pf_exclude ExR.f) ExR.pab = false /\
    iter_locale ExR.prefix ExR.matches ExR.sub ExR.fs ExR.f = POk out /\
    (forall e, In e out -> ekey e <> Some ExR.pab) /\
    pf_match ExR.matches ExR.sub ExR.f ExR.pab <> None.
Proof.
  eexists. split; [intros m p H; exact H|].
  split; [right; left; reflexivity|].
  split; [eexists; split; [left; reflexivity | reflexivity]|].
  split; [reflexivity|].
  split; [vm_compute; reflexivity|].
  split.
  - intros e [<-|[]]. vm_compute. discriminate.
  - vm_compute. discriminate.
Qed.

(* ---- refuted: completeness relative to the RULES.  Duplicate dropping compares the
   prefix and the pattern, not the environment: two rules with the same pattern text
   whose variables after the first wildcard are bound differently (l/*.{ext} with
   ext = a / ext = b) are "duplicates"; the earlier one is dropped and the file only it
   covers is neither enumerated nor found by match(). *)
Module ExD.
Definition la : str := of_ascii [108; 47; 97].
Definition lb : str := of_ascii [108; 47; 98].
Definition prefix (m : nat) : str := of_ascii [108; 47].
Definition matches (m : nat) (p : str) : bool :=
  match m with 1 => str_eqb p la | 11 => str_eqb p lb | _ => false end.
Definition sub (m m' : nat) (p : str) : option str := None.
Definition with_locale (m : nat) : nat := S m.
Definition fs : list str := [la; lb].
Definition de : str := of_ascii [100; 101].
Definition ruleA : rule nat := mkrule 0 None [] None.
Definition ruleB : rule nat := mkrule 10 None [] None.
Definition cfg : cnode nat := CNode (of_ascii [116]) (Some [de]) [ruleA; ruleB] [].
Definition pf := build prefix (fun _ => 5%N) (fun x => x) with_locale (fun m => m)
                       (Some de) false [mkproject cfg []].
End ExD.

Theorem C13_dedup_env_refuted :
  exists f out,
    ExD.pf = POk f /\
    iter_locale ExD.prefix ExD.matches ExD.sub ExD.fs f = POk out /\
    (* rule A is enabled, covers the existing file l/a, which is reachable and not excluded *)
    In ExD.ruleA (enabled_rules (Some ExD.de) [ExD.cfg]) /\
    ExD.matches (ExD.with_locale (r_l10n ExD.ruleA)) ExD.la = true /\
    In ExD.la ExD.fs /\ reachable ExD.prefix ExD.fs (ExD.with_locale (r_l10n ExD.ruleA)) ExD.la /\
    excluded ExD.matches ExD.sub (pf_locale f) (pf_exclude f) ExD.la = false /\
    (* and yet *)
    (forall e, In e out -> ekey e <> Some ExD.la) /\
    pf_match ExD.matches ExD.sub f ExD.la = None.
Proof.
  eexists. eexists. split; [vm_compute; reflexivity|].
  split; [vm_compute; reflexivity|].
  split; [vm_compute; left; reflexivity|].
  split; [reflexivity|]. split; [left; reflexivity|].
  split; [split; [right; left; reflexivity | vm_compute; discriminate]|].
  split; [reflexivity|]. split.
  - intros e [<-|[]]. vm_compute. discriminate.
  - vm_compute. reflexivity.
Qed.

(* ---- refuted: "no file of an excluded configuration".  The exclude test is applied to
   the walked path only: a reference file that no exclude rule matches (an l10n-only rule
   in the excluded file) still produces the excluded localized path, which match() refuses. *)
Module ExX.
Definition la : str := of_ascii [108; 47; 97].
Definition ra : str := of_ascii [114; 47; 97].
Definition prefix (m : nat) : str :=
  match m with 2 => of_ascii [114; 47] | _ => of_ascii [108; 47] end.
Definition matches (m : nat) (p : str) : bool := starts_with (prefix m) p.
Definition sub (m m' : nat) (p : str) : option str :=
  if matches m p then Some (prefix m' ++ skipn 2 p) else None.
Definition fs : list str := [la; ra].
Definition f : @pfiles nat :=
  mkpfiles (Some (of_ascii [100; 101])) [mkmrec 1 (Some 2) None []] (Some [mkmrec 3 None None []]).
End ExX.

Theorem C13_exclude_l10n_only_refuted :
  exists out,
    iter_locale ExX.prefix ExX.matches ExX.sub ExX.fs ExX.f = POk out /\
    In ExX.la ExX.fs /\
    excluded ExX.matches ExX.sub (pf_locale ExX.f) (pf_exclude ExX.f) ExX.la = true /\
    In (Some ExX.la, Some ExX.ra, None, []) out /\
    pf_match ExX.matches ExX.sub ExX.f ExX.la = None.
Proof.
  eexists. split; [vm_compute; reflexivity|].
  split; [left; reflexivity|]. split; [reflexivity|].
  split; [left; reflexivity | reflexivity].
Qed.
