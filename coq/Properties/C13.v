(* C13 — project enumeration finds every covered file once, correctly paired.
   Theorems over Model/ProjectFiles.v (ProjectFiles.__init__ / iter_locale /
   iter_reference / match / _files, compareProjects' dispatch) and Model/Toml.v.
   Path matching is a parameter: [matches], [sub], [prefix], [pat] (pattern equality) are arbitrary
   functions (in the running model: the tables of the real Matcher objects); the
   contracts a theorem needs are explicit premises.  Each theorem is closed by a
   lemma of Proofs/ProjectFiles*.v / Proofs/TomlProofs.v.

   okey_lt a b  :=  okey_leb a b = true /\ a <> b      (Python's < on the l10n paths)
   ekey e       :=  the l10n path of a yielded tuple *)
From Coq Require Import ZArith NArith List Bool Arith Sorted Lia.
From CL Require Import Base.Sx Base.Str Model.ProjectFiles Model.Toml
  Proofs.ProjectFilesBase Proofs.ProjectFilesProofs Proofs.ProjectFilesBuild Proofs.TomlProofs.
Import ListNotations.

Section C13.
Context {M : Type}.
Variable prefix : M -> str.
Variable pat : M -> M -> bool.
Variable realpath : str -> str.
Variable matches : M -> str -> bool.
Variable sub : M -> M -> str -> option str.
Variable with_locale : M -> M.
Variable with_merge : M -> M.
Variable fs : list str.

Notation build := (build prefix pat realpath with_locale with_merge).
Notation iter_locale := (iter_locale prefix matches sub fs).
Notation iterate := (iterate prefix matches sub fs).
Notation pf_match := (pf_match matches sub).
Notation excluded := (excluded matches sub).
Notation osub := (osub sub).

(* the walk that starts at the prefix of m reaches p: the prefix names a directory
   (or a partial segment inside one), or is the file p itself *)
Definition reachable (m : M) (p : str) : Prop :=
  In SLASH (prefix m) /\ (isfile fs (prefix m) = true -> p = prefix m).

(* yielded l10n paths are strictly increasing: sorted, each at most once; for a locale
   and for the reference self-validation *)
Theorem C13_sorted_nodup : forall f out,
  iterate f = POk out -> StronglySorted okey_lt (map ekey out).
Proof. exact (iterate_sorted prefix matches sub fs). Qed.

(* every matcher of the list is the matcher of a rule that is enabled for the locale, in
   a configuration enabled for the locale, of a project enabled for the locale; the
   exclude list likewise comes from excluded configurations only; the order is the reverse
   rule order (the last rule comes first), duplicates dropped *)
Theorem C13_matchers : forall locale hm ps f,
  build locale hm ps = POk f ->
  pf_locale f = locale /\
  (forall m, In m (pf_matchers f) ->
     exists c r, taking_part locale ps c /\ config_enabled locale c = true /\ In r (c_rules c) /\
                 rule_enabled locale r = true /\
                 m_l10n m = with_locale (r_l10n r) /\ m_ref m = r_ref r /\
                 m_merge m = (if hm then Some (with_merge (r_l10n r)) else None) /\
                 incl (r_test r) (m_test m)) /\
  (forall xms xm, pf_exclude f = Some xms -> In xm xms ->
     exists c r, excluding locale ps c /\ config_enabled locale c = true /\ In r (c_rules c) /\
                 rule_enabled locale r = true /\
                 m_l10n xm = with_locale (r_l10n r) /\ m_ref xm = r_ref r).
Proof. exact (build_spec prefix pat realpath with_locale with_merge). Qed.

Theorem C13_matcher_order : forall locale hm cs ms,
  build_matchers prefix pat realpath with_locale with_merge locale hm cs = POk ms ->
  subseq (map (fun m => (m_l10n m, m_ref m)) ms)
         (rev (map (fun r => (with_locale (r_l10n r), r_ref r)) (enabled_rules locale cs))).
Proof. exact (build_matchers_order prefix pat realpath with_locale with_merge). Qed.

(* no enabled rule is lost: it is represented in the list by its own matcher or, when it
   was dropped as a duplicate, by the matcher of a rule with the same (real) prefix and
   the same pattern *)
Theorem C13_rules_represented : forall locale hm ps f r,
  build locale hm ps = POk f ->
  In r (enabled_rules locale (fst (gather locale ps [] []))) ->
  exists m, In m (pf_matchers f) /\
    ((m_l10n m = with_locale (r_l10n r) /\ m_ref m = r_ref r /\ incl (r_test r) (m_test m)) \/
     (realpath (prefix (m_l10n m)) = realpath (prefix (with_locale (r_l10n r))) /\
      pat (m_l10n m) (with_locale (r_l10n r)) = true /\
      exists r', In r' (enabled_rules locale (fst (gather locale ps [] []))) /\
                 m_l10n m = with_locale (r_l10n r') /\ m_ref m = r_ref r')).
Proof. exact (build_complete prefix pat realpath with_locale with_merge). Qed.

(* soundness: a yielded tuple comes from an existing, non-excluded file that a matcher of
   the list matches — on its l10n side (the file is the l10n path), or on its reference
   side (the l10n path is the image of the reference file).  With C13_matchers: a rule of
   an enabled configuration for this locale. *)
Theorem C13_sound : forall f out k r mg t,
  iter_locale f = POk out -> In (k, r, mg, t) out ->
  exists m, In m (pf_matchers f) /\ t = m_test m /\
    ((exists p, k = Some p /\ In p fs /\ matches (m_l10n m) p = true /\
                excluded (pf_locale f) (pf_exclude f) p = false /\
                r = osub (m_l10n m) (m_ref m) p /\ mg = osub (m_l10n m) (m_merge m) p) \/
     (exists rm q, m_ref m = Some rm /\ In q fs /\ matches rm q = true /\
                   excluded (pf_locale f) (pf_exclude f) q = false /\
                   k = sub rm (m_l10n m) q /\ r = Some q /\ mg = osub rm (m_merge m) q)).
Proof. exact (iter_locale_sound prefix matches sub fs). Qed.

(* what "excluded" means: matched on either side by a matcher of the exclude list *)
Theorem C13_excluded : forall locale ex p,
  excluded locale ex p = true <->
  exists xms xm, ex = Some xms /\ In xm xms /\
    ((not_none locale = true /\ matches (m_l10n xm) p = true) \/
     (exists r, m_ref xm = Some r /\ matches r p = true)).
Proof. exact (excluded_spec matches sub). Qed.

Section Contracts.
(* C12_prefix: a path matched by a pattern starts with the pattern's prefix *)
Hypothesis prefix_contract : forall m p, matches m p = true -> starts_with (prefix m) p = true.
(* C11: the image of a path under sub is a path of the target pattern *)
Hypothesis sub_contract : forall m m' q p, sub m m' q = Some p -> matches m' p = true.

(* completeness, relative to the matcher list: every existing, non-excluded file matched
   on the l10n side is yielded under its own path, every one matched on the reference side
   under its image.  [reachable] is the hypothesis the proof forced: C13_prefix_file_refuted
   shows it cannot be dropped. *)
Theorem C13_complete : forall f out m p,
  iter_locale f = POk out -> In m (pf_matchers f) -> In p fs ->
  excluded (pf_locale f) (pf_exclude f) p = false ->
  (matches (m_l10n m) p = true -> reachable (m_l10n m) p ->
     exists r mg t, In (Some p, r, mg, t) out) /\
  (forall rm, m_ref m = Some rm -> matches rm p = true -> reachable rm p ->
     exists r mg t, In (sub rm (m_l10n m) p, r, mg, t) out).
Proof.
  intros f out m p H Hm Hp Hex. split.
  - intros Hmt [R1 R2].
    eapply (iter_locale_complete_l10n prefix matches sub fs); eauto.
    repeat split; auto.
  - intros rm Hr Hmt [R1 R2].
    eapply (iter_locale_complete_ref prefix matches sub fs); eauto.
    repeat split; auto.
Qed.

(* completeness relative to the RULES, under the additional contract that matchers with
   the same prefix and pattern match the same paths (what duplicate dropping assumes;
   C13_dedup_env_refuted shows the implementation's Matcher does not satisfy it when the
   environments differ): every existing, non-excluded file covered on the l10n side by an
   enabled rule of a participating configuration is yielded *)
Theorem C13_complete_rules : forall locale hm ps f out r p,
  (forall m m' q, realpath (prefix m) = realpath (prefix m') -> pat m m' = true ->
                  matches m q = matches m' q) ->
  build locale hm ps = POk f -> iter_locale f = POk out ->
  In r (enabled_rules locale (fst (gather locale ps [] []))) ->
  In p fs -> matches (with_locale (r_l10n r)) p = true ->
  excluded (pf_locale f) (pf_exclude f) p = false ->
  (forall m, In m (pf_matchers f) -> matches (m_l10n m) p = true -> reachable (m_l10n m) p) ->
  exists rf mg t, In (Some p, rf, mg, t) out.
Proof.
  intros locale hm ps f out r p Hclass Hb Hi Hr Hp Hm Hex Hreach.
  destruct (build_complete prefix pat realpath with_locale with_merge _ _ _ _ _ Hb Hr)
    as [m [Hin [[E1 _]|[E1 [E2 _]]]]].
  - assert (Hm' : matches (m_l10n m) p = true) by (rewrite E1; exact Hm).
    destruct (Hreach m Hin Hm') as [R1 R2].
    eapply (iter_locale_complete_l10n prefix matches sub fs); eauto.
    repeat split; auto.
  - 
  assert (Hm' : matches (m_l10n m) p = true) by (rewrite (Hclass _ _ p E1 E2); exact Hm).
  destruct (Hreach m Hin Hm') as [R1 R2].
  eapply (iter_locale_complete_l10n prefix matches sub fs); eauto.
  repeat split; auto.
Qed.

(* an existing localized file is paired by the first matcher of the list that covers it,
   i.e. (C13_matcher_order) by the last covering rule: exactly one tuple, with that
   rule's reference, merge path and tests *)
Theorem C13_claim : forall f out pre m0 post p,
  iter_locale f = POk out ->
  pf_matchers f = pre ++ m0 :: post ->
  (forall m, In m pre -> matches (m_l10n m) p = false) ->
  In p fs -> matches (m_l10n m0) p = true ->
  excluded (pf_locale f) (pf_exclude f) p = false -> reachable (m_l10n m0) p ->
  forall r mg t,
    In (Some p, r, mg, t) out <->
    (r = osub (m_l10n m0) (m_ref m0) p /\ mg = osub (m_l10n m0) (m_merge m0) p /\ t = m_test m0).
Proof.
  intros f out pre m0 post p H E Hpre Hp Hmt Hex [R1 R2].
  eapply (iter_locale_claim prefix matches sub fs); eauto.
  { intros m r q' _ _ _ Hs. eapply sub_contract; eauto. }
  repeat split; auto.
Qed.

(* enumeration = lookup for every existing localized file (that no later rule matches as
   a reference file): the tuple yielded for p is what match(p) returns *)
Theorem C13_lookup_agrees : forall f out pre m0 post p,
  iter_locale f = POk out -> pf_locale f <> None ->
  pf_matchers f = pre ++ m0 :: post ->
  (forall m, In m pre -> matches (m_l10n m) p = false) ->
  (forall m r, In m pre -> m_ref m = Some r -> matches r p = false) ->
  In p fs -> matches (m_l10n m0) p = true ->
  excluded (pf_locale f) (pf_exclude f) p = false -> reachable (m_l10n m0) p ->
  forall e, In e out /\ ekey e = Some p <-> pf_match f p = Some e.
Proof.
  intros f out pre m0 post p H Hl E Hpre Hpre' Hp Hmt Hex [R1 R2].
  eapply (lookup_agrees_l10n prefix matches sub fs); eauto.
  { intros m r q' _ _ _ Hs. eapply sub_contract; eauto. }
  repeat split; auto.
Qed.

(* lookup by reference path, for a reference file whose localized path no other
   (rule, file) pair produces (coverage does not overlap): match(q) is the yielded tuple *)
Theorem C13_lookup_agrees_reference : forall f out pre m0 post r0 q,
  iter_locale f = POk out ->
  pf_matchers f = pre ++ m0 :: post ->
  (forall m, In m pre -> matches (m_l10n m) q = false) ->
  (forall m r, In m pre -> m_ref m = Some r -> matches r q = false) ->
  matches (m_l10n m0) q = false ->
  m_ref m0 = Some r0 -> In q fs -> matches r0 q = true ->
  excluded (pf_locale f) (pf_exclude f) q = false -> reachable r0 q ->
  (forall v, In (sub r0 (m_l10n m0) q, v)
                (claims prefix matches sub fs (pf_locale f) (pf_exclude f) (pf_matchers f)) ->
             v = ref_info sub m0 r0 q) ->
  exists e, In e out /\ pf_match f q = Some e /\
            e = (sub r0 (m_l10n m0) q, Some q, osub r0 (m_merge m0) q, m_test m0).
Proof.
  intros f out pre m0 post r0 q H E Hpre Hpre' Hl Hr Hq Hmt Hex [R1 R2] Hu.
  eapply (lookup_agrees_ref prefix matches sub fs); eauto.
  repeat split; auto.
Qed.

End Contracts.

(* iteration raises nothing when sub is defined wherever the source pattern matches
   (Matcher.sub returns None only when match does) *)
Theorem C13_iter_total : forall f,
  (forall m r q, In m (pf_matchers f) -> m_ref m = Some r -> matches r q = true ->
                 sub r (m_l10n m) q <> None) ->
  exists out, iter_locale f = POk out.
Proof. exact (iter_locale_total prefix matches sub fs). Qed.

End C13.

(* ---- TOMLParser ------------------------------------------------------------------ *)
Section C13_Toml.
Variable load : str -> option toml_data.
Variable set_root : str -> str -> str.
Variable resolve : str -> str -> env_t -> str.

(* variables given to the parser override those of the file, in every configuration of
   the tree (included and excluded files, recursively), and every path rule is built
   with that environment; a variable the parser does not give has the file's value *)
Theorem C13_env_override : forall fuel path env ig c,
  parse load set_root resolve fuel path env ig = TOk c ->
  forall c', In c' (tconfigs c) ->
    (forall k, match dlast k env with
               | Some v => dget k (t_env c') = Some v
               | None => exists data, load (t_path c') = Some data /\
                                      dget k (t_env c') = dlast k (td_env data)
               end) /\
    Forall (fun r => tr_env r = t_env c') (t_rules c').
Proof. exact (parse_env load set_root resolve). Qed.

(* only the top configuration carries excludes (ExcludeError otherwise): the shape of
   [project] in Model/ProjectFiles.v *)
Theorem C13_excludes_top_only : forall fuel path env ig c,
  parse load set_root resolve fuel path env ig = TOk c ->
  Forall (fun ch => deep_excludes ch = false) (t_children c ++ t_excludes c).
Proof. exact (parse_excludes_top_only load set_root resolve). Qed.
End C13_Toml.

(* ---- a concrete project: premises are satisfiable, and a run ------------------------- *)
Module Ex.
Definition s (l : list nat) : str := of_ascii l.
(* "l/" and "r/" *)
Definition pl : str := s [108; 47].
Definition pr : str := s [114; 47].
(* matcher ids: 0 = the rule's l10n pattern, 1 = the same bound to the locale, 2 = reference *)
Definition prefix (m : nat) : str := match m with 1 => pl | 2 => pr | _ => [] end.
Definition matches (m : nat) (p : str) : bool := starts_with (prefix m) p.
Definition sub (m m' : nat) (p : str) : option str :=
  if matches m p then Some (prefix m' ++ skipn (length (prefix m)) p) else None.
Definition with_locale (m : nat) : nat := match m with 0 => 1 | _ => m end.
Definition fs : list str :=
  [s [108; 47; 98]; s [108; 47; 97]; s [114; 47; 97]; s [114; 47; 99]; s [120; 47; 97]].
Definition de : str := s [100; 101].
Definition cfg : cnode nat :=
  CNode (s [116]) (Some [de]) [mkrule 0 (Some 2) [7%N] None; mkrule 0 (Some 2) [9%N] (Some [de])] [].
Definition pf := build prefix (fun _ _ => true) (fun x => x) with_locale (fun m => m)
                       (Some de) false [mkproject cfg []].
End Ex.

(* l/a and l/b exist; r/a, r/c exist: l/a compared, l/b obsolete, l/c missing; the two
   rules are duplicates, their tests are merged *)
Example C13_example :
  match Ex.pf with
  | POk f =>
      iterate Ex.prefix Ex.matches Ex.sub Ex.fs f =
      POk [(Some (Ex.s [108; 47; 97]), Some (Ex.s [114; 47; 97]), None, [9; 7]%N);
           (Some (Ex.s [108; 47; 98]), Some (Ex.s [114; 47; 98]), None, [9; 7]%N);
           (Some (Ex.s [108; 47; 99]), Some (Ex.s [114; 47; 99]), None, [9; 7]%N)]
      /\ map (fun c => action_code (fst c))
             (fst (drive Ex.fs
                (match iterate Ex.prefix Ex.matches Ex.sub Ex.fs f with POk es => es | _ => [] end)))
         = [2; 1; 0]%Z
  | PRaise _ => False
  end.
Proof. vm_compute. split; reflexivity. Qed.

(* the contracts and side conditions of C13_complete / C13_claim / C13_lookup_agrees hold
   of this project for the file l/a *)
Example C13_premises_example :
  (forall m p, Ex.matches m p = true -> starts_with (Ex.prefix m) p = true) /\
  (forall m m' q p, Ex.sub m m' q = Some p -> Ex.matches m' p = true) /\
  match Ex.pf with
  | POk f =>
      exists m0 post, pf_matchers f = [] ++ m0 :: post /\
        In (Ex.s [108; 47; 97]) Ex.fs /\
        Ex.matches (m_l10n m0) (Ex.s [108; 47; 97]) = true /\
        excluded Ex.matches Ex.sub (pf_locale f) (pf_exclude f) (Ex.s [108; 47; 97]) = false /\
        reachable Ex.prefix Ex.fs (m_l10n m0) (Ex.s [108; 47; 97]) /\
        pf_locale f <> None
  | PRaise _ => False
  end.
Proof.
  split; [intros m p H; exact H|]. split.
  - intros m m' q p. unfold Ex.sub. destruct (Ex.matches m q); [|discriminate].
    intro H. inversion H. unfold Ex.matches. apply starts_with_iff. eexists. reflexivity.
  - vm_compute. eexists. eexists. split; [reflexivity|].
    split; [right; left; reflexivity|]. split; [reflexivity|]. split; [reflexivity|].
    split; [|discriminate]. split; [right; left; reflexivity | discriminate].
Qed.

(* ---- refuted without [reachable]: a wildcard pattern whose prefix is itself a file --------
   rule l10n = "l/a*", files l/a and l/ab: _files yields the prefix and returns, the
   covered file l/ab is not enumerated although match() finds it. *)
Module ExR.
Definition pa : str := of_ascii [108; 47; 97].
Definition pab : str := of_ascii [108; 47; 97; 98].
Definition prefix (m : nat) : str := match m with 1 => pa | _ => [] end.
Definition matches (m : nat) (p : str) : bool := starts_with (prefix m) p.
Definition sub (m m' : nat) (p : str) : option str := None.
Definition fs : list str := [pa; pab].
Definition f : @pfiles nat :=
  mkpfiles (Some (of_ascii [100; 101])) [mkmrec 1 None None []] None.
End ExR.

Theorem C13_prefix_file_refuted :
  exists out,
    (forall m p, ExR.matches m p = true -> starts_with (ExR.prefix m) p = true) /\
    In ExR.pab ExR.fs /\
    (exists m, In m (pf_matchers ExR.f) /\ ExR.matches (m_l10n m) ExR.pab = true) /\
    excluded ExR.matches ExR.sub (pf_locale ExR.f) (pf_exclude ExR.f) ExR.pab = false /\
    iter_locale ExR.prefix ExR.matches ExR.sub ExR.fs ExR.f = POk out /\
    (forall e, In e out -> ekey e <> Some ExR.pab) /\
    pf_match ExR.matches ExR.sub ExR.f ExR.pab <> None.
Proof.
  eexists. split; [intros m p H; exact H|].
  split; [right; left; reflexivity|].
  split; [eexists; split; [left; reflexivity | reflexivity]|].
  split; [reflexivity|].
  split; [vm_compute; reflexivity|].
  split.
  - intros e [<-|[]]. vm_compute. discriminate.
  - vm_compute. discriminate.
Qed.

(* ---- refuted: completeness relative to the RULES.  Duplicate dropping compares the
   prefix and the pattern, not the environment: two rules with the same pattern text
   whose variables after the first wildcard are bound differently (l/*.{ext} with
   ext = a / ext = b) are "duplicates"; the earlier one is dropped and the file only it
   covers is neither enumerated nor found by match(). *)
Module ExD.
Definition la : str := of_ascii [108; 47; 97].
Definition lb : str := of_ascii [108; 47; 98].
Definition prefix (m : nat) : str := of_ascii [108; 47].
Definition matches (m : nat) (p : str) : bool :=
  match m with 1 => str_eqb p la | 11 => str_eqb p lb | _ => false end.
Definition sub (m m' : nat) (p : str) : option str := None.
Definition with_locale (m : nat) : nat := S m.
Definition fs : list str := [la; lb].
Definition de : str := of_ascii [100; 101].
Definition ruleA : rule nat := mkrule 0 None [] None.
Definition ruleB : rule nat := mkrule 10 None [] None.
Definition cfg : cnode nat := CNode (of_ascii [116]) (Some [de]) [ruleA; ruleB] [].
Definition pf := build prefix (fun _ _ => true) (fun x => x) with_locale (fun m => m)
                       (Some de) false [mkproject cfg []].
End ExD.

Theorem C13_dedup_env_refuted :
  exists f out,
    ExD.pf = POk f /\
    iter_locale ExD.prefix ExD.matches ExD.sub ExD.fs f = POk out /\
    (* rule A is enabled, covers the existing file l/a, which is reachable and not excluded *)
    In ExD.ruleA (enabled_rules (Some ExD.de) [ExD.cfg]) /\
    ExD.matches (ExD.with_locale (r_l10n ExD.ruleA)) ExD.la = true /\
    In ExD.la ExD.fs /\ reachable ExD.prefix ExD.fs (ExD.with_locale (r_l10n ExD.ruleA)) ExD.la /\
    excluded ExD.matches ExD.sub (pf_locale f) (pf_exclude f) ExD.la = false /\
    (* and yet *)
    (forall e, In e out -> ekey e <> Some ExD.la) /\
    pf_match ExD.matches ExD.sub f ExD.la = None.
Proof.
  eexists. eexists. split; [vm_compute; reflexivity|].
  split; [vm_compute; reflexivity|].
  split; [vm_compute; left; reflexivity|].
  split; [reflexivity|]. split; [left; reflexivity|].
  split; [split; [right; left; reflexivity | vm_compute; discriminate]|].
  split; [reflexivity|]. split.
  - intros e [<-|[]]. vm_compute. discriminate.
  - vm_compute. reflexivity.
Qed.

(* ---- refuted: "no file of an excluded configuration".  The exclude test is applied to
   the walked path only: a reference file that no exclude rule matches (an l10n-only rule
   in the excluded file) still produces the excluded localized path, which match() refuses. *)
Module ExX.
Definition la : str := of_ascii [108; 47; 97].
Definition ra : str := of_ascii [114; 47; 97].
Definition prefix (m : nat) : str :=
  match m with 2 => of_ascii [114; 47] | _ => of_ascii [108; 47] end.
Definition matches (m : nat) (p : str) : bool := starts_with (prefix m) p.
Definition sub (m m' : nat) (p : str) : option str :=
  if matches m p then Some (prefix m' ++ skipn 2 p) else None.
Definition fs : list str := [la; ra].
Definition f : @pfiles nat :=
  mkpfiles (Some (of_ascii [100; 101])) [mkmrec 1 (Some 2) None []] (Some [mkmrec 3 None None []]).
End ExX.

Theorem C13_exclude_l10n_only_refuted :
  exists out,
    iter_locale ExX.prefix ExX.matches ExX.sub ExX.fs ExX.f = POk out /\
    In ExX.la ExX.fs /\
    excluded ExX.matches ExX.sub (pf_locale ExX.f) (pf_exclude ExX.f) ExX.la = true /\
    In (Some ExX.la, Some ExX.ra, None, []) out /\
    pf_match ExX.matches ExX.sub ExX.f ExX.la = None.
Proof.
  eexists. split; [vm_compute; reflexivity|].
  split; [left; reflexivity|]. split; [reflexivity|].
  split; [left; reflexivity | reflexivity].
Qed.

(* ==== END TO END: the Matcher parameter instantiated with the modelled Matcher of C11 / C12 ====
   Proofs/ProjectFilesMatcher.v.  The tables are now FUNCTIONS of Model/Matcher.v:
     e_matches m p  :=  match_ m p = Ok (Some _)        e_sub m m' p  :=  sub m m' p (Ok (Some q))
     e_prefix m     :=  prefix m                         e_pat m m'    :=  pattern_eqb
     e_with_env kv  :=  with_env
   rules are pattern TEXTS compiled by mk_matcher (compile_rule / compile_cnode /
   compile_project), and the file list is os.walk over a directory tree (Model/FsTree.v).
   The matcher contracts of the theorems above are no longer premises: they are discharged from
   C12_prefix_rooted and C11_roundtrip_rooted for matchers of the rooted grammar
   ([walkable_matcher]: simple_rooted, prefix defined and containing '/'; [in_grammar_rooted]).
   What remains as premises is stated in the theorems: the grammar itself, "no final newline"
   (CPython's `$`), and [prefix_not_a_sibling_file] (C13_prefix_file_refuted). *)
From CL Require Import Base.Res Regex.Rx Model.Pattern Model.Matcher
  Proofs.MatcherSpec Proofs.MatcherRoundtrip Proofs.MatcherRooted
  Model.FsTree Proofs.FsTreeProofs Proofs.ProjectFilesMatcher Proofs.ProjectFilesRefine.

(* os.walk of a directory of the tree = the prefix filter [walk] of the model, for both
   spellings of the directory (with and without the trailing slash) *)
Theorem C13_walk_is_tree_walk : forall segs t root es,
  wf_tree t -> subtree t segs = Some (TDir es) ->
  dirpath root segs <> [] -> ends_slash (dirpath root segs) = false ->
  walk (walk_tree root t) (dirpath root segs) = walk_tree (dirpath root segs) (TDir es) /\
  walk (walk_tree root t) (dirpath root segs ++ [SLASH]) = walk_tree (dirpath root segs) (TDir es).
Proof. exact model_walk_is_tree_walk. Qed.

(* _files(matcher) is the tree walk from the prefix directory, filtered by excludes and match *)
Theorem C13_files_is_tree_walk : forall t root segs es loc ex (m : matcher),
  wf_tree t -> subtree t segs = Some (TDir es) ->
  dirpath root segs <> [] -> ends_slash (dirpath root segs) = false ->
  isfile (walk_tree root t) (e_prefix m) = false ->
  (e_prefix m = dirpath root segs ++ [SLASH] \/
   (ends_slash (e_prefix m) = false /\ dirname (e_prefix m) = dirpath root segs)) ->
  files e_prefix e_matches e_sub (walk_tree root t) loc ex m =
  filter (fun p => negb (excluded e_matches e_sub loc ex p) && e_matches m p)
         (walk_tree (dirpath root segs) (TDir es)).
Proof. exact files_is_tree_walk. Qed.

(* completeness: every file of the tree that a listed rule's l10n (reference) pattern matches
   lies under that matcher's prefix (C12_prefix_rooted), hence is visited by the walk from
   the prefix, and is yielded (under its own path / under its image) *)
Theorem C13_complete_end_to_end : forall t root (f : @pfiles matcher) out m p,
  iter_locale e_prefix e_matches e_sub (walk_tree root t) f = POk out ->
  In m (pf_matchers f) -> In p (walk_tree root t) ->
  excluded e_matches e_sub (pf_locale f) (pf_exclude f) p = false ->
  (forall d, walkable_matcher (m_l10n m) -> match_ (m_l10n m) p = Ok (Some d) ->
     prefix_not_a_sibling_file (walk_tree root t) (m_l10n m) p ->
     starts_with (e_prefix (m_l10n m)) p = true /\
     In p (files e_prefix e_matches e_sub (walk_tree root t) (pf_locale f) (pf_exclude f) (m_l10n m)) /\
     exists r mg ts, In (Some p, r, mg, ts) out) /\
  (forall rm d, m_ref m = Some rm -> walkable_matcher rm -> match_ rm p = Ok (Some d) ->
     prefix_not_a_sibling_file (walk_tree root t) rm p ->
     starts_with (e_prefix rm) p = true /\
     In p (files e_prefix e_matches e_sub (walk_tree root t) (pf_locale f) (pf_exclude f) rm) /\
     exists r mg ts, In (e_sub rm (m_l10n m) p, r, mg, ts) out).
Proof.
  intros t root f out m p H Hm Hp Hex. split.
  - intros d Hw Hmt Hf. eapply complete_e2e_l10n; eauto.
  - intros rm d Hr Hw Hmt Hf. eapply complete_e2e_ref; eauto.
Qed.

(* soundness, from the pattern texts: a yielded tuple is claimed by a matcher that is the
   l10n pattern text of an enabled rule bound to the locale; the path (or, for a file found on
   the reference side, the reference file) is an existing, non-excluded file that this pattern
   matches; the other side is its image under sub; and when both patterns are of the grammar
   with the same wildcards the pair maps back (C11_roundtrip_rooted) *)
Theorem C13_sound_end_to_end : forall realpath kvl kvm tps ps locale hm fs f out k r mg ts,
  map_res compile_project tps = Ok ps ->
  build e_prefix e_pat realpath (e_with_env kvl) (e_with_env kvm) locale hm ps = POk f ->
  iter_locale e_prefix e_matches e_sub fs f = POk out -> In (k, r, mg, ts) out ->
  exists m tr L,
    In m (pf_matchers f) /\ ts = m_test m /\
    Matcher.mk_matcher (tl10n tr) (tenv tr) (troot tr) = Ok L /\ m_l10n m = e_with_env kvl L /\
    match tref tr, m_ref m with
    | None, None => True
    | Some x, Some R => Matcher.mk_matcher x (tenv tr) (troot tr) = Ok R
    | _, _ => False
    end /\
    rule_enabled locale (mkrule L (m_ref m) (ttest tr) (tlocales tr)) = true /\
    ((exists p d, k = Some p /\ In p fs /\ match_ (m_l10n m) p = Ok (Some d) /\
        excluded e_matches e_sub (pf_locale f) (pf_exclude f) p = false /\
        r = osub e_sub (m_l10n m) (m_ref m) p /\ mg = osub e_sub (m_l10n m) (m_merge m) p /\
        (forall rm rp, m_ref m = Some rm -> r = Some rp ->
           in_grammar_rooted (m_l10n m) -> in_grammar_rooted rm -> same_wildcards (m_l10n m) rm ->
           no_final_newline p -> no_final_newline rp ->
           (exists d', match_ rm rp = Ok (Some d')) /\ Matcher.sub rm (m_l10n m) rp = Ok (Some p))) \/
     (exists rm q d, m_ref m = Some rm /\ In q fs /\ match_ rm q = Ok (Some d) /\
        excluded e_matches e_sub (pf_locale f) (pf_exclude f) q = false /\
        k = e_sub rm (m_l10n m) q /\ r = Some q /\ mg = osub e_sub rm (m_merge m) q /\
        (forall kp, k = Some kp ->
           in_grammar_rooted rm -> in_grammar_rooted (m_l10n m) -> same_wildcards rm (m_l10n m) ->
           no_final_newline q -> no_final_newline kp ->
           (exists d', match_ (m_l10n m) kp = Ok (Some d')) /\ Matcher.sub (m_l10n m) rm kp = Ok (Some q)))).
Proof.
  intros realpath kvl kvm tps ps locale hm fs f out k r mg ts Hc Hb Hi Hin.
  destruct (sound_e2e fs f out k r mg ts Hi Hin) as [m [Hm [Ht Hd]]].
  destruct (build_from_texts realpath kvl kvm tps ps locale hm f m Hc Hb Hm)
    as [tr [L [A1 [A2 [A3 [_ [_ A6]]]]]]].
  exists m, tr, L. repeat (split; [assumption|]). exact Hd.
Qed.

(* the claiming rule and enumeration = lookup, with the sub contract discharged from
   C11_roundtrip_rooted (the earlier matchers are of the grammar; paths end in no newline) *)
Theorem C13_claim_end_to_end : forall fs (f : @pfiles matcher) out pre m0 post p d,
  iter_locale e_prefix e_matches e_sub fs f = POk out -> pf_matchers f = pre ++ m0 :: post ->
  Forall no_final_newline fs ->
  (forall m r, In m pre -> m_ref m = Some r ->
     in_grammar_rooted r /\ in_grammar_rooted (m_l10n m) /\ same_wildcards r (m_l10n m)) ->
  (forall m, In m pre -> match_ (m_l10n m) p = Ok None) ->
  In p fs -> walkable_matcher (m_l10n m0) -> match_ (m_l10n m0) p = Ok (Some d) ->
  excluded e_matches e_sub (pf_locale f) (pf_exclude f) p = false ->
  prefix_not_a_sibling_file fs (m_l10n m0) p ->
  forall r mg ts,
    In (Some p, r, mg, ts) out <->
    (r = osub e_sub (m_l10n m0) (m_ref m0) p /\ mg = osub e_sub (m_l10n m0) (m_merge m0) p /\
     ts = m_test m0).
Proof. exact claim_e2e. Qed.

Theorem C13_lookup_agrees_end_to_end : forall fs (f : @pfiles matcher) out pre m0 post p d,
  iter_locale e_prefix e_matches e_sub fs f = POk out -> pf_locale f <> None ->
  pf_matchers f = pre ++ m0 :: post ->
  Forall no_final_newline fs ->
  (forall m r, In m pre -> m_ref m = Some r ->
     in_grammar_rooted r /\ in_grammar_rooted (m_l10n m) /\ same_wildcards r (m_l10n m)) ->
  (forall m, In m pre -> match_ (m_l10n m) p = Ok None) ->
  (forall m r, In m pre -> m_ref m = Some r -> match_ r p = Ok None) ->
  In p fs -> walkable_matcher (m_l10n m0) -> match_ (m_l10n m0) p = Ok (Some d) ->
  excluded e_matches e_sub (pf_locale f) (pf_exclude f) p = false ->
  prefix_not_a_sibling_file fs (m_l10n m0) p ->
  forall e, In e out /\ ekey e = Some p <-> pf_match e_matches e_sub f p = Some e.
Proof. exact lookup_e2e. Qed.

(* refinement: finite tables that agree with the Matcher functions on the prefixes and on
   the files of the tree (what the harness feeds the extracted model) give the same
   enumeration and the same lookups; every table-based theorem above therefore speaks about
   the run of the model on the tables *)
Theorem C13_tables_refine : forall {M : Type} (prefix prefix' : M -> str)
    (matches matches' : M -> str -> bool) (sub sub' : M -> M -> str -> option str) fs,
  (forall m, prefix m = prefix' m) ->
  (forall m p, In p fs -> matches m p = matches' m p) ->
  (forall m m' p, In p fs -> sub m m' p = sub' m m' p) ->
  forall f, iterate prefix matches sub fs f = iterate prefix' matches' sub' fs f /\
            forall p, In p fs -> pf_match matches sub f p = pf_match matches' sub' f p.
Proof.
  intros M prefix prefix' matches matches' sub sub' fs H1 H2 H3 f. split.
  - apply iterate_ext; assumption.
  - intros p Hp. apply pf_match_ext with (fs := fs); assumption.
Qed.

(* ---- a concrete project, from pattern texts and a directory tree, run through the regex engine:
   root /t, rule l10n = "l/{locale}/*.ftl", reference = "en/*.ftl", test 3, locale de;
   tree /t/en/{a,b}.ftl, /t/l/de/{a.ftl,x.txt} *)
Module ExE.
Definition a (l : list nat) : str := of_ascii l.
Definition l10n_text : str := a [108;47;123;108;111;99;97;108;101;125;47;42;46;102;116;108].
Definition ref_text : str := a [101;110;47;42;46;102;116;108].
Definition de : str := a [100;101].
Definition root : option str := Some (a [47;116]).
Definition kvl : list (str * str) := [(s_locale, de)].
Definition tr : trule := mktrule l10n_text (Some ref_text) [] root [3%N] None.
Definition tp : tproject := mktproject (TCNode (a [99]) (Some [de]) [tr] []) [].
Definition tree : FsTree.tree :=
  TDir [(a [116], TDir [(a [101;110], TDir [(a [97;46;102;116;108], TFile); (a [98;46;102;116;108], TFile)]);
                        (a [108], TDir [(de, TDir [(a [97;46;102;116;108], TFile); (a [120;46;116;120;116], TFile)])])])].
Definition fs : list str := walk_tree [] tree.
(* the l10n matcher of the rule bound to the locale, and the reference matcher *)
Definition Lb : result matcher := do m <- Matcher.mk_matcher l10n_text [] root; with_env m kvl.
Definition Rm : result matcher := Matcher.mk_matcher ref_text [] root.
Definition pf : option (@pfiles matcher) :=
  match map_res compile_project [tp] with
  | Ok ps =>
      match build e_prefix e_pat (fun x => x) (e_with_env kvl) (e_with_env []) (Some de) false ps with
      | POk f => Some f
      | PRaise _ => None
      end
  | Raise _ => None
  end.
End ExE.

Example C13_end_to_end_example :
  ExE.fs = map ExE.a [[47;116;47;101;110;47;97;46;102;116;108]; [47;116;47;101;110;47;98;46;102;116;108];
                      [47;116;47;108;47;100;101;47;97;46;102;116;108]; [47;116;47;108;47;100;101;47;120;46;116;120;116]] /\
  match ExE.pf with
  | Some f =>
      map (fun m => e_prefix (m_l10n m)) (pf_matchers f) = [ExE.a [47;116;47;108;47;100;101;47]] /\
      iterate e_prefix e_matches e_sub ExE.fs f =
      POk [(Some (ExE.a [47;116;47;108;47;100;101;47;97;46;102;116;108]),
            Some (ExE.a [47;116;47;101;110;47;97;46;102;116;108]), None, [3%N]);
           (Some (ExE.a [47;116;47;108;47;100;101;47;98;46;102;116;108]),
            Some (ExE.a [47;116;47;101;110;47;98;46;102;116;108]), None, [3%N])] /\
      pf_match e_matches e_sub f (ExE.a [47;116;47;101;110;47;98;46;102;116;108]) =
      Some (Some (ExE.a [47;116;47;108;47;100;101;47;98;46;102;116;108]),
            Some (ExE.a [47;116;47;101;110;47;98;46;102;116;108]), None, [3%N])
  | None => False
  end.
Proof. vm_compute. repeat split; reflexivity. Qed.

(* the premises of the end-to-end theorems hold of it: both matchers are of the rooted grammar
   with the same wildcards and can be walked from, the tree is well formed, no path ends in a
   newline, the prefix is no file *)
Example C13_end_to_end_premises_example : exists ML MR f,
  ExE.Lb = Ok ML /\ ExE.Rm = Ok MR /\ ExE.pf = Some f /\
  map (fun m => (m_l10n m, m_ref m)) (pf_matchers f) = [(ML, Some MR)] /\
  in_grammar_rooted ML /\ in_grammar_rooted MR /\ same_wildcards ML MR /\ same_wildcards MR ML /\
  walkable_matcher ML /\ walkable_matcher MR /\
  wf_tree ExE.tree /\ Forall no_final_newline ExE.fs /\
  (forall p, prefix_not_a_sibling_file ExE.fs ML p) /\ (forall p, prefix_not_a_sibling_file ExE.fs MR p).
Proof.
  destruct ExE.Lb as [ML|] eqn:EL; [|vm_compute in EL; discriminate].
  destruct ExE.Rm as [MR|] eqn:ER; [|vm_compute in ER; discriminate].
  destruct ExE.pf as [f|] eqn:EF; [|vm_compute in EF; discriminate].
  exists ML, MR, f. vm_compute in EL. inversion EL; subst ML. vm_compute in ER. inversion ER; subst MR.
  vm_compute in EF. inversion EF; subst f. clear EL ER EF.
  split; [reflexivity|]. split; [reflexivity|]. split; [reflexivity|]. split; [reflexivity|].
  match goal with |- in_grammar_rooted ?X /\ in_grammar_rooted ?Y /\ _ =>
    assert (GL : in_grammar_rooted X); [|assert (GR : in_grammar_rooted Y)] end.
  { split.
    - split; [vm_compute; repeat constructor; simpl; intuition discriminate|].
      simpl. eexists. split; [vm_compute; reflexivity|left; lia].
    - split; [split; [vm_compute; reflexivity|split; [reflexivity|]]|].
      { vm_compute. repeat constructor; simpl; intuition discriminate. }
      split; [eexists; eexists; vm_compute; reflexivity|].
      split. { repeat constructor; simpl; intros k H; inversion H. }
      split. { repeat constructor; simpl; discriminate. }
      left. reflexivity. }
  { split.
    - split; [constructor|]. simpl. eexists. split; [reflexivity|left; lia].
    - split; [split; [reflexivity|split; [reflexivity|constructor]]|].
      split; [eexists; eexists; vm_compute; reflexivity|].
      split; [repeat constructor|]. split; [repeat constructor|]. left. reflexivity. }
  split; [exact GL|]. split; [exact GR|]. split; [reflexivity|]. split; [reflexivity|].
  split.
  { split; [apply in_grammar_simple_rooted; exact GL|]. eexists. split; [vm_compute; reflexivity|].
    vm_compute. auto. }
  split.
  { split; [apply in_grammar_simple_rooted; exact GR|]. eexists. split; [vm_compute; reflexivity|].
    vm_compute. auto. }
  split; [vm_compute; repeat split; repeat constructor; simpl; intuition discriminate|].
  split.
  { vm_compute. repeat constructor; intros q H; apply (f_equal (@rev N)) in H;
      rewrite rev_app_distr in H; simpl in H; discriminate. }
  split; intros p H; vm_compute in H; discriminate.
Qed.
