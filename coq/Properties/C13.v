(* C13 — placeholder while the harness is brought up; theorems follow. *)
From Coq Require Import NArith List.
From CL Require Import Model.ProjectFiles.
Import ListNotations.
Example C13_dirname_example : dirname [97; 47; 98]%N = [97]%N.
Proof. vm_compute. reflexivity. Qed.
