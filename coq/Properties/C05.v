(* C05 — comparison and linting always produce a report, whatever the content.

   What is proved here is what lives in this repository's own code, over
   Model/Robust.v (Checker.check, the formatting branch of compare() and
   lint_value(), the try/except skeleton of compare/add/lint_file, the sort of
   the skips in merge()) and, for termination, over the C01 parser models.

   Oracles, NOT modelled (their behaviour is an input of the model; contracts are
   checked at run time by the harness suites DECODE and ROBUST):
     - the UTF-8 decoder with errors="replace" and universal newlines: the
       theorems quantify over every DECODED text s;
     - minidom/expat, xml.sax, fluent.syntax: "this step raised" is an input of
       the skeleton; which steps are guarded is a generated fact.
   Everything that crosses those boundaries, and the comparison proper (key
   diff, format-specific checks, merge), is established by execution (suite
   ROBUST), which is why the no-raise theorems carry the suffix _partial. *)
From Coq Require Import ZArith NArith List Bool Arith Lia.
From CL Require Import Base.Sx Base.Res Base.Str Regex.Rx Model.Entry Model.Parse
  Generated.RxParser Generated.RxC05 Generated.C05Facts Model.ParseFormats Model.LineCol
  Proofs.LineColProofs Proofs.WalkSpec Model.Robust Proofs.RobustProofs Proofs.RobustSkeleton.
Import ListNotations.

(* ---- the encoding warning ------------------------------------------------------ *)
(* Checker.check on any entity text: never raises (the regex engine never runs out
   of fuel), yields exactly one finding per U+FFFD of the text, in order, each an
   EntityPos at the offset of its occurrence, with the generated severity
   ("warning"), message ("� in: " + key) and category. *)
Theorem C05_fffd : forall all key : str,
  exists fs, encoding_findings all key = Ok fs /\
             length fs = count_char c05_fffd all /\
             map f_pos fs = map EntPos (occurrences c05_fffd 0 all) /\
             Forall (fun f => f_error f = c05_enc_is_error /\
                              f_msg f = render c05_enc_msg [key] /\
                              f_cat f = c05_enc_cat) fs.
Proof.
  intros all key. destruct (encoding_findings_spec all key) as [fs [H1 [H2 H3]]].
  exists fs. split; [exact H1|]. split; [|split; [exact H2|exact H3]].
  rewrite <- (map_length f_pos), H2, map_length. apply occurrences_length.
Qed.

(* [occurrences] is the plain scan: offset p + i is listed iff character i is c *)
Theorem C05_occurrences_sound : forall c s off, In off (occurrences c 0 s) -> nth_error s off = Some c.
Proof. intros c s off H. destruct (occurrences_nth c s 0 off H) as [i [-> Hi]]. exact Hi. Qed.

(* the generated facts are the expected ones: U+FFFD, a warning *)
Example C05_fffd_facts : c05_fffd = 65533%N /\ c05_enc_is_error = false.
Proof. split; reflexivity. Qed.

(* the arguments handed to the decoder oracle and the handlers around the XML
   oracles are the expected ones: errors="replace" in open() and in the decoder
   call, newline=None (universal newlines), `except Exception` around
   minidom.parseString in AndroidParser.walk *)
Example C05_oracle_facts :
  c05_open_errors = c05_s_replace /\ c05_decode_errors = c05_s_replace /\
  c05_open_universal_newlines = true /\ c05_android_catches_all = true.
Proof. repeat split; reflexivity. Qed.

(* ---- positions: every offset resolves, 1-based ------------------------------------ *)
(* for EVERY offset, also one beyond the end of the text (Entry.position adds an
   offset into entity.all to span[0], which overshoots by the length of a
   pre-comment): the search terminates, line and column are >= 1 and the start of
   the line found is not after the offset, so the column's subtraction is exact *)
Theorem C05_linecol_total : forall s p,
  exists k, linecol s p = Some (k + 1, p - line_start s k + 1) /\ line_start s k <= p.
Proof. exact linecol_any. Qed.

(* ---- one entity through check + position resolution (compare and lint_value) ---- *)
(* for every decoded text and every entity record (whatever its spans): no raise;
   one entry per U+FFFD of entity.all, in order; its line/column are those of
   offset span[0] + (offset of the occurrence in entity.all), both >= 1 *)
Theorem C05_entity : forall s e,
  exists es, check_entity s e = Ok es /\
    Forall2 (fun off x =>
               linecol s (fst (e_span e) + off) = Some (d_line x, d_col x) /\
               1 <= d_line x /\ 1 <= d_col x /\
               d_error x = c05_enc_is_error /\ d_msg x = render c05_enc_msg [ent_key s e])
            (occurrences c05_fffd 0 (ent_all s e)) es.
Proof. exact check_entity_spec. Qed.

(* an entity without a pre-comment: every reported (line, column) is the C17
   position of a U+FFFD character of the file *)
Theorem C05_entity_points_at_char : forall s e es,
  e_start e = fst (e_span e) -> check_entity s e = Ok es ->
  Forall (fun x => exists p, nth_error s p = Some c05_fffd /\
                             linecol s p = Some (d_line x, d_col x) /\
                             d_line x = 1 + count_nl (firstn p s) /\
                             d_col x = 1 + cur 0 (firstn p s)) es.
Proof. exact check_entity_points. Qed.

(* ---- report shape: the formatting branch of compare() --------------------------------- *)
(* for every decoded text and every list of shared entities: no raise; the number
   of entries is the number of U+FFFD in the shared entities' texts; every entry
   is (severity, text) with text = TEMPLATE % (msg, line, col, key) — the generated
   "%s at line %d, column %d for %s" — and line, column >= 1 *)
Theorem C05_shape : forall s shared,
  exists ds, compare_details s shared = Ok ds /\
    length ds = total_fffd s shared /\
    Forall (fun d => exists e x off,
              In e shared /\ In off (occurrences c05_fffd 0 (ent_all s e)) /\
              linecol s (fst (e_span e) + off) = Some (d_line x, d_col x) /\
              1 <= d_line x /\ 1 <= d_col x /\
              fst d = c05_enc_is_error /\
              snd d = render c05_fmt [render c05_enc_msg [ent_key s e]; dec_of_nat (d_line x);
                                      dec_of_nat (d_col x); ent_key s e]) ds.
Proof.
  intros s shared. destruct (compare_details_spec s shared) as [ds [H1 [H2 H3]]].
  exists ds. split; [exact H1|]. split; [exact H2|].
  eapply Forall_impl; [|exact H3]. intros d [e [He [x [off [Hoff [[Hl [L1 [L2 [E1 E2]]]] ->]]]]]].
  exists e, x, off. cbn [fst snd]. rewrite compare_message_eq, E2. repeat split; assumption.
Qed.

(* lint_value over all entities: the same, as {lineno, column, level, message} *)
Theorem C05_shape_lint : forall s every,
  exists xs, lint_details s every = Ok xs /\
    length xs = total_fffd s every /\
    Forall (fun x => exists e off, In e every /\
              linecol s (fst (e_span e) + off) = Some (d_line x, d_col x) /\
              1 <= d_line x /\ 1 <= d_col x /\ d_error x = c05_enc_is_error /\
              d_msg x = render c05_enc_msg [ent_key s e]) xs.
Proof.
  intros s every. destruct (lint_details_spec s every) as [xs [H1 [H2 H3]]].
  exists xs. split; [exact H1|]. split; [exact H2|].
  eapply Forall_impl; [|exact H3]. intros x [e [off [He Hr]]]. exists e, off. split; [exact He|exact Hr].
Qed.

(* a concrete run, evaluated by the kernel: "k=�\n# c\nj=a�" with the entities k
   (no pre-comment) and j (pre-comment "# c\n": entity.all starts at 4, span at 8).
   The second warning's column is 8, not 4: the offset into entity.all is added
   to span[0] (the implementation does the same; suite FORMAT) *)
Example C05_example :
  compare_details [107; 61; 65533; 10; 35; 32; 99; 10; 106; 61; 97; 65533]%N
    [mk_ent 0 (0, 3) (0, 1) (Some (2, 3)); mk_ent 4 (8, 12) (8, 9) (Some (10, 12))]
  = Ok [(false, [65533; 32; 105; 110; 58; 32; 107; 32; 97; 116; 32; 108; 105; 110; 101; 32; 49; 44; 32;
                 99; 111; 108; 117; 109; 110; 32; 51; 32; 102; 111; 114; 32; 107]%N);
        (false, [65533; 32; 105; 110; 58; 32; 106; 32; 97; 116; 32; 108; 105; 110; 101; 32; 51; 44; 32;
                 99; 111; 108; 117; 109; 110; 32; 56; 32; 102; 111; 114; 32; 106]%N)].
Proof. vm_compute. reflexivity. Qed.

(* ---- termination of the text parsers: corollary of C01 --------------------------------- *)
(* for every text the walk returns Ok (never OutOfFuel) with at most one entry per
   character, and so does the localizable view that KeyedTuple(parser) consumes *)
Theorem C05_terminates_properties : forall s : str,
  exists es, walk (stateless gn_properties) tt s = Ok es /\ length es <= length s /\
             walk_localizable (stateless gn_properties) tt s = Ok (filter is_localizable es).
Proof. intros s. apply walk_ok_of_lossless. apply C01Final.lossless_properties. Qed.

Theorem C05_terminates_ini : forall s : str,
  exists es, walk (stateless gn_ini) tt s = Ok es /\ length es <= length s /\
             walk_localizable (stateless gn_ini) tt s = Ok (filter is_localizable es).
Proof. intros s. apply walk_ok_of_lossless. apply C01Final.lossless_ini. Qed.

Theorem C05_terminates_inc : forall s : str,
  exists es, walk gn_defines false s = Ok es /\ length es <= length s /\
             walk_localizable gn_defines false s = Ok (filter is_localizable es).
Proof. intros s. apply walk_ok_of_lossless. apply C01Final.lossless_defines. Qed.

Theorem C05_terminates_po : forall s : str,
  exists es, walk (stateless gn_po) tt s = Ok es /\ length es <= length s /\
             walk_localizable (stateless gn_po) tt s = Ok (filter is_localizable es).
Proof. intros s. apply walk_ok_of_lossless. apply C01Final.lossless_po. Qed.

Theorem C05_terminates_dtd : forall s : str,
  exists es, walk (stateless gn_dtd) tt s = Ok es /\ length es <= length s /\
             walk_localizable (stateless gn_dtd) tt s = Ok (filter is_localizable es).
Proof. exact walk_ok_dtd. Qed.

(* ---- the try/except skeleton -------------------------------------------------------------- *)
(* compare(): partial — says nothing about the comparison proper (outcome Body) and
   assumes that parsing the REFERENCE does not raise.  Under that assumption no
   failing step (reading either file, parsing the localization) lets an
   exception escape; a failing localization yields the one-error report. *)
Theorem C05_compare_no_escape_partial : forall has_parser read_ref read_l10n parse_l10n,
  compare_skeleton has_parser read_ref true read_l10n parse_l10n <> Escapes.
Proof. exact compare_skeleton_guarded. Qed.

Theorem C05_compare_l10n_failure_reported : forall read_l10n parse_l10n,
  read_l10n && parse_l10n = false ->
  compare_skeleton true true true read_l10n parse_l10n = ErrorReport.
Proof. intros rl pl H. apply compare_skeleton_l10n_reported; [reflexivity|exact H]. Qed.

Example C05_compare_l10n_failure_example : compare_skeleton true true true true false = ErrorReport.
Proof. vm_compute. reflexivity. Qed.

(* the assumption cannot be dropped: `ref_entities = p.parse()` is outside every
   handler, an exception there leaves compare().  Witness on the implementation:
   a reference .ftl whose value nests 300 placeables (RecursionError inside
   fluent.syntax), or a strings.xml value nesting 1200 tags (RecursionError in
   minidom's toxml) — known findings ftl-/android-deep-nesting-recursionerror *)
Theorem C05_compare_reference_parse_refuted :
  exists read_l10n parse_l10n, compare_skeleton true true false read_l10n parse_l10n = Escapes.
Proof. exists true, true. vm_compute. reflexivity. Qed.

(* add(): every failing step is reported *)
Theorem C05_add_no_escape_partial : forall has_parser read parse,
  add_skeleton has_parser read parse <> Escapes.
Proof. exact add_skeleton_guarded. Qed.

(* lint_file(): nothing is guarded — it produces results only if no step raises *)
Theorem C05_lint_no_handler_refuted :
  exists has_ref read_ref parse_ref read parse,
    read && parse = false /\ lint_skeleton has_ref read_ref parse_ref read parse = Escapes.
Proof. exists false, true, true, true, false. split; vm_compute; reflexivity. Qed.

Theorem C05_lint_escapes_unless_all_ok : forall has_ref read_ref parse_ref read parse,
  lint_skeleton has_ref read_ref parse_ref read parse <> Escapes ->
  (has_ref = true -> read_ref = true /\ parse_ref = true) /\ read = true /\ parse = true.
Proof. exact lint_skeleton_all_ok. Qed.

(* ---- merge(): the sort of the skips of a strings.xml comparison (finding D9) ------------- *)
(* n shared strings with an error-level check result and j junk entries while merging:
   the sort raises TypeError exactly when there are at least two skips and at least
   one of them is an entity (its span is (None, None)) *)
Theorem C05_android_skips_sort : forall n j,
  sort_skips (android_skip_keys n j) =
  if (2 <=? n + j) && (1 <=? n) then Raise TypeError else Ok tt.
Proof. exact sort_skips_android. Qed.

Theorem C05_android_two_skips_refuted :
  exists n j, sort_skips (android_skip_keys n j) = Raise TypeError.
Proof. exists 2, 0. vm_compute. reflexivity. Qed.
