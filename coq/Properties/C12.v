(* C12 — pattern expansion, matching and prefix are mutually consistent.
   Same model as C11 (Model/Pattern.v, Model/Matcher.v); the grammar [simple]
   is the one of Proofs/MatcherSpec.v. *)
From Coq Require Import NArith List Bool Arith Lia.
From CL Require Import Base.Sx Base.Res Base.Str Regex.Rx Regex.RxLemmas Model.Pattern Model.Matcher
  Proofs.MatcherSpec Proofs.MatcherSound Proofs.MatcherExpand Proofs.MatcherComplete
  Proofs.MatcherFinal Proofs.PatternFuel Proofs.AndroidProofs Proofs.MatcherUnique
  Proofs.MatcherRooted Proofs.MatcherNested Proofs.MozpathProofs.
Import ListNotations.

(* A fully bound pattern (literals and bound variables only) expands to a path
   that the same matcher matches, returning the bound values. *)
Theorem C12_expand_match : forall M, simple M -> compiles M ->
  Forall var_not_star (p_nodes (m_pat M)) -> fully_bound M ->
  exists path d, str_of M = Ok path /\ match_ M path = Ok (Some d) /\
    forall name rep, In (NVar name rep) (p_nodes (m_pat M)) ->
      exists v t, lookup name (m_env M) = Some v /\ value_text v = Some t /\
                  lookup name d = Some (Some t).
Proof. exact expand_then_match. Qed.

(* {base}/{locale}/f.ftl with base = /l10n, locale = de *)
Example C12_expand_match_example : exists M,
  mk_matcher (of_ascii [123;98;97;115;101;125;47;123;108;111;99;97;108;101;125;47;102;46;102;116;108])
             [(of_ascii [108;111;99;97;108;101], of_ascii [100;101]);
              (of_ascii [98;97;115;101], of_ascii [47;108;49;48;110])] None = Ok M /\
  simple M /\ compiles M /\ Forall var_not_star (p_nodes (m_pat M)) /\ fully_bound M /\
  str_of M = Ok (of_ascii [47;108;49;48;110;47;100;101;47;102;46;102;116;108]).
Proof.
  match goal with |- exists M, ?mk = Ok M /\ _ => destruct mk as [M|] eqn:E; [|vm_compute in E; discriminate] end.
  exists M. vm_compute in E. inversion E; subst M. split; [reflexivity|].
  split; [split; [vm_compute; reflexivity|split; [reflexivity|]]|].
  { vm_compute. repeat constructor; simpl; intuition discriminate. }
  split; [eexists; eexists; vm_compute; reflexivity|].
  split; [repeat constructor; simpl; intros k H; inversion H|].
  split; vm_compute; reflexivity.
Qed.

(* Every path a matcher matches starts with the matcher's prefix (whenever the
   prefix is defined: it raises for a pattern whose prefix part needs a star). *)
Theorem C12_prefix : forall M path d pre, simple M ->
  match_ M path = Ok (Some d) -> prefix M = Ok pre -> starts_with pre path = true.
Proof. exact match_starts_with_prefix. Qed.

(* A single star never matches across a directory separator. *)
Theorem C12_star_segment : forall M path d k, simple M -> match_ M path = Ok (Some d) ->
  In (NStar k) (p_nodes (m_pat M)) ->
  exists v, lookup (star_name k) d = Some (Some v) /\ has_char c_slash v = false.
Proof.
  intros M path d k HS Hm Hin. pose proof (match_kinds_ok M path d HS Hm) as Hk.
  unfold kinds_ok in Hk. rewrite Forall_forall in Hk. exact (Hk _ Hin).
Qed.

(* A double star matches nothing (its group takes no part), or a non-empty text
   without newline followed by its suffix: whole directories d1/.../dk/ for the
   suffix "/". *)
Theorem C12_starstar_dirs : forall M path d k suffix, simple M ->
  match_ M path = Ok (Some d) -> In (NStarstar k suffix) (p_nodes (m_pat M)) ->
  lookup (star_name k) d = Some None \/
  exists b, b <> [] /\ has_char nl b = false /\
            lookup (star_name k) d = Some (Some (b ++ suffix)).
Proof.
  intros M path d k suffix HS Hm Hin. pose proof (match_kinds_ok M path d HS Hm) as Hk.
  unfold kinds_ok in Hk. rewrite Forall_forall in Hk. exact (Hk _ Hin).
Qed.

(* Nothing but complete paths match — for EVERY pattern and environment, not
   only the grammar: the compiled regular expression consumed the whole path,
   or all of it but one final newline (CPython's `$`; stated, not hidden). *)
Theorem C12_whole_path : forall e p r names path x,
  regex_of_pattern e p = Ok (r, names) -> rmatch r path 0 = MSome x ->
  m_end x = length path \/ (S (m_end x) = length path /\ skipn (m_end x) path = [10%N]).
Proof. exact match_whole_path. Qed.

(* the caveat is real: a/*.x matches "a/b.x\n" with s1 = "b" *)
Example C12_whole_path_newline_example : exists M d,
  mk_matcher (of_ascii [97;47;42;46;120]) [] None = Ok M /\
  match_ M (of_ascii [97;47;98;46;120;10]) = Ok (Some d) /\
  lookup (star_name 1) d = Some (Some (of_ascii [98])).
Proof.
  destruct (mk_matcher (of_ascii [97;47;42;46;120]) [] None) as [M|] eqn:E; [|vm_compute in E; discriminate].
  vm_compute in E. inversion E; subst M. eexists. eexists. split; [reflexivity|].
  split; vm_compute; reflexivity.
Qed.

(* Expansion terminates whatever self- or mutual references the environment
   contains, as long as no value mentions {android_locale}: every fuel above
   |env| + 1 suffices, the model's own fuel is above it, and any larger fuel
   gives the same answer. *)
Theorem C12_expand_terminates : forall e,
  env_android_free e = true ->
  (forall fuel rm n, length e + 1 < fuel -> expand_node fuel e rm n <> Raise OutOfFuel) /\
  (forall fuel rm n, length e + 1 < fuel ->
     expand_node fuel e rm n = expand_node (length e + 2) e rm n) /\
  (forall rm p, expand_pattern e rm p <> Raise OutOfFuel).
Proof.
  intros e He. split; [|split].
  - intros. apply expand_node_terminates; auto.
  - intros. apply expand_node_enough; auto.
  - intros. apply expand_pattern_terminates; auto.
Qed.

(* self-reference and mutual reference: the expansion is cut at the variable
   that would recur (MissingEnvironment stops the iteration) *)
Example C12_expand_cut_example :
  (* a/{v}/b with v = "{v}x"  ->  "a/" ;   {m1} with m1 = a{m2}, m2 = b{m1}  ->  "" *)
  (do M <- mk_matcher (of_ascii [97;47;123;118;125;47;98])
             [(of_ascii [118], of_ascii [123;118;125;120])] None; str_of M)
    = Ok (of_ascii [97;47]) /\
  (do M <- mk_matcher (of_ascii [123;109;49;125])
             [(of_ascii [109;49], of_ascii [97;123;109;50;125]);
              (of_ascii [109;50], of_ascii [98;123;109;49;125])] None; str_of M)
    = Ok [].
Proof. split; vm_compute; reflexivity. Qed.

(* ... but a `locale` defined through {android_locale} recurses for ever
   (known finding expand-android-locale-cycle: RecursionError in the implementation) *)
Theorem C12_expand_terminates_android_cycle_refuted : exists e n,
  forall fuel rm, expand_node fuel e rm n = Raise OutOfFuel.
Proof. exists cyclic_env, (NAndroid false). exact android_cycle. Qed.

(* Android locale codes.  [to_android] is AndroidLocale._get_android_locale on
   the expanded locale, [to_bcp47] the android_locale -> locale step of
   Matcher.match; both run the engine on the regexes written in the source.
   Grammar: a language of 2 or 3 lower-case letters that is not one of the
   legacy codes iw / in / ji, optionally a script (one upper-case letter and
   three lower-case ones), optionally a region of two upper-case letters.
   On it the conversion to the resource qualifier and back is the identity. *)
Theorem C12_android_roundtrip : forall l, bcp47_grammar l ->
  (do a <- to_android l; to_bcp47 a) = Ok l.
Proof. exact android_roundtrip. Qed.

(* he-Latn-IL is in the grammar; its qualifier is b+iw+Latn+IL *)
Example C12_android_example :
  bcp47_grammar (of_ascii [104;101;45;76;97;116;110;45;73;76]) /\
  to_android (of_ascii [104;101;45;76;97;116;110;45;73;76])
    = Ok (of_ascii [98;43;105;119;43;76;97;116;110;43;73;76]) /\
  to_android (of_ascii [105;100;45;73;68]) = Ok (of_ascii [105;110;45;114;73;68]) /\   (* id-ID -> in-rID *)
  to_bcp47 (of_ascii [105;110;45;114;73;68]) = Ok (of_ascii [105;100;45;73;68]).
Proof.
  split; [|repeat split; vm_compute; reflexivity].
  exists (of_ascii [104;101]), (of_ascii [45;76;97;116;110;45;73;76]). split; [reflexivity|]. split.
  - apply L_two; unfold lower; simpl; try lia; reflexivity.
  - apply T_both; unfold lower, upper; simpl; lia.
Qed.

(* the exclusion of the legacy codes is necessary: iw comes back as he *)
Theorem C12_android_roundtrip_legacy_refuted : exists l,
  (do a <- to_android l; to_bcp47 a) = Ok (of_ascii [104;101]) /\ l <> of_ascii [104;101].
Proof. exists (of_ascii [105;119]). split; [vm_compute; reflexivity|discriminate]. Qed.

(* ---- rooted matchers (Proofs/MatcherRooted.v; how the root enters: see Properties/C11.v) ---- *)
Theorem C12_expand_match_rooted : forall M, rooted_ok M -> simple (unroot M) -> compiles (unroot M) ->
  Forall var_not_star (p_nodes (m_pat (unroot M))) -> fully_bound (unroot M) ->
  exists path d, str_of M = Ok path /\ match_ M path = Ok (Some d) /\
    forall name rep, In (NVar name rep) (p_nodes (m_pat M)) ->
      exists v t, lookup name (m_env M) = Some v /\ value_text v = Some t /\
                  lookup name d = Some (Some t).
Proof. exact expand_match_rooted. Qed.

Theorem C12_prefix_rooted : forall M path d pre, simple_rooted M ->
  match_ M path = Ok (Some d) -> prefix M = Ok pre -> starts_with pre path = true.
Proof. exact prefix_rooted. Qed.

(* {base}/{locale}/f.ftl under the root "/x/gecko-strings (copy)" *)
Example C12_expand_match_rooted_example : exists M,
  mk_matcher (of_ascii [123;98;97;115;101;125;47;123;108;111;99;97;108;101;125;47;102;46;102;116;108])
             [(of_ascii [108;111;99;97;108;101], of_ascii [100;101]); (of_ascii [98;97;115;101], of_ascii [108;49;48;110])]
             (Some (of_ascii [47;120;47;103;101;99;107;111;45;115;116;114;105;110;103;115;32;40;99;111;112;121;41])) = Ok M /\
  rooted_ok M /\ simple (unroot M) /\ compiles (unroot M) /\
  Forall var_not_star (p_nodes (m_pat (unroot M))) /\ fully_bound (unroot M) /\
  str_of M = Ok (of_ascii [47;120;47;103;101;99;107;111;45;115;116;114;105;110;103;115;32;40;99;111;112;121;41;47;108;49;48;110;47;100;101;47;102;46;102;116;108]) /\
  prefix M = Ok (of_ascii [47;120;47;103;101;99;107;111;45;115;116;114;105;110;103;115;32;40;99;111;112;121;41;47;108;49;48;110;47;100;101;47;102;46;102;116;108]).
Proof.
  match goal with |- exists M, ?mk = Ok M /\ _ => destruct mk as [M|] eqn:E; [|vm_compute in E; discriminate] end.
  exists M. vm_compute in E. inversion E; subst M. split; [reflexivity|].
  split.
  { split; [vm_compute; repeat constructor; simpl; intuition discriminate|].
    simpl. eexists. split; [vm_compute; reflexivity|left; lia]. }
  split; [split; [vm_compute; reflexivity|split; [reflexivity|]]|].
  { vm_compute. repeat constructor; simpl; intuition discriminate. }
  split; [eexists; eexists; vm_compute; reflexivity|].
  split; [vm_compute; repeat constructor; simpl; intros k H; inversion H|].
  split; [vm_compute; reflexivity|]. split; vm_compute; reflexivity.
Qed.

(* ---- nested variable values (Proofs/MatcherNested.v) ----------------------------------------
   Patterns of literals and variables whose values are again literals and variables, to
   any depth ([nested_ok]).  The premise "expansion with raise_missing = True succeeds"
   says that every variable at every depth has a value, i.e. no cycle is cut (a cut raises
   MissingEnvironment there; termination itself is C12_expand_terminates).  If moreover the
   regular expression compiles (no variable occurs twice, directly or through a value),
   the matcher matches its own expansion and binds every variable of the pattern to that
   variable's own expansion. *)
Theorem C12_expand_match_nested : forall M path, nested_ok M -> compiles M ->
  expand_pattern (m_env M) true (m_pat M) = Ok path ->
  str_of M = Ok path /\
  exists d, match_ M path = Ok (Some d) /\
    forall name, In (NVar name false) (p_nodes (m_pat M)) ->
      exists t, expand_node (expand_fuel (m_env M)) (m_env M) true (NVar name false) = Ok (IStr t) /\
                lookup name d = Some (Some t).
Proof. exact nested_expand_match. Qed.

(* {l}browser/{file}.ftl with l = {l10n_base}/{locale}/, l10n_base = /src/l10n, locale = de,
   file = menu *)
Example C12_expand_match_nested_example : exists M d,
  mk_matcher (of_ascii [123;108;125;98;114;111;119;115;101;114;47;123;102;105;108;101;125;46;102;116;108])
             [(of_ascii [108], of_ascii [123;108;49;48;110;95;98;97;115;101;125;47;123;108;111;99;97;108;101;125;47]);
              (of_ascii [108;49;48;110;95;98;97;115;101], of_ascii [47;115;114;99;47;108;49;48;110]);
              (of_ascii [108;111;99;97;108;101], of_ascii [100;101]);
              (of_ascii [102;105;108;101], of_ascii [109;101;110;117])] None = Ok M /\
  nested_ok M /\ compiles M /\
  expand_pattern (m_env M) true (m_pat M) = Ok (of_ascii [47;115;114;99;47;108;49;48;110;47;100;101;47;98;114;111;119;115;101;114;47;109;101;110;117;46;102;116;108]) /\
  match_ M (of_ascii [47;115;114;99;47;108;49;48;110;47;100;101;47;98;114;111;119;115;101;114;47;109;101;110;117;46;102;116;108]) = Ok (Some d) /\
  lookup (of_ascii [108]) d = Some (Some (of_ascii [47;115;114;99;47;108;49;48;110;47;100;101;47])) /\
  lookup (of_ascii [108;111;99;97;108;101]) d = Some (Some (of_ascii [100;101])).
Proof.
  match goal with |- exists M d, ?mk = Ok M /\ _ => destruct mk as [M|] eqn:E; [|vm_compute in E; discriminate] end.
  destruct (match_ M (of_ascii [47;115;114;99;47;108;49;48;110;47;100;101;47;98;114;111;119;115;101;114;47;109;101;110;117;46;102;116;108])) as [[d|]|] eqn:Em;
    [|exfalso; vm_compute in E; inversion E; subst; vm_compute in Em; discriminate
     |exfalso; vm_compute in E; inversion E; subst; vm_compute in Em; discriminate].
  exists M, d. vm_compute in E. inversion E; subst M. clear E.
  vm_compute in Em. inversion Em; subst d. clear Em.
  split; [reflexivity|]. split; [split; [reflexivity|split; reflexivity]|].
  split; [eexists; eexists; vm_compute; reflexivity|].
  split; [vm_compute; reflexivity|]. split; [reflexivity|]. split; vm_compute; reflexivity.
Qed.

(* without the no-cycle premise the statement fails: a/{v} with v = {v}x expands to "a/"
   (the cut), and matching raises (group v inside group v) *)
Theorem C12_expand_match_nested_cycle_refuted : exists M,
  mk_matcher (of_ascii [97;47;123;118;125]) [(of_ascii [118], of_ascii [123;118;125;120])] None = Ok M /\
  nested_ok M /\ str_of M = Ok (of_ascii [97;47]) /\
  expand_pattern (m_env M) true (m_pat M) = Raise MissingEnv /\
  match_ M (of_ascii [97;47]) = Raise ReError.
Proof.
  match goal with |- exists M, ?mk = Ok M /\ _ => destruct mk as [M|] eqn:E; [|vm_compute in E; discriminate] end.
  exists M. vm_compute in E. inversion E; subst M. split; [reflexivity|].
  split; [split; [reflexivity|split; reflexivity]|].
  split; [vm_compute; reflexivity|]. split; vm_compute; reflexivity.
Qed.

(* ---- mozpath.match, the glob helper (Proofs/MozpathProofs.v) ------------------------------
   [glob_rx ts] is the regular expression the function assembles for the glob whose pieces
   are the tokens ts: GLit s = literal text (escaped character by character, whatever the
   characters), GStar = a single star, GDirs lead = a double-star component followed by a
   separator (lead = the separator before it, or nothing at the start), GTail lead = a
   double star at the end.  [glob_denotes ts path]: path is a filling of the glob -- every
   star by a separator-free text, every GDirs by its lead alone or lead + something + "/",
   every GTail by nothing or lead + something -- optionally followed by "/" and anything.
   For newline-free paths (the `$` caveat of C12_whole_path) matching is EXACTLY that. *)
Theorem C12_mozpath_match : forall pat ts path, pat <> [] -> glob_regex pat = Ok (glob_rx ts) ->
  has_char nl path = false ->
  (mozpath_match path pat = Ok true <-> glob_denotes ts path).
Proof. exact mozpath_match_iff. Qed.

Theorem C12_mozpath_filled_matches : forall pat ts pieces, pat <> [] ->
  glob_regex pat = Ok (glob_rx ts) -> Forall2 fills_tok ts pieces ->
  has_char nl (concat pieces) = false -> mozpath_match (concat pieces) pat = Ok true.
Proof. exact filled_matches. Qed.

Theorem C12_mozpath_descendant_matches : forall pat ts pieces below, pat <> [] ->
  glob_regex pat = Ok (glob_rx ts) -> Forall2 fills_tok ts pieces ->
  has_char nl (concat pieces ++ c_slash :: below) = false ->
  mozpath_match (concat pieces ++ c_slash :: below) pat = Ok true.
Proof. exact descendant_matches. Qed.

(* a glob without wildcards matches its own path and what is below it, nothing else: not
   an ancestor, not a foreign head, not an extended last component (foo/barbaz for foo/bar) *)
Theorem C12_mozpath_literal : forall pat lit path, pat <> [] ->
  glob_regex pat = Ok (glob_rx [GLit lit]) -> has_char nl path = false ->
  (mozpath_match path pat = Ok true <-> path = lit \/ exists r, path = lit ++ c_slash :: r).
Proof. exact literal_glob. Qed.

Theorem C12_mozpath_foreign_head : forall pat lit ts path, pat <> [] ->
  glob_regex pat = Ok (glob_rx (GLit lit :: ts)) -> has_char nl path = false ->
  starts_with lit path = false -> mozpath_match path pat = Ok false.
Proof. exact foreign_head. Qed.

(* an ancestor has too few separators *)
Theorem C12_mozpath_ancestor : forall pat ts path, pat <> [] -> glob_regex pat = Ok (glob_rx ts) ->
  has_char nl path = false -> count_char c_slash path < glob_slashes ts ->
  mozpath_match path pat = Ok false.
Proof. exact too_few_separators. Qed.

(* c++/* (metacharacters in a component), foo/**/bar, foo/** and foo/bar as the model
   tokenises them, with matches and near misses *)
Example C12_mozpath_example :
  glob_regex (of_ascii [99;43;43;47;42]) = Ok (glob_rx [GLit (of_ascii [99;43;43;47]); GStar]) /\
  mozpath_match (of_ascii [99;43;43;47;120;46;102;116;108]) (of_ascii [99;43;43;47;42]) = Ok true /\
  mozpath_match (of_ascii [99;43;43;47;120;46;102;116;108;47;98;101;108;111;119]) (of_ascii [99;43;43;47;42]) = Ok true /\
  mozpath_match (of_ascii [99;47;120;46;102;116;108]) (of_ascii [99;43;43;47;42]) = Ok false /\
  mozpath_match (of_ascii [99;99;47;120;46;102;116;108]) (of_ascii [99;43;43;47;42]) = Ok false /\
  glob_regex (of_ascii [102;111;111;47;42;42;47;98;97;114])
    = Ok (glob_rx [GLit (of_ascii [102;111;111]); GDirs [c_slash]; GLit (of_ascii [98;97;114])]) /\
  mozpath_match (of_ascii [102;111;111;47;98;97;114]) (of_ascii [102;111;111;47;42;42;47;98;97;114]) = Ok true /\
  mozpath_match (of_ascii [102;111;111;47;97;47;98;47;98;97;114]) (of_ascii [102;111;111;47;42;42;47;98;97;114]) = Ok true /\
  glob_regex (of_ascii [102;111;111;47;42;42]) = Ok (glob_rx [GLit (of_ascii [102;111;111]); GTail [c_slash]]) /\
  glob_regex (of_ascii [102;111;111;47;98;97;114]) = Ok (glob_rx [GLit (of_ascii [102;111;111;47;98;97;114])]) /\
  mozpath_match (of_ascii [102;111;111;47;98;97;114;98;97;122]) (of_ascii [102;111;111;47;98;97;114]) = Ok false /\
  mozpath_match (of_ascii [102;111;111]) (of_ascii [102;111;111;47;98;97;114]) = Ok false /\
  glob_denotes [GLit (of_ascii [99;43;43;47]); GStar] (of_ascii [99;43;43;47;120;46;102;116;108]).
Proof.
  repeat (split; [vm_compute; reflexivity|]).
  exists [of_ascii [99;43;43;47]; of_ascii [120;46;102;116;108]], []. split; [|split; [reflexivity|auto]].
  constructor; [reflexivity|]. constructor; [reflexivity|constructor].
Qed.
