(* C20 — key-level diff and keyed lookup respect both files' orders.
   Theorems only; each is closed by [exact] of a lemma proved in Proofs/. *)
From Coq Require Import ZArith List Bool Permutation Sorted.
From CL Require Import Base.Sx Base.Res Model.AddRemove Proofs.AddRemoveProofs Proofs.AddRemoveSpec.
Import ListNotations.

Section C20.
Context {K : Type} (eqb : K -> K -> bool).
Hypothesis eqb_eq : forall a b, eqb a b = true <-> a = b.

(* every key of either side exactly once *)
Theorem C20_once : forall l r, NoDup l -> NoDup r ->
  Permutation (map snd (addremove eqb l r))
              (l ++ filter (fun y => negb (mem eqb y l)) r)
  /\ NoDup (map snd (addremove eqb l r)).
Proof. exact (addremove_once eqb eqb_eq). Qed.

(* labelled by membership, for arbitrary (also repeating) sequences *)
Theorem C20_labels : forall l r lab k, In (lab, k) (addremove eqb l r) ->
  lab = label_of eqb l r k /\
  match lab with
  | Equal => In k l /\ In k r
  | Delete => In k l /\ ~ In k r
  | Add => ~ In k l
  end.
Proof.
  intros l r lab k H. pose proof (addremove_labels eqb l r lab k H) as ->.
  split; [reflexivity|]. exact (label_of_spec eqb eqb_eq l r k).
Qed.

(* the output is ordered by the (left index, right index) pairs the code computes *)
Theorem C20_sorted : forall l r,
  StronglySorted ent_le (sort (order_map eqb l r)).
Proof. exact (addremove_sorted eqb). Qed.

(* the first sequence's order is kept *)
Theorem C20_left_order : forall l r, NoDup l -> NoDup r ->
  filter (fun k => mem eqb k l) (map snd (addremove eqb l r)) = l.
Proof. exact (addremove_left_order eqb eqb_eq). Qed.

(* each key found only in the second sequence is placed after the last key
   that precedes it there and is also in the first (or in front when there is
   none), such keys with the same anchor keeping their order: the output is
   the independent recursive specification [spec] (Model/AddRemove.v) *)
Theorem C20_anchor : forall l r, NoDup l -> NoDup r ->
  addremove eqb l r = spec eqb l r.
Proof. exact (addremove_eq_spec eqb eqb_eq). Qed.

Context {E : Type} (key : E -> K).

(* keyed lookup returns the last entity with the key *)
Theorem C20_keyed_last : forall k items e,
  kt_getitem eqb key k items = Ok e <->
  exists pre post, items = pre ++ e :: post /\ key e = k /\
                   Forall (fun e' => key e' <> k) post.
Proof. exact (kt_getitem_spec eqb eqb_eq key). Qed.

Theorem C20_keyed_contains : forall k items,
  kt_contains eqb key k items = true <-> In k (map key items).
Proof. exact (kt_contains_spec eqb eqb_eq key). Qed.

Theorem C20_keyed_total : forall k items,
  In k (map key items) -> exists e, kt_getitem eqb key k items = Ok e.
Proof. exact (kt_getitem_total eqb eqb_eq key). Qed.

(* plain iteration preserves file order including duplicates *)
Theorem C20_keyed_iter : forall items : list E, kt_keys key items = map key items.
Proof. reflexivity. Qed.

End C20.

(* non-vacuity: a concrete run, evaluated by the kernel *)
Example C20_example :
  map (fun p => (label_code (fst p), snd p))
      (addremove Z.eqb [1; 2; 3]%Z [4; 2; 5; 6; 3; 7]%Z)
  = [(2, 4); (1, 1); (0, 2); (2, 5); (2, 6); (0, 3); (2, 7)]%Z.
Proof. vm_compute. reflexivity. Qed.
