From Coq Require Import ZArith NArith List Bool.
From CL Require Import Base.Sx Base.Res Base.Str Model.Channels Model.Serializer.
Import ListNotations.

Example C16_example_slice : pyslice (of_ascii [1;2;3;4]) 1 (-1) = of_ascii [2;3].
Proof. vm_compute. reflexivity. Qed.
