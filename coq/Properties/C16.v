(* C16 — serializer writes exactly the requested translations, in reference order.

   Entity level over Model/Serializer.v (serializer.py) and Model/Channels.v
   (merge.py): reference and old localization are the entry lists their walk()
   yields; [wrap] is Entity.wrap of the reference entities (parameter; the model's
   own [apply_wrap] — base slices, Fluent comment + raw, Android oracle table —
   satisfies the contract, C16_wrap_contract).  CEntity = an entity that is no
   placeholder ([is_cent]).
   Hypotheses of C16_entities / C16_values / C16_idempotent: [uniq (nj l)] — the
   non-junk entries of the reference / old file have distinct keys, distinct section
   names and distinct whitespace objects; new_data is a dict (distinct keys).  C16_nothing_else holds
   for all inputs.

   The re-parse clauses ("the output parses without junk", idempotence through the
   real parser) need the block theorems of C02, which are not available:
   C16_reparse_partial states the clause conditionally on the re-parse lemma for the
   output entry list; the harness oracle checks it with the real parser on every case.  C16_idempotent is the entity-level statement: for ANY
   entry list X with the entities of the output (such as a junk-free re-parse).
   Known findings: C16_wrap_valueless_refuted (.inc `#define KEY` without value),
   C16_ftl_unwrap_comment_refuted, C16_ws_fold_joins_lines_refuted. *)
From Coq Require Import ZArith NArith List Bool Arith.
From CL Require Import Base.Sx Base.Res Base.Str Model.AddRemove Model.Channels
                       Proofs.ChannelsProofs Proofs.ChannelsSpec Model.Serializer
                       Proofs.SerializerProofs Proofs.SerializerSpec Proofs.SerializerFinal
                       Proofs.ReparsePartial
                       Model.Entry Model.Parse Model.ParseFormats Proofs.C02Blocks
                       Proofs.MergeShape Proofs.PropsShape Proofs.MergeReparse15 Proofs.SerializeReparse16
                       Proofs.PropsView Proofs.PropsWrap Proofs.SerializeIdem.
From CL Require Proofs.C02BlocksDtd Proofs.DtdShape Proofs.DtdReparse Proofs.DtdView.
From CL Require Proofs.C02BlocksRx Proofs.C02BlocksIni Proofs.IniShape Proofs.IniReparse Proofs.IniView.
From CL Require Proofs.C02BlocksInc Proofs.IncShape Proofs.IncReparse Proofs.MergeHeadInstr.
From CL Require Proofs.C02Po Proofs.C02BlocksPoRx Proofs.C02BlocksPo Proofs.PoReparse.
From Coq Require Import Lia.
Import ListNotations.
Local Open Scope nat_scope.

(* the bytes are the concatenation of the entry texts of serialize_entries *)
Theorem C16_output : forall wrap name reference old nd txt,
  serialize wrap name reference old nd = Ok txt ->
  exists out, serialize_entries wrap reference old nd = Ok out /\ txt = concat (map c_text out).
Proof. exact serialize_inv. Qed.

(* the keys of the output entities are exactly the reference keys, in reference
   order, that have a new value, or no entry in new_data and an old entity *)
Theorem C16_entities : forall wrap reference old nd out,
  uniq (nj reference) -> uniq (nj old) -> NoDup (map fst nd) -> wrap_ok wrap ->
  serialize_entries wrap reference old nd = Ok out ->
  map c_key (filter is_cent out) =
  filter (fun s => match od_get str_eqb s nd with
                   | Some (Some _) => true
                   | Some None => false
                   | None => match old_cent old s with Some _ => true | None => false end
                   end)
         (map c_key (filter is_entity reference)).
Proof.
  intros wrap reference old nd out H1 H2 H3 H4.
  exact (entities_keys_thm wrap reference old nd H1 H2 H3 H4 out).
Qed.

(* each carries the new value if one was given (it is wrap(reference entity, value)),
   the old entity otherwise; a key marked for removal has none *)
Theorem C16_values : forall wrap reference old nd out,
  uniq (nj reference) -> uniq (nj old) -> NoDup (map fst nd) -> wrap_ok wrap ->
  serialize_entries wrap reference old nd = Ok out ->
  forall e, In e out -> is_cent e = true ->
  In (c_key e) (map c_key (filter is_entity reference)) /\
  match od_get str_eqb (c_key e) nd with
  | Some (Some raw) => exists r, od_get str_eqb (c_key e) (ref_mapping reference) = Some r /\
                                 wrap r raw = Ok e
  | Some None => False
  | None => old_cent old (c_key e) = Some e
  end.
Proof.
  intros wrap reference old nd out H1 H2 H3 H4.
  exact (entities_values_thm wrap reference old nd H1 H2 H3 H4 out).
Qed.

(* the model's wrap builds an entity that is no placeholder, has the reference key and
   carries exactly the raw value given *)
Theorem C16_wrap_contract : forall contents w key raw e,
  apply_wrap contents w key raw = Ok e -> c_kind e = CEntity /\ c_key e = key /\ c_val e = raw.
Proof. exact apply_wrap_ok. Qed.

(* nothing else, for all inputs: every output entry is no placeholder and is either a
   non-entity entry of the reference (comment, whitespace, section; never a reference
   entity, hence no reference value), or a non-junk entry of the old file whose key, if
   it is an entity, is a reference key not marked for removal (no obsolete key, no
   removed key, no junk), or wrap(reference entity, new value) *)
Theorem C16_nothing_else : forall wrap reference old nd out,
  serialize_entries wrap reference old nd = Ok out ->
  forall e, In e out ->
    is_placeholder e = false /\
    ((In e reference /\ is_junk e = false /\ is_entity e = false) \/
     (In e old /\ is_junk e = false /\
      (is_entity e = true ->
       In (c_key e) (map fst (ref_mapping reference)) /\
       od_get str_eqb (c_key e) nd <> Some None)) \/
     (exists r raw, In r reference /\ is_entity r = true /\
                    In (c_key r, Some raw) nd /\ wrap r raw = Ok e)).
Proof. exact serialize_sources. Qed.

(* serializing again, with no new data, any entry list that has the entities of the
   output yields the same entities *)
Theorem C16_idempotent : forall wrap reference old nd out X out2,
  uniq (nj reference) -> uniq (nj old) -> NoDup (map fst nd) -> wrap_ok wrap ->
  serialize_entries wrap reference old nd = Ok out ->
  uniq (nj X) -> filter is_cent (nj X) = filter is_cent out ->
  serialize_entries wrap reference X [] = Ok out2 ->
  filter is_cent out2 = filter is_cent out.
Proof. exact serialize_idempotent. Qed.

(* _partial: missing is the re-parse lemma itself (C02 block theorems) — given it for the
   output entry list, the bytes re-parse without junk and the re-parsed entities are
   exactly the reference keys with a value, in reference order *)
Theorem C16_reparse_partial : forall (parse : str -> list centry) wrap name reference old nd txt,
  uniq (nj reference) -> uniq (nj old) -> NoDup (map fst nd) -> wrap_ok wrap ->
  serialize wrap name reference old nd = Ok txt ->
  exists out, serialize_entries wrap reference old nd = Ok out /\ txt = serialize_legacy out /\
    Forall nonjunk out /\
    (reparses parse out ->
       Forall nonjunk (parse txt) /\
       map c_key (filter is_cent (parse txt)) =
         filter (has_value old nd) (map c_key (filter is_entity reference))).
Proof. exact serialize_reparse. Qed.

Theorem C16_unsupported : forall wrap name reference old nd, get_parser name = Ok None ->
  serialize wrap name reference old nd = Raise NotSupported.
Proof. intros wrap name reference old nd H. unfold serialize. rewrite H. reflexivity. Qed.

(* ---- non-vacuity: a concrete run ---------------------------------------------------------- *)
Definition s (l : list nat) : str := of_ascii l.
(* reference  "a = EN\n# c\nb = EN2\n"   old  "a = L\nz = obs\n"   new_data {b: "N"} *)
Definition ex_contents := s [97;32;61;32;69;78;10;35;32;99;10;98;32;61;32;69;78;50;10].
Definition ex_ref :=
  [mkc CEntity (s [97]) (s [97;32;61;32;69;78]) (s [69;78]) 1; mkc CWhite [] (s [10]) [] 2;
   mkc CEntity (s [98]) (s [35;32;99;10;98;32;61;32;69;78;50]) (s [69;78;50]) 3;
   mkc CWhite [] (s [10]) [] 4].
Definition ex_wraps : list (nat * wrapinfo) :=
  [(1, WBase (0, 6)%Z (Some (4, 6)%Z) None); (3, WBase (11, 18)%Z (Some (15, 18)%Z) (Some (7, 10)%Z))].
Definition ex_old :=
  [mkc CEntity (s [97]) (s [97;32;61;32;76]) (s [76]) 5; mkc CWhite [] (s [10]) [] 6;
   mkc CEntity (s [122]) (s [122;32;61;32;111;98;115]) (s [111;98;115]) 7;
   mkc CWhite [] (s [10]) [] 8].
Definition ex_nd : new_data_t := [(s [98], Some (s [78]))].

(* "a = L\n# c\nb = N\n" *)
Example C16_example_run :
  serialize (wrap_by_id ex_contents ex_wraps) (s [102;46;112;114;111;112;101;114;116;105;101;115])
            ex_ref ex_old ex_nd =
  Ok (s [97;32;61;32;76;10; 35;32;99;10;98;32;61;32;78;10]).
Proof. vm_compute. reflexivity. Qed.

Example C16_example_hyps :
  uniq (nj ex_ref) /\ uniq (nj ex_old) /\ NoDup (map fst ex_nd) /\
  wrap_ok (wrap_by_id ex_contents ex_wraps).
Proof.
  split; [|split; [|split; [|apply wrap_by_id_ok]]]; repeat split; cbn;
    repeat (apply NoDup_cons; [cbn; intuition discriminate|]); apply NoDup_nil.
Qed.

(* known finding: `#define foo` (no value) has val_span (-1,-1); Entity.wrap then copies the
   rest of the reference file:  "#define foo\n#define bar BAR\n", wrap(foo, "x") *)
Theorem C16_wrap_valueless_refuted :
  exists contents span key raw e,
    apply_wrap contents (WBase span (Some (-1, -1)%Z) None) key raw = Ok e /\
    pyslice contents (fst span) (snd span) = s [35;100;101;102;105;110;101;32;102;111;111] /\
    c_text e = s [35;100;101;102;105;110;101;32;102;111;111;10;
                  35;100;101;102;105;110;101;32;98;97;114;32;66;65;82;120].
Proof.
  exists (s [35;100;101;102;105;110;101;32;102;111;111;10;
             35;100;101;102;105;110;101;32;98;97;114;32;66;65;82;10]),
         (0, 11)%Z, (s [102;111;111]), (s [120]).
  eexists. split; [reflexivity|]. split; vm_compute; reflexivity.
Qed.

(* known finding (ftl-unwrap-includes-comment): FluentEntity.unwrap() returns the entry text
   INCLUDING its attached comment and FluentEntity.wrap prepends the reference comment: a raw
   value obtained by unwrap() from a commented entry comes back with the comment twice.
   comment "# c\n", raw "# c\nk = v" *)
Theorem C16_ftl_unwrap_comment_refuted :
  exists contents c key raw e,
    c <> [] /\ starts_with c raw = true /\
    apply_wrap contents (WFluent c) key raw = Ok e /\
    c_text e = c ++ c ++ skipn (length c) raw.
Proof.
  exists [], (s [35;32;99;10]), (s [107]), (s [35;32;99;10;107;32;61;32;118]).
  eexists. split; [discriminate|]. split; [vm_compute; reflexivity|].
  split; [reflexivity|vm_compute; reflexivity].
Qed.

(* known finding (serialize-ws-fold-joins-lines): the old file "a = la  " (no final newline,
   trailing blanks) against the reference "a = A\nb = B\n" with new_data {b: "nb"}: pruning keeps
   the longer whitespace "  " instead of the line break, the bytes are "a = la  b = nb\n" — one
   line.  The entity-level theorems hold of this run (two entities a, b); the defect is in the
   re-parse (C16_reparse_partial's premise [reparses] fails for this output). *)
Definition wf_contents := s [97;32;61;32;65;10;98;32;61;32;66;10].
Definition wf_ref :=
  [mkc CEntity (s [97]) (s [97;32;61;32;65]) (s [65]) 1; mkc CWhite [] (s [10]) [] 2;
   mkc CEntity (s [98]) (s [98;32;61;32;66]) (s [66]) 3; mkc CWhite [] (s [10]) [] 4].
Definition wf_wraps : list (nat * wrapinfo) :=
  [(1, WBase (0, 5)%Z (Some (4, 5)%Z) None); (3, WBase (6, 11)%Z (Some (10, 11)%Z) None)].
Definition wf_old :=
  [mkc CEntity (s [97]) (s [97;32;61;32;108;97]) (s [108;97]) 5; mkc CWhite [] (s [32;32]) [] 6].
Theorem C16_ws_fold_joins_lines_refuted :
  exists out,
    serialize_entries (wrap_by_id wf_contents wf_wraps) wf_ref wf_old [(s [98], Some (s [110;98]))] = Ok out /\
    map c_key (filter is_cent out) = [s [97]; s [98]] /\
    concat (map c_text out) = s [97;32;61;32;108;97; 32;32; 98;32;61;32;110;98; 10] /\
    ~ In 10%N (firstn 14 (concat (map c_text out))).
Proof.
  eexists. split; [vm_compute; reflexivity|]. split; [vm_compute; reflexivity|].
  split; [vm_compute; reflexivity|]. vm_compute. intuition discriminate.
Qed.

(* ---- the re-parse clause for .properties, from the block theorem of C02 ----------------------
   Reference and old localization are legal block lists (Proofs/C02Blocks.v) satisfying
   [version_ok m] (see Properties/C15.v: legal blocks, no "License" in attached comments,
   distinct keys, newline-terminated, every whitespace entry starts with a newline and from
   length m on has a second one — the premise that excludes the listed findings
   serialize-ws-fold-joins-lines / merge-ws-fold-loses-blank-line); the old localization may
   be the empty list.  Their entries are [centries_of], numbered as fresh objects.
   [props_wrap wrap]: Entity.wrap splices the raw value in place of the reference value at
   the end of the entity text (the model's [wrap_props]; the value is the tail of a
   .properties entity).  New values are legal raw value texts ([legal_rawb]: every physical
   line but the last ends in an odd number of backslashes, the last in an even number and not
   in a blank or CR, no leading blank).  The serializer does NO escaping: it splices the raw
   value verbatim, so outside that class the output parses differently
   (C16_raw_newline_refuted).
   Then the bytes re-parse (walk_properties) without junk; the entities are, with key and raw
   value, exactly the entities of the output entry list [out] (C16_entities / C16_values /
   C16_nothing_else speak about it): the reference keys that have a value, in reference
   order; the standalone comments are the comment entries of [out].
   Idempotence at TEXT level (serialize(reference, parse(out), {}) = out, byte for byte) is
   proved for the case without old localization and with a value for every reference entity
   (C16_idempotent_text_partial); in general C16_idempotent gives it at entity level, and
   together with this theorem the second output re-parses to the same entities. *)
Theorem C16_reparse_properties : forall m rbs obs wrap nd name txt,
  version_ok m rbs -> version_ok m obs -> NoDup (map fst nd) -> props_wrap wrap ->
  (forall k raw, In (k, Some raw) nd -> legal_rawb raw = true) ->
  let R := number 0 (centries_of rbs) in
  let L := number (length (centries_of rbs)) (centries_of obs) in
  serialize wrap name R L nd = Ok txt ->
  exists out es,
    serialize_entries wrap R L nd = Ok out /\ txt = concat (map c_text out) /\
    walk_properties txt = Ok es /\
    map (fun e => let r := entity_record txt e in (fst (fst r), snd (fst r)))
        (filter (is_kind KEntity) es) = krecs out /\
    map fst (krecs out) = filter (has_value L nd) (refkeys R) /\
    map (fun e => span_text txt (e_span e)) (filter (is_kind KComment) es) = ccoms out /\
    filter (is_kind KJunk) es = [].
Proof. exact serialize_reparse_properties. Qed.

Theorem C16_wrap_props_contract : props_wrap wrap_props.
Proof. intros r raw e H. inversion H. reflexivity. Qed.

(* [wrap_props] is the model's Entity.wrap (apply_wrap over the parse context and the spans
   of the parsed entity: the function the WRAP suite compares with the implementation) on
   every entity of the parse of a legal block list; and the entries handed to the theorem
   are the view of that parse (C15_parse_view_properties) *)
Theorem C16_wrap_props_is_model_wrap : forall bs, Forall legal_block bs ->
  forall e, In e (entries_of bs) -> e_kind e = KEntity -> forall raw,
  apply_wrap (file_text bs) (wrap_info_of e) (c_key (centry_view (file_text bs) e)) raw =
  wrap_props (centry_view (file_text bs) e) raw.
Proof. exact wrap_view. Qed.

(* reference  a = A / # note / <blank> / b = B     old  a = la     new_data {b: "nb"} *)
Definition pe (k v : list nat) : block := BEntity [] (A k) (A [32]) 61%N (A [32]) [] (A v) true.
Definition rp_ref : list block :=
  [pe [97] [65]; BComment [(35%N, A [32; 110; 111; 116; 101])]; BBlank (A [10]); pe [98] [66]].
Definition rp_old : list block := [pe [97] [108; 97]].
Definition rp_nd : new_data_t := [(A [98], Some (A [110; 98]))].

Ltac wsok_one :=
  unfold wsok;
  first [ intros Hw; vm_compute in Hw; discriminate
        | intros _; eexists; split;
          [vm_compute; reflexivity
          |intros Hl; first [vm_compute; reflexivity | exfalso; vm_compute in Hl; lia]] ].
Ltac nodup_tac := vm_compute; repeat (apply NoDup_cons; [vm_compute; intuition discriminate|]); apply NoDup_nil.
Ltac version_ok_tac :=
  split; [repeat constructor|]; split; [repeat constructor|]; split; [split; nodup_tac|];
  split; [vm_compute; intuition (try discriminate; try lia)|];
  unfold centries_of; cbn [cents cflush app];
  repeat (apply Forall_cons; [wsok_one|]); apply Forall_nil.

Example C16_example_reparse_hyps :
  version_ok 2 rp_ref /\ version_ok 2 rp_old /\ version_ok 2 [] /\ NoDup (map fst rp_nd) /\
  (forall k raw, In (k, Some raw) rp_nd -> legal_rawb raw = true).
Proof.
  split; [version_ok_tac|]. split; [version_ok_tac|]. split; [version_ok_tac|].
  split; [nodup_tac|]. intros k raw [H|[]]. inversion H. vm_compute. reflexivity.
Qed.

(* the bytes  a = la / # note / <blank> / b = nb  and their parse *)
Example C16_example_reparse :
  exists txt es,
    serialize wrap_props (s [102;46;112;114;111;112;101;114;116;105;101;115])
              (number 0 (centries_of rp_ref)) (number (length (centries_of rp_ref)) (centries_of rp_old))
              rp_nd = Ok txt /\
    txt = A [97;32;61;32;108;97;10; 35;32;110;111;116;101;10;10; 98;32;61;32;110;98;10] /\
    walk_properties txt = Ok es /\
    map (fun e => let r := entity_record txt e in (fst (fst r), snd (fst r)))
        (filter (is_kind KEntity) es) = [(A [97], A [108; 97]); (A [98], A [110; 98])] /\
    filter (is_kind KJunk) es = [].
Proof.
  eexists. eexists. split; [vm_compute; reflexivity|]. split; [reflexivity|].
  split; [vm_compute; reflexivity|]. split; vm_compute; reflexivity.
Qed.

(* the premise on the new values is needed: the raw value "x<newline>y" is spliced in verbatim;
   the second line is no continuation and re-parses as junk *)
Theorem C16_raw_newline_refuted :
  exists name txt es,
    legal_rawb (A [120; 10; 121]) = false /\
    serialize wrap_props name (number 0 (centries_of [pe [97] [65]])) [] [(A [97], Some (A [120; 10; 121]))] = Ok txt /\
    walk_properties txt = Ok es /\ filter (is_kind KJunk) es <> [].
Proof.
  exists (s [102;46;112;114;111;112;101;114;116;105;101;115]). eexists. eexists.
  split; [vm_compute; reflexivity|]. split; [vm_compute; reflexivity|].
  split; [vm_compute; reflexivity|]. vm_compute. discriminate.
Qed.

(* idempotence at TEXT level, for the case "no old localization, every reference entity gets a
   value" (a complete translation serialized into a new file): the bytes are the text of a
   legal block list bs2 (so the parser yields [centries_of bs2] for them,
   C15_parse_view_properties), and serializing that file again — its entries as fresh objects,
   no new data — returns the same bytes.
   _partial: with an old localization, or with reference entities left without a value
   (their placeholders are pruned and the surrounding whitespace folded), text-level
   idempotence is not proved (entity level: C16_idempotent; the harness compares entities). *)
Theorem C16_idempotent_text_partial : forall m rbs wrap nd name txt,
  version_ok m rbs -> NoDup (map fst nd) -> props_wrap wrap ->
  (forall k raw, In (k, Some raw) nd -> legal_rawb raw = true) ->
  (forall s0, In s0 (refkeys (number 0 (centries_of rbs))) ->
              exists raw, od_get str_eqb s0 nd = Some (Some raw)) ->
  serialize wrap name (number 0 (centries_of rbs)) [] nd = Ok txt ->
  exists bs2, Forall legal_block bs2 /\ adjacent_ok bs2 /\ file_text bs2 = txt /\
    forall c, length (number 0 (centries_of rbs)) <= c ->
      serialize wrap name (number 0 (centries_of rbs)) (number c (centries_of bs2)) [] = Ok txt.
Proof.
  intros m rbs wrap nd name txt H1 H2 H3 H4 H5.
  exact (serialize_idempotent_text m rbs H1 wrap nd H2 H3 H4 H5 name txt).
Qed.

(* reference  a = A / # note / <blank> / b = B , new_data {a: "x", b: "y"}: the bytes
   a = x / # note / <blank> / b = y  and, serialized again from their own parse, the same *)
Definition it_nd : new_data_t := [(A [97], Some (A [120])); (A [98], Some (A [121]))].
Example C16_example_idempotent_text :
  let R := number 0 (centries_of rp_ref) in
  let name := s [102;46;112;114;111;112;101;114;116;105;101;115] in
  exists txt bs2,
    serialize wrap_props name R [] it_nd = Ok txt /\ file_text bs2 = txt /\
    txt = A [97;32;61;32;120;10; 35;32;110;111;116;101;10;10; 98;32;61;32;121;10] /\
    serialize wrap_props name R (number 100 (centries_of bs2)) [] = Ok txt.
Proof.
  eexists. exists [pe [97] [120]; BComment [(35%N, A [32; 110; 111; 116; 101])]; BBlank (A [10]); pe [98] [121]].
  split; [vm_compute; reflexivity|]. split; [vm_compute; reflexivity|]. split; [reflexivity|].
  vm_compute. reflexivity.
Qed.

(* ---- the re-parse clause for DTD, from the block theorem of C02 (blocks_dtd) ---------------------
   Reference and old localization: legal DTD block lists without parameter-entity blocks under
   [DtdReparse.dversion_ok m] (see Properties/C15.v).  [dtd_wrap wrap]: Entity.wrap puts the
   raw value between the quotes of the reference declaration (satisfied, together with
   wrap_ok, by the concrete [wrap_dtd]: C16_wrap_dtd_contract).  New values contain no quote
   character ([legal_dtd_raw]; the serializer escapes nothing).  Then the bytes re-parse
   (walk_dtd) without junk; the entities are, with name and value, the entities of the output
   entry list: the reference keys with a value in reference order; the standalone comments are
   its comment entries.
   [wrap_dtd] is the model's apply_wrap over the parse's spans on every entity of the parse
   (C16_wrap_dtd_is_model_wrap), and the entries handed to the theorem are the view of the
   parser's output (C15_parse_view_dtd). *)
Theorem C16_reparse_dtd : forall m rbs obs wrap nd name txt,
  DtdReparse.dversion_ok m rbs -> DtdReparse.dversion_ok m obs -> NoDup (map fst nd) ->
  wrap_ok wrap -> DtdReparse.dtd_wrap wrap ->
  (forall k raw, In (k, Some raw) nd -> DtdReparse.legal_dtd_raw raw = true) ->
  let R := number 0 (DtdShape.dcentries_of rbs) in
  let L := number (length (DtdShape.dcentries_of rbs)) (DtdShape.dcentries_of obs) in
  serialize wrap name R L nd = Ok txt ->
  exists out es,
    serialize_entries wrap R L nd = Ok out /\ txt = concat (map c_text out) /\
    walk_dtd txt = Ok es /\
    map (fun e => let r := entity_record txt e in (fst (fst r), snd (fst r)))
        (filter (is_kind KEntity) es) = krecs out /\
    map fst (krecs out) = filter (has_value L nd) (refkeys R) /\
    map (fun e => span_text txt (e_span e)) (filter (is_kind KComment) es) = ccoms out /\
    filter (is_kind KJunk) es = [].
Proof. exact DtdReparse.serialize_reparse_dtd. Qed.

Theorem C16_wrap_dtd_contract : wrap_ok DtdReparse.wrap_dtd /\ DtdReparse.dtd_wrap DtdReparse.wrap_dtd.
Proof. exact DtdReparse.wrap_dtd_contract. Qed.

(* on every entity of the parse of a legal DTD block list, the model's Entity.wrap (apply_wrap
   over the parse context and the entity's spans) is wrap_dtd *)
Theorem C16_wrap_dtd_is_model_wrap : forall bs, Forall C02BlocksDtd.legal_block bs -> DtdShape.no_pe bs ->
  forall e, In e (C02BlocksDtd.entries_of bs) -> e_kind e = KEntity -> forall raw,
  apply_wrap (C02BlocksDtd.file_text bs) (wrap_info_of e) (c_key (DtdView.dview (C02BlocksDtd.file_text bs) e)) raw =
  DtdReparse.wrap_dtd (DtdView.dview (C02BlocksDtd.file_text bs) e) raw.
Proof. exact DtdView.wrap_view_dtd. Qed.

(* reference  <!ENTITY a "A">\n<!--c-->\n\n<!ENTITY b "B">\n   old  <!ENTITY a "la">\n   new {b: "nb"} *)
Definition de (k v : list nat) : C02BlocksDtd.block :=
  C02BlocksDtd.BEntity None (A [32]) (A k) (A [32]) 34%N (A v) [].
Definition dnl : C02BlocksDtd.block := C02BlocksDtd.BBlank (A [10]).
Definition d_ref : list C02BlocksDtd.block :=
  [de [97] [65]; dnl; C02BlocksDtd.BComment (A [99]); C02BlocksDtd.BBlank (A [10; 10]); de [98] [66]; dnl].
Definition d_old : list C02BlocksDtd.block := [de [97] [108; 97]; dnl].

Ltac dwsok_one :=
  unfold DtdReparse.dwsok;
  first [ intros Hw; vm_compute in Hw; discriminate
        | intros _ Hl; first [vm_compute; lia | exfalso; vm_compute in Hl; lia] ].
Ltac dversion_ok_tac :=
  split; [repeat constructor|]; split; [repeat constructor|]; split; [repeat constructor|];
  split; [split; nodup_tac|]; split; [vm_compute; intuition (try discriminate; try lia)|];
  unfold DtdShape.dcentries_of; cbn [DtdShape.dcents DtdShape.dflush app];
  repeat (apply Forall_cons; [dwsok_one|]); apply Forall_nil.

Example C16_example_dtd_hyps :
  DtdReparse.dversion_ok 2 d_ref /\ DtdReparse.dversion_ok 2 d_old /\
  DtdReparse.legal_dtd_raw (A [110; 98]) = true.
Proof. split; [dversion_ok_tac|]. split; [dversion_ok_tac|]. vm_compute. reflexivity. Qed.

(* the bytes  <!ENTITY a "la">\n<!--c-->\n\n<!ENTITY b "nb">\n  and their parse *)
Example C16_example_reparse_dtd :
  exists txt es,
    serialize DtdReparse.wrap_dtd (s [102;46;100;116;100])
              (number 0 (DtdShape.dcentries_of d_ref))
              (number (length (DtdShape.dcentries_of d_ref)) (DtdShape.dcentries_of d_old))
              [(A [98], Some (A [110; 98]))] = Ok txt /\
    walk_dtd txt = Ok es /\
    map (fun e => let r := entity_record txt e in (fst (fst r), snd (fst r)))
        (filter (is_kind KEntity) es) = [(A [97], A [108; 97]); (A [98], A [110; 98])] /\
    map (fun e => span_text txt (e_span e)) (filter (is_kind KComment) es) = [A [60;33;45;45;99;45;45;62]] /\
    filter (is_kind KJunk) es = [].
Proof.
  eexists. eexists. split; [vm_compute; reflexivity|]. split; [vm_compute; reflexivity|].
  split; [vm_compute; reflexivity|]. split; vm_compute; reflexivity.
Qed.

(* Text-level idempotence is FALSE in general, also under all premises of C16_reparse_properties:
   reference  x = X / <3 blank lines> / y = Y / z = Z ,  old  x = lx / y = ly / # note / <blank> / z = lz ,
   new_data {y: None}.  The first output is  x = lx / <3 blank lines> / # note / <blank> / z = lz ;
   serialized again from its own parse the old file's comment gets the three blank lines a
   second time:  ... # note / <3 blank lines> / z = lz .  (In the first run the reference's
   whitespace after x is folded in front of the old file's comment, in the second run the
   comment's own whitespace meets it again: merge order puts everything that follows x in the
   old file before the reference's whitespace.)  Entities are the same (C16_idempotent).
   Premise under which the text is stable, by the analysis of the merge order (not proved
   beyond C16_idempotent_text_partial): no standalone comment of the old localization that is
   not a reference comment survives next to a reference entity whose placeholder is pruned —
   in particular: every standalone comment of the old file is a reference comment. *)
Definition ir_ref : list block := [pe [120] [88]; BBlank (A [10;10;10]); pe [121] [89]; pe [122] [90]].
Definition ir_old : list block :=
  [pe [120] [108;120]; pe [121] [108;121]; BComment [(35%N, A [32;110;111;116;101])]; BBlank (A [10]);
   pe [122] [108;122]].
Definition ir_out : list block :=
  [pe [120] [108;120]; BBlank (A [10;10;10]); BComment [(35%N, A [32;110;111;116;101])]; BBlank (A [10]);
   pe [122] [108;122]].
Theorem C16_idempotent_text_refuted :
  let R := number 0 (centries_of ir_ref) in
  let L := number (length (centries_of ir_ref)) (centries_of ir_old) in
  let name := s [102;46;112;114;111;112;101;114;116;105;101;115] in
  version_ok 2 ir_ref /\ version_ok 2 ir_old /\ version_ok 2 ir_out /\
  exists txt txt2,
    serialize wrap_props name R L [(A [121], None)] = Ok txt /\ file_text ir_out = txt /\
    serialize wrap_props name R (number 100 (centries_of ir_out)) [] = Ok txt2 /\ txt2 <> txt.
Proof.
  split; [version_ok_tac|]. split; [version_ok_tac|]. split; [version_ok_tac|].
  eexists. eexists. split; [vm_compute; reflexivity|]. split; [vm_compute; reflexivity|].
  split; [vm_compute; reflexivity|]. vm_compute. discriminate.
Qed.

(* ---- the re-parse clause for ini ------------------------------------------------------------------
   Reference and old localization are legal ini block lists (Proofs/C02BlocksIni.v) with
   [IniReparse.iversion_ok m] (see Properties/C15.v: keys distinct in the whole file, section
   names distinct, every entity / section header / comment followed by a whitespace entry,
   whitespace entries start and end with a line break).  The value of an ini entity is the rest
   of its line as it stands (trailing blanks are value, so the listed finding
   serialize-ws-fold-joins-lines has no ini form); [props_wrap wrap]: Entity.wrap replaces the
   tail of the entity text (the concrete [wrap_props]; it is the model's apply_wrap on every
   entity of the parse, C16_wrap_ini_is_model_wrap).  New values are one line ([no_nl]; the
   serializer escapes nothing, C16_ini_raw_newline_refuted).  Then the bytes re-parse
   (walk_ini) without junk; the entities are, with key and value, the entities of the output
   entry list: the reference keys with a value in reference order; the standalone comments and
   the section headers are those of the output entry list. *)
Theorem C16_reparse_ini : forall m rbs obs wrap nd name txt,
  IniReparse.iversion_ok m rbs -> IniReparse.iversion_ok m obs -> NoDup (map fst nd) ->
  props_wrap wrap ->
  (forall k raw, In (k, Some raw) nd -> C02BlocksRx.no_nl raw = true) ->
  let R := number 0 (IniShape.icentries_of rbs) in
  let L := number (length (IniShape.icentries_of rbs)) (IniShape.icentries_of obs) in
  serialize wrap name R L nd = Ok txt ->
  exists out es,
    serialize_entries wrap R L nd = Ok out /\ txt = concat (map c_text out) /\
    walk_ini txt = Ok es /\
    map (fun e => let r := C02BlocksIni.entity_record txt e in (fst (fst r), snd (fst r)))
        (filter (C02BlocksIni.is_kind KEntity) es) = krecs out /\
    map fst (krecs out) = filter (has_value L nd) (refkeys R) /\
    map (fun e => C02BlocksIni.span_text txt (e_span e)) (filter (C02BlocksIni.is_kind KComment) es) =
      ccoms out /\
    map (fun e => C02BlocksIni.opt_text txt (e_val e)) (filter (C02BlocksIni.is_kind KSection) es) =
      IniShape.csecs out /\
    filter (C02BlocksIni.is_kind KJunk) es = [].
Proof. exact IniReparse.serialize_reparse_ini. Qed.

(* on every entity of the parse of a legal ini block list, the model's Entity.wrap (apply_wrap
   over the parse context and the entity's spans) is wrap_props *)
Theorem C16_wrap_ini_is_model_wrap : forall bs, Forall C02BlocksIni.legal_iblock bs ->
  forall e, In e (C02BlocksIni.ientries_of bs) -> e_kind e = KEntity -> forall raw,
  apply_wrap (C02BlocksIni.ifile_text bs) (wrap_info_of e)
             (c_key (centry_view (C02BlocksIni.ifile_text bs) e)) raw =
  wrap_props (centry_view (C02BlocksIni.ifile_text bs) e) raw.
Proof. exact IniView.wrap_view_ini. Qed.

(* reference  [s] / a=A / ;c / <blank> / b=B / [t] / q=Q    old  [s] / a=la / q=lq    new {b: "nb"} *)
Definition ie (k v : list nat) : C02BlocksIni.iblock := C02BlocksIni.IEntity [] (A k) (A v) true.
Definition isec (n : list nat) : C02BlocksIni.iblock := C02BlocksIni.ISection (A n) true.
Definition i_ref : list C02BlocksIni.iblock :=
  [isec [115]; ie [97] [65]; C02BlocksIni.IComment [(59%N, A [99])]; C02BlocksIni.IBlank (A [10]);
   ie [98] [66]; isec [116]; ie [113] [81]].
Definition i_old : list C02BlocksIni.iblock := [isec [115]; ie [97] [108; 97]; ie [113] [108; 113]].

Ltac iwsok_one :=
  unfold IniReparse.iwsok;
  first [ intros Hw; vm_compute in Hw; discriminate
        | intros _; eexists; split; [vm_compute; reflexivity|]; split; [vm_compute; reflexivity|];
          intros Hl; first [vm_compute; reflexivity | exfalso; vm_compute in Hl; lia] ].
Ltac iversion_ok_tac :=
  split; [repeat constructor|]; split; [repeat constructor|]; split; [split; nodup_tac|];
  split; [vm_compute; intuition (try discriminate; try lia)|];
  unfold IniShape.icentries_of; cbn [IniShape.icents PropsShape.cflush app];
  repeat (apply Forall_cons; [iwsok_one|]); apply Forall_nil.

Example C16_example_ini_hyps :
  IniReparse.iversion_ok 2 i_ref /\ IniReparse.iversion_ok 2 i_old /\ C02BlocksRx.no_nl (A [110; 98]) = true.
Proof. split; [iversion_ok_tac|]. split; [iversion_ok_tac|]. vm_compute. reflexivity. Qed.

(* the bytes  [s] / a=la / ;c / <blank> / b=nb / [t] / q=lq  and their parse *)
Example C16_example_reparse_ini :
  exists txt es,
    serialize wrap_props (s [102;46;105;110;105])
              (number 0 (IniShape.icentries_of i_ref))
              (number (length (IniShape.icentries_of i_ref)) (IniShape.icentries_of i_old))
              [(A [98], Some (A [110; 98]))] = Ok txt /\
    txt = A [91;115;93;10; 97;61;108;97;10; 59;99;10;10; 98;61;110;98;10; 91;116;93;10; 113;61;108;113;10] /\
    walk_ini txt = Ok es /\
    map (fun e => let r := C02BlocksIni.entity_record txt e in (fst (fst r), snd (fst r)))
        (filter (C02BlocksIni.is_kind KEntity) es) =
      [(A [97], A [108; 97]); (A [98], A [110; 98]); (A [113], A [108; 113])] /\
    map (fun e => C02BlocksIni.opt_text txt (e_val e)) (filter (C02BlocksIni.is_kind KSection) es) =
      [A [115]; A [116]] /\
    filter (C02BlocksIni.is_kind KJunk) es = [].
Proof.
  eexists. eexists. split; [vm_compute; reflexivity|]. split; [reflexivity|]. split; [vm_compute; reflexivity|].
  split; [vm_compute; reflexivity|]. split; vm_compute; reflexivity.
Qed.

(* the premise on the new values is needed: the raw value "x<newline>y" is spliced in verbatim;
   the second line is no key=value line and re-parses as junk *)
Theorem C16_ini_raw_newline_refuted :
  exists name txt es,
    C02BlocksRx.no_nl (A [120; 10; 121]) = false /\
    serialize wrap_props name (number 0 (IniShape.icentries_of [ie [97] [65]])) []
              [(A [97], Some (A [120; 10; 121]))] = Ok txt /\
    walk_ini txt = Ok es /\ filter (C02BlocksIni.is_kind KJunk) es <> [].
Proof.
  exists (s [102;46;105;110;105]). eexists. eexists.
  split; [vm_compute; reflexivity|]. split; [vm_compute; reflexivity|].
  split; [vm_compute; reflexivity|]. vm_compute. discriminate.
Qed.

(* "every whitespace entry ends with a line break" ([iwsok]) is needed (listed finding
   serialize-ws-fold-ini-comment-leaves-line-start):
   reference  a=A / ;c / <blank> / b=B     old  a=la / <blank> / <2 blanks>b=lb     no new data
   — both legal and junk-free; the old file's "\n\n  " is kept in front of the reference
   comment, which then does not start a line: the output  a=la / <blank> / <2 blanks>;c / <blank> / b=lb
   has a Junk entry *)
Definition il_ref : list C02BlocksIni.iblock :=
  [ie [97] [65]; C02BlocksIni.IComment [(59%N, A [99])]; C02BlocksIni.IBlank (A [10]); ie [98] [66]].
Definition il_old : list C02BlocksIni.iblock :=
  [ie [97] [108; 97]; C02BlocksIni.IBlank (A [10; 32; 32]); ie [98] [108; 98]].
Theorem C16_reparse_ini_line_end_refuted :
  exists name txt es,
    Forall (fun bs => Forall C02BlocksIni.legal_iblock bs /\ C02BlocksIni.iadjacent_ok bs /\
                      ukeys (IniShape.icentries_of bs) /\ nf 2 (IniShape.icentries_of bs))
           [il_ref; il_old] /\
    serialize wrap_props name (number 0 (IniShape.icentries_of il_ref))
              (number (length (IniShape.icentries_of il_ref)) (IniShape.icentries_of il_old)) [] = Ok txt /\
    txt = A [97;61;108;97;10;10;32;32; 59;99;10;10; 98;61;108;98;10] /\
    walk_ini txt = Ok es /\ filter (C02BlocksIni.is_kind KJunk) es <> [].
Proof.
  exists (s [102;46;105;110;105]). eexists. eexists.
  split.
  { constructor; [|constructor; [|constructor]];
      (split; [repeat constructor|]); (split; [vm_compute; reflexivity|]);
      (split; [split; nodup_tac|]); vm_compute; intuition (try discriminate; try lia). }
  split; [vm_compute; reflexivity|]. split; [reflexivity|]. split; [vm_compute; reflexivity|].
  vm_compute. discriminate.
Qed.

(* ---- the re-parse clause for .inc -----------------------------------------------------------------
   Reference and old localization are legal .inc block lists (Proofs/C02BlocksInc.v) with
   [IncReparse.nversion_ok m] (2 <= m; see Properties/C15.v).  Premises that exclude the two
   listed findings, both needed:
   - [Forall nvalued rbs]: every reference entity has a value.  "#define KEY" alone has the value
     span (-1, -1): the model's (= the implementation's) Entity.wrap splices at the end of the
     file (inc-wrap-valueless-define, C16_wrap_valueless_refuted); with [props_wrap] the new
     value is glued to the key (C16_reparse_inc_valueless_refuted).
   - the reference starts with an instruction of key kf and the old localization is empty or
     starts with an instruction of the same key: otherwise pruning the placeholder of a first
     entity leaves its newline at offset 0, which is Junk (inc-serialize-blank-line-junk:
     C16_reparse_inc_head_refuted for the reference, C16_reparse_inc_old_head_refuted for an
     obsolete first entity of the old file — also with "#filter emptyLines" in the reference).
   - filter regions as in C15: no empty lines at all, or kf = "filter emptyLines" and no
     "#unfilter emptyLines" in either file.
   New values are one line.  Then the bytes re-parse (walk_defines) without junk; the entities
   are, with key and value, those of the output entry list: the reference keys with a value in
   reference order; comments and instructions are those of the output entry list. *)
Theorem C16_reparse_inc : forall m, 2 <= m -> forall kf rbs obs wrap nd name txt,
  IncReparse.nversion_ok m rbs -> IncReparse.nversion_ok m obs -> NoDup (map fst nd) ->
  props_wrap wrap ->
  (forall k raw, In (k, Some raw) nd -> C02BlocksRx.no_nl raw = true) ->
  Forall IncReparse.nvalued rbs ->
  MergeHeadInstr.starts_instr kf (IncShape.ncentries_of rbs) ->
  (IncShape.ncentries_of obs = [] \/ MergeHeadInstr.starts_instr kf (IncShape.ncentries_of obs)) ->
  ((IncReparse.single_ws (IncShape.ncentries_of rbs) /\ IncReparse.single_ws (IncShape.ncentries_of obs)) \/
   (kf = Parse.s_filter /\ IncReparse.no_unfilter (IncShape.ncentries_of rbs) /\
    IncReparse.no_unfilter (IncShape.ncentries_of obs))) ->
  let R := number 0 (IncShape.ncentries_of rbs) in
  let L := number (length (IncShape.ncentries_of rbs)) (IncShape.ncentries_of obs) in
  serialize wrap name R L nd = Ok txt ->
  exists out es,
    serialize_entries wrap R L nd = Ok out /\ txt = concat (map c_text out) /\
    walk_defines txt = Ok es /\
    map (fun e => let r := C02BlocksInc.entity_nrecord txt e in
                  (fst (fst r), match snd (fst r) with Some v => v | None => [] end))
        (filter (C02BlocksInc.is_kind KEntity) es) = krecs out /\
    map fst (krecs out) = filter (has_value L nd) (refkeys R) /\
    map (fun e => C02BlocksInc.span_text txt (e_span e)) (filter (C02BlocksInc.is_kind KComment) es) =
      ccoms out /\
    map (fun e => C02BlocksInc.opt_text txt (e_val e)) (filter (C02BlocksInc.is_kind KInstruction) es) =
      IncShape.cinstrs out /\
    filter (C02BlocksInc.is_kind KJunk) es = [].
Proof. exact IncReparse.serialize_reparse_inc. Qed.

(* reference  #filter emptyLines / <blank> / #define a A / # c / <blank> / #define b B
   old        #filter emptyLines / <blank> / #define a la          new {b: "nb"} *)
Definition ne (k v : list nat) : C02BlocksInc.nblock :=
  C02BlocksInc.NEntity [] (A [32]) (A k) (Some (32%N, A v)) true.
Definition n_ref : list C02BlocksInc.nblock :=
  [C02BlocksInc.nx_filter; C02BlocksInc.NBlank 1; ne [97] [65];
   C02BlocksInc.NComment [(35%N, A [32; 99])]; C02BlocksInc.NBlank 1; ne [98] [66]].
Definition n_old : list C02BlocksInc.nblock :=
  [C02BlocksInc.nx_filter; C02BlocksInc.NBlank 1; ne [97] [108; 97]].

Ltac nversion_ok_tac :=
  split; [repeat constructor|]; split; [split; nodup_tac|];
  split; [vm_compute; intuition (try discriminate; try lia)|vm_compute; reflexivity].
Ltac starts_instr_tac := eexists; eexists; split; [reflexivity|split; reflexivity].
Ltac no_unfilter_tac :=
  intros e He K; vm_compute in He;
  repeat (destruct He as [<-|He]; [first [discriminate K | vm_compute; discriminate]|]); contradiction.
Ltac single_ws_tac :=
  intros e He K; vm_compute in He;
  repeat (destruct He as [<-|He]; [first [discriminate K | vm_compute; reflexivity]|]); contradiction.

Example C16_example_inc_hyps :
  IncReparse.nversion_ok 2 n_ref /\ IncReparse.nversion_ok 2 n_old /\ Forall IncReparse.nvalued n_ref /\
  MergeHeadInstr.starts_instr Parse.s_filter (IncShape.ncentries_of n_ref) /\
  MergeHeadInstr.starts_instr Parse.s_filter (IncShape.ncentries_of n_old) /\
  IncReparse.no_unfilter (IncShape.ncentries_of n_ref) /\ IncReparse.no_unfilter (IncShape.ncentries_of n_old).
Proof.
  split; [nversion_ok_tac|]. split; [nversion_ok_tac|]. split; [repeat constructor|].
  split; [starts_instr_tac|]. split; [starts_instr_tac|]. split; no_unfilter_tac.
Qed.

(* the bytes  #filter emptyLines / <blank> / #define a la / # c / <blank> / #define b nb *)
Example C16_example_reparse_inc :
  exists txt es,
    serialize wrap_props (s [100;46;105;110;99])
              (number 0 (IncShape.ncentries_of n_ref))
              (number (length (IncShape.ncentries_of n_ref)) (IncShape.ncentries_of n_old))
              [(A [98], Some (A [110; 98]))] = Ok txt /\
    walk_defines txt = Ok es /\
    map (fun e => let r := C02BlocksInc.entity_nrecord txt e in
                  (fst (fst r), match snd (fst r) with Some v => v | None => [] end))
        (filter (C02BlocksInc.is_kind KEntity) es) = [(A [97], A [108; 97]); (A [98], A [110; 98])] /\
    map (fun e => C02BlocksInc.span_text txt (e_span e)) (filter (C02BlocksInc.is_kind KComment) es) =
      [A [35; 32; 99]] /\
    filter (C02BlocksInc.is_kind KJunk) es = [].
Proof.
  eexists. eexists. split; [vm_compute; reflexivity|]. split; [vm_compute; reflexivity|].
  split; [vm_compute; reflexivity|]. split; vm_compute; reflexivity.
Qed.

(* the reference must start with an instruction (listed finding inc-serialize-blank-line-junk):
   reference  #define A a / #define B b  (no empty lines, every entity valued), no old file,
   new {B: "x"}: A's placeholder is pruned, its newline stays in front — Junk at offset 0 *)
Definition nh_ref : list C02BlocksInc.nblock := [ne [65] [97]; ne [66] [98]].
Theorem C16_reparse_inc_head_refuted :
  exists name txt es,
    IncReparse.nversion_ok 2 nh_ref /\ IncReparse.nversion_ok 2 [] /\ Forall IncReparse.nvalued nh_ref /\
    IncReparse.single_ws (IncShape.ncentries_of nh_ref) /\
    serialize wrap_props name (number 0 (IncShape.ncentries_of nh_ref)) [] [(A [66], Some (A [120]))] = Ok txt /\
    txt = A [10; 35;100;101;102;105;110;101; 32; 66; 32; 120; 10] /\
    walk_defines txt = Ok es /\ filter (C02BlocksInc.is_kind KJunk) es <> [].
Proof.
  exists (s [100;46;105;110;99]). eexists. eexists.
  split; [nversion_ok_tac|]. split; [nversion_ok_tac|]. split; [repeat constructor|].
  split; [single_ws_tac|]. split; [vm_compute; reflexivity|]. split; [reflexivity|].
  split; [vm_compute; reflexivity|]. vm_compute. discriminate.
Qed.

(* ... and so must the old localization, also when the reference starts with "#filter emptyLines":
   reference  #filter emptyLines / #define A a     old  #define X x / #filter emptyLines / #define A la
   no new data: the obsolete X is pruned, its newline stays in front of everything *)
Definition no_ref : list C02BlocksInc.nblock := [C02BlocksInc.nx_filter; ne [65] [97]].
Definition no_old : list C02BlocksInc.nblock := [ne [88] [120]; C02BlocksInc.nx_filter; ne [65] [108; 97]].
Theorem C16_reparse_inc_old_head_refuted :
  exists name txt es,
    IncReparse.nversion_ok 2 no_ref /\ IncReparse.nversion_ok 2 no_old /\ Forall IncReparse.nvalued no_ref /\
    MergeHeadInstr.starts_instr Parse.s_filter (IncShape.ncentries_of no_ref) /\
    IncReparse.single_ws (IncShape.ncentries_of no_ref) /\ IncReparse.single_ws (IncShape.ncentries_of no_old) /\
    serialize wrap_props name (number 0 (IncShape.ncentries_of no_ref))
              (number (length (IncShape.ncentries_of no_ref)) (IncShape.ncentries_of no_old)) [] = Ok txt /\
    walk_defines txt = Ok es /\ filter (C02BlocksInc.is_kind KJunk) es <> [].
Proof.
  exists (s [100;46;105;110;99]). eexists. eexists.
  split; [nversion_ok_tac|]. split; [nversion_ok_tac|]. split; [repeat constructor|].
  split; [starts_instr_tac|]. split; [single_ws_tac|]. split; [single_ws_tac|].
  split; [vm_compute; reflexivity|]. split; [vm_compute; reflexivity|]. vm_compute. discriminate.
Qed.

(* every reference entity must have a value: with the tail-replacing wrap the new value of
   "#define foo" is glued to the key — the bytes re-parse to the key "foox" without a value,
   not to the entity (foo, x) of the output entry list *)
Definition nv_ref : list C02BlocksInc.nblock :=
  [C02BlocksInc.nx_filter; C02BlocksInc.NEntity [] (A [32]) (A [102; 111; 111]) None true].
Theorem C16_reparse_inc_valueless_refuted :
  exists name txt out es,
    IncReparse.nversion_ok 2 nv_ref /\
    MergeHeadInstr.starts_instr Parse.s_filter (IncShape.ncentries_of nv_ref) /\
    serialize wrap_props name (number 0 (IncShape.ncentries_of nv_ref)) [] [(A [102; 111; 111], Some (A [120]))] = Ok txt /\
    serialize_entries wrap_props (number 0 (IncShape.ncentries_of nv_ref)) [] [(A [102; 111; 111], Some (A [120]))] = Ok out /\
    krecs out = [(A [102; 111; 111], A [120])] /\
    walk_defines txt = Ok es /\
    map (fun e => let r := C02BlocksInc.entity_nrecord txt e in
                  (fst (fst r), match snd (fst r) with Some v => v | None => [] end))
        (filter (C02BlocksInc.is_kind KEntity) es) = [(A [102; 111; 111; 120], [])].
Proof.
  exists (s [100;46;105;110;99]). eexists. eexists. eexists.
  split; [nversion_ok_tac|]. split; [starts_instr_tac|].
  split; [vm_compute; reflexivity|]. split; [vm_compute; reflexivity|]. split; [vm_compute; reflexivity|].
  split; vm_compute; reflexivity.
Qed.

(* listed finding serialize-ws-fold-after-junk-joins-lines, at entry level: the old Fluent file
   one = Eins / # c / <3 blanks>junk / four = Vier  is walked as ... Comment, Whitespace "\n",
   Whitespace "   ", Junk, Whitespace "\n" ...; serialize drops the Junk entry, the two
   whitespace entries meet and prune keeps the longer "   ": with new_data {two: "two = Zwei"}
   the bytes are  one = Eins / # c   two = Zwei / four = Vier  — comment and message on one
   line.  The entity-level theorems hold of this run (entities one, two, four). *)
Definition fj_contents := s [111;110;101;32;61;32;79;110;101;10; 116;119;111;32;61;32;84;119;111;10;
                             102;111;117;114;32;61;32;70;111;117;114;10].
Definition fj_ref :=
  [mkc CEntity (s [111;110;101]) (s [111;110;101;32;61;32;79;110;101]) (s [111;110;101;32;61;32;79;110;101]) 1;
   mkc CWhite [] (s [10]) [] 2;
   mkc CEntity (s [116;119;111]) (s [116;119;111;32;61;32;84;119;111]) (s [116;119;111;32;61;32;84;119;111]) 3;
   mkc CWhite [] (s [10]) [] 4;
   mkc CEntity (s [102;111;117;114]) (s [102;111;117;114;32;61;32;70;111;117;114]) (s [102;111;117;114;32;61;32;70;111;117;114]) 5;
   mkc CWhite [] (s [10]) [] 6].
Definition fj_wraps : list (nat * wrapinfo) := [(1, WFluent []); (3, WFluent []); (5, WFluent [])].
Definition fj_old :=
  [mkc CEntity (s [111;110;101]) (s [111;110;101;32;61;32;69;105;110;115]) (s [111;110;101;32;61;32;69;105;110;115]) 7;
   mkc CWhite [] (s [10]) [] 8;
   mkc CComment (s [99]) (s [35;32;99]) [] 9;
   mkc CWhite [] (s [10]) [] 10; mkc CWhite [] (s [32;32;32]) [] 11;
   mkc CJunk (s [95;106]) (s [106;117;110;107]) [] 12; mkc CWhite [] (s [10]) [] 13;
   mkc CEntity (s [102;111;117;114]) (s [102;111;117;114;32;61;32;86;105;101;114]) (s [102;111;117;114;32;61;32;86;105;101;114]) 14;
   mkc CWhite [] (s [10]) [] 15].
Theorem C16_ws_fold_after_junk_refuted :
  exists out,
    serialize_entries (wrap_by_id fj_contents fj_wraps) fj_ref fj_old
      [(s [116;119;111], Some (s [116;119;111;32;61;32;90;119;101;105]))] = Ok out /\
    map c_key (filter is_cent out) = [s [111;110;101]; s [116;119;111]; s [102;111;117;114]] /\
    concat (map c_text out) =
      s [111;110;101;32;61;32;69;105;110;115;10; 35;32;99; 32;32;32; 116;119;111;32;61;32;90;119;101;105;10;
         102;111;117;114;32;61;32;86;105;101;114;10].
Proof.
  eexists. split; [vm_compute; reflexivity|]. split; vm_compute; reflexivity.
Qed.

(* ---- the re-parse clause for PO -------------------------------------------------------------------
   Reference and old localization are legal PO block lists with [PoReparse.pversion_ok m] (see
   Properties/C15.v; keys are the meaning of msgid plus \x04 and the msgctxt meaning).  The raw
   value of a PO message is its whole msgstr clause, the tail of the entity text, so
   [props_wrap wrap] is Entity.wrap; new values are msgstr clauses ([legal_po_raw]: "msgstr" and
   a non-empty list of quoted items).  Then the bytes are the text of a legal block list whose
   entries are, up to object identity, the output entry list; walk_po yields that block list's
   entries: no Junk, the kinds of the output list in order; the entities of the output list are
   the reference keys with a value, in reference order. *)
Theorem C16_reparse_po : forall m rbs obs wrap nd name txt,
  PoReparse.pversion_ok m rbs -> PoReparse.pversion_ok m obs -> NoDup (map fst nd) ->
  props_wrap wrap ->
  (forall k raw, In (k, Some raw) nd -> PoReparse.legal_po_raw raw) ->
  let R := number 0 (PoReparse.pcentries_of rbs) in
  let L := number (length (PoReparse.pcentries_of rbs)) (PoReparse.pcentries_of obs) in
  serialize wrap name R L nd = Ok txt ->
  exists out bs,
    serialize_entries wrap R L nd = Ok out /\ txt = concat (map c_text out) /\
    map fst (krecs out) = filter (has_value L nd) (refkeys R) /\
    Forall C02BlocksPo.legal_pblock bs /\ C02BlocksPo.padjacent_ok bs /\ C02BlocksPo.pfile_text bs = txt /\
    map strip (PoReparse.pcentries_of bs) = map strip out /\
    walk_po txt = Ok (C02BlocksPo.pentries_of bs) /\
    map (fun e => PoReparse.ckind_of (e_kind e)) (C02BlocksPo.pentries_of bs) = map c_kind out /\
    Forall (fun e => e_kind e <> KJunk) (C02BlocksPo.pentries_of bs).
Proof. exact PoReparse.serialize_reparse_po. Qed.

(* reference  msgid "a" msgstr "A" / # c / msgid "b" msgstr "B"    old  msgid "a" msgstr "l"    new {b: msgstr "n"} *)
Definition pit (c : nat) : list C02BlocksPoRx.pitem := [C02BlocksPo.it [32] [C02Po.PPlain (N.of_nat c)]].
Definition pm (k v : nat) : C02BlocksPo.pblock := C02BlocksPo.PEntity [] [] None (pit k) (A [10]) (pit v).
Definition pnl : C02BlocksPo.pblock := C02BlocksPo.PBlank (A [10; 10]).
Definition p_ref : list C02BlocksPo.pblock :=
  [pm 97 65; pnl; C02BlocksPo.PComment [(35%N, A [32; 99])]; pnl; pm 98 66; pnl].
Definition p_old : list C02BlocksPo.pblock := [pm 97 108; pnl].
Definition p_raw : str := A [109;115;103;115;116;114; 32;34;110;34].

Ltac pwsok_one :=
  unfold PoReparse.pwsok;
  first [ intros Hw; vm_compute in Hw; discriminate
        | intros _ Hl; first [vm_compute; lia | exfalso; vm_compute in Hl; lia] ].
Ltac pversion_ok_tac :=
  split; [repeat constructor|]; split; [repeat constructor|];
  split; [split; nodup_tac|]; split; [vm_compute; intuition (try discriminate; try lia)|];
  unfold PoReparse.pcentries_of; cbn [PoReparse.pcents PropsShape.cflush app pm pnl];
  repeat (apply Forall_cons; [pwsok_one|]); apply Forall_nil.

Example C16_example_po_hyps :
  PoReparse.pversion_ok 2 p_ref /\ PoReparse.pversion_ok 2 p_old /\ PoReparse.legal_po_raw p_raw.
Proof.
  split; [pversion_ok_tac|]. split; [pversion_ok_tac|].
  exists (pit 110). split; vm_compute; reflexivity.
Qed.

Example C16_example_reparse_po :
  exists txt es,
    serialize wrap_props (s [102;46;112;111])
              (number 0 (PoReparse.pcentries_of p_ref))
              (number (length (PoReparse.pcentries_of p_ref)) (PoReparse.pcentries_of p_old))
              [(A [98], Some p_raw)] = Ok txt /\
    walk_po txt = Ok es /\
    map e_kind es = [KEntity; KWhitespace; KComment; KWhitespace; KEntity; KWhitespace] /\
    map (fun e => C02Blocks.opt_text txt (e_val e)) (filter (is_kind KEntity) es) =
      [A [109;115;103;115;116;114; 32;34;108;34]; p_raw].
Proof.
  eexists. eexists. split; [vm_compute; reflexivity|]. split; [vm_compute; reflexivity|].
  split; vm_compute; reflexivity.
Qed.

(* listed finding dtd-apostrophe-value-in-apostrophe-quoted-entity: the premise [legal_dtd_raw]
   of C16_reparse_dtd is needed — reference <!ENTITY a 'A'>, new value it's: the bytes
   <!ENTITY a 'it's'> re-parse as Junk *)
Definition da_ref : list C02BlocksDtd.block :=
  [C02BlocksDtd.BEntity None (A [32]) (A [97]) (A [32]) 39%N (A [65]) []; dnl].
Theorem C16_dtd_apostrophe_refuted :
  exists name txt es,
    DtdReparse.legal_dtd_raw (A [105;116;39;115]) = false /\
    serialize DtdReparse.wrap_dtd name (number 0 (DtdShape.dcentries_of da_ref)) []
              [(A [97], Some (A [105;116;39;115]))] = Ok txt /\
    walk_dtd txt = Ok es /\ filter (is_kind KJunk) es <> [].
Proof.
  exists (s [102;46;100;116;100]). eexists. eexists.
  split; [vm_compute; reflexivity|]. split; [vm_compute; reflexivity|].
  split; [vm_compute; reflexivity|]. vm_compute. discriminate.
Qed.
