(* C14 — filter verdicts: last rule wins, most severe wins.

   Model: Model/Filter.v (ProjectConfig._compile_rule, add_rules, add_child,
   exclude, all_locales, FilterCache/cache, _filter, filter), independent
   specification Model/FilterSpec.v, in-file branch of ContentComparer.compare
   with the observers Model/FilterCompare.v.  Path matching is a parameter:
   [matches m locale file] is `m.with_env({"locale": locale}).match(path) is
   not None` (an empty dictionary -- a pattern without variables or wildcards
   -- is a match).  [compile_re] is re.compile on the user's `re:` keys.

   Theorems only; each is closed by a lemma of Proofs/Filter*.v. *)
From Coq Require Import NArith List Bool Arith.
From CL Require Import Base.Str Base.Res Regex.Rx Generated.FilterFacts Model.Filter Model.FilterSpec
  Model.FilterCompare Proofs.FilterKeyProofs Proofs.FilterProofs Proofs.FilterCacheProofs Proofs.FilterCompareProofs
  Model.Pattern Model.Matcher Model.FilterE2E Proofs.MatcherSpec Proofs.MatcherComplete
  Proofs.MatcherRooted Proofs.FilterE2EProofs Proofs.FilterE2EMatch Proofs.FilterE2EExample.
Import ListNotations.

(* ---- keys ----------------------------------------------------------------- *)
(* a literal key compiles to re.escape(key) + "$" and is used with .match: it
   accepts the key itself and -- the `$` quirk -- the key followed by one newline *)
Theorem C14_literal_key : forall k e,
  key_match (lit_rx k) e = str_eqb e k || str_eqb e (k ++ [10%N]).
Proof. exact lit_key_match. Qed.

(* the regex engine never runs out of fuel on a key (is_match's MFuel branch is dead) *)
Theorem C14_key_no_fuel : forall r e, rmatch r e 0 <> MFuel.
Proof. exact key_match_no_fuel. Qed.

Section C14.
Variables (matcher locale file : Type).
Variable loc_eqb : locale -> locale -> bool.
Variable compile_re : str -> option rx.
Variable matches : matcher -> locale -> file -> bool.

(* For every configuration tree built through the API (rule lists expanded by
   _compile_rule, nested includes, excludes), every locale, file and key: the
   cache-free filter computes the documented verdict -- ignore when the locale
   or the path is not covered or an excluded configuration covers the file,
   else the most severe, over the configuration and its includes, of "action
   of the last rule that applies, else error" -- outside the known finding
   D10: every excluded configuration covering the file answers `error` for it. *)
Theorem C14_refines_spec : forall raw cfg loc f ent,
  build matcher locale compile_re raw = Ok cfg ->
  excludes_error_only matcher locale file loc_eqb matches compile_re raw loc f = true ->
  filter_pure matcher locale file loc_eqb matches cfg loc f ent =
  spec matcher locale file loc_eqb matches compile_re raw loc f ent.
Proof. exact (refines_spec matcher locale file loc_eqb matches compile_re). Qed.

(* the syntactic form of DESIGN's hypothesis: excluded configurations (and
   what they include) carry no file-level rule with an action other than error *)
Theorem C14_refines_spec_no_exclude_rules : forall raw cfg loc f ent,
  build matcher locale compile_re raw = Ok cfg ->
  no_exclude_rules matcher locale raw = true ->
  filter_pure matcher locale file loc_eqb matches cfg loc f ent =
  spec matcher locale file loc_eqb matches compile_re raw loc f ent.
Proof.
  intros raw cfg loc f ent Hb Hn. apply C14_refines_spec; [exact Hb|].
  apply no_exclude_rules_sufficient. exact Hn.
Qed.

Hypothesis loc_eqb_eq : forall a b, loc_eqb a b = true <-> a = b.

(* After configuration is complete ([coherent]: every filled cache slot holds
   what would be computed now -- true of every freshly built configuration,
   next theorem), any sequence of filter calls on the one object, in any
   interleaving of locales, returns the cache-free results. *)
Theorem C14_cache_transparent : forall qs c,
  coherent matcher locale loc_eqb c ->
  run_queries matcher locale file loc_eqb matches c qs =
  map (fun q => filter_pure matcher locale file loc_eqb matches c (fst (fst q)) (snd (fst q)) (snd q)) qs.
Proof. exact (cache_transparent matcher locale file loc_eqb matches loc_eqb_eq). Qed.

Theorem C14_built_coherent : forall raw cfg,
  build matcher locale compile_re raw = Ok cfg -> coherent matcher locale loc_eqb cfg.
Proof. exact (built_coherent matcher locale loc_eqb compile_re). Qed.

(* each call leaves the configuration complete and its data untouched *)
Theorem C14_cache_preserved : forall c loc f ent,
  coherent matcher locale loc_eqb c ->
  fst (filter_st matcher locale file loc_eqb matches c loc f ent) =
    filter_pure matcher locale file loc_eqb matches c loc f ent /\
  coherent matcher locale loc_eqb (snd (filter_st matcher locale file loc_eqb matches c loc f ent)) /\
  erase matcher locale (snd (filter_st matcher locale file loc_eqb matches c loc f ent)) =
    erase matcher locale c.
Proof. exact (filter_st_transparent matcher locale file loc_eqb matches loc_eqb_eq). Qed.

(* In-file clause (compare semantics): with one observer whose filter is this
   project's, over the keys missing from an existing localized file: exactly
   the keys with verdict error are counted as missing and handed to merge;
   exactly the warning ones are counted, as report; ignored ones are in
   neither and are not shown; nothing is recorded when the file's dummy key
   '' is ignored. *)
Theorem C14_in_file : forall shown c loc f keys,
  let g := fun k => filter_pure matcher locale file loc_eqb matches c loc f (Some k) in
  let r := compare_missing shown [Some g] keys in
  let merged := filter (fun k => is_error (g k)) keys in
  let reported := filter (fun k => action_beq (g k) AWarning) keys in
  c_missings r = merged /\
  c_missing r = length merged /\
  c_report r = length reported /\
  map o_details (c_obs r) = [shown_keys shown (fun k => negb (is_ignore (g k))) keys] /\
  map o_summary (c_obs r) =
    [if is_ignore (g []) then (0, 0) else (length merged, length reported)].
Proof. intros shown c loc f keys. apply in_file_single. Qed.

End C14.

(* several projects (ObserverList): merged = some project says error; report =
   none says error and not all ignore *)
Theorem C14_in_file_projects : forall shown fs keys,
  let r := compare_missing shown fs keys in
  let merged := filter (fun k => is_error (combined fs k)) keys in
  let reported := filter (fun k => is_report (combined fs k)) keys in
  c_missings r = merged /\
  c_missing r = length merged /\
  c_report r = length reported /\
  map o_details (c_obs r) =
    map (fun g => shown_keys shown (fun k => negb (skips g k)) keys) fs /\
  map o_summary (c_obs r) = map (fun g => summary_for g (length merged) (length reported)) fs /\
  o_details (c_own r) = shown_keys shown (fun k => negb (is_ignore (combined fs k))) keys /\
  o_summary (c_own r) = (length merged, length reported).
Proof. exact compare_missing_spec. Qed.

(* ---- a concrete universe for witnesses and examples ----------------------------
   locale 0 = de, 1 = fr; file 0 = l10n/de/a/b.ftl, 1 = l10n/de/c/e.ftl;
   a matcher is its table of (locale, file, size of the match dictionary) *)
Definition tmatcher := list (nat * nat * nat).
Definition tpmatch (m : tmatcher) (l f : nat) : option nat :=
  match find (fun p => Nat.eqb (fst (fst p)) l && Nat.eqb (snd (fst p)) f) m with
  | Some p => Some (snd p)
  | None => None
  end.
Definition tmatch := doc_matches tmatcher nat nat tpmatch.     (* `is not None` *)
Definition no_re (_ : str) : option rx := None.

Definition m_all : tmatcher := [(0, 0, 2); (0, 1, 2)].        (* l10n/{locale}/** *)
Definition m_a : tmatcher := [(0, 0, 2)].                      (* l10n/{locale}/a/** *)
Definition m_b : tmatcher := [(0, 0, 1)].                      (* l10n/{locale}/a/b.ftl *)
Definition m_lit : tmatcher := [(0, 0, 0); (1, 0, 0)].         (* l10n/de/a/b.ftl: no variable *)
Definition k1 : str := [107; 49]%N.

Definition raw_plain (rules : list (rawrule tmatcher)) : rawconfig tmatcher nat :=
  mkrawc _ _ (Some [0; 1]) [mkpath _ _ m_all None] rules [] [].

(* D10: the excluded configuration covers the file, with a file-level warning
   rule; the parent still reports error where the documented verdict is ignore *)
Definition raw_excl : rawconfig tmatcher nat :=
  mkrawc _ _ (Some [0]) [mkpath _ _ m_all None] [] []
         [mkrawc _ _ (Some [0]) [mkpath _ _ m_a None]
                 [mkraw _ (RPone _ m_b) None AWarning] [] []].

Theorem C14_exclude_refuted : exists raw cfg loc f,
  build tmatcher nat no_re raw = Ok cfg /\
  excludes_error_only tmatcher nat nat Nat.eqb tmatch no_re raw loc f = false /\
  existsb (fun e => excl_covers tmatcher nat nat Nat.eqb tmatch no_re e loc f)
          (match raw with mkrawc _ _ _ _ _ _ ex => ex end) = true /\
  filter_pure tmatcher nat nat Nat.eqb tmatch cfg loc f None = AError /\
  spec tmatcher nat nat Nat.eqb tmatch no_re raw loc f None = AIgnore.
Proof.
  exists raw_excl.
  destruct (build tmatcher nat no_re raw_excl) as [cfg|] eqn:E; [|vm_compute in E; discriminate].
  exists cfg, 0, 0. split; [reflexivity|].
  vm_compute in E. injection E as <-. vm_compute. repeat split; reflexivity.
Qed.

(* a rule whose path has no variable or wildcard (Matcher.match returns the
   EMPTY dictionary) applies like any other: the comparison is with None.
   (Before the repair 1757672 `_filter` tested the dictionary for truth and
   this verdict was `error`.) *)
Example C14_literal_path_applies :
  match build tmatcher nat no_re (raw_plain [mkraw _ (RPone _ m_lit) None AIgnore]) with
  | Ok cfg =>
      tpmatch m_lit 0 0 = Some 0 /\
      filter_pure tmatcher nat nat Nat.eqb tmatch cfg 0 0 None = AIgnore /\
      spec tmatcher nat nat Nat.eqb tmatch no_re
           (raw_plain [mkraw _ (RPone _ m_lit) None AIgnore]) 0 0 None = AIgnore
  | Raise _ => False
  end.
Proof. vm_compute. repeat split; reflexivity. Qed.

(* add_rules after a filter call for the same locale is not seen: the
   FilterCache slot is only rebuilt when the locale changes.  (Documented:
   configurations are built before they are queried; [coherent] is the
   hypothesis of C14_cache_transparent that this breaks.) *)
Theorem C14_cache_stale_refuted : exists cfg loc f rule c2,
  coherent tmatcher nat Nat.eqb cfg /\
  add_rules tmatcher nat no_re (snd (filter_st tmatcher nat nat Nat.eqb tmatch cfg loc f None)) [rule]
    = Ok c2 /\
  fst (filter_st tmatcher nat nat Nat.eqb tmatch c2 loc f None) = AError /\
  filter_pure tmatcher nat nat Nat.eqb tmatch c2 loc f None = AIgnore /\
  (* asking about another locale and coming back refreshes the slot *)
  fst (filter_st tmatcher nat nat Nat.eqb tmatch
         (snd (filter_st tmatcher nat nat Nat.eqb tmatch c2 1 f None)) loc f None) = AIgnore.
Proof.
  destruct (build tmatcher nat no_re (raw_plain [])) as [cfg|] eqn:E; [|vm_compute in E; discriminate].
  exists cfg, 0, 0, (mkraw _ (RPone _ m_all) None AIgnore).
  pose proof (built_coherent tmatcher nat Nat.eqb no_re _ _ E) as Hc.
  vm_compute in E. injection E as <-.
  eexists. split; [exact Hc|]. split; [vm_compute; reflexivity|].
  vm_compute. repeat split; reflexivity.
Qed.

(* ---- the hypotheses are satisfiable by non-trivial configurations ------------ *)
Definition raw_nested : rawconfig tmatcher nat :=
  mkrawc _ _ (Some [0; 1]) [mkpath _ _ m_all None]
         [mkraw _ (RPlist _ [m_a; m_b]) (Some (RKs [RK k1; RKs [RK [107; 50]%N]])) AIgnore;
          mkraw _ (RPone _ m_all) None AWarning]
         [mkrawc _ _ None [mkpath _ _ m_a (Some [0])]
                 [mkraw _ (RPone _ m_b) (Some (RK k1)) AWarning] [] []]
         [mkrawc _ _ (Some [0]) [mkpath _ _ [(0, 1, 2)] None] [] [] []].

Example C14_refines_spec_premises : exists cfg,
  build tmatcher nat no_re raw_nested = Ok cfg /\
  excludes_error_only tmatcher nat nat Nat.eqb tmatch no_re raw_nested 0 0 = true /\
  no_exclude_rules tmatcher nat raw_nested = true /\
  (* entity k1 of file 0: the child's warning beats the parent's ignore *)
  filter_pure tmatcher nat nat Nat.eqb tmatch cfg 0 0 (Some k1) = AWarning /\
  (* the same key followed by a newline is still the literal key *)
  filter_pure tmatcher nat nat Nat.eqb tmatch cfg 0 0 (Some (k1 ++ [10%N])) = AWarning /\
  (* another key: the child's default error wins *)
  filter_pure tmatcher nat nat Nat.eqb tmatch cfg 0 0 (Some [122]%N) = AError /\
  (* file 1 is covered by the excluded configuration *)
  filter_pure tmatcher nat nat Nat.eqb tmatch cfg 0 1 None = AIgnore /\
  (* locale 1 has no file here *)
  filter_pure tmatcher nat nat Nat.eqb tmatch cfg 1 0 None = AIgnore.
Proof.
  destruct (build tmatcher nat no_re raw_nested) as [cfg|] eqn:E; [|vm_compute in E; discriminate].
  exists cfg. split; [reflexivity|]. vm_compute in E. injection E as <-.
  vm_compute. repeat split; reflexivity.
Qed.

Example C14_cache_example :
  match build tmatcher nat no_re raw_nested with
  | Ok cfg =>
      run_queries tmatcher nat nat Nat.eqb tmatch cfg
                  [(0, 0, Some k1); (1, 0, None); (0, 0, Some k1); (0, 1, None); (0, 0, None)]
      = [AWarning; AIgnore; AWarning; AIgnore; AError]
  | Raise _ => False
  end.
Proof. vm_compute. reflexivity. Qed.

Example C14_in_file_example :
  let g := fun k : str => if str_eqb k k1 then AIgnore
                          else if str_eqb k [107; 50]%N then AWarning else AError in
  let r := compare_missing true [Some g] [k1; [107; 50]%N; [122]%N; [107; 50]%N] in
  c_missings r = [[122]%N] /\ c_missing r = 1 /\ c_report r = 2 /\
  map o_details (c_obs r) = [[[107; 50]%N; [122]%N; [107; 50]%N]] /\
  map o_summary (c_obs r) = [(1, 2)].
Proof. vm_compute. repeat split; reflexivity. Qed.

(* ==== END TO END: rules that carry pattern texts ================================
   Model/FilterE2E.v: the paths of a configuration are TEXTS; they are parsed by
   the Pattern model (PatternParser), bound to the locale (Matcher.with_env) and
   matched on the regex engine (Matcher.match_): the Matcher of C11/C12 takes the
   place of the match tables.  [filter_res] is `_filter`/`filter` once more with
   binding and matching that may RAISE, in the code's order of evaluation. *)

(* Refinement: whenever every matcher of the project can be bound to the locale
   and evaluated on the file ([def_at]), the raising pattern-level filter
   returns Ok of the table-based cache-free filter, the table being what
   binding and matching compute -- so every theorem above transfers. *)
Theorem C14_e2e_refines_tables :
  forall (matcher bmatcher locale file : Type) (loc_eqb : locale -> locale -> bool)
         (rbind : matcher -> locale -> result bmatcher) (rmatch_b : bmatcher -> file -> result bool)
         (mb : matcher -> locale -> file -> bool) (c : config matcher locale) loc f ent,
  (forall M, In M (cfg_matchers matcher locale c) ->
             def_at matcher bmatcher locale file rbind rmatch_b mb loc f M) ->
  filter_res matcher bmatcher locale file loc_eqb rbind rmatch_b c loc f ent =
  Ok (filter_pure matcher locale file loc_eqb mb c loc f ent).
Proof. exact filter_res_refines. Qed.

(* A rule path of the C11 grammar (rooted) never raises: binding and matching are
   defined on every path. *)
Theorem C14_e2e_grammar_defined : forall M loc path,
  in_filter_grammar M loc -> e2e_defined M loc path.
Proof. exact grammar_defined. Qed.

(* What "the rule's pattern matches the path" means (C11 soundness): the match
   dictionary is a valuation under which the bound pattern expands to the path
   (up to the one final newline `$` lets through), with wildcard values of their
   kinds ... *)
Theorem C14_e2e_rule_path_sound : forall M loc path, e2e_matches M loc path = true ->
  exists B d, e2e_bind M loc = Ok B /\ match_ B path = Ok (Some d) /\
  (simple_rooted B ->
   (exists p0, upto_final_newline path p0 /\
               expand_pattern (sub_env d (m_env B)) false (m_pat B) = Ok p0) /\
   kinds_ok (m_pat (unroot B)) d).
Proof. exact e2e_matches_sound. Qed.

(* ... and conversely (C11 completeness): the path assembled from one fitting
   piece per node of the bound pattern, behind its root, matches. *)
Theorem C14_e2e_rule_path_complete : forall M loc B d pieces,
  e2e_bind M loc = Ok B -> simple_rooted B -> compiles (unroot B) ->
  Forall var_not_star (p_nodes (m_pat (unroot B))) ->
  Forall2 (piece_for (m_env B) d) (p_nodes (m_pat (unroot B))) pieces ->
  e2e_matches M loc (concat pieces) = true.
Proof. exact e2e_matches_complete. Qed.

(* C14_end_to_end.  A project given by pattern texts (with the environ and root
   its Matchers are created with), all of whose l10n paths and rule paths, bound
   to the locale, are in the C11 grammar (rooted): for every file path and key,
   `filter` does not raise and returns the documented verdict, where "matches"
   is matching of the Matcher model: ignore when the locale or the path is not
   covered or an excluded configuration covers the file; else the most severe,
   over the configuration and its includes, of "action of the LAST rule whose
   pattern matches the path and whose key matches, else error".  (D10 hypothesis
   as in C14_refines_spec.) *)
Theorem C14_end_to_end : forall compile_re t raw loc path ent,
  t_compile t = Ok raw ->
  (exists cfg, build matcher str compile_re raw = Ok cfg) ->
  project_in_grammar raw loc ->
  excludes_error_only matcher str str str_eqb e2e_matches compile_re raw loc path = true ->
  e2e_filter compile_re t loc path ent =
  Ok (spec matcher str str str_eqb e2e_matches compile_re raw loc path ent).
Proof. exact end_to_end. Qed.

(* the same for one configuration without includes and excludes, clauses spelled out *)
Theorem C14_end_to_end_flat : forall compile_re t locs ps rs loc path ent,
  t_compile t = Ok (mkrawc _ _ locs ps rs [] []) ->
  (exists cfg, build matcher str compile_re (mkrawc _ _ locs ps rs [] []) = Ok cfg) ->
  project_in_grammar (mkrawc _ _ locs ps rs [] []) loc ->
  e2e_filter compile_re t loc path ent =
  Ok (if existsb (str_eqb loc) (raw_locales _ _ (mkrawc _ _ locs ps rs [] [])) &&
         existsb (fun p => path_covers matcher str str str_eqb e2e_matches p loc path) ps
      then match last_such (fun r => rule_applies matcher str str e2e_matches compile_re r loc path ent) rs with
           | Some r => rr_action _ r
           | None => AError
           end
      else AIgnore).
Proof. exact end_to_end_flat. Qed.

(* By construction, from the completeness of matching (no run of the engine on
   the path): root /r, l = l10n/, locales [de], l10n path {l}**, rules
   `{l}**` -> ignore then `{l}browser/**/*.ftl` -> warning.  EVERY path
   /r/l10n/browser/<b>/<x>.ftl -- the expansion of the valuation ** = b/, * = x --
   gets `warning`: the last matching rule wins over the earlier `ignore`. *)
Example C14_end_to_end_example : forall b x,
  b <> [] -> has_char nl b = false -> has_char c_slash x = false -> has_char nl x = false ->
  e2e_filter x_no_re x_config x_de (x_path b x) None = Ok AWarning.
Proof. exact end_to_end_example. Qed.

Example C14_end_to_end_example_premises :
  t_compile x_config = Ok x_raw /\ project_in_grammar x_raw x_de /\
  (* a path outside browser/ only meets the first rule *)
  e2e_filter x_no_re x_config x_de
    (of_ascii [47;114;47;108;49;48;110;47;116;111;111;108;107;105;116;47;97;46;102;116;108]) None = Ok AIgnore /\
  (* an instance of the family, evaluated: /r/l10n/browser/a/b/c.ftl *)
  e2e_filter x_no_re x_config x_de (x_path (of_ascii [97;47;98]) (of_ascii [99])) None = Ok AWarning.
Proof.
  split; [exact x_compile|]. split; [exact x_in_grammar|]. split; vm_compute; reflexivity.
Qed.
