(* C14 — filter verdicts: last rule wins, most severe wins. *)
From Coq Require Import NArith List Bool Arith.
From CL Require Import Base.Str Base.Res Regex.Rx Generated.FilterFacts Model.Filter Model.FilterSpec
  Model.FilterCompare.
Import ListNotations.

Example C14_placeholder : merge_acts [Some AIgnore; None; Some AWarning] = Some AWarning.
Proof. vm_compute. reflexivity. Qed.
