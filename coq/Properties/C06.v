(* C06 — properties: printf and plural verdicts match the argument model.

   The model is Model/CheckProps.v (PropertiesChecker.check / check_plural /
   checkPrintf / getPrintfSpecs, Checker.check, plurals.get_plural) over
   Model/Difflib.v (SequenceMatcher without junk heuristics), with the regular
   expressions, the plural tables and every literal regenerated from the
   source (Generated/RxC06.v, Generated/C06Facts.v).

   Vocabulary (Model/CheckPropsSpec.v): [prefix l1 l2] = l2 starts with l1;
   [has_error fs] = some finding has severity "error"; [error_f p m] /
   [warning_f m] = the findings ("error", p, m, "printf") / ("warning", 0, m,
   "printf"); [plural_f sev m] = (sev, 0, m, "plural"); [plural_forms loc] =
   number of plural forms of the locale in the generated table. *)
From Coq Require Import NArith List Bool Arith.
From CL Require Import Base.Sx Base.Res Base.Str Generated.C06Facts
  Model.Difflib Model.CheckProps Model.CheckPropsSpec
  Proofs.DifflibProofs Proofs.CheckPropsProofs Proofs.PluralProofs
  Proofs.SpecsProofs Proofs.PrintfRxProofs Proofs.SpecsTokens Proofs.PluralVarsProofs
  Proofs.CheckSelectProofs.
Import ListNotations.

(* ---- difflib (model without junk heuristics) ----------------------------------
   get_opcodes never runs out of fuel and its opcodes tile both sequences:
   consecutive, each of the right shape for its tag, "equal" blocks are equal
   slices (DifflibProofs.tiles / op_ok). *)
Theorem C06_difflib_tiles : forall (T : Type) (eqb : T -> T -> bool),
  (forall x y, eqb x y = true <-> x = y) ->
  forall a b, exists ops, get_opcodes eqb a b = Some ops /\ tiles a b ops 0 0.
Proof. exact @get_opcodes_tiles. Qed.

(* if b is a proper prefix of a: one "equal" over b (if b is not empty), one
   "delete" of the rest of a *)
Theorem C06_difflib_prefix : forall (T : Type) (eqb : T -> T -> bool),
  (forall x y, eqb x y = true <-> x = y) ->
  forall (b c : list T), c <> [] ->
  get_opcodes eqb (b ++ c) b =
  Some ((if Nat.eqb (length b) 0 then [] else [mkop Equal 0 (length b) 0 (length b)]) ++
        [mkop Delete (length b) (length (b ++ c)) (length b) (length b)]).
Proof. exact @get_opcodes_prefix. Qed.

(* ---- the printf verdict --------------------------------------------------------
   For every reference spec list and every localized value: a malformed value
   is exactly the error of getPrintfSpecs at its position; otherwise, below
   difflib's autojunk threshold (200 localized specs; the model answers
   NotSupported at or above it):
     - an error is reported iff the localized specs are not a prefix of the
       reference's;
     - equal lists: no finding;
     - a proper prefix: exactly the one warning listing the trailing arguments;
     - not a prefix: one error at position 0, possibly followed by one warning. *)
Theorem C06_printf_verdict : forall (refSpecs : list spec) (v : str),
  match get_printf_specs v with
  | Raise t => check_printf refSpecs v = Raise t
  | Ok (SErr p e) => check_printf refSpecs v = Ok [error_f p (perr_msg e)]
  | Ok (SOk ls) =>
      length ls < autojunk_threshold ->
      exists fs, check_printf refSpecs v = Ok fs /\
        (has_error fs = true <-> ~ prefix ls refSpecs) /\
        (ls = refSpecs -> fs = []) /\
        (prefix ls refSpecs -> ls <> refSpecs ->
           exists ws, mapM (msg_ref lit_pf_fmt_trailing refSpecs)
                           (range (length ls) (length refSpecs)) = Ok ws /\
                      fs = [warning_f (join lit_pf_join_warn ws)]) /\
        (~ prefix ls refSpecs ->
           exists m rest, fs = error_f 0 m :: rest /\
                          (rest = [] \/ exists w, rest = [warning_f w]))
  end.
Proof. exact check_printf_verdict. Qed.

(* the scan of getPrintfSpecs never runs out of fuel *)
Theorem C06_specs_fuel : forall v, get_printf_specs v <> Raise OutOfFuel.
Proof. exact get_printf_specs_fuel. Qed.

(* ---- getPrintfSpecs = the positional argument model --------------------------------
   Values as token lists (Model/CheckPropsSpec.v): text without a per cent
   sign, an escaped per cent sign, a lone per cent sign, conversions with optional argument number /
   width / precision.  [clean]: numbers, widths and precisions are digit
   strings (a number does not start with 0), the conversion character is one
   of d u x X o s S c p f g, texts have no per cent sign, and a lone per cent
   sign is not followed by a character that would continue it into a
   conversion or an escape.  [argmodel]: escaped signs and text contribute
   nothing, a lone sign is the error at its offset, mixing styles is the
   error at the offending token, an ordered argument n$ goes to slot n, a
   gap in the slots is the error at offset 0.
   For EVERY clean token list, getPrintfSpecs of its rendering -- the printf
   regular expression regenerated from the source, run by the regex engine,
   and the loop over its matches -- is exactly that model. *)
Theorem C06_specs_tokens : forall toks, clean toks = true ->
  get_printf_specs (render toks) = Ok (argmodel toks).
Proof. exact specs_tokens. Qed.

(* the two halves: the regex layer (finditer yields one match per token that
   begins with a per cent sign, describing it) and the loop over such matches *)
Theorem C06_specs_regex : forall toks, clean toks = true ->
  exists ms, Rx.rfinditer RxC06.rx_printf (render toks) = Some ms /\ matches_describe toks ms.
Proof. exact printf_matches. Qed.

Theorem C06_specs_model : forall toks ms, clean toks = true -> matches_describe toks ms ->
  specs_loop (render toks) ms false [] = Ok (argmodel toks).
Proof. exact specs_model. Qed.

(* ---- the plural verdict ----------------------------------------------------------
   With pats / lpats the #n variables of the reference / localized value:
     - count part: the locale has n forms and the value has found_forms = 1 +
       number of ';' : nothing when equal, else one warning; unknown locale: nothing;
     - variable part: no reference variable: nothing; some reference variable
       unused: the warning; else some extra variable: the error; same sets: nothing. *)
Theorem C06_plural : forall loc r l pats lpats,
  plural_vars r = Ok pats -> plural_vars l = Ok lpats ->
  exists fs_count fs_var,
    check_plural loc r l = Ok (fs_count ++ fs_var) /\
    match plural_forms loc with
    | Some n => if Nat.eqb n (found_forms l) then fs_count = []
                else fs_count = [plural_f s_warning (plural_count_msg n (found_forms l))]
    | None => fs_count = []
    end /\
    (pats = [] -> fs_var = []) /\
    (pats <> [] -> (exists x, In x pats /\ ~ In x lpats) ->
       fs_var = [plural_f s_warning lit_plural_unused_msg]) /\
    (pats <> [] -> (forall x, In x pats -> In x lpats) -> (exists x, In x lpats /\ ~ In x pats) ->
       fs_var = [plural_f s_error lit_plural_extra_msg]) /\
    (pats <> [] -> (forall x, In x pats <-> In x lpats) -> fs_var = []).
Proof. exact check_plural_verdict. Qed.

(* the premises of C06_plural always hold: every match of the #n expression
   has its group, a non-empty run of ASCII digits, so int() never fails; hence
   check_plural never raises *)
Theorem C06_plural_vars_total : forall s, exists l, plural_vars s = Ok l.
Proof. exact plural_vars_total. Qed.

Theorem C06_plural_total : forall loc r l, exists fs, check_plural loc r l = Ok fs.
Proof.
  intros loc r l. destruct (plural_vars_total r) as [pats Hr]. destruct (plural_vars_total l) as [lpats Hl].
  destruct (check_plural_verdict loc r l pats lpats Hr Hl) as (f1 & f2 & H & _). eauto.
Qed.

(* the verdict depends only on the SETS of variables, the number of ';' and
   the locale's number of forms *)
Theorem C06_plural_function : forall loc1 loc2 r1 r2 l1 l2 p1 p2 q1 q2,
  plural_vars r1 = Ok p1 -> plural_vars r2 = Ok p2 ->
  plural_vars l1 = Ok q1 -> plural_vars l2 = Ok q2 ->
  (forall x, In x p1 <-> In x p2) -> (forall x, In x q1 <-> In x q2) ->
  count_char semicolon l1 = count_char semicolon l2 ->
  plural_forms loc1 = plural_forms loc2 ->
  check_plural loc1 r1 l1 = check_plural loc2 r2 l2.
Proof. exact check_plural_function. Qed.

(* ---- the plural table ------------------------------------------------------------
   get_plural never raises: it is the row of the locale's rule; a listed locale
   gets its listed rule (no locale is listed twice); a tag with a region or
   script that is not listed itself gets the rule of its language; every
   known locale has at least one form. *)
Theorem C06_plural_table : forall loc,
  get_plural loc =
  Ok (match get_plural_rule loc with
      | Some n => Some (nth n plural_categories_by_index [])
      | None => None
      end).
Proof. exact get_plural_spec. Qed.

Theorem C06_plural_table_listed : forall l n, In (l, n) plural_by_locale ->
  get_plural_rule (Some l) = Some n.
Proof. exact get_plural_listed. Qed.

Theorem C06_plural_table_region : forall l r, ~ In plural_locale_sep l ->
  assoc_str (l ++ plural_locale_sep :: r) plural_by_locale = None ->
  get_plural_rule (Some (l ++ plural_locale_sep :: r)) = get_plural_rule (Some l).
Proof. exact get_plural_rule_region. Qed.

Theorem C06_plural_table_forms : forall loc n, plural_forms loc = Some n -> 0 < n.
Proof. exact plural_forms_positive. Qed.

(* ---- the selection logic of check --------------------------------------------------
   The encoding scan never fails; the plural branch is taken iff the reference
   has a comment containing the Localization_and_Plurals literal, its key is
   not pluralRule and its value is not all digits ([plural_selected]); then
   check is the encoding findings followed by check_plural's; otherwise it is
   the encoding findings, the unknown-escape findings and, when the reference
   has printf arguments, checkPrintf's. *)
Theorem C06_check_selection : forall c,
  exists enc b, encoding_findings c = Ok enc /\ is_plural c = Ok b /\
    (b = true <-> plural_selected c) /\
    (b = true ->
       check c = match check_plural (locale c) (ref_val c) (l10n_val c) with
                 | Ok r => Ok (enc ++ r)
                 | Raise t => Raise t
                 end) /\
    (b = false ->
       exists escs, escape_findings (l10n_raw c) = Ok escs /\
         check c = match get_printf_specs (ref_val c) with
                   | Raise t => Raise t
                   | Ok (SOk ((_ :: _) as refSpecs)) =>
                       match check_printf refSpecs (l10n_val c) with
                       | Ok pf => Ok (enc ++ escs ++ pf)
                       | Raise t => Raise t
                       end
                   | Ok _ => Ok (enc ++ escs)
                   end).
Proof. exact check_selection. Qed.

(* ---- non-vacuity: concrete runs, evaluated by the kernel ------------------------- *)
Definition s_ (l : list nat) : str := map N.of_nat l.

(* "%2$d %1$S" has the specs [S; d] *)
Example C06_example_specs :
  get_printf_specs (s_ [37; 50; 36; 100; 32; 37; 49; 36; 83]) =
  Ok (SOk [Some [83%N]; Some [100%N]]).
Proof. vm_compute. reflexivity. Qed.

(* reference [S; d], localized "%S": a proper prefix -> the trailing warning *)
Example C06_example_trailing :
  check_printf [Some [83%N]; Some [100%N]] (s_ [37; 83]) =
  Ok [warning_f (s_ [116; 114; 97; 105; 108; 105; 110; 103; 32; 97; 114; 103; 117; 109; 101;
                     110; 116; 32; 50; 32; 96; 100; 96; 32; 109; 105; 115; 115; 105; 110; 103])].
Proof. vm_compute. reflexivity. Qed.

(* reference [S; d], localized "%d %S": not a prefix -> an error (argument 1 `d` obsolete)
   and, because difflib then deletes the trailing d, also the warning *)
Example C06_example_error :
  match check_printf [Some [83%N]; Some [100%N]] (s_ [37; 100; 32; 37; 83]) with
  | Ok fs => has_error fs = true /\ length fs = 2
  | Raise _ => False
  end.
Proof. vm_compute. split; reflexivity. Qed.

(* a clean token list: "a %2$5.1f %% %1$S" *)
Example C06_example_tokens :
  let toks := [TText [97%N; 32%N]; TSpec (Some [50%N]) (WNum [53%N]) (PDotNum [49%N]) 102%N;
               TText [32%N]; TPct; TText [32%N]; TSpec (Some [49%N]) WNone PNone 83%N] in
  clean toks = true /\
  render toks = s_ [97; 32; 37; 50; 36; 53; 46; 49; 102; 32; 37; 37; 32; 37; 49; 36; 83] /\
  argmodel toks = SOk [Some [83%N]; Some [102%N]].
Proof. vm_compute. repeat split; reflexivity. Qed.

(* a lone per cent sign at offset 2 *)
Example C06_example_lone :
  check_printf [Some [83%N]] (s_ [97; 32; 37; 32; 98]) = Ok [error_f 2 lit_pe_single].
Proof. vm_compute. reflexivity. Qed.

(* the premises of C06_plural hold: "#1 a;#2" has the variables [1; 2] *)
Example C06_example_plural_vars :
  plural_vars (s_ [35; 49; 32; 97; 59; 35; 50]) = Ok [1%N; 2%N].
Proof. vm_compute. reflexivity. Qed.

(* Irish has five forms; "#1;#2" with two is the count warning, and with the
   reference "#1" the extra variable #2 is the error *)
Example C06_example_plural :
  match check_plural (Some (s_ [103; 97])) (s_ [35; 49]) (s_ [35; 49; 59; 35; 50]) with
  | Ok [f1; f2] => f_sev f1 = s_warning /\ f_sev f2 = s_error /\ f_cat f2 = s_plural
  | _ => False
  end.
Proof. vm_compute. repeat split; reflexivity. Qed.

(* check end to end: reference "%S %d" without comment, localized "%S": the trailing warning *)
Example C06_example_check :
  match check (mkin None (s_ [107]) (s_ [37; 83; 32; 37; 100]) (s_ [107])
                    (s_ [107; 32; 61; 32; 37; 83]) (s_ [37; 83]) (s_ [37; 83]) (Some (s_ [100; 101]))) with
  | Ok [f] => f_sev f = s_warning /\ f_cat f = s_printf /\ f_pos f = 0
  | _ => False
  end.
Proof. vm_compute. repeat split; reflexivity. Qed.

Example C06_example_table :
  plural_forms (Some (s_ [103; 97])) = Some 5 /\
  plural_forms (Some (s_ [101; 110; 45; 85; 83])) = Some 2 /\ plural_forms None = None.
Proof. vm_compute. repeat split; reflexivity. Qed.

(* ---- plain inputs: the checker is silent ------------------------------------------------
   [plain_in c] (Model/CheckPlain.v) =
     negb (mem_N 37 (ref_val c))      the reference value has no per cent sign
     && negb (mem_N 65533 (l10n_all c))   the localized entity's text has no U+FFFD
     && negb (mem_N 92 (l10n_raw c))      its raw value has no backslash
     && is_plural c = Ok false             the plural branch is not selected
   (the localized value is not constrained: without reference arguments checkPrintf is not
   called).  This is the silence that the end-to-end theorems of the comparison and of the
   linter assume of their checker parameter; Properties/C03.v and Properties/C19.v instantiate
   the parameter with this model (C03_end_to_end_properties_checked,
   C19_end_to_end_properties_checked; adapters props_chk / props_lint_chk of
   Model/CheckPlain.v, lemmas in Proofs/E2EChecked.v). *)
From CL Require Import Model.CheckPlain Proofs.CheckSilentProofs.

Theorem C06_check_plain_silent : forall c, plain_in c = true -> check c = Ok [].
Proof. exact check_plain_silent. Qed.

(* lint: an entity against itself *)
Theorem C06_check_plain_silent_self : forall comment key all val raw locale,
  mem_N c_pct val = false -> mem_N c_fffd all = false -> mem_N c_backslash raw = false ->
  match comment with Some a => contains lit_plural_comment a = false | None => True end ->
  check (self_in comment key all val raw locale) = Ok [].
Proof. exact check_plain_silent_self. Qed.

(* a value without a per cent sign has no printf arguments *)
Theorem C06_specs_pct_free : forall v, mem_N c_pct v = false -> get_printf_specs v = Ok (SOk []).
Proof. exact specs_pct_free. Qed.

(* ways not to be selected for the plural branch *)
Theorem C06_not_plural : forall c,
  (ref_comment c = None -> is_plural c = Ok false) /\
  (forall all, ref_comment c = Some all -> contains lit_plural_comment all = false ->
               is_plural c = Ok false).
Proof. intros c. split; [apply not_plural_no_comment|apply not_plural_no_marker]. Qed.

(* "Save file" against "Datei speichern": plain, and silent *)
Example C06_example_plain :
  let c := mkin None (s_ [107]) (s_ [83; 97; 118; 101; 32; 102; 105; 108; 101]) (s_ [107])
                (s_ [107; 32; 61; 32; 68; 97; 116; 101; 105]) (s_ [68; 97; 116; 101; 105])
                (s_ [68; 97; 116; 101; 105]) None in
  plain_in c = true /\ check c = Ok [].
Proof. vm_compute. split; reflexivity. Qed.
