(* C06 — placeholder while the harness is being built; replaced below. *)
From Coq Require Import NArith List Bool Arith.
From CL Require Import Base.Sx Base.Res Base.Str Model.Difflib Model.CheckProps Model.CheckPropsSpec.
Import ListNotations.

Example C06_example_specs :
  get_printf_specs (map N.of_nat [37; 50; 36; 100; 32; 37; 49; 36; 83]) =
  Ok (SOk [Some [83%N]; Some [100%N]]).
Proof. vm_compute. reflexivity. Qed.
