(* C01 — parsing is total, terminating and lossless for every text format.
   [lossless], [lossless_dtd], [tiles], [spans_inside] are defined in
   Proofs/WalkSpec.v (definitions only):

     lossless gn c0 s :=
       exists es,
         walk gn c0 s = Ok es /\                     -- terminates, fuel never exhausted
         length es <= length s /\                    -- finite, at most one entry per character
         concat (map (all_text s) es) = s /\         -- nothing lost, duplicated, reordered
         tiles s 0 es /\                             -- each entry starts where the previous ended,
                                                     --   none is zero-width, none overruns
         Forall spans_inside es /\                   -- key and value spans inside the entity's text
         walk_localizable gn c0 s = Ok (filter is_localizable es).

   The parsers are Model/Parse.v instantiated (Model/ParseFormats.v) with the
   regular expressions regenerated from the source on every run; the proofs use
   only that the comment/whitespace/key/section/instruction expressions are
   non-nullable (decided by vm_compute on the generated ASTs) and, for DTD,
   that the value group is at least two characters wide and the header
   expression matches exactly a leading byte-order mark. *)
From Coq Require Import NArith List Bool Arith Lia.
From CL Require Import Base.Sx Base.Res Base.Str Regex.Rx Model.Entry Model.Parse
  Generated.RxParser Model.ParseFormats Model.ParseFluent Proofs.WalkSpec Proofs.C01Final
  Proofs.FluentWalkSpec Proofs.FluentWalkProofs.
From CL Require Proofs.FluentTrim.
Import ListNotations.

Theorem C01_lossless_properties : forall s : str, lossless (stateless gn_properties) tt s.
Proof. exact lossless_properties. Qed.

Theorem C01_lossless_ini : forall s : str, lossless (stateless gn_ini) tt s.
Proof. exact lossless_ini. Qed.

Theorem C01_lossless_inc : forall s : str, lossless gn_defines false s.
Proof. exact lossless_defines. Qed.

Theorem C01_lossless_po : forall s : str, lossless (stateless gn_po) tt s.
Proof. exact lossless_po. Qed.

(* DTD: only a leading byte-order mark is dropped; a file that is just the
   mark yields the single Junk (1,1) (the statement carries that exception):
     lossless_dtd gn s := exists es, walk gn tt s = Ok es /\ length es <= length s /\
        concat (map (all_text s) es) = body_of s /\
        (s = [bom] \/ tiles s (skip_of s) es) /\ Forall spans_inside es /\
        walk_localizable gn tt s = Ok (filter is_localizable es)            *)
Theorem C01_lossless_dtd : forall s : str, WalkSpec.lossless_dtd (stateless gn_dtd) s.
Proof. exact C01Final.lossless_dtd. Qed.

(* Fluent: FluentParser.walk over the body fluent.syntax returns.  Partial:
   [body_ok] (Proofs/FluentWalkSpec.v) is the contract assumed of the library —
   top-level entries have ordered, non-empty, non-overlapping spans inside the
   text, a junk entry's content is its slice of the text, id/value spans lie
   inside their entry — and is checked by the harness on every generated input.
   That trimming a junk entry leaves a non-empty entry is no longer part of the
   contract: it is proved for the two inline regexes of walk and its
   white-space-only guard (C01_fluent_trim; before the repair of
   FluentParser.walk it was false for a junk line holding only tabs).  Under it:
     lossless_fluent s body := let es := walk_fluent false s body in
        length es <= length s /\ concat (map (all_text s) es) = s /\ tiles s 0 es /\
        Forall spans_inside es /\ walk_fluent true s body = filter is_localizable es *)
Theorem C01_fluent_trim : forall content : str, content <> [] ->
  lead rx_ftl_lead (trim_content content) + trail rx_ftl_trail (trim_content content)
  < length content.
Proof. exact FluentTrim.ftl_trim_ok. Qed.

Theorem C01_fluent_partial : forall (s : str) (body : list fentry),
  body_ok s 0 body ->
  lossless_fluent rx_ftl_lead rx_ftl_trail s body.
Proof. exact (walk_fluent_lossless rx_ftl_lead rx_ftl_trail FluentTrim.ftl_trim_ok). Qed.

(* the contract is satisfiable: "k = v\n\n" with one message and a blank gap *)
Example C01_fluent_contract_example :
  body_ok (map N.of_nat [107; 32; 61; 32; 118; 10; 10]) 0
          [mkf FMessage (0, 6) (0, 1) (Some (4, 5)) []].
Proof.
  unfold body_ok, fentry_ok, span_inside. cbn.
  repeat split; intros;
    try (match goal with H : Some _ = Some _ |- _ => inversion H; subst; cbn end); lia.
Qed.

(* non-vacuity: a concrete parse, evaluated by the kernel *)
Example C01_example_properties :
  match walk_properties (map N.of_nat [35; 99; 10; 97; 32; 61; 32; 98; 10; 10; 120; 10]) with
  | Ok es => map (fun e => (e_span e, e_pre e)) es =
             [((3, 8), Some (0, 2)); ((8, 10), None); ((10, 12), None)]
  | Raise _ => False
  end.
Proof. vm_compute. reflexivity. Qed.
