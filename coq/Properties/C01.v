(* C01 — parsing is total, terminating and lossless for every text format.
   [lossless], [lossless_dtd], [tiles], [spans_inside] are defined in
   Proofs/WalkSpec.v (definitions only):

     lossless gn c0 s :=
       exists es,
         walk gn c0 s = Ok es /\                     -- terminates, fuel never exhausted
         length es <= length s /\                    -- finite, at most one entry per character
         concat (map (all_text s) es) = s /\         -- nothing lost, duplicated, reordered
         tiles s 0 es /\                             -- each entry starts where the previous ended,
                                                     --   none is zero-width, none overruns
         Forall spans_inside es /\                   -- key and value spans inside the entity's text
         walk_localizable gn c0 s = Ok (filter is_localizable es).

   The parsers are Model/Parse.v instantiated (Model/ParseFormats.v) with the
   regular expressions regenerated from the source on every run; the proofs use
   only that the comment/whitespace/key/section/instruction expressions are
   non-nullable (decided by vm_compute on the generated ASTs) and, for DTD,
   that the value group is at least two characters wide and the header
   expression matches exactly a leading byte-order mark. *)
From Coq Require Import NArith List Bool Arith.
From CL Require Import Base.Sx Base.Res Base.Str Regex.Rx Model.Entry Model.Parse
  Model.ParseFormats Proofs.WalkSpec Proofs.C01Final.
Import ListNotations.

Theorem C01_lossless_properties : forall s : str, lossless (stateless gn_properties) tt s.
Proof. exact lossless_properties. Qed.

Theorem C01_lossless_ini : forall s : str, lossless (stateless gn_ini) tt s.
Proof. exact lossless_ini. Qed.

Theorem C01_lossless_inc : forall s : str, lossless gn_defines false s.
Proof. exact lossless_defines. Qed.

Theorem C01_lossless_po : forall s : str, lossless (stateless gn_po) tt s.
Proof. exact lossless_po. Qed.

(* DTD: only a leading byte-order mark is dropped; a file that is just the
   mark yields the single Junk (1,1) (the statement carries that exception):
     lossless_dtd gn s := exists es, walk gn tt s = Ok es /\ length es <= length s /\
        concat (map (all_text s) es) = body_of s /\
        (s = [bom] \/ tiles s (skip_of s) es) /\ Forall spans_inside es /\
        walk_localizable gn tt s = Ok (filter is_localizable es)            *)
Theorem C01_lossless_dtd : forall s : str, WalkSpec.lossless_dtd (stateless gn_dtd) s.
Proof. exact C01Final.lossless_dtd. Qed.

(* non-vacuity: a concrete parse, evaluated by the kernel *)
Example C01_example_properties :
  match walk_properties (map N.of_nat [35; 99; 10; 97; 32; 61; 32; 98; 10; 10; 120; 10]) with
  | Ok es => map (fun e => (e_span e, e_pre e)) es =
             [((3, 8), Some (0, 2)); ((8, 10), None); ((10, 12), None)]
  | Raise _ => False
  end.
Proof. vm_compute. reflexivity. Qed.
