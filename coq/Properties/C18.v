(* C18 — results do not depend on what was processed before.

   The model (Model/History.v) is the process-level state machine of the
   package: Context objects on an allocation-only heap, the current context of
   the seven parser singletons, Junk.junkid, DTDChecker's shared text handler,
   the caches.  What parsers / checkers / serializers compute from their
   arguments are parameters; the theorems are about which state an operation
   reads and writes.  [C18_inventory] ties the list of state to the source. *)
From Coq Require Import Strings.String.
From Coq Require Import NArith ZArith List Bool Arith Permutation.
From CL Require Import Base.Sx Base.Str Model.History Model.HistoryWire Proofs.HistoryProofs
                       Proofs.HistoryContract Generated.FactsC18.
Import ListNotations.
Local Open Scope nat_scope.

(* the state found syntactically in every non-test module of the package is
   exactly the state the model accounts for (a new cache, counter or lazily
   created attribute changes the generated list and breaks this) *)
Theorem C18_inventory : state_inventory = modelled_state.
Proof. vm_compute. reflexivity. Qed.

(* every item that influences an operation is a field of the state record:
   5 roles (counter, parser context, context-local, keyed cache, reset before use) *)
Example C18_inventory_fields :
  length (filter (fun i => role_has_field (i_role i)) modelled_items) = 13
  /\ length modelled_items = 90.
Proof. vm_compute. split; reflexivity. Qed.

Section C18.
Variables V FC RX MRX : Type.
Variable walk_fn : fmt -> str -> bool -> list pentry * bool.
Variable res_fn : vop -> list (list kent) -> V.
Variable dtd_fn : vop -> option str.
Variable fc_compute : nat -> nat -> str -> FC.
Variable fc_query : FC -> str -> option str -> V.
Variable rx_compile : str -> RX.
Variable rx_match : RX -> str -> V.
Variable mm_empty : V.
Variable m_compile : nat -> MRX.
Variable m_match : MRX -> str -> V.

Notation stepM := (step V FC RX MRX walk_fn res_fn dtd_fn fc_compute fc_query rx_compile rx_match
                        mm_empty m_compile m_match).
Notation runM := (run V FC RX MRX walk_fn res_fn dtd_fn fc_compute fc_query rx_compile rx_match
                      mm_empty m_compile m_match).
Notation initM := (init FC RX MRX).

(* For every history h (in which the configuration objects are not edited)
   and every self-contained operation o — Parse, Compare, Lint, Merge,
   Serialize, filter / mozpath / Matcher query — the output of o after h is
   the output of o in the initial state: equal up to the numeric id inside junk
   keys for entry lists (observed through each entry's own context), plainly
   equal for every report.  Premises: the report functions use junk keys only
   as dictionary keys ([res_contract]) and no entity key of the operation's
   files has the form of a junk key ([op_ok]; without it the statement is
   false, see C18_junk_collision_refuted). *)
Theorem C18_independent : forall h o,
  res_contract V res_fn ->
  Forall (fun o => is_reconfig o = false) h ->
  op_ok walk_fn o ->
  let r1 := stepM (runM h initM) o in
  let r2 := stepM initM o in
  out_equiv V (g_heap (fst r1)) (snd r1) (g_heap (fst r2)) (snd r2).
Proof. exact (independent V FC RX MRX walk_fn res_fn dtd_fn fc_compute fc_query rx_compile
                          rx_match mm_empty m_compile m_match). Qed.

(* entries obtained from one operation read the same key / value / all
   through their own context after anything processed later (any operations,
   including re-reading with the same parser and editing configurations) *)
Theorem C18_entities_survive : forall h o es later,
  snd (stepM (runM h initM) o) = OEnts es ->
  let st1 := fst (stepM (runM h initM) o) in
  map (obs_ent (g_heap (runM later st1))) es = map (obs_ent (g_heap st1)) es.
Proof. intros h o es later. exact (entities_survive V FC RX MRX walk_fn res_fn dtd_fn fc_compute
                          fc_query rx_compile rx_match mm_empty m_compile m_match h initM o es later). Qed.

(* each cache returns what a fresh computation returns, after any history *)
Theorem C18_cache_keyed : forall h,
  Forall (fun o => is_reconfig o = false) h ->
  let st := runM h initM in
  (forall c loc path entity,
     snd (stepM st (FilterQ c loc path entity)) =
     OVal (fc_query (fc_compute c 0 loc) path entity)) /\
  (forall path pat,
     snd (stepM st (MozMatch path pat)) =
     OVal (match pat with [] => mm_empty | _ => rx_match (rx_compile pat) path end)) /\
  (forall m path, snd (stepM st (MatcherQ m path)) = OVal (m_match (m_compile m) path)).
Proof. exact (cache_keyed V FC RX MRX walk_fn res_fn dtd_fn fc_compute fc_query rx_compile
                          rx_match mm_empty m_compile m_match). Qed.

(* the junk ids an operation hands out continue the counter of its parser's
   Junk class ([eff]: Junk.junkid, or XMLJunk's own copy for strings.xml): the
   keyed lists it sees are those of [kents_many] from that value, the counter
   advances by the number of Junk constructions, and no two of the keys collide *)
Theorem C18_junk_ids : forall st v,
  let p := parse_many FC RX MRX walk_fn st (vop_fmt v) (vop_texts v) in
  map (map (resolve (g_heap (fst p)))) (snd p) =
    kents_many walk_fn (eff st (vop_fmt v)) (vop_fmt v) (vop_texts v) /\
  eff (fst p) (vop_fmt v) = eff st (vop_fmt v) + total_cons walk_fn (vop_fmt v) (vop_texts v) /\
  (Forall (no_junklike_text walk_fn (vop_fmt v)) (vop_texts v) ->
   coll_free (concat (kents_many walk_fn (eff st (vop_fmt v)) (vop_fmt v) (vop_texts v)))).
Proof.
  intros st v p. split; [apply parse_many_resolve|]. split; [apply parse_many_junkid|].
  exact (coll_free_kents_many V FC RX MRX walk_fn fc_compute fc_query rx_compile rx_match
                              m_compile m_match (vop_texts v) (eff st (vop_fmt v)) (vop_fmt v)).
Qed.

End C18.

(* the multi-file clause, over the observer's accumulation: for every order of
   the files the per-locale summary and the per-file details are the same,
   the summary is the sum of the single-file summaries and the details of a
   file are those of its single-file run *)
Theorem C18_union : forall (D : Type) (cs cs' : list (contrib D)),
  Permutation cs cs' -> NoDup (map (@cb_file D) cs) ->
  (forall l, o_summary D (run_files D cs') l = o_summary D (run_files D cs) l) /\
  (forall f, o_details D (run_files D cs') f = o_details D (run_files D cs) f) /\
  (forall l, o_summary D (run_files D cs) l =
             vsum (map (fun c => o_summary D (run_files D [c]) l) cs)) /\
  (forall c, In c cs ->
             o_details D (run_files D cs) (cb_file D c) =
             o_details D (run_files D [c]) (cb_file D c)) /\
  (forall f, ~ In f (map (@cb_file D) cs) -> o_details D (run_files D cs) f = []).
Proof. exact union. Qed.

(* The key-level algorithm of ContentComparer.compare — AddRemove over the
   keys as strings, entries looked up as KeyedTuple does, junk reported by its
   content, entities by their key ([toy_res], on the C20 models) — satisfies
   the contract: with it the first premise of C18_independent is discharged,
   for every text parser. *)
Theorem C18_compare_contract : res_contract _ toy_res.
Proof. exact toy_res_contract. Qed.

Theorem C18_independent_compare :
  forall (FC RX MRX : Type) (walk_fn : fmt -> str -> bool -> list pentry * bool)
         (dtd_fn : vop -> option str)
         (fc_compute : nat -> nat -> str -> FC) (fc_query : FC -> str -> option str -> list (Z * str))
         (rx_compile : str -> RX) (rx_match : RX -> str -> list (Z * str)) (mm_empty : list (Z * str))
         (m_compile : nat -> MRX) (m_match : MRX -> str -> list (Z * str)) h o,
  Forall (fun o => is_reconfig o = false) h ->
  op_ok walk_fn o ->
  let stp := step _ FC RX MRX walk_fn toy_res dtd_fn fc_compute fc_query rx_compile rx_match
                  mm_empty m_compile m_match in
  let r1 := stp (run _ FC RX MRX walk_fn toy_res dtd_fn fc_compute fc_query rx_compile rx_match
                     mm_empty m_compile m_match h (init FC RX MRX)) o in
  let r2 := stp (init FC RX MRX) o in
  out_equiv _ (g_heap (fst r1)) (snd r1) (g_heap (fst r2)) (snd r2).
Proof.
  intros. apply independent; auto. exact toy_res_contract.
Qed.

(* junk keys: "_junk_%d_%d-%d" is injective *)
Theorem C18_junk_key_injective : forall i a b i' a' b',
  render (KJunk i a b) = render (KJunk i' a' b') -> i = i' /\ a = a' /\ b = b'.
Proof. exact render_junk_inj. Qed.

(* ---- the premises are satisfiable; concrete runs ---------------------------- *)
Arguments cp s%string.
Definition nl : str := [10%N].
Definition t_ref : str := cp "a=1" ++ nl ++ cp "b=2" ++ nl ++ cp "bad" ++ nl.
Definition t_l10n : str := cp "a=1" ++ nl ++ cp "oops" ++ nl ++ cp "c=3" ++ nl.
Definition t_inc : str := nl ++ cp "#f" ++ nl ++ nl ++ cp "k=v".

Example C18_example_contract_canon : res_contract _ canon_res.
Proof. exact canon_res_contract. Qed.

Example C18_example_op_ok : op_ok toy_walk (Do (VCompare 2 t_ref t_l10n 0)).
Proof.
  simpl. repeat constructor; intros p s Hp E; apply not_prefix_not_junklike;
    vm_compute in Hp; repeat (destruct Hp as [<-|Hp]; [vm_compute in E; inversion E; reflexivity|]);
    contradiction.
Qed.

(* a run: one junk-producing parse, a filter-flag parse, then the comparison;
   the report equals the one of the initial state, the counter moved on *)
Example C18_example_run :
  let h := [Parse 2 t_l10n; Parse 4 t_inc; Do (VCompare 2 t_l10n t_ref 1)] in
  let st := toy_run toy_res [] h tinit in
  g_junkid st = 4 /\
  snd (toy_step toy_res [] st (Do (VCompare 2 t_ref t_l10n 0))) =
    OVal [(3, cp "a"); (12, cp "oops"); (2, cp "c"); (1, cp "b"); (10, [])]%Z /\
  snd (toy_step toy_res [] tinit (Do (VCompare 2 t_ref t_l10n 0))) =
    OVal [(3, cp "a"); (12, cp "oops"); (2, cp "c"); (1, cp "b"); (10, [])]%Z /\
  snd (toy_step toy_res [] st (Parse 2 t_ref)) =
    OEnts [E (Some 4) (KStr (cp "a")) (PEnt 0 (0, 3) (0, 1) (Some (2, 3)));
           E (Some 4) (KStr (cp "b")) (PEnt 4 (4, 7) (4, 5) (Some (6, 7)));
           E (Some 4) (KJunk 5 8 11) (PJunk 8 11)].
Proof. vm_compute. repeat split; reflexivity. Qed.

(* ---- where the statement fails --------------------------------------------- *)
(* An entity whose key has the form of a junk key: in the initial state the
   junk of the other file gets id 1 and the two keys collide (the junk is
   reported as a changed entity); after a history that constructed one junk it
   gets id 2 and is reported as junk.  Junk.junkid leaks into the report. *)
Theorem C18_junk_collision_refuted :
  exists h v,
    Forall (fun o => is_reconfig o = false) h /\
    snd (toy_step toy_res [] (toy_run toy_res [] h tinit) (Do v)) <>
    snd (toy_step toy_res [] tinit (Do v)).
Proof.
  exists [Parse 2 (cp "x")], (VCompare 2 (cp "_junk_1_0-4=v") (cp "junk") 0).
  split; [repeat constructor|]. vm_compute. discriminate.
Qed.

(* Walking the current context a second time starts from the filter flag the
   first walk left on it: the blank first line is junk in the first walk and
   skipped in the second (DefinesParser: "#filter emptyLines" below a blank
   line).  A second parse() without readUnicode is not self-contained. *)
Theorem C18_rewalk_refuted :
  exists f t,
    let s1 := toy_step toy_res [] tinit (Parse f t) in
    let s2 := toy_step toy_res [] (fst s1) (Rewalk f) in
    ~ out_equiv _ (g_heap (fst s1)) (snd s1) (g_heap (fst s2)) (snd s2).
Proof.
  exists 4, (nl ++ cp "#f"). vm_compute. discriminate.
Qed.

(* ProjectConfig._cache is not cleared when the configuration is edited: a
   filter query after add_rules / add_paths answers from the entry computed for
   the old content (the configuration is an input of the property, so this is
   outside C18_independent; it is why its histories exclude Reconfig) *)
Theorem C18_filtercache_stale_refuted :
  exists h c loc path,
    let stp := step (nat * nat * str) (nat * nat * str) str nat toy_walk (fun _ _ => (0, 0, [])) toy_dtd
                    (fun c ver loc => (c, ver, loc)) (fun e _ _ => e)
                    (fun p => p) (fun _ _ => (0, 0, [])) (0, 0, []) (fun m => m)
                    (fun _ _ => (0, 0, [])) in
    let st := fold_left (fun s o => fst (stp s o)) h tinit in
    snd (stp st (FilterQ c loc path None)) <> OVal (c, g_cfgver st c, loc).
Proof.
  exists [FilterQ 0 (cp "de") (cp "p") None; Reconfig 0], 0, (cp "de"), (cp "p").
  vm_compute. intros H. inversion H.
Qed.
