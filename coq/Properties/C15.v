From Coq Require Import ZArith NArith List Bool.
From CL Require Import Base.Sx Base.Res Base.Str Model.Channels.
Import ListNotations.

Example C15_example_unsupported :
  merge_channels (of_ascii [102; 46; 116; 120; 116]) [[]] = Raise NotSupported.
Proof. vm_compute. reflexivity. Qed.
