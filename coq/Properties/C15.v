(* C15 — cross-channel merge keeps every string once, newest wins, order stable.

   Entity level over Model/Channels.v (merge.py): a version is the list of entries
   its walk() yields (kind, key / comment value, text); parsing itself is C01/C02.
   [merge_entries vs] is merge_resources on the freshly walked versions (newest
   first), [merge_channels name vs] the text merge_channels returns.
   Hypothesis of the positive theorems: [ukeys v] — within one version no two keyed
   entries (entities, instructions, junk) share their key and no two .ini sections
   share their name ("record pool").  A section is keyed by ("[section]", name)
   (dict key DS), so a section named like an entity key does not collide with it
   (C15_example_section_named_like_key; repaired in /repo, was a finding).

   The re-parse clause of the property ("the result re-parses without junk") needs
   the block theorems of C02, which are not available: C15_reparse_partial states it
   conditionally on the re-parse lemma for the output entry list ([reparses parse out]:
   the parser returns, for the concatenated texts, those entries); the harness oracle
   checks the clause with the real parser on every case. *)
From Coq Require Import ZArith NArith List Bool Arith.
From CL Require Import Base.Sx Base.Res Base.Str Model.AddRemove Model.Channels
                       Proofs.ChannelsProofs Proofs.ChannelsSpec Proofs.ChannelsIdentical
                       Proofs.ReparsePartial
                       Model.Entry Model.Parse Model.ParseFormats Proofs.C02Blocks
                       Proofs.MergeShape Proofs.PropsShape Proofs.MergeReparse15 Proofs.PropsView.
From CL Require Proofs.C02BlocksDtd Proofs.DtdShape Proofs.DtdReparse Proofs.DtdView.
From CL Require Proofs.C02BlocksIni Proofs.IniShape Proofs.IniReparse Proofs.IniView.
From CL Require Proofs.C02BlocksInc Proofs.IncShape Proofs.IncReparse Proofs.MergeHeadInstr.
From CL Require Proofs.C02Po Proofs.C02BlocksPo Proofs.PoReparse Proofs.IncView.
From Coq Require Import Lia.
Import ListNotations.
Local Open Scope nat_scope.

(* the text is the concatenation of the entry texts of merge_resources *)
Theorem C15_output : forall name vs txt, merge_channels name vs = Ok txt ->
  exists out, merge_entries vs = Ok out /\ txt = concat (map c_text out).
Proof. exact merge_channels_inv. Qed.

(* every entity key of any version occurs exactly once in the result *)
Theorem C15_keys_once : forall vs out, Forall ukeys vs -> merge_entries vs = Ok out ->
  forall v e, In v vs -> In e v -> keyed e = true ->
  length (filter (has_key (c_key e)) out) = 1.
Proof. exact keys_once. Qed.

(* its entry (kind, key, text, value) is that of the first (newest) version containing
   the key; in particular nothing appears that is in no version *)
Theorem C15_newest_wins : forall vs out, Forall ukeys vs -> merge_entries vs = Ok out ->
  forall e, In e out -> keyed e = true ->
  exists e0, first_entry (c_key e) vs = Some e0 /\ strip e0 = strip e.
Proof. exact newest_wins. Qed.

(* order: with D the merged dict (entries with their dict keys: DK key, DC comment
   occurrence, DW whitespace identity), the keys that are no whitespace are the
   iterated C20 specification [spec_keys] (each older-only key after the last key
   before it in its own version that is already present, in front if none) of the
   versions' keys, and the newest version's keys keep their order *)
Theorem C15_order : forall v vs out, Forall ukeys (v :: vs) -> merge_entries (v :: vs) = Ok out ->
  exists D, out = dvalues D /\ wf D /\
    ekeys D = fold_left (fun a y => spec_keys dkey_eqb a y) (map vkeys vs) (vkeys v) /\
    filter (fun k => AddRemove.mem dkey_eqb k (vkeys v)) (ekeys D) = vkeys v.
Proof. exact merged_order. Qed.

(* the keys of the keyed output entries are the DK keys of that list *)
Theorem C15_order_entities : forall D, wf D ->
  map c_key (filter keyed (dvalues D)) = dk_strs (dkeys D).
Proof. intros D H. apply wf_keyed_keys. apply H. Qed.

(* a single version comes back text-identical *)
Theorem C15_single : forall name p v, get_parser name = Ok (Some p) -> ukeys v ->
  merge_channels name [v] = Ok (concat (map c_text v)).
Proof. exact merge_single. Qed.

(* identical versions (every parse creates new whitespace objects) come back
   text-identical, when no two whitespace entries are adjacent in the version *)
Theorem C15_identical : forall name p v n, get_parser name = Ok (Some p) -> ukeys v ->
  no_adj_white v ->
  merge_channels name (repeat v (S n)) = Ok (concat (map c_text v)).
Proof. exact merge_identical. Qed.

(* _partial: missing is the re-parse lemma itself (C02 block theorems) — given it for the
   output entry list, the merged text of junk-free versions re-parses without junk and
   with every key of every version exactly once *)
Theorem C15_reparse_partial : forall (parse : str -> list centry) name vs txt,
  Forall ukeys vs -> Forall (Forall nonjunk) vs -> merge_channels name vs = Ok txt ->
  exists out, merge_entries vs = Ok out /\ txt = serialize_legacy out /\ Forall nonjunk out /\
    (reparses parse out ->
       Forall nonjunk (parse txt) /\
       forall v e, In v vs -> In e v -> keyed e = true ->
         length (filter (has_key (c_key e)) (parse txt)) = 1).
Proof. exact merge_reparse. Qed.

(* no parser for the name: refused explicitly; looking for the parser never fails otherwise *)
Theorem C15_unsupported : forall name vs, get_parser name = Ok None ->
  merge_channels name vs = Raise NotSupported.
Proof. exact merge_unsupported. Qed.

Theorem C15_get_parser_total : forall name, exists o, get_parser name = Ok o.
Proof. exact get_parser_total. Qed.

(* ---- non-vacuity ---------------------------------------------------------------- *)
Definition s (l : list nat) : str := of_ascii l.
Definition ent (k t : list nat) : centry := mkc CEntity (s k) (s t) [] 0.
Definition ws (t : list nat) : centry := mkc CWhite [] (s t) [] 0.
Definition com (t : list nat) : centry := mkc CComment (s t) (s t) [] 0.

(* newer: a=1 \n b=2 \n      older: a=9 \n # c \n\n z=3 \n b=2 \n *)
Definition ex_new := [ent [97] [97;61;49]; ws [10]; ent [98] [98;61;50]; ws [10]].
Definition ex_old := [ent [97] [97;61;57]; ws [10]; com [35;32;99]; ws [10;10];
                      ent [122] [122;61;51]; ws [10]; ent [98] [98;61;50]; ws [10]].

Ltac nodup := vm_compute; repeat (apply NoDup_cons; [vm_compute; intuition discriminate|]); apply NoDup_nil.

Example C15_example_ukeys : Forall ukeys [ex_new; ex_old].
Proof. constructor; [split; nodup|constructor; [split; nodup|constructor]]. Qed.

Example C15_example_nonjunk : Forall (Forall nonjunk) [ex_new; ex_old].
Proof. repeat constructor. Qed.

(* "a=1\n# c\n\nz=3\nb=2\n" *)
Example C15_example_merge :
  merge_channels (s [102;46;105;110;105]) [ex_new; ex_old] =
  Ok (s [97;61;49;10; 35;32;99;10;10; 122;61;51;10; 98;61;50;10]).
Proof. vm_compute. reflexivity. Qed.

Example C15_example_identical_hyps : ukeys ex_old /\ no_adj_white ex_old.
Proof.
  split; [|cbn; intuition]. split; nodup.
Qed.

Example C15_example_identical :
  merge_channels (s [102;46;105;110;105]) [ex_old; ex_old; ex_old] = Ok (concat (map c_text ex_old)).
Proof. vm_compute. reflexivity. Qed.

(* the hypothesis of C15_identical is needed: two adjacent whitespace entries are folded
   into one as soon as there is a second version *)
Theorem C15_identical_adjacent_refuted :
  exists name p v, get_parser name = Ok (Some p) /\ ukeys v /\
    merge_channels name [v; v] <> Ok (concat (map c_text v)).
Proof.
  exists (s [102;46;105;110;105]), 3, [ws [10]; ws [32]]. split; [vm_compute; reflexivity|].
  split; [split; constructor|]. vm_compute. discriminate.
Qed.

Example C15_example_parser :
  get_parser (s [102;46;116;120;116]) = Ok None /\
  get_parser (s [97;46;112;114;111;112;101;114;116;105;101;115]) = Ok (Some 2).
Proof. vm_compute. split; reflexivity. Qed.

(* an .ini section whose name is also a key — [a] / a=1 — keeps its own dict key
   ("[section]", "a"): the version satisfies [ukeys], comes back unchanged, and merged
   with an older version that has another key in the section nothing is lost:
   "[a]\na=1\n" + "[a]\na=0\nb=2\n"  ->  "[a]\na=1\nb=2\n" *)
Definition ex_ini := [mkc CSection (s [97]) (s [91;97;93]) [] 0; ws [10];
                      ent [97] [97;61;49]; ws [10]].
Definition ex_ini_old := [mkc CSection (s [97]) (s [91;97;93]) [] 0; ws [10];
                          ent [97] [97;61;48]; ws [10]; ent [98] [98;61;50]; ws [10]].
Example C15_example_section_named_like_key :
  ukeys ex_ini /\
  merge_channels (s [102;46;105;110;105]) [ex_ini] = Ok (concat (map c_text ex_ini)) /\
  merge_channels (s [102;46;105;110;105]) [ex_ini; ex_ini_old] =
    Ok (s [91;97;93;10; 97;61;49;10; 98;61;50;10]).
Proof. split; [split; nodup|]. split; vm_compute; reflexivity. Qed.

(* ---- the re-parse clause for .properties, from the block theorem of C02 ----------------------
   Versions are legal block lists (Proofs/C02Blocks.v: entity lines with attached comments and
   continuation lines, standalone comments, blank runs); their entries are [centries_of bs]
   (kind, key / comment value, Entity.all text, raw value — what walk() yields for
   [file_text bs], C02 blocks_properties).  [version_ok m bs]: the blocks are legal, no
   attached comment contains "License", keys are distinct, every entity / standalone comment
   is directly followed by a whitespace entry ([nf m]: the version is newline-terminated), and
   every whitespace entry starts with a newline and, from length m on, has a second newline
   ([wsok m]; m = the least length of the whitespace after a standalone comment).  The last
   premise excludes the listed finding merge-ws-fold-loses-blank-line: merge_two.prune keeps
   the LONGER whitespace, which must then still end a standalone comment; it is needed
   (C15_reparse_ws_fold_refuted).
   Then the merged text re-parses (walk_properties) without junk; its entities are, with key
   and raw value, exactly the keyed entries of the merged entry list [out] — the list
   C15_keys_once / C15_newest_wins / C15_order speak about — and its standalone comments are
   exactly the comment entries of [out]. *)
Theorem C15_reparse_properties : forall m name (bss : list (list block)) txt,
  Forall (version_ok m) bss ->
  merge_channels name (map centries_of bss) = Ok txt ->
  exists out es,
    merge_entries (map centries_of bss) = Ok out /\ txt = concat (map c_text out) /\
    walk_properties txt = Ok es /\
    map (fun e => let r := entity_record txt e in (fst (fst r), snd (fst r)))
        (filter (is_kind KEntity) es) = krecs out /\
    map (fun e => span_text txt (e_span e)) (filter (is_kind KComment) es) = ccoms out /\
    filter (is_kind KJunk) es = [].
Proof. exact merge_reparse_properties. Qed.

(* the entries [centries_of bs] are what the parser yields for the text of the blocks, seen as
   the models see entries (kind, key or comment value, Entity.all, raw value) *)
Theorem C15_parse_view_properties : forall bs, Forall legal_block bs -> adjacent_ok bs ->
  exists es, walk_properties (file_text bs) = Ok es /\
             map (centry_view (file_text bs)) es = centries_of bs.
Proof. exact centries_view. Qed.

(* newer: a = 1 / b = 2      older: a = 0 / # note / <blank> / z = 3 / b = 2 *)
Definition pe (k v : list nat) : block := BEntity [] (A k) (A [32]) 61%N (A [32]) [] (A v) true.
Definition rp_new : list block := [pe [97] [49]; pe [98] [50]].
Definition rp_old : list block :=
  [pe [97] [48]; BComment [(35%N, A [32; 110; 111; 116; 101])]; BBlank (A [10]); pe [122] [51]; pe [98] [50]].

Ltac wsok_one :=
  unfold wsok;
  first [ intros Hw; vm_compute in Hw; discriminate
        | intros _; eexists; split;
          [vm_compute; reflexivity
          |intros Hl; first [vm_compute; reflexivity | exfalso; vm_compute in Hl; lia]] ].
Ltac nodup_tac := vm_compute; repeat (apply NoDup_cons; [vm_compute; intuition discriminate|]); apply NoDup_nil.
Ltac version_ok_tac :=
  split; [repeat constructor|]; split; [repeat constructor|]; split; [split; nodup_tac|];
  split; [vm_compute; intuition (try discriminate; try lia)|];
  unfold centries_of; cbn [cents cflush app];
  repeat (apply Forall_cons; [wsok_one|]); apply Forall_nil.

Example C15_example_version_ok : Forall (version_ok 2) [rp_new; rp_old].
Proof. constructor; [version_ok_tac|constructor; [version_ok_tac|constructor]]. Qed.

(* the merged text  a = 1 / # note / <blank> / z = 3 / b = 2  and its parse *)
Example C15_example_reparse :
  exists txt es, merge_channels (s [102;46;112;114;111;112;101;114;116;105;101;115])
                                (map centries_of [rp_new; rp_old]) = Ok txt /\
    txt = A [97;32;61;32;49;10; 35;32;110;111;116;101;10;10; 122;32;61;32;51;10; 98;32;61;32;50;10] /\
    walk_properties txt = Ok es /\
    map (fun e => let r := entity_record txt e in (fst (fst r), snd (fst r)))
        (filter (is_kind KEntity) es) = [(A [97], A [49]); (A [122], A [51]); (A [98], A [50])] /\
    filter (is_kind KJunk) es = [].
Proof. eexists. eexists. split; [vm_compute; reflexivity|]. split; [reflexivity|]. split; [vm_compute; reflexivity|]. split; vm_compute; reflexivity. Qed.

(* the premise [wsok] is needed (listed finding merge-ws-fold-loses-blank-line):
   newer  a = 1 / <3 blanks>b = 2   older  a = 1 / # note / <blank>  — all other premises hold,
   the kept whitespace "\n   " is longer than the blank line "\n\n": the merged entry list has
   the standalone comment, the re-parsed text has none (it became b's attached comment) *)
Definition wf_new : list block := [pe [97] [49]; BBlank (A [32;32;32]); pe [98] [50]].
Definition wf_old : list block := [pe [97] [49]; BComment [(35%N, A [32; 110; 111; 116; 101])]; BBlank (A [10])].
Theorem C15_reparse_ws_fold_refuted :
  exists name txt out es,
    Forall (fun bs => Forall legal_block bs /\ adjacent_ok bs /\ ukeys (centries_of bs) /\
                      nf 2 (centries_of bs)) [wf_new; wf_old] /\
    merge_channels name (map centries_of [wf_new; wf_old]) = Ok txt /\
    merge_entries (map centries_of [wf_new; wf_old]) = Ok out /\
    walk_properties txt = Ok es /\
    ccoms out <> [] /\ filter (is_kind KComment) es = [] /\ filter (is_kind KJunk) es = [].
Proof.
  exists (s [102;46;112;114;111;112;101;114;116;105;101;115]). eexists. eexists. eexists.
  split.
  { constructor; [|constructor; [|constructor]];
      (split; [repeat constructor|]); (split; [vm_compute; reflexivity|]);
      (split; [split; vm_compute; repeat (apply NoDup_cons; [vm_compute; intuition discriminate|]); apply NoDup_nil|]);
      vm_compute; intuition (try discriminate; try lia). }
  split; [vm_compute; reflexivity|]. split; [vm_compute; reflexivity|].
  split; [vm_compute; reflexivity|]. split; [vm_compute; discriminate|]. split; vm_compute; reflexivity.
Qed.

(* ---- the re-parse clause for DTD, from the block theorem of C02 (blocks_dtd) ---------------------
   Versions are legal DTD block lists (Proofs/C02BlocksDtd.v) without parameter-entity blocks;
   [DtdReparse.dversion_ok m bs]: legal blocks, no "License" in attached comments, distinct
   keys, every entity / standalone comment directly followed by a whitespace entry, and every
   whitespace entry of length >= m has two line breaks (m = the least length of the whitespace
   after a standalone comment; excludes the listed finding merge-ws-fold-loses-blank-line).
   Then the merged text re-parses (walk_dtd) without junk; its entities are, with name and
   value, the keyed entries of the merged entry list, its standalone comments that list's
   comment entries. *)
Theorem C15_reparse_dtd : forall m name (bss : list (list C02BlocksDtd.block)) txt,
  Forall (DtdReparse.dversion_ok m) bss ->
  merge_channels name (map DtdShape.dcentries_of bss) = Ok txt ->
  exists out es,
    merge_entries (map DtdShape.dcentries_of bss) = Ok out /\ txt = concat (map c_text out) /\
    walk_dtd txt = Ok es /\
    map (fun e => let r := entity_record txt e in (fst (fst r), snd (fst r)))
        (filter (is_kind KEntity) es) = krecs out /\
    map (fun e => span_text txt (e_span e)) (filter (is_kind KComment) es) = ccoms out /\
    filter (is_kind KJunk) es = [].
Proof. exact DtdReparse.merge_reparse_dtd. Qed.

(* [dcentries_of bs] is the view of what the DTD parser yields for the text of the blocks *)
Theorem C15_parse_view_dtd : forall bs, Forall C02BlocksDtd.legal_block bs -> DtdShape.no_pe bs ->
  C02BlocksDtd.adjacent_ok bs ->
  exists es, walk_dtd (C02BlocksDtd.file_text bs) = Ok es /\
             map (DtdView.dview (C02BlocksDtd.file_text bs)) es = DtdShape.dcentries_of bs.
Proof. exact DtdView.dcentries_view. Qed.

(* newer  <!ENTITY a "1">\n<!ENTITY b "2">\n   older  <!ENTITY a "0">\n<!--c-->\n\n<!ENTITY z "3">\n *)
Definition de (k v : list nat) : C02BlocksDtd.block :=
  C02BlocksDtd.BEntity None (A [32]) (A k) (A [32]) 34%N (A v) [].
Definition dnl : C02BlocksDtd.block := C02BlocksDtd.BBlank (A [10]).
Definition d_new : list C02BlocksDtd.block := [de [97] [49]; dnl; de [98] [50]; dnl].
Definition d_old : list C02BlocksDtd.block :=
  [de [97] [48]; dnl; C02BlocksDtd.BComment (A [99]); C02BlocksDtd.BBlank (A [10; 10]); de [122] [51]; dnl].

Example C15_example_reparse_dtd :
  exists txt es, merge_channels (s [102;46;100;116;100]) (map DtdShape.dcentries_of [d_new; d_old]) = Ok txt /\
    walk_dtd txt = Ok es /\
    map (fun e => let r := entity_record txt e in (fst (fst r), snd (fst r)))
        (filter (is_kind KEntity) es) = [(A [97], A [49]); (A [122], A [51]); (A [98], A [50])] /\
    map (fun e => span_text txt (e_span e)) (filter (is_kind KComment) es) = [A [60;33;45;45;99;45;45;62]] /\
    filter (is_kind KJunk) es = [].
Proof.
  eexists. eexists. split; [vm_compute; reflexivity|]. split; [vm_compute; reflexivity|].
  split; [vm_compute; reflexivity|]. split; vm_compute; reflexivity.
Qed.

Ltac dwsok_one :=
  unfold DtdReparse.dwsok;
  first [ intros Hw; vm_compute in Hw; discriminate
        | intros _ Hl; first [vm_compute; lia | exfalso; vm_compute in Hl; lia] ].
Ltac dversion_ok_tac :=
  split; [repeat constructor|]; split; [repeat constructor|]; split; [repeat constructor|];
  split; [split; nodup_tac|]; split; [vm_compute; intuition (try discriminate; try lia)|];
  unfold DtdShape.dcentries_of; cbn [DtdShape.dcents DtdShape.dflush app];
  repeat (apply Forall_cons; [dwsok_one|]); apply Forall_nil.

Example C15_example_dversion_ok : Forall (DtdReparse.dversion_ok 2) [d_new; d_old].
Proof. constructor; [dversion_ok_tac|constructor; [dversion_ok_tac|constructor]]. Qed.

(* ---- the re-parse clause for ini, from the block theorem of C02 (blocks_ini) ---------------------
   Versions are legal ini block lists (Proofs/C02BlocksIni.v: section headers, entities
   key=value with attached comment lines, standalone comments, blank runs); their entries are
   [IniShape.icentries_of bs] — a section header is an entry of its own with the merge key
   ("[section]", name) (dict key DS), the key of an entity is NOT qualified by its section.
   [IniReparse.iversion_ok m bs]: legal blocks, no "License" in attached comments, [ukeys]
   (keys distinct in the whole file, section names distinct), every entity / section header /
   standalone comment directly followed by a whitespace entry (at least m long after a
   comment), and every whitespace entry starts AND ends with a line break (and has a second
   one from length m on, which follows for m >= 2).  "Ends with a line break" is what the
   listed finding merge-ws-fold-loses-blank-line needs here: merge_two.prune keeps the longer
   whitespace, which then must still put a following comment at the start of a line; it is
   needed (C15_reparse_ini_line_end_refuted: the merged text has Junk).
   Then the merged text re-parses (walk_ini) without junk; its entities (key, value), its
   standalone comments and its section headers are exactly those of the merged entry list,
   in that list's order. *)
Theorem C15_reparse_ini : forall m name (bss : list (list C02BlocksIni.iblock)) txt,
  Forall (IniReparse.iversion_ok m) bss ->
  merge_channels name (map IniShape.icentries_of bss) = Ok txt ->
  exists out es,
    merge_entries (map IniShape.icentries_of bss) = Ok out /\ txt = concat (map c_text out) /\
    walk_ini txt = Ok es /\
    map (fun e => let r := C02BlocksIni.entity_record txt e in (fst (fst r), snd (fst r)))
        (filter (C02BlocksIni.is_kind KEntity) es) = krecs out /\
    map (fun e => C02BlocksIni.span_text txt (e_span e)) (filter (C02BlocksIni.is_kind KComment) es) =
      ccoms out /\
    map (fun e => C02BlocksIni.opt_text txt (e_val e)) (filter (C02BlocksIni.is_kind KSection) es) =
      IniShape.csecs out /\
    filter (C02BlocksIni.is_kind KJunk) es = [].
Proof. exact IniReparse.merge_reparse_ini. Qed.

(* [icentries_of bs] is the view of what the ini parser yields for the text of the blocks *)
Theorem C15_parse_view_ini : forall bs, Forall C02BlocksIni.legal_iblock bs -> C02BlocksIni.iadjacent_ok bs ->
  exists es, walk_ini (C02BlocksIni.ifile_text bs) = Ok es /\
             map (centry_view (C02BlocksIni.ifile_text bs)) es = IniShape.icentries_of bs.
Proof. exact IniView.icentries_view. Qed.

(* newer  [s] / a=1 / b=2     older  [s] / a=0 / ;c / <blank> / z=3 / b=2 / [t] / q=1 *)
Definition ie (k v : list nat) : C02BlocksIni.iblock := C02BlocksIni.IEntity [] (A k) (A v) true.
Definition isec (n : list nat) : C02BlocksIni.iblock := C02BlocksIni.ISection (A n) true.
Definition i_new : list C02BlocksIni.iblock := [isec [115]; ie [97] [49]; ie [98] [50]].
Definition i_old : list C02BlocksIni.iblock :=
  [isec [115]; ie [97] [48]; C02BlocksIni.IComment [(59%N, A [99])]; C02BlocksIni.IBlank (A [10]);
   ie [122] [51]; ie [98] [50]; isec [116]; ie [113] [49]].

Ltac iwsok_one :=
  unfold IniReparse.iwsok;
  first [ intros Hw; vm_compute in Hw; discriminate
        | intros _; eexists; split; [vm_compute; reflexivity|]; split; [vm_compute; reflexivity|];
          intros Hl; first [vm_compute; reflexivity | exfalso; vm_compute in Hl; lia] ].
Ltac iversion_ok_tac :=
  split; [repeat constructor|]; split; [repeat constructor|]; split; [split; nodup_tac|];
  split; [vm_compute; intuition (try discriminate; try lia)|];
  unfold IniShape.icentries_of; cbn [IniShape.icents PropsShape.cflush app];
  repeat (apply Forall_cons; [iwsok_one|]); apply Forall_nil.

Example C15_example_iversion_ok : Forall (IniReparse.iversion_ok 2) [i_new; i_old].
Proof. constructor; [iversion_ok_tac|constructor; [iversion_ok_tac|constructor]]. Qed.

(* the merged text  [s] / a=1 / ;c / <blank> / z=3 / b=2 / [t] / q=1  and its parse *)
Example C15_example_reparse_ini :
  exists txt es, merge_channels (s [102;46;105;110;105]) (map IniShape.icentries_of [i_new; i_old]) = Ok txt /\
    txt = A [91;115;93;10; 97;61;49;10; 59;99;10;10; 122;61;51;10; 98;61;50;10; 91;116;93;10; 113;61;49;10] /\
    walk_ini txt = Ok es /\
    map (fun e => let r := C02BlocksIni.entity_record txt e in (fst (fst r), snd (fst r)))
        (filter (C02BlocksIni.is_kind KEntity) es) =
      [(A [97], A [49]); (A [122], A [51]); (A [98], A [50]); (A [113], A [49])] /\
    map (fun e => C02BlocksIni.opt_text txt (e_val e)) (filter (C02BlocksIni.is_kind KSection) es) =
      [A [115]; A [116]] /\
    filter (C02BlocksIni.is_kind KJunk) es = [].
Proof.
  eexists. eexists. split; [vm_compute; reflexivity|]. split; [reflexivity|]. split; [vm_compute; reflexivity|].
  split; [vm_compute; reflexivity|]. split; vm_compute; reflexivity.
Qed.

(* "every whitespace entry ends with a line break" is needed:
   newer  a=1 / ;c / <blank> / b=2     older  a=1 / <blank> / <2 blanks>b=2
   — both legal, junk-free, keys distinct, [nf 2], every whitespace entry starts with a line
   break and the long ones have two; the older version's "\n\n  " is longer than the newer's
   "\n", is kept in front of the comment, which then does not start a line: the merged text
   a=1 / <blank> / <2 blanks>;c / <blank> / b=2  has a Junk entry *)
Definition il_new : list C02BlocksIni.iblock :=
  [ie [97] [49]; C02BlocksIni.IComment [(59%N, A [99])]; C02BlocksIni.IBlank (A [10]); ie [98] [50]].
Definition il_old : list C02BlocksIni.iblock :=
  [ie [97] [49]; C02BlocksIni.IBlank (A [10; 32; 32]); ie [98] [50]].
Theorem C15_reparse_ini_line_end_refuted :
  exists name txt es,
    Forall (fun bs => Forall C02BlocksIni.legal_iblock bs /\ C02BlocksIni.iadjacent_ok bs /\
                      ukeys (IniShape.icentries_of bs) /\ nf 2 (IniShape.icentries_of bs) /\
                      Forall (wsok 2) (IniShape.icentries_of bs)) [il_new; il_old] /\
    merge_channels name (map IniShape.icentries_of [il_new; il_old]) = Ok txt /\
    txt = A [97;61;49;10;10;32;32; 59;99;10;10; 98;61;50;10] /\
    walk_ini txt = Ok es /\ filter (C02BlocksIni.is_kind KJunk) es <> [].
Proof.
  exists (s [102;46;105;110;105]). eexists. eexists.
  split.
  { constructor; [|constructor; [|constructor]];
      (split; [repeat constructor|]); (split; [vm_compute; reflexivity|]);
      (split; [split; nodup_tac|]); (split; [vm_compute; intuition (try discriminate; try lia)|]);
      unfold IniShape.icentries_of; cbn [IniShape.icents PropsShape.cflush app];
      repeat (apply Forall_cons; [wsok_one|]); apply Forall_nil. }
  split; [vm_compute; reflexivity|]. split; [reflexivity|]. split; [vm_compute; reflexivity|].
  vm_compute. discriminate.
Qed.

(* ---- the re-parse clause for .inc, from the block theorem of C02 (blocks_inc) -------------------
   Versions are legal .inc block lists (Proofs/C02BlocksInc.v: "#define KEY [VALUE]" with
   attached "# " comment lines, standalone comments, instructions "#word args", runs of
   newlines); their entries are [IncShape.ncentries_of bs] (an instruction is an entry of
   kind COther keyed by its text).  DefinesParser keeps a filter state: a run of more than one
   newline is Whitespace only after "#filter emptyLines" (Junk otherwise, as is a newline at
   offset 0), and the merge reorders entries; the theorem covers ([IncReparse.nregions])
   (a) versions without empty lines and (b) versions that all start with "#filter emptyLines"
   and have no "#unfilter emptyLines".  Both restrictions of (b) are needed
   (C15_reparse_inc_unfilter_refuted, C15_reparse_inc_filter_first_refuted).
   [IncReparse.nversion_ok m bs] (2 <= m): legal blocks, distinct keys, every entity /
   instruction / comment directly followed by a whitespace entry (two newlines after a comment),
   no leading newline.  All whitespace of an .inc file is newlines, so the listed finding
   merge-ws-fold-loses-blank-line has no .inc form (the longer run has more newlines).
   Then the merged text re-parses (walk_defines) without junk; its entities (key, value), its
   standalone comments and its instructions are those of the merged entry list, in order. *)
Theorem C15_reparse_inc : forall m, 2 <= m -> forall name (bss : list (list C02BlocksInc.nblock)) txt,
  Forall (IncReparse.nversion_ok m) bss -> IncReparse.nregions (map IncShape.ncentries_of bss) ->
  merge_channels name (map IncShape.ncentries_of bss) = Ok txt ->
  exists out es,
    merge_entries (map IncShape.ncentries_of bss) = Ok out /\ txt = concat (map c_text out) /\
    walk_defines txt = Ok es /\
    map (fun e => let r := C02BlocksInc.entity_nrecord txt e in
                  (fst (fst r), match snd (fst r) with Some v => v | None => [] end))
        (filter (C02BlocksInc.is_kind KEntity) es) = krecs out /\
    map (fun e => C02BlocksInc.span_text txt (e_span e)) (filter (C02BlocksInc.is_kind KComment) es) =
      ccoms out /\
    map (fun e => C02BlocksInc.opt_text txt (e_val e)) (filter (C02BlocksInc.is_kind KInstruction) es) =
      IncShape.cinstrs out /\
    filter (C02BlocksInc.is_kind KJunk) es = [].
Proof. exact IncReparse.merge_reparse_inc. Qed.

(* newer  #filter emptyLines / <blank> / #define a 1 / #define b 2
   older  #filter emptyLines / <blank> / #define a 0 / # c / <blank> / #define z 3 / #define b 2 *)
Definition ne (k v : list nat) : C02BlocksInc.nblock :=
  C02BlocksInc.NEntity [] (A [32]) (A k) (Some (32%N, A v)) true.
Definition n_new : list C02BlocksInc.nblock :=
  [C02BlocksInc.nx_filter; C02BlocksInc.NBlank 1; ne [97] [49]; ne [98] [50]].
Definition n_old : list C02BlocksInc.nblock :=
  [C02BlocksInc.nx_filter; C02BlocksInc.NBlank 1; ne [97] [48];
   C02BlocksInc.NComment [(35%N, A [32; 99])]; C02BlocksInc.NBlank 1; ne [122] [51]; ne [98] [50]].

Ltac nversion_ok_tac :=
  split; [repeat constructor|]; split; [split; nodup_tac|];
  split; [vm_compute; intuition (try discriminate; try lia)|vm_compute; reflexivity].
Ltac starts_filter_tac := eexists; eexists; split; [reflexivity|split; reflexivity].
Ltac no_unfilter_tac :=
  intros e He K; vm_compute in He;
  repeat (destruct He as [<-|He]; [first [discriminate K | vm_compute; discriminate]|]); contradiction.

Example C15_example_nversion_ok :
  Forall (IncReparse.nversion_ok 2) [n_new; n_old] /\
  IncReparse.nregions (map IncShape.ncentries_of [n_new; n_old]).
Proof.
  split; [constructor; [nversion_ok_tac|constructor; [nversion_ok_tac|constructor]]|].
  right. split.
  - constructor; [starts_filter_tac|constructor; [starts_filter_tac|constructor]].
  - constructor; [no_unfilter_tac|constructor; [no_unfilter_tac|constructor]].
Qed.

Example C15_example_reparse_inc :
  exists txt es, merge_channels (s [100;46;105;110;99]) (map IncShape.ncentries_of [n_new; n_old]) = Ok txt /\
    walk_defines txt = Ok es /\
    map (fun e => let r := C02BlocksInc.entity_nrecord txt e in
                  (fst (fst r), match snd (fst r) with Some v => v | None => [] end))
        (filter (C02BlocksInc.is_kind KEntity) es) = [(A [97], A [49]); (A [122], A [51]); (A [98], A [50])] /\
    map (fun e => C02BlocksInc.span_text txt (e_span e)) (filter (C02BlocksInc.is_kind KComment) es) =
      [A [35; 32; 99]] /\
    filter (C02BlocksInc.is_kind KJunk) es = [].
Proof.
  eexists. eexists. split; [vm_compute; reflexivity|]. split; [vm_compute; reflexivity|].
  split; [vm_compute; reflexivity|]. split; vm_compute; reflexivity.
Qed.

(* "no #unfilter emptyLines" is needed: both versions are legal and junk-free,
   newer  #filter emptyLines / #unfilter emptyLines / #define y 1
   older  #filter emptyLines / #define y 1 / <blank> / #define z 2
   the older version's empty line follows y, which the newer version has behind its #unfilter:
   the merged text has the empty line outside the filter region — a Junk entry *)
Definition nu_new : list C02BlocksInc.nblock :=
  [C02BlocksInc.nx_filter; C02BlocksInc.nx_unfilter; ne [121] [49]].
Definition nu_old : list C02BlocksInc.nblock :=
  [C02BlocksInc.nx_filter; ne [121] [49]; C02BlocksInc.NBlank 1; ne [122] [50]].
Ltac inc_hyps_tac :=
  constructor; [|constructor; [|constructor]];
    (split; [split; [repeat constructor|]; split; [split; nodup_tac|];
             split; [vm_compute; intuition (try discriminate; try lia)|vm_compute; reflexivity]|]);
    (split; [vm_compute; reflexivity|]); vm_compute; reflexivity.
Theorem C15_reparse_inc_unfilter_refuted :
  exists name txt es,
    Forall (fun bs => IncReparse.nversion_ok 2 bs /\ C02BlocksInc.nadjacent_ok bs /\
                      C02BlocksInc.nblanks_ok false true bs = true) [nu_new; nu_old] /\
    Forall (MergeHeadInstr.starts_instr Parse.s_filter) (map IncShape.ncentries_of [nu_new; nu_old]) /\
    merge_channels name (map IncShape.ncentries_of [nu_new; nu_old]) = Ok txt /\
    walk_defines txt = Ok es /\ filter (C02BlocksInc.is_kind KJunk) es <> [].
Proof.
  exists (s [100;46;105;110;99]). eexists. eexists.
  split; [inc_hyps_tac|].
  split; [constructor; [starts_filter_tac|constructor; [starts_filter_tac|constructor]]|].
  split; [vm_compute; reflexivity|]. split; [vm_compute; reflexivity|]. vm_compute. discriminate.
Qed.

(* "every version starts with #filter emptyLines" is needed:
   newer  #define y 1 / #filter emptyLines        older  #filter emptyLines / #define y 1 / <blank> / #define z 2
   the merged text  #define y 1 / <blank> / #define z 2 / #filter emptyLines  has the empty
   line in front of the instruction *)
Definition nf_new : list C02BlocksInc.nblock := [ne [121] [49]; C02BlocksInc.nx_filter].
Theorem C15_reparse_inc_filter_first_refuted :
  exists name txt es,
    Forall (fun bs => IncReparse.nversion_ok 2 bs /\ C02BlocksInc.nadjacent_ok bs /\
                      C02BlocksInc.nblanks_ok false true bs = true) [nf_new; nu_old] /\
    Forall IncReparse.no_unfilter (map IncShape.ncentries_of [nf_new; nu_old]) /\
    merge_channels name (map IncShape.ncentries_of [nf_new; nu_old]) = Ok txt /\
    walk_defines txt = Ok es /\ filter (C02BlocksInc.is_kind KJunk) es <> [].
Proof.
  exists (s [100;46;105;110;99]). eexists. eexists.
  split; [inc_hyps_tac|].
  split; [constructor; [no_unfilter_tac|constructor; [no_unfilter_tac|constructor]]|].
  split; [vm_compute; reflexivity|]. split; [vm_compute; reflexivity|]. vm_compute. discriminate.
Qed.

(* ---- the re-parse clause for PO, from the block theorem of C02 (blocks_po) -----------------------
   Versions are legal PO block lists (Proofs/C02BlocksPo.v: messages [msgctxt] msgid msgstr with
   attached comment lines, standalone comments, whitespace); their entries are
   [PoReparse.pcentries_of bs]: the key of a message is the meaning of its msgid items, followed
   by \x04 and the meaning of its msgctxt items when it has a msgctxt (the rendering of the key
   tuple (msgid, msgctxt) that the harness hands to the model), a comment entry is the comment
   lines including their line breaks.  [PoReparse.pversion_ok m bs]: legal blocks, no "License"
   in attached comments, distinct keys, every message / standalone comment directly followed by
   a whitespace entry (at least m long after a comment), every whitespace entry of length >= m
   has two line breaks (excludes the listed finding merge-ws-fold-loses-blank-line).
   Then the merged text is the text of a legal block list bs whose entries are, up to object
   identity, the merged entry list; it re-parses (walk_po) to the entries of bs (C02 blocks_po):
   no Junk, the kinds of the merged entry list in its order.  (C02 has no record theorem for
   PO; the entity-level content is in [map strip (pcentries_of bs) = map strip out].) *)
Theorem C15_reparse_po : forall m name (bss : list (list C02BlocksPo.pblock)) txt,
  Forall (PoReparse.pversion_ok m) bss ->
  merge_channels name (map PoReparse.pcentries_of bss) = Ok txt ->
  exists out bs,
    merge_entries (map PoReparse.pcentries_of bss) = Ok out /\ txt = concat (map c_text out) /\
    Forall C02BlocksPo.legal_pblock bs /\ C02BlocksPo.padjacent_ok bs /\ C02BlocksPo.pfile_text bs = txt /\
    map strip (PoReparse.pcentries_of bs) = map strip out /\
    walk_po txt = Ok (C02BlocksPo.pentries_of bs) /\
    map (fun e => PoReparse.ckind_of (e_kind e)) (C02BlocksPo.pentries_of bs) = map c_kind out /\
    Forall (fun e => e_kind e <> KJunk) (C02BlocksPo.pentries_of bs).
Proof. exact PoReparse.merge_reparse_po. Qed.

(* newer  msgid "a" / msgstr "1" / <blank> / msgid "b" / msgstr "2"
   older  msgid "a" / msgstr "0" / <blank> / # c / <2 blank lines> / msgctxt "x" msgid "a" / msgstr "3" / <blank> / msgid "b" ... *)
Definition pit (c : nat) : list C02BlocksPoRx.pitem := [C02BlocksPo.it [32] [C02Po.PPlain (N.of_nat c)]].
Definition pm (k v : nat) : C02BlocksPo.pblock := C02BlocksPo.PEntity [] [] None (pit k) (A [10]) (pit v).
Definition pmc (c k v : nat) : C02BlocksPo.pblock :=
  C02BlocksPo.PEntity [] [] (Some (pit c, A [10])) (pit k) (A [10]) (pit v).
Definition pnl : C02BlocksPo.pblock := C02BlocksPo.PBlank (A [10; 10]).
Definition p_new : list C02BlocksPo.pblock := [pm 97 49; pnl; pm 98 50; pnl].
Definition p_old : list C02BlocksPo.pblock :=
  [pm 97 48; pnl; C02BlocksPo.PComment [(35%N, A [32; 99])]; pnl; pmc 120 97 51; pnl; pm 98 50; pnl].

Ltac pwsok_one :=
  unfold PoReparse.pwsok;
  first [ intros Hw; vm_compute in Hw; discriminate
        | intros _ Hl; first [vm_compute; lia | exfalso; vm_compute in Hl; lia] ].
Ltac pversion_ok_tac :=
  split; [repeat constructor|]; split; [repeat constructor|];
  split; [split; nodup_tac|]; split; [vm_compute; intuition (try discriminate; try lia)|];
  unfold PoReparse.pcentries_of; cbn [PoReparse.pcents PropsShape.cflush app pm pmc pnl];
  repeat (apply Forall_cons; [pwsok_one|]); apply Forall_nil.

Example C15_example_pversion_ok : Forall (PoReparse.pversion_ok 2) [p_new; p_old].
Proof. constructor; [pversion_ok_tac|constructor; [pversion_ok_tac|constructor]]. Qed.

(* the same msgid with and without msgctxt are different keys; the merged text has both *)
Example C15_example_reparse_po :
  exists txt es, merge_channels (s [102;46;112;111]) (map PoReparse.pcentries_of [p_new; p_old]) = Ok txt /\
    walk_po txt = Ok es /\
    map e_kind es = [KEntity; KWhitespace; KComment; KWhitespace; KEntity; KWhitespace; KEntity; KWhitespace] /\
    map (fun e => C02Blocks.opt_text txt (e_val e)) (filter (is_kind KEntity) es) =
      [A [109;115;103;115;116;114; 32;34;49;34]; A [109;115;103;115;116;114; 32;34;51;34];
       A [109;115;103;115;116;114; 32;34;50;34]].
Proof.
  eexists. eexists. split; [vm_compute; reflexivity|]. split; [vm_compute; reflexivity|].
  split; vm_compute; reflexivity.
Qed.

(* [ncentries_of bs] is the view of what DefinesParser yields for the text of a legal block
   list whose empty lines are inside filter regions (no Junk) *)
Theorem C15_parse_view_inc : forall bs, Forall C02BlocksInc.legal_nblock bs -> C02BlocksInc.nadjacent_ok bs ->
  C02BlocksInc.nblanks_ok false true bs = true ->
  exists es, walk_defines (C02BlocksInc.nfile_text bs) = Ok es /\
             map (IncView.nview (C02BlocksInc.nfile_text bs)) es = IncShape.ncentries_of bs.
Proof. exact IncView.ncentries_view. Qed.
