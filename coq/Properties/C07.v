(* C07 — DTD: malformed XML values are errors, well-formed ones never are.

   Theorems only; each is closed by a lemma of Proofs/.  What they are about:

   * Model/CheckDTD.v, Model/CSS.v — the code of checks/dtd.py and CSSCheckMixin
     with expat (xml.sax) as a PARAMETER [sax] (any function from the document to
     an outcome) and the unicode-escape codec as a parameter [uesc]; regular
     expressions, templates and messages are the generated facts.
   * Model/XmlContent.v — a well-formedness checker for element content, my
     stand-in for expat.  The two [_partial] theorems are about it, NOT about
     expat; that expat agrees with it is checked by execution only (suite XML).

   C07_css_parse / C07_css_parse_errors are proved through the regex ENGINE on the
   generated ASTs of the two CSS expressions, for declaration lists of any length
   and any layout (no bound).
   [_refuted]: the property's grammar "character references to anything but & and <"
   is too generous — see C07_charref_grammar_refuted. *)
From Coq Require Import NArith ZArith List Bool Arith String Ascii.
From CL Require Import Base.Sx Base.Res Base.Str Regex.Rx Generated.RxC07 Generated.C07Facts
  Model.CSS Model.XmlContent Model.CheckDTD
  Proofs.CheckDTDProofs Proofs.CheckDTDSpec Proofs.CheckDTDTheorems Proofs.CSSProofs
  Proofs.XmlRejectProofs Proofs.XmlAcceptProofs Proofs.XmlValueProofs Proofs.C07Final
  Proofs.CheckDTDTotal Proofs.CssRxSpec Proofs.CssFinditer Proofs.CssParseTheorem Proofs.CssJunk.
Import ListNotations.
Local Open Scope list_scope.

(* ---- the plumbing never leaves a recognised reference undeclared ------------------------------
   For every cache state, every set of reference values and every pair of entities: the four
   documents are the template around exactly these declaration lists, every name the `eref`
   expression captures in the localized value is declared in its documents (or predefined),
   and so is every name of the reference value when the cache is fresh and the value belongs
   to the reference. *)
Theorem C07_declared : forall cache reference ref l10n docs,
  documents cache reference ref l10n = Ok docs ->
  exists reflist cache' l10nlist,
    known_entities cache reference (e_val ref) = Ok (reflist, cache') /\
    entities_for_value (e_val l10n) = Ok l10nlist /\
    let names := reflist ++ missing_names reflist l10nlist in
    docs = [doc (decls reflist) (e_val ref);
            doc (e_all ref ++ decls reflist) (CSS.render t_selfref [e_key ref]);
            doc (decls names) (e_val l10n);
            doc (e_all l10n ++ decls names) (CSS.render t_selfref [e_key l10n])] /\
    (forall ns n, eref_names (e_val l10n) = Ok ns -> In n ns -> In n names \/ In n xmllist) /\
    (cache = None ->
     match reference with Some refs => In (e_val ref) refs | None => True end ->
     forall ns n, eref_names (e_val ref) = Ok ns -> In n ns -> In n reflist \/ In n xmllist).
Proof. exact declared_complete. Qed.

(* ---- one warning per unknown entity, naming it ----------------------------------------------------
   For every oracle: the warnings of category xmlparse whose message starts with
   "Referencing unknown entity `" are, in order, one per name of a duplicate-free list
   [unknown]; the message is prefix ++ name ++ "`" ++ context; a name is in [unknown] iff the
   localized value references it and neither a reference value nor xmllist knows it. *)
Theorem C07_unknown_entity_warnings :
  forall sax uesc cache reference android ref l10n issues cache',
  check sax uesc cache reference android ref l10n = Ok (issues, cache') ->
  exists reflist inContext unknown,
    known_entities cache reference (e_val ref) = Ok (reflist, cache') /\
    entities_for_value (e_val ref) = Ok inContext /\
    filter is_unknown_warning issues = map (unknown_issue (warn_suffix reflist inContext)) unknown /\
    (forall k, i_msg (unknown_issue (warn_suffix reflist inContext) k) =
               unknown_prefix ++ k ++ unknown_close ++ warn_suffix reflist inContext) /\
    NoDup unknown /\
    (forall ns n, eref_names (e_val l10n) = Ok ns ->
       (In n unknown <-> In n ns /\ ~ In n reflist /\ ~ In n xmllist)).
Proof. exact unknown_entity_warnings. Qed.

(* ---- number / length ------------------------------------------------------------------------------------
   length reference -> (the css error <-> the localization is not a length);
   number reference -> (the number warning <-> the localization is not a number) *)
Theorem C07_number_length :
  forall sax uesc cache reference android ref l10n issues cache',
  check sax uesc cache reference android ref l10n = Ok (issues, cache') ->
  (In (lit_issue y_css_length (PInt 0)) issues <->
   is_match rx_c07_length (e_val ref) = true /\ is_match rx_c07_length (e_val l10n) = false) /\
  (In (lit_issue y_number (PInt 0)) issues <->
   is_match rx_c07_num (e_val ref) = true /\ is_match rx_c07_num (e_val l10n) = false).
Proof.
  intros. split; [eapply length_verdict | eapply number_verdict]; eassumption.
Qed.

(* ---- CSS specs ---------------------------------------------------------------------------------------------
   a reference that parses to a non-empty spec: an unparseable localization (no spec, or
   parse errors) is the one css error; a parseable one yields nothing iff it maps the same
   properties to the same units, and exactly one warning otherwise *)
Theorem C07_css_verdict : forall rv lv rm e1 lmo errs,
  parse_css_spec rv = Ok (Some rm, e1) -> rm <> [] ->
  parse_css_spec lv = Ok (lmo, errs) ->
  ((lmo = None \/ lmo = Some [] \/ nonempty errs = true) ->
   maybe_style rv lv = Ok [lit_issue y_css_spec (PInt 0)]) /\
  (forall lm, lmo = Some lm -> lm <> [] -> nonempty errs = false ->
   (maybe_style rv lv = Ok [] <-> agree rm lm) /\
   (~ agree rm lm -> exists msg, maybe_style rv lv = Ok [var_issue y_css_warn (PInt 0) msg])).
Proof. exact maybe_style_verdict. Qed.

(* ---- parse_css_spec, for every declaration list and every layout --------------------------------------
   A declaration is  prop blanks : blanks number unit  where prop / unit are ANY word of the
   property / unit group of the generated expression ([css_props] / [css_units]: the finite
   languages read off the AST, pinned to the expected lists by C07_example_css_grammar), blanks
   are arbitrary runs of the checker's white-space class, a number is digits or
   digits* . digits+ .  An item is a gap followed by a declaration; a gap is
   blanks [; blanks].  For EVERY list of items in which every declaration but the first is
   preceded by a semicolon, and every trailing text that is empty or blanks ; blanks:
   parse_css_spec of the rendering is the dict of the list (refMap[prop] = unit in order: a
   repeated property keeps its first place and takes the later unit) and no errors. *)
Theorem C07_css_parse : forall items tr,
  forallb item_ok items = true -> layout_ok items = true -> tr_ok tr = true ->
  parse_css_spec (render_items items (render_tr tr)) = Ok (Some (decl_map (map it_decl items)), None).
Proof. exact css_parse. Qed.

(* The converse: ANY text of characters that cannot start a declaration ([inert]: decided on
   the generated expression; every character but the first letters of the property names)
   before, between and after valid declarations.  parse_css_spec returns the dict of the
   declarations and EXACTLY these errors, in order: css-bad-content at the start offset of
   every non-empty gap that is not blanks [; blanks] — before the first declaration too —
   and css-missing-semicolon at every non-empty all-blank gap after a declaration
   (the trailing text included).  Hence errors <> None iff some gap is bad. *)
Theorem C07_css_parse_errors : forall items tr,
  items <> [] -> forallb jitem_ok items = true -> forallb inert tr = true ->
  parse_css_spec (render_jitems items tr) =
    Ok (Some (decl_map (map j_decl items)), errs_after 0 items tr None) /\
  nonempty (errs_after 0 items tr None) = any_bad false items tr /\
  (any_bad false items tr = false -> errs_after 0 items tr None = None).
Proof. exact css_parse_junk. Qed.

(* ---- the value grammar is accepted (XmlContent) ---------------------------------------------------------------
   tokens: text without < & >, references to declared or predefined names other than the
   entity's own, decimal / hexadecimal character references to inert characters (a legal
   Char that is none of & < > and the two quote characters), start / empty / end tags with distinct, double-quoted
   attributes whose values are such text (without the quote), references and character
   references; balanced; no '%'.  Then both documents of the check are accepted.
   PARTIAL: a statement about Model/XmlContent.v; expat is compared by execution. *)
Theorem C07_wellformed_accepted_partial : forall declared key ts,
  forallb (tok_ok (fun n => negb (str_eqb n key) && declared_ok declared n)) ts = true ->
  bal [] ts = true -> no_pct (XmlAcceptProofs.render ts) = true ->
  value_ok declared key (XmlAcceptProofs.render ts) = true.
Proof. exact grammar_value_ok. Qed.

(* the machine decides balance: an unbalanced or mis-nested token list is rejected *)
Theorem C07_balance_decided_partial : forall refok ts,
  forallb (tok_ok refok) ts = true ->
  fragment_ok refok (XmlAcceptProofs.render ts) = bal [] ts.
Proof. exact grammar_fragment. Qed.

(* ---- every breaking edit at every position is rejected (XmlContent) ------------------------------------------------
   for all strings without "<!" and "<?" (no comment / CDATA / PI), whatever is declared.
   PARTIAL: a statement about Model/XmlContent.v; expat is compared by execution. *)
Theorem C07_broken_rejected_partial : forall declared key,
  (forall p v, In p [pat_bare_amp; pat_bare_lt; pat_unterminated; pat_misnested] ->
     contains p v = true -> no_special v = true -> value_ok declared key v = false) /\
  (forall a b, no_special a = true -> content_ok declared (a ++ b) = true ->
     value_ok declared key (a ++ pat_open ++ b) = false /\
     value_ok declared key (a ++ pat_close ++ b) = false) /\
  (forall v, In c_pct v -> value_ok declared key v = false).
Proof. exact broken_rejected. Qed.

(* ---- check raises nothing ---------------------------------------------------------------------------------------
   For every oracle (whatever line / column expat reports), cache, reference and pair of
   entities — empty localized values included — the only tag check can raise is the
   assertion that a non-optional regex group took part in a match: no IndexError (the
   repaired `lines[lnr - 1]` of an empty value), no running out of fuel. *)
Theorem C07_check_raises_only_assertion :
  forall sax uesc cache reference android ref l10n t,
  check sax uesc cache reference android ref l10n = Raise t -> t = AssertionError.
Proof. exact check_raises_only_assertion. Qed.

(* ---- examples: the premises are satisfiable, concrete runs ---------------------------------------------------------- *)
Definition s (x : string) : str := map (fun a => N.of_nat (nat_of_ascii a)) (list_ascii_of_string x).

Definition ex_tokens : list tok :=
  [TPart (AText (s "a ] "));
   TOpen (s "b") [(s "href", [AText (s "x>y "); ARef (s "foo")]); (s "id", [ADec (s "37")])];
   TPart (ARef (s "amp")); TPart (AHex (s "e9")); TEmpty (s "br") [];
   TClose (s "b")].

Example C07_example_grammar :
  XmlAcceptProofs.render ex_tokens = s "a ] <b href=""x>y &foo;"" id=""&#37;"">&amp;&#xe9;<br/></b>" /\
  forallb (tok_ok (fun n => negb (str_eqb n (s "k")) && declared_ok [s "foo"] n)) ex_tokens = true /\
  bal [] ex_tokens = true /\ no_pct (XmlAcceptProofs.render ex_tokens) = true /\
  value_ok [s "foo"] (s "k") (XmlAcceptProofs.render ex_tokens) = true.
Proof. vm_compute. repeat split; reflexivity. Qed.

Example C07_example_broken :
  contains pat_bare_amp (s "Tom & Jerry") = true /\ no_special (s "Tom & Jerry") = true /\
  value_ok [] (s "k") (s "Tom & Jerry") = false /\
  content_ok [] (s "a<i>b</i>") = true /\ value_ok [] (s "k") (s "a<i><u>b</i>") = false /\
  value_ok [] (s "k") (s "100%") = false.
Proof. vm_compute. repeat split; reflexivity. Qed.

(* a run of the whole check with XmlContent as the oracle: one unknown entity, named *)
Example C07_example_check :
  let ref := mkent (s "k") (s "a &foo;") (s "<!ENTITY k ""a &foo;"">") in
  let l10n := mkent (s "k") (s "b &foo; &bar; &amp;") (s "<!ENTITY k ""b &foo; &bar; &amp;"">") in
  match check xml_sax (fun _ => None) None (Some [s "a &foo;"; s "x &baz;"]) false ref l10n with
  | Ok (issues, cache') =>
      map (fun i => (i_error i, i_msg i)) issues =
        [(false, s "Referencing unknown entity `bar` (foo used in context, baz known)")] /\
      cache' = Some [s "baz"; s "foo"]
  | Raise _ => False
  end.
Proof. vm_compute. split; reflexivity. Qed.

Example C07_example_broken_check :
  let ref := mkent (s "k") (s "a") (s "<!ENTITY k ""a"">") in
  let l10n := mkent (s "k") (s "b & c") (s "<!ENTITY k ""b & c"">") in
  match check xml_sax (fun _ => None) None (Some [s "a"]) false ref l10n with
  | Ok (issues, _) => map (fun i => (i_error i, i_cat i)) issues = [(true, s "xmlparse")]
  | Raise _ => False
  end.
Proof. vm_compute. reflexivity. Qed.

(* an empty localized value whose second document is rejected on line 2 (a key expat does
   not accept, after a line feed): an error at (0, 0), not an exception *)
Example C07_example_empty_value :
  let ref := mkent (s "k") (s "") (s "<!ENTITY k """">") in
  let l10n := mkent (s "k") [] (s "<!ENTITY k """">") in
  let sax := fun d => if contains (s "&k;") d then mksax (Some (2%Z, 0%Z, s "not well-formed")) []
                      else mksax None [] in
  check sax (fun _ => None) None (Some [[]]) false ref l10n =
    Ok ([lit_issue y_cant_parse (PTuple 0 0);
         var_issue y_xmlparse (PTuple 0 0) (s "not well-formed")], Some []) /\
  error_position [] 2 0 = PTuple 0 0 /\ error_position [] 7 5 = PTuple 0 0.
Proof. vm_compute. repeat split; reflexivity. Qed.

Example C07_example_number_length :
  is_match rx_c07_length (s "12em") = true /\ is_match rx_c07_length (s "12") = false /\
  is_match rx_c07_num (s "12") = true /\ is_match rx_c07_num (s "12em") = false.
Proof. vm_compute. repeat split; reflexivity. Qed.

Example C07_example_css :
  parse_css_spec (s "width: 20em; height:3ch") = Ok (Some [(s "width", s "em"); (s "height", s "ch")], None) /\
  maybe_style (s "width: 20em; height:3ch") (s "height:5ch;width:30em;") = Ok [] /\
  maybe_style (s "width: 20em") (s "width:30px") =
    Ok [var_issue y_css_warn (PInt 0) (s "units for width don't match (px != em)")] /\
  maybe_style (s "width: 20em") (s "wide") = Ok [lit_issue y_css_spec (PInt 0)].
Proof. vm_compute. repeat split; reflexivity. Qed.

(* the grammar of C07_css_parse is the source's: the words of the two groups, read off the
   generated expression, are the expected lists; a concrete item list satisfies the premises *)
Definition ex_items : list item :=
  [mkitem (s " ", None) (mkdecl (s "min-width") (s " ") (s "	") (NDec (s "") (s "5")) (s "rem"));
   mkitem (s "", Some (s " ")) (mkdecl (s "height") [] [] (NInt (s "280")) (s "px"));
   mkitem (s " ", Some [10%N]) (mkdecl (s "min-width") [] (s " ") (NDec (s "2") (s "50")) (s "ch"))].

Example C07_example_css_grammar :
  css_props = [s "min-width"; s "min-height"; s "max-width"; s "max-height"; s "width"; s "height"] /\
  css_units = [s "ch"; s "em"; s "ex"; s "rem"; s "px"; s "cm"; s "mm"; s "in"; s "pc"; s "pt"] /\
  forallb item_ok ex_items = true /\ layout_ok ex_items = true /\ tr_ok (Some (s " ", s "")) = true /\
  render_items ex_items (render_tr (Some (s " ", s ""))) =
    s " min-width :	.5rem; height:280px ;
min-width: 2.50ch ;" /\
  decl_map (map it_decl ex_items) = [(s "min-width", s "ch"); (s "height", s "px")].
Proof. vm_compute. repeat split; reflexivity. Qed.

Definition ex_jitems : list jitem :=
  [mkjitem (s "junk ") (mkdecl (s "width") [] (s " ") (NInt (s "20")) (s "ch"));
   mkjitem (s " ") (mkdecl (s "height") [] (s " ") (NInt (s "280")) (s "px"))].

Example C07_example_css_errors :
  forallb jitem_ok ex_jitems = true /\ forallb inert (s " ") = true /\
  render_jitems ex_jitems (s " ") = s "junk width: 20ch height: 280px " /\
  errs_after 0 ex_jitems (s " ") None =
    Some [(0, CssBadContent); (16, CssMissingSemicolon); (30, CssMissingSemicolon)] /\
  any_bad false ex_jitems (s " ") = true /\
  inert 119 = false /\ inert 106 = true.
Proof. vm_compute. repeat split; reflexivity. Qed.

(* junk or a broken declaration before the first declaration, between two, after the last:
   parse errors, hence the css error (the guard `end > 0` only exempts the text before the
   first declaration from the missing-semicolon rule, not from validation) *)
Example C07_example_css_junk :
  let r := s "width: 20ch; height: 280px;" in
  let err := Ok [lit_issue y_css_spec (PInt 0)] in
  parse_css_spec (s "junk width: 20ch; height: 280px") =
    Ok (Some [(s "width", s "ch"); (s "height", s "px")], Some [(0, CssBadContent)]) /\
  maybe_style r (s "junk width: 20ch; height: 280px") = err /\
  maybe_style r (s "width: 20; height: 280px") = err /\
  maybe_style r (s "color: red; width: 20ch; height: 280px") = err /\
  maybe_style r (s "width: 20ch; line-height: 2em; height: 280px") = err /\
  maybe_style r (s "width: 20ch; height: 280px; junk") = err /\
  maybe_style r (s "width: 20ch height: 280px") = err /\
  maybe_style r (s " width: 20ch; height: 280px") = Ok [].
Proof. vm_compute. repeat split; reflexivity. Qed.

(* ---- the property's grammar is too generous -------------------------------------------------------------------------
   "character references to anything but & and <" are not all harmless: the second document
   makes expat read the REPLACEMENT TEXT of the entity, in which character references are
   already replaced (XML 1.0, 4.5).  A reference to > after ]] and a reference to the
   attribute's own quote inside its value are element content (first document accepted)
   whose replacement text is not.  The same two inputs are errors of the implementation
   (harness signatures false-error:charref-completes-cdata-end / charref-quote-in-attribute). *)
Theorem C07_charref_grammar_refuted :
  exists v1 v2,
    content_ok [] v1 = true /\ value_ok [] (s "k") v1 = false /\
    content_ok [] v2 = true /\ value_ok [] (s "k") v2 = false /\
    v1 = s "]]&#62;" /\ v2 = s "<a href=""&#34;""/>".
Proof.
  exists (s "]]&#62;"), (s "<a href=""&#34;""/>"). vm_compute. repeat split; reflexivity.
Qed.
