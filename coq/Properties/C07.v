(* C07 — DTD: malformed XML values are errors, well-formed ones never are. *)
From Coq Require Import NArith List Bool Arith.
From CL Require Import Base.Sx Base.Res Base.Str Model.CSS Model.XmlContent Model.CheckDTD.
Import ListNotations.

Example C07_example_content :
  content_ok [[102; 111; 111]%N] (map N.of_nat [60; 98; 62; 38; 102; 111; 111; 59; 60; 47; 98; 62]) = true.
Proof. vm_compute. reflexivity. Qed.
