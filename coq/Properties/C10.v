(* C10 — placeholder while the harness is brought up; replaced by the theorems. *)
From Coq Require Import ZArith NArith List Bool.
From CL Require Import Base.Sx Base.Res Model.Tree Model.Observer.
Import ListNotations.

Example C10_example_tree :
  toJSON (match run_tree (@empty_tree nat) [([1;2]%N, [7]); ([1;3]%N, [8])] with Ok t => t | _ => empty_tree end)
  = JDict [([1]%N, JDict [([2]%N, JVal [7]); ([3]%N, JVal [8])])].
Proof. vm_compute. reflexivity. Qed.
