(* C10 — summaries count every event once; quiet hides only details; exit = errors.
   Theorems only; each is closed by [exact] of a lemma proved in Proofs/.

   Model: Model/Tree.v (Tree.__getitem__/__get, toJSON, getContent),
   Model/Observer.v (Observer / ObserverList notify, updateStats,
   serializeDetails; exit status of CompareLocales.handle), with the quiet
   thresholds, category names, summary keys and exit statuses of
   Generated/ObserverFacts.v.

   Standing premises, and why they hold of the program:
   - [ev_ok]: the path of a notified file has at least one segment (str.split
     never returns []), and updateStats is called with keys of the counter dict;
   - [prefix_free]: no file path is a proper prefix of another file path. *)
From Coq Require Import ZArith NArith List Bool Arith.
From CL Require Import Base.Sx Base.Res Base.Str Model.Tree Model.Observer
  Generated.ObserverFacts Proofs.TreeProofs Proofs.TreeRefine Proofs.ObserverProofs
  Proofs.ObserverList Proofs.C10Final.
Import ListNotations.

(* ---- the detail tree ------------------------------------------------------------- *)

(* For every history of insertions tree[path].extend(xs) over a prefix-free set
   of non-empty paths, in any order and with any repetitions: no step raises,
   the invariant holds (no empty key, sibling keys start with pairwise distinct
   segments, a node with a value has no branches), flattening the tree gives
   exactly the association path |-> concatenation of the values appended for
   that path, in order, every path once; and toJSON shows all of it. *)
Theorem C10_tree_refines : forall (V : Type) (h : list (key * list V)),
  Forall (fun e => fst e <> []) h -> prefix_free (map fst h) ->
  exists t, run_tree empty_tree h = Ok t /\ inv t /\
            (forall q v, In (q, v) (flatten t) <-> hval h q = Some v) /\
            NoDup (map fst (flatten t)) /\
            flatten_json (toJSON t) = flatten t.
Proof. exact (@tree_refines). Qed.

(* One insertion, on any tree satisfying the invariant (not only reachable
   ones): only the association of the inserted path changes. *)
Theorem C10_tree_step : forall (V : Type) fuel (t : tree V) parts xs,
  parts <> [] -> length parts < fuel -> inv t -> pfree parts (flatten t) ->
  exists t', get_app fuel t parts xs = Ok t' /\ inv t' /\
             upd_spec (flatten t) (flatten t') parts xs.
Proof. exact (@get_app_refines). Qed.

(* Without prefix-freeness the walk still never raises: [i] is never read
   unbound, self.branches[common] never misses, the fuel (length of the path
   + 1) is never exhausted. *)
Theorem C10_tree_total : forall (V : Type) (t : tree V) parts xs,
  parts <> [] -> keys_ok t -> exists t', tree_getitem t parts xs = Ok t' /\ keys_ok t'.
Proof. exact (@tree_getitem_ok). Qed.

(* ---- summaries ---------------------------------------------------------------------- *)

(* One Observer with any filter, any quiet level, any history: the number shown
   for a locale and a key is the number of error / warning notifications for
   that locale the filter does not ignore (under the key category + "s") plus
   the values of that key in the stats the filter does not ignore; the totals
   over locales likewise; the error flag is set iff a non-ignored error was
   notified or non-ignored stats carried the errors key. *)
Theorem C10_summary : forall q flt h loc k, Forall ev_ok h ->
  count_of (o_summary (orun q flt init_state h)) loc k = hist_count flt h loc k /\
  total (o_summary (orun q flt init_state h)) k = hist_total flt h k /\
  o_error (orun q flt init_state h) = existsb (ev_sets_error flt) h.
Proof. exact summary_counts. Qed.

(* ObserverList: every project observer receives the whole history exactly as
   if it were alone; the list's own observer (no filter) receives exactly the
   events that at least one project observer does not ignore, and all stats. *)
Theorem C10_summary_list : forall q confs h, Forall ev_ok h ->
  let st := fst (lrun q (init_list confs) h) in
  l_own st = orun q None init_state (filter (ev_reaches confs) h) /\
  l_obs st = map (fun cf => (cf, orun (c_quiet cf) (c_filter cf) init_state h)) confs.
Proof. exact list_run. Qed.

(* ---- quiet -------------------------------------------------------------------------- *)

(* One Observer: summary and error flag do not depend on the quiet level; the
   details at a higher level are, file by file, subsequences of the details at a
   lower level (nothing appears, nothing moves to another file). *)
Theorem C10_quiet : forall q q' flt h, q <= q' -> Forall ev_ok h -> prefix_free (hist_paths h) ->
  let st := orun q flt init_state h in
  let st' := orun q' flt init_state h in
  o_summary st' = o_summary st /\ o_error st' = o_error st /\
  (forall p v', In (p, v') (flatten (o_details st')) ->
                exists v, In (p, v) (flatten (o_details st)) /\ subseq v' v).
Proof. exact orun_quiet. Qed.

(* The list as compareProjects builds it (one quiet level for the list and all
   project observers): the same, plus the exit status and the project
   observers' summaries and flags. *)
Theorem C10_quiet_list : forall q q' confs h, q <= q' -> Forall ev_ok h -> prefix_free (hist_paths h) ->
  let st := fst (lrun q (init_list (map (with_quiet q) confs)) h) in
  let st' := fst (lrun q' (init_list (map (with_quiet q') confs)) h) in
  o_summary (l_own st') = o_summary (l_own st) /\
  o_error (l_own st') = o_error (l_own st) /\
  (forall rz, exit_code rz st' = exit_code rz st) /\
  (forall p v', In (p, v') (flatten (o_details (l_own st'))) ->
                exists v, In (p, v) (flatten (o_details (l_own st))) /\ subseq v' v) /\
  map (fun cs => (o_summary (snd cs), o_error (snd cs))) (l_obs st') =
  map (fun cs => (o_summary (snd cs), o_error (snd cs))) (l_obs st).
Proof. exact list_quiet. Qed.

(* the details of a run are the association given by the displayed events *)
Theorem C10_details : forall q flt h, Forall ev_ok h -> prefix_free (hist_paths h) ->
  let t := o_details (orun_pure q flt init_state h) in
  inv t /\ (forall p v, In (p, v) (flatten t) <-> hval (dlog q flt h) p = Some v) /\
  NoDup (map fst (flatten t)) /\ flatten_json (toJSON t) = flatten t.
Proof. exact orun_details_refine. Qed.

(* ---- exit status ------------------------------------------------------------------ *)

(* any state: the status is the error status iff return_zero is off and the
   list's error flag is set *)
Theorem C10_exit_flag : forall rz st,
  exit_code rz st = exit_error <-> rz = false /\ o_error (l_own st) = true.
Proof. exact exit_code_spec. Qed.

(* after any history in which updateStats is never given the errors key: the
   status is the error status iff return_zero is off and the list's own summary
   counts at least one error (over all locales) *)
Theorem C10_exit : forall rz q confs h, Forall ev_ok h -> Forall no_errors_stats h ->
  let st := fst (lrun q (init_list confs) h) in
  exit_code rz st = exit_error <-> rz = false /\ 0 < total (o_summary (l_own st)) (msg_key CError).
Proof. exact exit_counts. Qed.

(* ---- fan-out ------------------------------------------------------------------------ *)

(* ObserverList.notify on any well-formed state: every project observer is
   notified; the list's own observer iff not all of them ignore; the return
   value is "ignore" iff all ignore (also when there is no observer), "error"
   if any says error; with verdicts in {error, warning, ignore} the assertion
   never fires and the result is one of the three; nothing but that assertion
   can raise. *)
Theorem C10_fanout : forall q st c f d, lst_ok st -> file_parts f <> [] ->
  let vs := obs_verdicts (l_obs st) c f d in
  let st' := fst (lnotify q st c f d) in
  let r := snd (lnotify q st c f d) in
  l_obs st' = obs_notified (l_obs st) c f d /\
  l_own st' = (if reaches (l_obs st) c f d then notify_state q None (l_own st) c f d else l_own st) /\
  lst_ok st' /\
  (r = Ok VIgnore <-> forallb is_ignore vs = true) /\
  (existsb is_error vs = true -> r = Ok VError) /\
  (Forall three_valued vs -> r <> Raise AssertionError /\ exists v, r = Ok v /\ three_valued v) /\
  (forall t, r = Raise t -> t = AssertionError).
Proof. exact lnotify_spec. Qed.

(* the assertion is not dead code for other verdict strings *)
Example C10_fanout_assert_reachable :
  let flt (n : N) : option filter_t := Some (fun _ _ => VOther n) in
  let f := {| f_id := 0%N; f_locale := 1%N; f_leaf := LStr [2%N] |} in
  snd (lnotify 0 (init_list [{| c_quiet := 0; c_filter := flt 1%N |}; {| c_quiet := 0; c_filter := flt 2%N |}])
               CWarning f (DStr 1%N)) = Raise AssertionError.
Proof. vm_compute. reflexivity. Qed.

(* ---- the facts the proofs use --------------------------------------------------------- *)
Example C10_facts :
  In (msg_key CError) summary_keys /\ In (msg_key CWarning) summary_keys /\
  msg_key CError = stats_errors_key /\ exit_error <> exit_ok /\
  thr_obsolete_file_shown = 0 /\
  map classify [name_missingFile; name_obsoleteFile; name_missingEntity; name_obsoleteEntity;
                name_error; name_warning]
  = [MissingFile; ObsoleteFile; MissingEntity; ObsoleteEntity; CError; CWarning].
Proof. vm_compute. repeat split; try tauto; discriminate. Qed.

(* ---- a concrete run; the premises hold of it ---------------------------------------- *)
Definition ex_f1 := {| f_id := 0%N; f_locale := 1%N; f_leaf := LFile (Some [2%N]) [3%N; 4%N] |}.
Definition ex_f2 := {| f_id := 1%N; f_locale := 1%N; f_leaf := LFile None [1%N; 2%N; 5%N] |}.
Definition ex_f3 := {| f_id := 2%N; f_locale := 7%N; f_leaf := LStr [6%N] |}.
Definition ex_key_missing : str := [109; 105; 115; 115; 105; 110; 103]%N.
Definition ex_h : list event :=
  [ENotify CError ex_f1 (DStr 1%N); ENotify MissingEntity ex_f2 (DTup 2%N);
   ENotify CWarning ex_f2 (DStr 3%N); EStats ex_f1 [(ex_key_missing, 2)];
   ENotify ObsoleteFile ex_f3 DNone; ENotify CError ex_f2 (DStr 4%N);
   ENotify ObsoleteEntity ex_f1 (DStr 5%N)].
(* ignores file 2 and the error "4" *)
Definition ex_flt : filter_t :=
  fun f d => if N.eqb (f_id f) 2%N then VIgnore
             else match d with DStr 4%N => VIgnore | DStr 3%N => VWarning | _ => VError end.
Definition ex_confs := [{| c_quiet := 1; c_filter := Some ex_flt |}; {| c_quiet := 1; c_filter := None |}].

Example C10_example_premises :
  Forall ev_ok ex_h /\ prefix_free (hist_paths ex_h) /\ Forall no_errors_stats ex_h.
Proof.
  split; [|split].
  - assert (Hk : In ex_key_missing summary_keys) by (vm_compute; tauto).
    unfold ex_h.
    repeat (apply Forall_cons;
            [first [ simpl; discriminate | apply Forall_cons; [exact Hk | apply Forall_nil] ] | ]).
    apply Forall_nil.
  - intros p q Hp Hq (r & Hr & E). vm_compute in Hp, Hq.
    repeat (destruct Hp as [Hp | Hp]; try contradiction);
      repeat (destruct Hq as [Hq | Hq]; try contradiction); subst;
      destruct r as [|a [|b [|c r]]]; try congruence; discriminate.
  - repeat constructor.
Qed.

Example C10_example_run :
  let st := fst (lrun 1 (init_list ex_confs) ex_h) in
  (* the filtered observer: one error, one warning, 2 missing; the unfiltered one and the
     list itself: two errors *)
  map (fun cs => (count_of (o_summary (snd cs)) 1%N (msg_key CError),
                  count_of (o_summary (snd cs)) 1%N (msg_key CWarning),
                  count_of (o_summary (snd cs)) 1%N ex_key_missing)) (l_obs st)
    = [(1, 1, 2); (2, 1, 2)] /\
  count_of (o_summary (l_own st)) 1%N (msg_key CError) = 2 /\
  (* quiet 1 hides the obsolete entity and the obsolete file, nothing else *)
  toJSON (o_details (l_own st)) =
    JDict [([1%N; 2%N], JDict [([3%N; 4%N], JVal [IMsg true (DStr 1%N)]);
                               ([5%N], JVal [IEntity true (DTup 2%N); IMsg false (DStr 3%N);
                                             IMsg true (DStr 4%N)])])] /\
  exit_code false st = 1%Z /\ exit_code true st = 0%Z.
Proof. vm_compute. repeat split; reflexivity. Qed.

(* a history of insertions whose tree splits and re-splits *)
Example C10_example_tree :
  let h := [([1; 2; 3]%N, [10]); ([4]%N, [20]); ([1; 2; 5]%N, [30]); ([1; 6]%N, [40]);
            ([1; 2; 3]%N, [11])] in
  exists t, run_tree (@empty_tree nat) h = Ok t /\
    toJSON t = JDict [([4]%N, JVal [20]);
                      ([1]%N, JDict [([2]%N, JDict [([3]%N, JVal [10; 11]); ([5]%N, JVal [30])]);
                                     ([6]%N, JVal [40])])] /\
    prefix_free (map fst h).
Proof.
  eexists. split; [vm_compute; reflexivity|]. split; [reflexivity|].
  intros p q Hp Hq (r & Hr & E). vm_compute in Hp, Hq.
  repeat (destruct Hp as [Hp | Hp]; try contradiction);
    repeat (destruct Hq as [Hq | Hq]; try contradiction); subst;
    destruct r as [|a [|b [|c r]]]; try congruence; discriminate.
Qed.

(* ---- the printed summaries (ObserverList.serializeSummaries) ----------------------- *)
(* Model: Model/Summaries.v; display keys, widths, the keys of the total and of
   the percentage from Generated/ObserverFacts.v (tr/facts_c10.py pins the rest
   of the function's shape). *)
From CL Require Import Model.Summaries Proofs.SummariesProofs.

(* [unsortable]: the list counted something for a file without locale (None, id
   0) AND for at least one other locale: `sorted` raises TypeError.  Otherwise,
   with at least one project observer the text never raises and consists, for
   the locales of the list's own summary in ascending order (each once), of the
   locale line (none for None), the rows and the percent line of the LAST
   column.  Without any project observer it is empty when nothing was counted
   and IndexError otherwise. *)
Theorem C10_summaries_text : forall st,
  let locs := map fst (o_summary (l_own st)) in
  (unsortable locs = true -> serialize_summaries st = Raise TypeError) /\
  (unsortable locs = false -> l_obs st <> [] ->
     serialize_summaries st = Ok (flat_map (block_lines st) (sort_locs locs))) /\
  (unsortable locs = false -> l_obs st = [] ->
     serialize_summaries st =
       match o_summary (l_own st) with [] => Ok [] | _ :: _ => Raise IndexError end) /\
  Sorted.Sorted N.le (sort_locs locs) /\
  Permutation.Permutation locs (sort_locs locs).
Proof.
  intros st locs. split; [exact (serialize_unsortable st)|].
  split; [intros U H; exact (serialize_ok st H U)|].
  split; [intros U H; exact (serialize_no_observers st H U)|].
  split; [apply sort_locs_sorted|apply sort_locs_perm].
Qed.

(* The columns of a locale are the project observers in order, followed by the
   list's own summary when there are two or more projects; the number behind
   each cell is the count of C10_summary / C10_summary_list. *)
Theorem C10_summaries_columns : forall st loc k,
  map (Summaries.cget k) (columns st loc) =
    map (fun cs => count_of (o_summary (snd cs)) loc k) (l_obs st)
    ++ (if Nat.ltb 1 (length (l_obs st)) then [count_of (o_summary (l_own st)) loc k] else []).
Proof. exact columns_counts. Qed.

(* Exactly the display keys with a non-zero count in some column get a row, in
   the order of the display keys; nothing else is printed between the locale
   line and the percent line. *)
Theorem C10_summaries_rows : forall cols,
  rows cols = map (row_of cols) (filter (fun k => existsb (nonzero k) cols) display_keys).
Proof. exact rows_spec. Qed.

(* A cell reads back as its number (blanks as 0) whatever its width; when every
   number of the row fits its cell, the i-th cell is found at its fixed
   position. *)
Theorem C10_summaries_cell : forall n, read_cell (cell n) = Some n.
Proof. exact read_cell_cell. Qed.

Theorem C10_summaries_row_reads_back : forall k cols i c,
  In k display_keys -> Forall (fits k) cols -> nth_error cols i = Some c ->
  read_cell (nth_cell (row_of cols k) i) = Some (Summaries.cget k c).
Proof.
  intros k cols i c Hk. apply nth_cell_row. apply display_key_fits. exact Hk.
Qed.

(* The percent line: floor(100 * changed / total) of the last column, between 0
   and 100; 0 when the total is 0. *)
Theorem C10_summaries_rate : forall c,
  rate_of c <= 100 /\
  (total_of c = 0 -> rate_of c = 0) /\
  (total_of c <> 0 ->
     rate_of c * total_of c <= Summaries.cget rate_key c * 100 < (rate_of c + 1) * total_of c).
Proof.
  intros c. split; [apply rate_le_100|]. split; [apply rate_zero_total|apply rate_spec].
Qed.

(* End to end, history -> printed numbers: after ANY history of notifications and
   stats, the numbers behind the cells of (locale, key) are, column by column,
   the non-ignored findings of each project observer (hist_count with its
   filter) and, when there are several projects, those of the events at least
   one project does not ignore - each event once. *)
From CL Require Import Proofs.SummariesE2E.
Theorem C10_summaries_end_to_end : forall q confs h loc k, Forall ev_ok h ->
  map (Summaries.cget k) (columns (fst (lrun q (init_list confs) h)) loc) =
    map (fun cf => hist_count (c_filter cf) h loc k) confs
    ++ (if Nat.ltb 1 (length confs)
        then [hist_count None (filter (ev_reaches confs) h) loc k] else []).
Proof. exact summaries_cells_history. Qed.

(* two projects: the rows shown, their order, the blanks for zeros, the percent
   of each column; the premise [fits] of C10_summaries_row_reads_back holds of
   both columns (it is about digit counts: a number of more than cell_width
   digits shifts the rest of its row, the code does not cut) *)
Example C10_summaries_example :
  let c1 := [(rate_key, 3); ([107; 101; 121; 115]%N, 4321)] in
  let c2 := [(rate_key, 1); ([117; 110; 99; 104; 97; 110; 103; 101; 100]%N, 3)] in
  rows [c1; c2] =
    [[99; 104; 97; 110; 103; 101; 100; 32; 32; 32; 32; 32; 32; 32; 32; 32; 32; 32; 51;
      32; 32; 32; 32; 32; 32; 49]%N;
     [117; 110; 99; 104; 97; 110; 103; 101; 100; 32; 32; 32; 32; 32; 32; 32; 32; 32; 32;
      32; 32; 32; 32; 32; 32; 51]%N;
     [107; 101; 121; 115; 32; 32; 32; 32; 32; 32; 32; 32; 32; 32; 32; 52; 51; 50; 49; 32; 32; 32;
      32; 32; 32; 32]%N] /\
  rate_of c1 = 100 /\ rate_of c2 = 25 /\
  forallb (fun k => forallb (fun c => Nat.leb (length (cell_text (Summaries.cget k c))) cell_width)
                            [c1; c2]) display_keys = true /\
  read_cell (nth_cell (row_of [c1; c2] [107; 101; 121; 115]%N) 0) = Some 4321 /\
  read_cell (nth_cell (row_of [c1; c2] [107; 101; 121; 115]%N) 1) = Some 0.
Proof. vm_compute. repeat split; reflexivity. Qed.
