(* C09 — Android: crashing format arguments and bad quoting are errors. *)
From Coq Require Import NArith List Bool Arith.
From CL Require Import Base.Sx Base.Res Base.Str Regex.Rx Model.CheckAndroid.
Import ListNotations.

Example C09_example_apostrophes :
  match check_apostrophes (map N.of_nat [105; 116; 39; 115; 32; 34; 34]) with
  | Ok l => map (fun i => (i_error i, i_pos i)) l = [(true, PInt 5); (true, PInt 2)]
  | Raise _ => False
  end.
Proof. vm_compute. reflexivity. Qed.
