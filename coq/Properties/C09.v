(* C09 — Android: crashing format arguments and bad quoting are errors.

   Model: Model/CheckAndroid.v (AndroidChecker.check, check_string, the early
   exits, check_apostrophes, get_params, check_params, Checker.check's encoding
   warning, textContent) over the regular expressions, messages, severities and
   constants regenerated from the source (Generated/RxC09.v, C09Facts.v).
   Vocabulary (Proofs/CheckAndroidSpec.v, definitions only):

     args s             the argument occurrences of s as (position, conversion, offset),
                        implicit positions numbered 1, 2, ... in order of appearance
     first_conv k rs    the conversion of the first occurrence using position k
     is_conflict rs i   i reports a later occurrence of a position whose conversion
                        differs from the first one
     is_not_in_ref / is_mismatch / is_omitted   (against the reference's map)
     simple_content cs  cs = [] \/ one text node \/ one CDATA between blank text nodes
     qtok, qrender      quoting tokens (character, backslash escape, bare apostrophe,
                        bare quote) and their text
     quoting_model ts   the token-level quoting rule (doubled quotes counted in pairs
                        from the left; escapes and quote pairs silenced; apostrophes
                        reported unless the silenced value starts and ends with a quote)

   Theorems only; proofs are in Proofs/CheckAndroid*.v. *)
From Coq Require Import NArith List Bool Arith.
From CL Require Import Base.Sx Base.Res Base.Str Regex.Rx Generated.RxC09 Generated.C09Facts
  Model.CheckAndroid Proofs.CheckAndroidSpec Proofs.CheckAndroidParams Proofs.CheckAndroidExits
  Proofs.CheckAndroidQuoting Proofs.CheckAndroidClean Proofs.CheckAndroidTotal
  Proofs.CheckAndroidFinal.
Import ListNotations.

(* ---- arguments ------------------------------------------------------------------------------ *)
(* get_params never raises; its map is the first conversion per position under
   implicit numbering, its count the number of occurrences, its messages the
   conflicting later occurrences *)
Theorem C09_params_map : forall s, exists st,
  get_params s = Ok st /\
  (forall k, pget k (ps_params st) = first_conv k (args s)) /\
  NoDup (map fst (ps_params st)) /\
  ps_count st = length (args s) /\
  (forall e, In e (ps_errors st) <->
     exists k f p f2, In (k, f, p) (args s) /\ first_conv k (args s) = Some f2 /\ f2 <> f /\
                      e = (render t_conflict [dec_of_nat k; f; f2], p)).
Proof. exact get_params_spec. Qed.

(* the errors of check_params are exactly: conflicts within the localized string,
   positions absent from the reference, positions with a different conversion *)
Theorem C09_params : forall (params : pmap) (count : nat) (s : str), exists issues,
  check_params params count s = Ok issues /\
  forall i, (In i issues /\ i_error i = true) <->
    (is_conflict (args s) i \/ is_not_in_ref params (args s) i \/ is_mismatch params (args s) i).
Proof. exact params_errors. Qed.

(* every occurrence uses a position of the reference with its conversion: no error *)
Theorem C09_params_subset_no_error : forall (params : pmap) (count : nat) (s : str),
  (forall k f p, In (k, f, p) (args s) -> pget k params = Some f) ->
  exists issues, check_params params count s = Ok issues /\
                 Forall (fun i => i_error i = false) issues.
Proof. exact params_subset_no_error. Qed.

(* omitted positions are reported, as warnings ... *)
Theorem C09_params_omitted_warning : forall (params : pmap) (count : nat) (s : str) k f,
  In (k, f) params -> first_conv k (args s) = None ->
  exists issues, check_params params count s = Ok issues /\
                 In (not_in_l10n_issue k f) issues /\ i_error (not_in_l10n_issue k f) = false.
Proof. exact params_omitted_warning. Qed.

(* ... and nothing else is a warning but the count mismatch *)
Theorem C09_params_warnings : forall (params : pmap) (count : nat) (s : str), exists issues,
  check_params params count s = Ok issues /\
  forall i, In i issues -> i_error i = false -> is_omitted params (args s) i \/ i = count_issue.
Proof. exact params_warnings. Qed.

(* ---- quoting ------------------------------------------------------------------------------------ *)
(* on the text of a token list the verdict is the token-level model *)
Theorem C09_apostrophes_tokens : forall ts, qtoks_ok ts ->
  check_apostrophes (qrender ts) = Ok (quoting_model ts).
Proof. exact check_apostrophes_tokens. Qed.

(* consequences in words: properly escaped -> nothing; two adjacent bare quotes ->
   an error; a bare apostrophe in a value not starting with a quote -> an error;
   a value enclosed in quotes may contain bare apostrophes *)
Theorem C09_apostrophes_clean : forall ts, qtoks_ok ts ->
  ~ In QApos ts -> ~ adjacent_quotes ts -> check_apostrophes (qrender ts) = Ok [].
Proof. exact apostrophes_clean. Qed.

Theorem C09_apostrophes_double_quotes : forall pre post, qtoks_ok (pre ++ QQuote :: QQuote :: post) ->
  exists issues off, check_apostrophes (qrender (pre ++ QQuote :: QQuote :: post)) = Ok issues /\
    In (lit_issue y_double_quotes off) issues /\ i_error (lit_issue y_double_quotes off) = true.
Proof. exact apostrophes_double_quotes. Qed.

Theorem C09_apostrophes_bare : forall ts, qtoks_ok ts ->
  In QApos ts -> (forall ts', ts <> QQuote :: ts') ->
  exists issues off, check_apostrophes (qrender ts) = Ok issues /\
    In (lit_issue y_apostrophe off) issues /\ i_error (lit_issue y_apostrophe off) = true.
Proof. exact apostrophes_bare. Qed.

Theorem C09_apostrophes_whole_string : forall mid, qtoks_ok (QQuote :: mid ++ [QQuote]) ->
  mid <> [] -> ~ In QQuote mid ->
  exists issues, check_apostrophes (qrender (QQuote :: mid ++ [QQuote])) = Ok issues /\
                 forall off, ~ In (lit_issue y_apostrophe off) issues.
Proof. exact apostrophes_whole_string. Qed.

(* ---- early exits ---------------------------------------------------------------------------------- *)
(* the test for non-simple data is the declarative shape *)
Theorem C09_non_simple_iff : forall n,
  non_simple_data n = false <-> simple_content (n_children n).
Proof. exact non_simple_data_iff. Qed.

(* translatable="false" on either side / an @string/ reference / non-simple data:
   after the encoding warnings exactly the one error (the last case possibly
   preceded by the warning about an @string/ reference) and nothing else *)
Theorem C09_early_exits : forall ref l10n,
  n_name (e_node ref) = s_string -> n_name (e_node l10n) = s_string ->
  let untranslatable :=
    n_transl (e_node l10n) = Some s_false \/ n_transl (e_node ref) = Some s_false in
  let reference := exists rest, val l10n = s_at_string ++ rest in
  exists enc, check_base l10n = Ok enc /\ Forall is_warning enc /\
  (untranslatable ->
     check ref l10n = Ok (enc ++ [lit_issue y_not_translatable 0])) /\
  (~ untranslatable -> reference ->
     check ref l10n = Ok (enc ++ [lit_issue y_at_string 0])) /\
  (~ untranslatable -> ~ reference -> ~ simple_content (n_children (e_node l10n)) ->
     exists w, check ref l10n = Ok (enc ++ w ++ [lit_issue y_non_simple 0]) /\
               (w = [] \/ w = [lit_issue y_at_string_ref 0])).
Proof. exact early_exits. Qed.

Theorem C09_early_exit_one_error : forall ref l10n,
  n_name (e_node ref) = s_string -> n_name (e_node l10n) = s_string ->
  (n_transl (e_node l10n) = Some s_false \/ n_transl (e_node ref) = Some s_false) \/
  (exists rest, val l10n = s_at_string ++ rest) \/
  ~ simple_content (n_children (e_node l10n)) ->
  exists issues e, check ref l10n = Ok issues /\ errors_of issues = [e] /\
    (e = lit_issue y_not_translatable 0 \/ e = lit_issue y_at_string 0 \/
     e = lit_issue y_non_simple 0).
Proof. exact early_exit_one_error. Qed.

(* ---- clean strings are never errors ---------------------------------------------------------------- *)
Theorem C09_clean_no_error : forall ref l10n ts,
  n_name (e_node ref) = s_string -> n_name (e_node l10n) = s_string ->
  n_transl (e_node l10n) <> Some s_false -> n_transl (e_node ref) <> Some s_false ->
  simple_content (n_children (e_node l10n)) ->
  (forall rest, val l10n <> s_at_string ++ rest) ->
  val l10n = qrender ts -> qtoks_ok ts -> ~ In QApos ts -> ~ adjacent_quotes ts ->
  (forall k f p, In (k, f, p) (args (val l10n)) ->
                 first_conv k (args (text_content (e_node ref))) = Some f) ->
  exists issues, check ref l10n = Ok issues /\ Forall is_warning issues.
Proof. exact clean_final. Qed.

(* the check never raises (no fuel exhaustion, int(order[0]) always gets a digit) *)
Theorem C09_total : forall ref l10n, exists issues, check ref l10n = Ok issues.
Proof. exact check_total. Qed.

(* ---- the constants the statements mention are what they look like ------------------------------------ *)
Example C09_constants :
  s_false = map N.of_nat [102; 97; 108; 115; 101] /\
  s_at_string = map N.of_nat [64; 115; 116; 114; 105; 110; 103; 47] /\
  s_string = map N.of_nat [115; 116; 114; 105; 110; 103] /\
  i_error (lit_issue y_not_translatable 0) = true /\ i_error (lit_issue y_at_string 0) = true /\
  i_error (lit_issue y_non_simple 0) = true /\ i_error (lit_issue y_at_string_ref 0) = false /\
  i_error (lit_issue y_double_quotes 0) = true /\ i_error (lit_issue y_apostrophe 0) = true /\
  i_error (not_in_ref_issue 1 []) = true /\ i_error mismatch_issue = true /\
  i_error (conflict_issue 1 [] [] 0) = true.
Proof. vm_compute. repeat split. Qed.

(* ---- concrete runs (non-vacuity) ----------------------------------------------------------------------- *)
Definition ex_str (l : list nat) : str := map N.of_nat l.
(* %1$s %d   (the second argument gets the implicit position 1: a conflict) *)
Definition ex_conflict : str := ex_str [37; 49; 36; 115; 32; 37; 100].
(* %2$d %s *)
Definition ex_l10n : str := ex_str [37; 50; 36; 100; 32; 37; 115].
(* %1$s *)
Definition ex_ref : str := ex_str [37; 49; 36; 115].

Example C09_example_args :
  args ex_conflict = [(1, ex_str [115], 0); (1, ex_str [100], 5)] /\
  args ex_l10n = [(2, ex_str [100], 0); (1, ex_str [115], 5)].
Proof. vm_compute. split; reflexivity. Qed.

(* reference %1$s, localized %2$d %s: position 2 is not in the reference *)
Example C09_example_params :
  match get_params ex_ref with
  | Ok r =>
      match check_params (ps_params r) (ps_count r) ex_l10n with
      | Ok l => map (fun i => (i_error i, i_msg i)) l =
                [(true, ex_str [70; 111; 114; 109; 97; 116; 116; 101; 114; 32; 37; 50; 36; 100; 32;
                                110; 111; 116; 32; 102; 111; 117; 110; 100; 32; 105; 110; 32; 114;
                                101; 102; 101; 114; 101; 110; 99; 101])]
      | Raise _ => False
      end
  | Raise _ => False
  end.
Proof. vm_compute. reflexivity. Qed.

(* the premise of C09_params_subset_no_error holds for %1$s against %1$s *)
Example C09_example_subset :
  forall k f p, In (k, f, p) (args ex_ref) -> pget k [(1, ex_str [115])] = Some f.
Proof.
  intros k f p H. vm_compute in H. destruct H as [H|[]]. inversion H; subst. reflexivity.
Qed.

(* it's ""   -> doubled quotes at 5, apostrophe at 2 *)
Example C09_example_apostrophes :
  let ts := [QChar 105; QChar 116; QApos; QChar 115; QChar 32; QQuote; QQuote] in
  qtoks_ok ts /\
  check_apostrophes (qrender ts) =
    Ok [lit_issue y_double_quotes 5; lit_issue y_apostrophe 2].
Proof. split; [repeat constructor|vm_compute; reflexivity]. Qed.

(* <string name="k">one<br/>two</string> : non-simple data, exactly one error *)
Definition ex_node (cs : list child) : node := mknode s_string None cs [].
Example C09_example_early_exit :
  let l10n := mkent (ex_node [Text (ex_str [111]); Elem; Text (ex_str [116])]) (ex_str [107]) [] in
  let ref := mkent (ex_node [Text (ex_str [97])]) (ex_str [107]) [] in
  ~ simple_content (n_children (e_node l10n)) /\
  check ref l10n = Ok [lit_issue y_non_simple 0].
Proof.
  split; [|vm_compute; reflexivity].
  intro H. apply C09_non_simple_iff in H. vm_compute in H. discriminate.
Qed.

(* reference "%1$s a", localized "\'%1$s" : every premise of C09_clean_no_error holds *)
Example C09_example_clean :
  let ts := [QEsc 39; QChar 37; QChar 49; QChar 36; QChar 115] in
  let l10n := mkent (ex_node [Text (qrender ts)]) (ex_str [107]) [] in
  let ref := mkent (ex_node [Text (ex_str [37; 49; 36; 115; 32; 97])]) (ex_str [107]) [] in
  simple_content (n_children (e_node l10n)) /\
  (forall rest, val l10n <> s_at_string ++ rest) /\
  val l10n = qrender ts /\ qtoks_ok ts /\ ~ In QApos ts /\ ~ adjacent_quotes ts /\
  (forall k f p, In (k, f, p) (args (val l10n)) ->
                 first_conv k (args (text_content (e_node ref))) = Some f) /\
  check ref l10n = Ok [].
Proof.
  cbv zeta. split; [|split; [|split; [|split; [|split; [|split; [|split]]]]]].
  - right. left. eexists. reflexivity.
  - intros rest H. vm_compute in H. discriminate.
  - reflexivity.
  - repeat constructor.
  - intro H. simpl in H. repeat (destruct H as [H|H]; [discriminate|]). exact H.
  - intros [pre [t [post [H _]]]].
    destruct pre as [|a [|b [|c [|d [|e pre]]]]]; try discriminate.
    destruct pre; discriminate.
  - intros k f p H. vm_compute in H. destruct H as [H|[]]. inversion H; subst.
    vm_compute. reflexivity.
  - vm_compute. reflexivity.
Qed.
