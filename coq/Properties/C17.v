(* C17 — reported line and column numbers point at the right character. *)
From Coq Require Import ZArith NArith List Bool Arith.
From CL Require Import Base.Sx Base.Res Model.LineCol Proofs.LineColProofs.
From CL Require Proofs.CheckBounds Proofs.DtdBounds Proofs.DtdErrPos Model.CheckDTD Model.CSS Model.LineColDtd Model.CheckProps Model.CheckAndroid Model.CheckFluent Model.Ftl Model.Robust Model.Unescape.
Import ListNotations.

(* For every text and every offset up to its length (inclusive): the search
   never runs out of fuel, the line is 1 + the number of newlines before the
   offset and the column is 1 + the number of characters since the last of
   them (or since the start). *)
Theorem C17_linecol : forall s p, p <= length s ->
  linecol s p = Some (1 + count_nl (firstn p s), 1 + cur 0 (firstn p s)).
Proof. exact linecol_spec. Qed.

(* That pair identifies exactly the character at offset p of the text split
   at newlines: going (line-1) lines down and (col-1) characters right lands
   on offset p, the line exists and the column is inside it (or one past its
   end, which is the position of its newline / of the end of the text). *)
Theorem C17_identifies : forall s p, p <= length s ->
  let L := count_nl (firstn p s) in
  let C := cur 0 (firstn p s) in
  pos_of (split_nl s) L C = p /\ L < length (split_nl s) /\
  C <= length (nth L (split_nl s) []).
Proof. exact pos_of_linecol. Qed.

(* 1-based *)
Theorem C17_one_based : forall s p l c, p <= length s ->
  linecol s p = Some (l, c) -> 1 <= l /\ 1 <= c.
Proof.
  intros s p l c Hp H. rewrite (linecol_spec s p Hp) in H. inversion H; subst.
  split; apply Nat.le_add_r.
Qed.

(* Entry.position / Junk.position: start + offset, or the end for a negative offset *)
Theorem C17_position : forall s sp off,
  position s sp off =
  linecol s (if (off <? 0)%Z then snd sp else fst sp + Z.to_nat off).
Proof. intros s sp off. unfold position. destruct (off <? 0)%Z; reflexivity. Qed.

(* ---- positions attached to check messages ---------------------------------
   The checker models (Model/CheckProps.v, CheckAndroid.v, CheckFluent.v,
   Robust.v) attach offsets to their findings; Proofs/CheckBounds.v bounds
   them for ALL inputs and resolves them through [linecol]:
   [resolves_between s a0 sp off] says the resolved (line, column) lies between
   the position of the entity start a0 and the position of the end of the
   file, lexicographically. *)

(* the offset-to-position map is monotone *)
Theorem C17_linecol_mono : forall (s : list N) (p q : nat),
  p <= q -> q <= length s ->
  exists lp lq, linecol s p = Some lp /\ linecol s q = Some lq /\ CheckBounds.lex_le lp lq.
Proof. exact CheckBounds.linecol_mono. Qed.

(* .properties: every finding of the checker (encoding, escapes, printf, plural)
   for an entity without attached comment resolves inside [entity start, EOF] *)
Theorem C17_bounds_properties :
  forall (s : list N) (c : CheckProps.check_in) (fs : list CheckProps.finding) (a0 a b e : nat),
  a0 <= a -> a <= b -> b <= e -> e <= length s ->
  length (CheckProps.l10n_all c) <= e - a0 ->
  length (CheckProps.l10n_raw c) <= b - a ->
  Unescape.props_val (CheckProps.l10n_raw c) = Ok (CheckProps.l10n_val c) ->
  CheckProps.check c = Ok fs ->
  Forall (fun f => CheckBounds.resolves_between s a0
                     (if CheckProps.f_entpos f then (a0, e) else (a, b))
                     (Z.of_nat (CheckProps.f_pos f))) fs.
Proof. exact CheckBounds.props_resolved_between_val. Qed.

(* Fluent: under the containment contract of fluent.syntax spans (every span
   start of the localized entry lies inside the entry) every finding resolves
   inside [entry start, EOF] *)
Theorem C17_bounds_fluent :
  forall (s : list N) locale (r l : Ftl.entry) (all : list N) key (n : nat) is,
  CheckBounds.FluentB.entry_in (CheckBounds.FluentB.in_span (Ftl.e_pos l) n) l ->
  Ftl.e_pos l + n <= length s -> length all <= n ->
  CheckFluent.check locale r l all key = Ok is ->
  Forall (fun i => CheckBounds.resolves_between s (Ftl.e_pos l)
                     (Ftl.e_pos l, Ftl.e_pos l + n) (CheckFluent.i_pos i)) is.
Proof. exact CheckBounds.fluent_resolved_between. Qed.

(* the base encoding warning, for an entity without attached comment *)
Theorem C17_bounds_base :
  forall (s : list N) (e : Robust.ent) (es : list Robust.entry),
  Robust.e_start e = fst (Robust.e_span e) ->
  fst (Robust.e_span e) <= snd (Robust.e_span e) -> snd (Robust.e_span e) <= length s ->
  Robust.check_entity s e = Ok es ->
  Forall (CheckBounds.BaseB.between s (fst (Robust.e_span e))) es.
Proof. exact CheckBounds.BaseB.check_entity_between. Qed.

(* ... and with an attached comment the bound is FALSE (listed finding
   encoding-warning-position-with-pre-comment): witness by vm_compute *)
Theorem C17_bounds_base_precomment_refuted :
  exists s e es x le0,
    Robust.e_start e <= fst (Robust.e_span e) /\
    fst (Robust.e_span e) <= snd (Robust.e_span e) /\ snd (Robust.e_span e) <= length s /\
    Robust.check_entity s e = Ok es /\ In x es /\
    linecol s (length s) = Some le0 /\
    ~ CheckBounds.lex_le (Robust.d_line x, Robust.d_col x) le0.
Proof. exact CheckBounds.BaseB.check_entity_between_refuted. Qed.

(* Android: positions are offsets into the value; all are bounded by the
   localized texts EXCEPT the "Conflicting formatting" warnings of the
   REFERENCE string, which carry offsets into the reference text *)
Theorem C17_bounds_android_partial :
  forall (ref l10n : CheckAndroid.entity) (is : list CheckAndroid.issue),
  CheckAndroid.check ref l10n = Ok is ->
  Forall (CheckBounds.AndroidB.pos_ok ref l10n) is.
Proof. exact CheckBounds.AndroidB.check_bounds. Qed.

Theorem C17_bounds_android_refuted :
  exists ref l10n is i p,
    CheckAndroid.check ref l10n = Ok is /\ In i is /\
    CheckAndroid.i_pos i = CheckAndroid.PInt p /\ length (CheckAndroid.val l10n) < p.
Proof. exact CheckBounds.AndroidB.check_bounds_refuted. Qed.

(* DTD: DTDEntityMixin.value_position resolves the (line, column) pairs of the DTD
   checker, line 1-based and column 0-based within the value.  The XML parser is
   not modelled; its contract is the premise [within]: the line exists in the
   value and the column lies inside it (equivalently, the pair designates an
   offset k of the value).  File = pre ++ v ++ post, the value v starts at
   |pre|, the entity at a0 <= |pre|.
   _partial: the step from the parser's position in the wrapper document
   (checks/dtd.py: lnr = line - 1, column corrections, clamping to the last
   line) to the pair is executed (suite CHECK-POS), not proved; it lands
   outside the contract for line 0 — the listed finding, refuted below. *)
Theorem C17_bounds_dtd_partial :
  forall (pre v post : list N) (a0 lp cp : nat),
  a0 <= length pre -> DtdBounds.within v lp cp ->
  exists l0 p le,
    linecol (pre ++ v ++ post) a0 = Some l0 /\
    LineColDtd.dtd_value_position (pre ++ v ++ post) (length pre) lp cp = Some p /\
    linecol (pre ++ v ++ post) (length (pre ++ v ++ post)) = Some le /\
    CheckBounds.lex_le l0 p /\ CheckBounds.lex_le p le.
Proof. exact DtdBounds.dtd_resolved_between_within. Qed.

(* exactness: for a pair designating offset k of the value the result is the
   position of the character at offset |pre| + k of the file when k lies in the
   first line of the value; on later lines the line is right and the column is
   that character's column minus one (the 0-based column is not converted) *)
Theorem C17_dtd_position_exact :
  forall (pre v post : list N) (lp cp k : nat),
  DtdBounds.designates v lp cp k ->
  exists l c, linecol (pre ++ v ++ post) (length pre + k) = Some (l, c) /\
    LineColDtd.dtd_value_position (pre ++ v ++ post) (length pre) lp cp =
      Some (l, if Nat.eqb lp 1 then c else c - 1).
Proof. exact DtdBounds.dtd_value_position_exact. Qed.

Theorem C17_dtd_contract_forms : forall v lp cp,
  DtdBounds.within v lp cp <-> exists k, DtdBounds.designates v lp cp k.
Proof. exact DtdBounds.within_iff_designates. Qed.

(* the contract is satisfiable: line 2, column 1 of "ab\ncd" is offset 4 *)
Example C17_dtd_contract_example :
  DtdBounds.within [97; 98; 10; 99; 100]%N 2 1 /\ DtdBounds.designates [97; 98; 10; 99; 100]%N 2 1 4.
Proof. unfold DtdBounds.within, DtdBounds.designates. cbn. repeat split; auto. Qed.

(* line 0 — whole-value warnings (0, 0) and errors in the DOCTYPE line — resolves
   BEFORE the entity start (listed finding dtd-whole-value-position-line-minus-one) *)
Theorem C17_bounds_dtd_line0_refuted :
  exists s a0 a p l0,
    a0 <= a /\ a <= length s /\
    linecol s a0 = Some l0 /\ LineColDtd.dtd_value_position s a 0 0 = Some p /\
    ~ CheckBounds.lex_le l0 p.
Proof. exact DtdBounds.dtd_line0_refuted. Qed.

(* The step from the XML parser's position to the pair (checks/dtd.py: lnr = line - 1,
   the column correction for the first value line, clamping to the last line that
   str.splitlines keeps).  When the DOCTYPE subset has no newline the value starts at
   document line 2, column len("<elem>"); an error at offset k of the value — or at the
   closing tag, k = |v| — is reported at (doc_line k v, doc_col k v).  For values whose
   only line breaks are "\n" ([plain]; "\r", VT, FF, FS, GS, RS, NEL, LS, PS make
   str.splitlines and the parser's line count differ) the resulting pair satisfies the
   contract [within], also through the clamp, so the reported position lies between the
   entity start and the end of the file.  The empty value gives the line-0 pair refuted
   above. *)
Theorem C17_dtd_error_position_within : forall v k,
  DtdErrPos.plain v = true -> k <= length v -> v <> [] ->
  exists lp cp,
    CheckDTD.error_position v (Z.of_nat (DtdErrPos.doc_line k v)) (Z.of_nat (DtdErrPos.doc_col k v))
      = CSS.PTuple (Z.of_nat lp) (Z.of_nat cp) /\ DtdBounds.within v lp cp.
Proof. exact DtdErrPos.error_position_within. Qed.

Theorem C17_bounds_dtd_value_errors : forall pre v post a0 k,
  DtdErrPos.plain v = true -> v <> [] -> k <= length v -> a0 <= length pre ->
  exists lp cp l0 p le,
    CheckDTD.error_position v (Z.of_nat (DtdErrPos.doc_line k v)) (Z.of_nat (DtdErrPos.doc_col k v))
      = CSS.PTuple (Z.of_nat lp) (Z.of_nat cp) /\
    linecol (pre ++ v ++ post) a0 = Some l0 /\
    LineColDtd.dtd_value_position (pre ++ v ++ post) (length pre) lp cp = Some p /\
    linecol (pre ++ v ++ post) (length (pre ++ v ++ post)) = Some le /\
    CheckBounds.lex_le l0 p /\ CheckBounds.lex_le p le.
Proof. exact DtdErrPos.dtd_error_resolved_between. Qed.

Theorem C17_dtd_error_position_empty : forall line col, (2 <= line)%Z ->
  CheckDTD.error_position [] line col = CSS.PTuple 0 0.
Proof. exact DtdErrPos.error_position_empty. Qed.

Example C17_example :
  linecol [97; 10; 98; 99; 10; 100]%N 3 = Some (2, 2) /\
  linecol [97; 10; 98; 99; 10; 100]%N 5 = Some (3, 1) /\
  linecol [97; 10; 98; 99; 10; 100]%N 6 = Some (3, 2).
Proof. vm_compute. repeat split. Qed.
