(* C17 — reported line and column numbers point at the right character. *)
From Coq Require Import ZArith NArith List Bool Arith.
From CL Require Import Base.Sx Base.Res Model.LineCol Proofs.LineColProofs.
Import ListNotations.

(* For every text and every offset up to its length (inclusive): the search
   never runs out of fuel, the line is 1 + the number of newlines before the
   offset and the column is 1 + the number of characters since the last of
   them (or since the start). *)
Theorem C17_linecol : forall s p, p <= length s ->
  linecol s p = Some (1 + count_nl (firstn p s), 1 + cur 0 (firstn p s)).
Proof. exact linecol_spec. Qed.

(* That pair identifies exactly the character at offset p of the text split
   at newlines: going (line-1) lines down and (col-1) characters right lands
   on offset p, the line exists and the column is inside it (or one past its
   end, which is the position of its newline / of the end of the text). *)
Theorem C17_identifies : forall s p, p <= length s ->
  let L := count_nl (firstn p s) in
  let C := cur 0 (firstn p s) in
  pos_of (split_nl s) L C = p /\ L < length (split_nl s) /\
  C <= length (nth L (split_nl s) []).
Proof. exact pos_of_linecol. Qed.

(* 1-based *)
Theorem C17_one_based : forall s p l c, p <= length s ->
  linecol s p = Some (l, c) -> 1 <= l /\ 1 <= c.
Proof.
  intros s p l c Hp H. rewrite (linecol_spec s p Hp) in H. inversion H; subst.
  split; apply Nat.le_add_r.
Qed.

(* Entry.position / Junk.position: start + offset, or the end for a negative offset *)
Theorem C17_position : forall s sp off,
  position s sp off =
  linecol s (if (off <? 0)%Z then snd sp else fst sp + Z.to_nat off).
Proof. intros s sp off. unfold position. destruct (off <? 0)%Z; reflexivity. Qed.

Example C17_example :
  linecol [97; 10; 98; 99; 10; 100]%N 3 = Some (2, 2) /\
  linecol [97; 10; 98; 99; 10; 100]%N 5 = Some (3, 1) /\
  linecol [97; 10; 98; 99; 10; 100]%N 6 = Some (3, 2).
Proof. vm_compute. repeat split. Qed.
