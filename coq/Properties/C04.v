(* C04 - placeholder while the harness is being built *)
From Coq Require Import NArith List Bool.
From CL Require Import Base.Sx Base.Res Base.Str Model.Merge Generated.C04Facts.
Import ListNotations.

Example C04_example_copy :
  merge str_eqb true caps_inc [] [] [] [] = Ok CopyL10n.
Proof. vm_compute. reflexivity. Qed.
