(* C04 — l10n-merge output is complete, clean and otherwise untouched.
   Theorems over Model/Merge.v (ContentComparer.merge and its callers); the
   capability constants and the parsers' capabilities are the generated facts
   of Generated/C04Facts.v.  Proofs are in Proofs/Merge*.v. *)
From Coq Require Import NArith List Bool Arith Lia Permutation Sorted.
From CL Require Import Base.Sx Base.Res Base.Str Model.AddRemove Model.Merge Generated.C04Facts
  Model.Entry Model.ParseFormats
  Proofs.MergeProofs Proofs.MergeReparse Proofs.MergeRefuted
  Proofs.C02BlocksRx Proofs.C02BlocksVal Proofs.C02Blocks Proofs.MergeReparseShared
  Proofs.MergeReparseProps.
From CL Require Proofs.C02BlocksIniRx Proofs.C02BlocksIni Proofs.MergeReparseIni
  Proofs.C02BlocksDtdRx Proofs.C02BlocksDtdPeRx Proofs.C02BlocksDtd Proofs.MergeReparseDtd.
Import ListNotations.
Local Open Scope nat_scope.

Section C04.
Context {K : Type} (keqb : K -> K -> bool).
Notation skip := (@skip K).

(* ---- C04_splice ------------------------------------------------------------
   Skips that lie inside the text, are not empty, and pairwise cover the same
   region or disjoint regions (compare() hands them over in key order, an
   entity with two errors twice): the sort succeeds, and the copied body is
   exactly the characters of the localization whose index lies in no skipped
   span, each once and in order ([uncovered], Proofs/MergeProofs.v). *)
Theorem C04_splice : forall (contents : str) (skips : list skip),
  (forall s, In s skips -> placed (length contents) s) ->
  (forall s t, In s skips -> In t skips -> apart s t) ->
  exists sorted, sort_skips skips = Ok sorted /\ Permutation skips sorted /\
    remove_spans contents (map sk_span sorted) = uncovered contents (map nsp skips).
Proof. exact splice_any_order. Qed.

(* what [uncovered] means, position by position: a character of the result is
   a character of the text at an index outside every span *)
Theorem C04_splice_nothing_else : forall (contents : str) spans c,
  In c (uncovered contents spans) ->
  exists k, nth_error contents k = Some c /\
            forall s, In s spans -> ~ (fst s <= k < snd s).
Proof.
  intros contents spans c H. destruct (keep_from_In _ _ _ _ H) as [k [Hk Hc]].
  exists k. split; [exact Hk|]. now apply covered_false_iff.
Qed.

(* ... and as many characters are kept as there are indices outside the spans *)
Theorem C04_splice_every_kept_once : forall (contents : str) spans,
  length (uncovered contents spans) =
  length (filter (fun j => negb (covered j spans)) (seq 0 (length contents))).
Proof. intros. apply keep_from_length. Qed.

(* the same at the level of blocks: the localization as a sequence of texts,
   some flagged; removing the spans of the flagged ones leaves the others *)
Theorem C04_splice_blocks : forall bs : list (bool * str),
  remove_spans (concat (map snd bs)) (map ospan_of (block_spans 0 bs)) = concat (kept_blocks bs).
Proof. exact remove_block_spans. Qed.

(* ---- C04_identity -----------------------------------------------------------
   Nothing to skip and nothing missing: whatever the capabilities, as long as
   they stage anything, the localization file is copied byte for byte. *)
Theorem C04_identity : forall caps contents refs,
  has caps can_copy = true \/ has caps can_skip = true ->
  merge keqb true caps contents [] [] refs = Ok CopyL10n.
Proof. exact (merge_identity keqb). Qed.

(* ---- C04_copy_only ----------------------------------------------------------
   With CAN_COPY (.inc, unknown types, add/remove) the staged file is a byte
   copy: of the localization if it is clean, of the reference otherwise. *)
Theorem C04_copy_only : forall caps contents (skips : list skip) missing refs,
  has caps can_copy = true ->
  merge keqb true caps contents skips missing refs =
  Ok (if nonempty skips || nonempty missing then CopyRef else CopyL10n).
Proof. exact (merge_copy keqb). Qed.

(* obsolete files and files without a parser are copied; a missing file is
   staged from the reference iff the format has CAN_COPY or CAN_MERGE *)
Theorem C04_whole_files : forall trigger,
  remove_file keqb true = Ok CopyL10n /\
  compare_unknown keqb true = Ok CopyL10n /\
  add_file keqb true None trigger = Ok CopyRef /\
  (forall caps, add_file keqb true (Some caps) trigger =
                Ok (if has caps add_mask then CopyRef else NoFile)).
Proof.
  intro trigger. repeat split.
  intro caps. unfold add_file. destruct (has caps add_mask); reflexivity.
Qed.

(* ---- C04_skip_only ----------------------------------------------------------
   Without CAN_MERGE (and CAN_COPY) no reference text is appended: the action
   does not depend on the reference entities or on the missing keys at all,
   and is the copy around the skipped spans (or the plain copy). *)
Theorem C04_skip_only : forall caps contents (skips : list skip) missing refs missing' refs',
  has caps can_copy = false -> has caps can_merge = false ->
  merge keqb true caps contents skips missing refs =
  merge keqb true caps contents skips missing' refs'
  /\ forall a, merge keqb true caps contents skips missing refs = Ok a ->
       a = NoFile \/ a = DirOnly \/ (skips = [] /\ a = CopyL10n) \/
       exists sorted, sort_skips skips = Ok sorted /\
                      a = Write (remove_spans contents (map sk_span sorted)).
Proof.
  intros caps contents skips missing refs missing' refs' Hc Hm.
  rewrite !(merge_skip_only keqb) by assumption. split; [reflexivity|].
  intros a. destruct (N.eqb caps can_none); [intro H; inversion H; auto|].
  destruct (negb (has caps can_skip)); [intro H; inversion H; auto|].
  destruct skips as [|s skips]; [intro H; inversion H; auto|].
  destruct (sort_skips (s :: skips)) as [sorted|] eqn:E; simpl; [|discriminate].
  intro H. inversion H. right. right. right. exists sorted. auto.
Qed.

(* ---- C04_appended -----------------------------------------------------------
   With CAN_SKIP and CAN_MERGE: the output is the spliced localization, then
   "\n", then the reference texts of the missing keys and of the skipped
   non-junk entities (in span order), each ending in a newline. *)
Theorem C04_appended : forall caps contents (skips : list skip) missing refs sorted ms ss,
  has caps can_copy = false -> has caps can_skip = true -> has caps can_merge = true ->
  nonempty skips || nonempty missing = true ->
  sort_skips skips = Ok sorted ->
  map_result (ref_all keqb refs) missing = Ok ms ->
  map_result (fun s => ref_all keqb refs (sk_key s)) (non_junk sorted) = Ok ss ->
  merge keqb true caps contents skips missing refs =
  Ok (let t := [10%N] ++ concat (map ensure_newline (ms ++ ss)) in
      if nonempty skips
      then Write (remove_spans contents (map sk_span sorted) ++ t)
      else CopyL10nAppend t).
Proof. exact (merge_append keqb). Qed.

Theorem C04_appended_newline_terminated : forall s : str,
  ends_with_nl (ensure_newline s) = true /\
  (ensure_newline s = s \/ ensure_newline s = s ++ [10%N]) /\
  (ends_with_nl s = true <-> exists p, s = p ++ [10%N]).
Proof.
  intro s. split; [apply ensure_newline_ends|]. split; [|apply ends_with_nl_spec].
  destruct (ensure_newline_cases s) as [[_ H]|[_ H]]; auto.
Qed.

(* every reference text is appended once: compare() lists each entity once in
   skips (since /repo b431102, checked by the harness on every case), the
   localization has no duplicate keys and the missing keys are not in it, so
   the keys whose reference texts are appended are pairwise different *)
Theorem C04_appended_once : forall (skips sorted : list skip) (missing : list K),
  NoDup (map sk_key skips) -> NoDup missing ->
  (forall k, In k missing -> ~ In k (map sk_key skips)) ->
  sort_skips skips = Ok sorted ->
  NoDup (missing ++ map sk_key (non_junk sorted)).
Proof. exact appended_keys_nodup. Qed.

(* ---- the only way merge raises ------------------------------------------- *)
(* the sort raises exactly when it has to compare a missing span start *)
Theorem C04_sort_total : forall skips : list skip,
  (length skips <= 1 -> sort_skips skips = Ok skips) /\
  (Forall has_start skips ->
     exists sorted, sort_skips skips = Ok sorted /\ Permutation skips sorted /\
                    StronglySorted start_le sorted) /\
  (2 <= length skips -> (exists s, In s skips /\ sk_start s = None) ->
     sort_skips skips = Raise TypeError).
Proof.
  intro skips. split; [apply sort_skips_short|]. split; [|apply sort_skips_raises].
  intro H. destruct (sort_skips_ok skips H) as (l' & E & P & S' & _). eauto.
Qed.

Theorem C04_raises_only : forall caps contents (skips : list skip) missing refs t,
  merge keqb true caps contents skips missing refs = Raise t ->
  has caps can_copy = false /\ has caps can_skip = true /\
  (sort_skips skips = Raise t \/
   exists sorted, sort_skips skips = Ok sorted /\ has caps can_merge = true /\
                  trailing keqb refs missing sorted = Raise t).
Proof. exact (merge_raises_only_by_sort_or_lookup keqb). Qed.

(* ---- C04_reparse_partial ------------------------------------------------------
   What is left of the re-parse clause after C04_reparse_properties,
   C04_reparse_ini and C04_reparse_dtd (below), which prove it for the three
   mergeable formats from the block theorems of C02:
   - .inc is not mergeable (caps_inc = CAN_COPY, C04_format_classes): the staged
     file is a byte copy of the localization if it is clean, else of the
     reference (C04_copy_only); re-parsing it is re-parsing one of the inputs;
   - Fluent, PO and Android are skip-only (no CAN_MERGE): nothing is appended
     (C04_skip_only), the clause says only that the staged text - the
     localization without the skipped spans - parses to the kept entries with no
     junk.  For them, and for whatever a future block theorem covers, the clause
     is stated relative to a block-compositional parser: [parse_blocks] is a
     PREMISE (C04_reparse_partial with appended reference texts,
     C04_reparse_skip_only_partial without).  The localization is a list of
     blocks, the flagged ones being the skips.  Android never satisfies it for a
     non-empty skip list (its entities have no spans: C04_android_refuted).
   The harness checks the clause on the implementation for every format by
   comparing the staged file again. *)
Theorem C04_reparse_partial :
  forall (E : Type) (parse entries : str -> list E) (legal : list str -> Prop),
  (forall ts, legal ts -> parse (concat ts) = flat_map entries ts) ->
  forall caps (bs : list (blk (K := K))) missing refs ms ss,
  has caps can_copy = false -> has caps can_skip = true -> has caps can_merge = true ->
  existsb flagged bs = true ->
  map_result (ref_all keqb refs) missing = Ok ms ->
  map_result (fun s => ref_all keqb refs (sk_key s)) (non_junk (block_skips 0 bs)) = Ok ss ->
  legal (kept_texts bs ++ [[10%N]] ++ map ensure_newline (ms ++ ss)) ->
  exists t, merge keqb true caps (l10n_text bs) (block_skips 0 bs) missing refs = Ok (Write t) /\
    parse t = flat_map entries (kept_texts bs) ++ entries [10%N] ++
              flat_map entries (map ensure_newline (ms ++ ss)).
Proof. intros E parse entries legal H. exact (reparse_blocks keqb parse entries legal H). Qed.

Theorem C04_reparse_skip_only_partial :
  forall (E : Type) (parse entries : str -> list E) (legal : list str -> Prop),
  (forall ts, legal ts -> parse (concat ts) = flat_map entries ts) ->
  forall caps (bs : list (blk (K := K))) missing refs,
  has caps can_copy = false -> has caps can_skip = true -> has caps can_merge = false ->
  existsb flagged bs = true ->
  legal (kept_texts bs) ->
  exists t, merge keqb true caps (l10n_text bs) (block_skips 0 bs) missing refs = Ok (Write t) /\
    parse t = flat_map entries (kept_texts bs).
Proof. intros E parse entries legal H. exact (reparse_blocks_skip_only keqb parse entries legal H). Qed.

End C04.

(* ---- C04_reparse_properties -----------------------------------------------------
   The re-parse clause for .properties at full strength, from the block theorem
   of C02 (Proofs/C02Blocks.v: blocks_properties, C02_roundtrip_properties_multi).

   [bs]: the localization as a legal block list (blank runs, standalone comments,
   entities with attached comments and continuation lines; the last entity may
   lack its final newline); [es] its parse.  [skips]: in any order, the entities
   OF THAT PARSE whose key is selected by [sel], with the spans of the parse -
   this is the premise that makes the splice land on block boundaries: by
   blocks_properties an entity span covers exactly  key separator value  of one
   entity block, neither its attached comment nor its final newline.  [abs]: the
   reference entities whose Entity.all texts the lookup of the missing keys and
   then of the skipped keys (file order) returns, each a legal entity block whose
   text does not end in a newline ([legal_ref]).

   Then merge stages a text [t] that is again the text of a legal, separated block
   list [out] (the kept blocks - a skipped entity leaves its attached comment as a
   standalone comment and its final newline -, the separating newline, which
   becomes the final newline of a last entity that lacked it, and the reference
   entities), so parsing [t] yields exactly: every localized entity that was not
   selected, unchanged (key, raw value, attached comment) and in the original
   order; then the appended reference entities in the order given; no junk; and
   with nothing to skip and nothing missing [t] is the localization itself.

   Premises that exclude known findings, both needed:
   - legality of [bs] excludes a last value ending in an odd run of backslashes
     (finding D3, C04_unrestricted_refuted; C04_reparse_premises_needed);
   - [legal_ref] excludes a reference value that ends in a continuation newline
     (C04_reparse_reference_refuted). *)
Theorem C04_reparse_properties :
  forall (bs abs : list block) (sel : str -> bool) (missing : list str)
         (refs : list (str * str)) (es : list entry) (skips : list (Merge.skip (K := str))),
  Forall legal_block bs -> adjacent_ok bs ->
  walk_properties (file_text bs) = Ok es ->
  Permutation skips (parse_skips sel (file_text bs) es) ->
  Forall legal_ref abs ->
  map_result (ref_all str_eqb refs) (missing ++ filter sel (map rkey (records_of bs)))
    = Ok (map entity_all abs) ->
  exists a t out es',
    merge str_eqb true caps_properties (file_text bs) skips missing refs = Ok a /\
    staged_text (file_text bs) a = Some t /\
    out = (if nonempty skips || nonempty missing then merged_blocks sel bs abs else bs) /\
    t = file_text out /\ Forall legal_block out /\ adjacent_ok out /\
    walk_properties t = Ok es' /\
    map (entity_record t) (filter (is_kind KEntity) es') =
      filter (fun r => negb (sel (rkey r))) (records_of bs) ++ records_of abs /\
    filter (is_kind KJunk) es' = [].
Proof. exact reparse_properties. Qed.

(* the legality premise is needed: the localization of D3 is not a legal block list *)
Theorem C04_reparse_premises_needed :
  let b := BEntity [] [97%N] [] 61%N [] [] [120; 92]%N false in      (*  a=x\  *)
  file_text [b] = d3_l10n /\ legal_blockb b = false.
Proof. exact d3_not_legal. Qed.

(* the [legal_ref] premise is needed: a clean reference  k=a\ / <empty line> / b=2  (a
   legal block list that parses without junk) whose entity k has an Entity.all ending in
   a newline; for the localization  x=1  merge stages  x=1 / / k=a\ / b=2  and the staged
   text parses to the keys x and k only: b is swallowed by the continuation *)
Theorem C04_reparse_reference_refuted :
  exists (bs abs : list block) (missing : list str) (refs : list (str * str)) t,
    Forall legal_block bs /\ adjacent_ok bs /\
    Forall legal_block abs /\ adjacent_ok abs /\
    walk_properties (file_text abs) = Ok (entries_of abs) /\
    forallb is_entity abs = true /\
    map rkey (records_of abs) = missing /\
    map_result (ref_all str_eqb refs) missing = Ok (map entity_all abs) /\
    (do a <- merge str_eqb true caps_properties (file_text bs) [] missing refs;
     match staged_text (file_text bs) a with Some t => Ok t | None => Raise AssertionError end)
      = Ok t /\
    missing = [[107%N]; [98%N]] /\ parsed_keys t = Ok [[120%N]; [107%N]].
Proof.
  exists [lx_block], [rk_block; rb_block], [[107%N]; [98%N]],
         (map (fun b => (rkey (hd ([], [], None) (records_of [b])), entity_all b)) [rk_block; rb_block]),
         [120; 61; 49; 10;  10;  107; 61; 97; 92; 10;  98; 61; 50; 10]%N.
  split; [repeat constructor|]. split; [vm_compute; reflexivity|].
  split; [repeat constructor|]. repeat split; vm_compute; reflexivity.
Qed.

(* ---- C04_pure -----------------------------------------------------------------
   The action is the only effect, and it touches merge_file only: applied to
   any file system, every other path (the reference and the localization among
   them) keeps its content; what ends up at merge_file is [staged]. *)
Theorem C04_pure :
  forall (P B : Type) (peqb : P -> P -> bool) (enc : str -> list B),
  (forall p q, peqb p q = true -> p = q) ->
  forall merge_file l10n_file ref_file a (f : fs (P := P) (B := B)) p,
  p <> merge_file ->
  apply_action peqb enc merge_file l10n_file ref_file a f p = f p.
Proof. intros P B peqb enc H. exact (apply_action_elsewhere peqb enc H). Qed.

Theorem C04_pure_shape : forall (B : Type) (enc : str -> list B) l10n_bytes ref_bytes a,
  match a with
  | NoFile | DirOnly => staged enc l10n_bytes ref_bytes a = None
  | CopyL10n => staged enc l10n_bytes ref_bytes a = Some l10n_bytes
  | CopyRef => staged enc l10n_bytes ref_bytes a = Some ref_bytes
  | Write t => staged enc l10n_bytes ref_bytes a = Some (enc t)
  | CopyL10nAppend t => staged enc l10n_bytes ref_bytes a = Some (l10n_bytes ++ enc t)
  end.
Proof. intros B enc l r a. destruct a; reflexivity. Qed.

(* ---- the formats, from the generated capability table ------------------------ *)
Theorem C04_format_classes :
  (* mergeable: skip and append *)
  Forall (fun c => has c can_copy = false /\ has c can_skip = true /\ has c can_merge = true)
         [caps_properties; caps_dtd; caps_ini; caps_default] /\
  (* skip-only *)
  Forall (fun c => has c can_copy = false /\ has c can_skip = true /\ has c can_merge = false)
         [caps_ftl; caps_po; caps_android] /\
  (* copy-only *)
  has caps_inc can_copy = true /\ has caps_file_copy can_copy = true /\
  (* add(): which formats tolerate the reference as a localization *)
  map (fun c => has c add_mask)
      [caps_properties; caps_dtd; caps_ini; caps_inc; caps_ftl; caps_po; caps_android]
  = [true; true; true; true; false; false; false] /\
  (* the table has exactly these seven parsers *)
  map snd parser_caps =
  [caps_android; caps_dtd; caps_properties; caps_ini; caps_inc; caps_ftl; caps_po].
Proof. vm_compute. repeat constructor. Qed.

(* ---- findings ------------------------------------------------------------------ *)
(* D3: a .properties localization, clean and without duplicates, for which the
   staged text parses without the key b although b was missing and its
   reference text was appended: the appended "\n" continues the last line *)
Theorem C04_unrestricted_refuted :
  exists (reference l10n staged : str),
    (do es <- walk_properties reference; Ok (has_junk es, entity_keys reference es))
      = Ok (false, [key_a; key_b; key_c]) /\
    (do es <- walk_properties l10n; Ok (has_junk es, entity_keys l10n es)) = Ok (false, [key_a]) /\
    (do a <- merge str_eqb true caps_properties l10n [] [key_b; key_c] d3_refs;
     match a with CopyL10nAppend t => Ok (l10n ++ t) | _ => Raise AssertionError end) = Ok staged /\
    parsed_keys staged = Ok [key_a; key_c].
Proof.
  exists d3_reference, d3_l10n, [97; 61; 120; 92; 10; 98; 61; 50; 10; 99; 61; 51; 10]%N.
  vm_compute. repeat split; reflexivity.
Qed.

(* D4: Android entities have span (None, None): with one of them in skips the
   staged text is the localization twice, whatever the localization is; Android
   junk has span (0, 0) and stays in the staged text *)
Theorem C04_android_refuted :
  (forall (contents k : str) j missing refs,
     merge str_eqb true caps_android contents [mkskip (None, None) k j] missing refs
     = Ok (Write (contents ++ contents))) /\
  (forall (contents k : str) missing refs,
     merge str_eqb true caps_android contents [mkskip (Some 0, Some 0) k true] missing refs
     = Ok (Write contents)).
Proof. split; [exact android_one_skip_twice|exact android_junk_unchanged]. Qed.

(* D9: with two or more skips of which one has no span start the sort, and
   with it merge and compare(), raises TypeError *)
Theorem C04_android_two_skips_refuted :
  forall (contents : str) (skips : list (skip (K := str))) missing refs,
  2 <= length skips -> (exists s, In s skips /\ sk_start s = None) ->
  merge str_eqb true caps_android contents skips missing refs = Raise TypeError.
Proof. exact android_two_skips_raise. Qed.

(* ---- the premises hold of concrete values ------------------------------------ *)
(* a = x ; junk ; b = y   with the junk line and the entity b skipped (given out of
   order): placed, apart, and the body is "a=x\n" *)
Example C04_splice_example :
  let contents : str := [97;61;120;10; 106;117;110;107;10; 98;61;121;10]%N in
  let skips := [mkskip (Some 9, Some 12) [98%N] false; mkskip (Some 4, Some 9) [106%N] true] in
  (forall s, In s skips -> placed (length contents) s) /\
  (forall s t, In s skips -> In t skips -> apart s t) /\
  (do sorted <- sort_skips skips; Ok (remove_spans contents (map sk_span sorted)))
    = Ok [97;61;120;10; 10]%N /\
  uncovered contents (map nsp skips) = [97;61;120;10; 10]%N.
Proof.
  cbv zeta. split.
  { intros s Hs. simpl in Hs. destruct Hs as [<-|[<-|[]]].
    - exists 9, 12. simpl. repeat split; lia.
    - exists 4, 9. simpl. repeat split; lia. }
  split.
  { intros s t Hs Ht. simpl in Hs, Ht. unfold apart.
    destruct Hs as [<-|[<-|[]]]; destruct Ht as [<-|[<-|[]]]; simpl; auto;
      solve [right; left; lia | right; right; lia]. }
  vm_compute. split; reflexivity.
Qed.

Example C04_appended_example :
  let contents : str := [97;61;120;10; 98;61;37;100;10]%N in       (* a=x \n b=%d \n *)
  let refs := [([97%N], [97;61;49]%N); ([98%N], [98;61;37;83]%N); ([99%N], [35;99;10;99;61;51;10]%N)] in
  merge str_eqb true caps_properties contents [mkskip (Some 4, Some 8) [98%N] false] [[99%N]] refs
  = Ok (Write ([97;61;120;10; 10] ++ [10] ++ [35;99;10;99;61;51;10] ++ [98;61;37;83;10])%N).
Proof. vm_compute. reflexivity. Qed.

Example C04_reparse_premises_example :
  (* a parser that reads a text line by line is block-compositional on
     newline-terminated blocks; here: blocks = lines, entries = the line itself *)
  let bs : list (blk (K := str)) :=
    [(None, [97;61;120;10]%N); (Some ([98%N], false), [98;61;37;100;10]%N)] in
  existsb flagged bs = true /\
  merge str_eqb true caps_properties (l10n_text bs) (block_skips 0 bs) [] [([98%N], [98;61;37;83]%N)]
  = Ok (Write (concat (kept_texts bs ++ [[10%N]] ++ map ensure_newline [[98;61;37;83]%N]))).
Proof. vm_compute. split; reflexivity. Qed.

(* the premise of C04_appended_once matters: merge appends once per entry of
   skips, so an entity listed twice (as compare() did before b431102) has its
   reference text appended twice *)
Example C04_appended_once_premise_example :
  let sk := mkskip (Some 0, Some 16) key_w false in
  merge str_eqb true caps_dtd dtd_l10n [sk; sk] [] [(key_w, dtd_ref_w)]
  = Ok (Write ([10%N] ++ [10%N] ++ ensure_newline dtd_ref_w ++ ensure_newline dtd_ref_w)) /\
  merge str_eqb true caps_dtd dtd_l10n [sk] [] [(key_w, dtd_ref_w)]
  = Ok (Write ([10%N] ++ [10%N] ++ ensure_newline dtd_ref_w)) /\
  NoDup (map sk_key [sk]) /\ ~ NoDup (map sk_key [sk; sk]).
Proof.
  cbv zeta. split; [vm_compute; reflexivity|]. split; [vm_compute; reflexivity|].
  split; [repeat constructor; intros []|].
  intro H. inversion H as [|? ? Hn _]. apply Hn. now left.
Qed.

Example C04_skip_only_example :
  merge str_eqb true caps_ftl [97;10;98;10]%N [mkskip (Some 2, Some 3) [98%N] false] [[99%N]] []
  = Ok (Write [97;10;10]%N).
Proof. vm_compute. reflexivity. Qed.

Example C04_copy_example :
  merge str_eqb true caps_inc [] [] [] [] = Ok CopyL10n /\
  merge str_eqb true caps_inc [] [] [[97%N]] [] = Ok CopyRef /\
  merge str_eqb false caps_inc [] [] [[97%N]] [] = Ok NoFile.
Proof. vm_compute. repeat split; reflexivity. Qed.

(* C04_reparse_properties on a concrete file, evaluated by the kernel.
   localization:   # c1 / a = 1 / #cb / b: %d / <blank line> / c=x\ /  y   (no final newline)
   selected: b;  missing: d;  reference entities appended: d (with a comment), then b *)
Definition ex_la : block := BEntity [(35%N, [32; 99; 49]%N)] [97%N] [32%N] 61%N [32%N] [] [49%N] true.
Definition ex_lb : block := BEntity [(35%N, [99; 98]%N)] [98%N] [] 58%N [32%N] [] [37; 100]%N true.
Definition ex_lc : block := BEntity [] [99%N] [] 61%N [] [[120; 92]%N] [32; 121]%N false.
Definition ex_rd : block := BEntity [(33%N, [100]%N)] [100%N] [] 61%N [] [] [52%N] true.
Definition ex_rb : block := BEntity [] [98%N] [] 61%N [] [] [37; 83]%N false.

Example C04_reparse_properties_example :
  let bs := [ex_la; ex_lb; BBlank [10%N]; ex_lc] in
  let abs := [ex_rd; ex_rb] in
  let sel := str_eqb [98%N] in
  let refs := [([98%N], entity_all ex_rb); ([120%N], [120; 61; 48]%N); ([100%N], entity_all ex_rd)] in
  let skips := parse_skips sel (file_text bs) (entries_of bs) in
  (* the premises *)
  forallb legal_blockb bs = true /\ adjacent_okb bs = true /\
  walk_properties (file_text bs) = Ok (entries_of bs) /\
  skips = [mkskip (Some 15, Some 20) [98%N] false] /\
  forallb (fun b => is_entity b && legal_blockb b && negb (ends_with_nl (entity_all b))) abs = true /\
  map_result (ref_all str_eqb refs) ([[100%N]] ++ filter sel (map rkey (records_of bs)))
    = Ok (map entity_all abs) /\
  (* the staged text: the attached comment of b and its newline stay, the last entity gets
     its final newline, d and b follow *)
  merge str_eqb true caps_properties (file_text bs) skips [[100%N]] refs
    = Ok (Write (file_text (merged_blocks sel bs abs))) /\
  file_text (merged_blocks sel bs abs) =
    ([35;32;99;49;10; 97;32;61;32;49;10;  35;99;98;10; 10;  10;  99;61;120;92;10;32;121;10;
      33;100;10;100;61;52;10;  98;61;37;83;10])%N /\
  (* and its parse: a and c unchanged, then d and b of the reference, no junk *)
  (do es' <- walk_properties (file_text (merged_blocks sel bs abs));
   Ok (map (entity_record (file_text (merged_blocks sel bs abs))) (filter (is_kind KEntity) es'),
       filter (is_kind KJunk) es'))
  = Ok ([([97%N], [49%N], Some [35;32;99;49]%N); ([99%N], [120;92;10;32;121]%N, None);
         ([100%N], [52%N], Some [33;100]%N); ([98%N], [37;83]%N, None)], []).
Proof. cbv zeta. repeat split; vm_compute; reflexivity. Qed.

(* ==== C04_reparse_ini ===============================================================
   The re-parse clause for .ini, same shape as C04_reparse_properties, from
   C02BlocksIni.blocks_ini / roundtrip_ini_multi.  [bs]: the localization as a legal
   block list (section headers, entities key=value with attached ; or # comment lines,
   standalone comments, blank runs); skips: any permutation of the selected entities of
   its own parse with that parse's spans (key=value without attached comment and final
   newline - the block-boundary premise); [abs]: the appended reference entities, legal
   entity blocks (their text never ends in a newline: an ini value has none).  The staged
   text is the text of the legal, separated block list [imerged_blocks]: section headers
   stay where they are, a skipped entity leaves its comment and newline, the appended
   entities come last, i.e. in the last section; its parse has exactly the unselected
   entities unchanged in order, then the reference entities, the same section headers,
   no junk.
   Premises beyond legality, both with a witness:
   - [ilic 0] of the result: the ini License rule looks at offsets 0 and 1, removing the
     first entity can move a commented entity there (C04_reparse_ini_license_needed);
     free for files that start with a section header (C04_reparse_ini_sectioned);
   - junk is outside the block grammar: the listed finding
     ini-junk-after-section-joins-comment-line (C04_reparse_ini_junk_refuted). *)
Import C02BlocksIniRx C02BlocksIni MergeReparseIni.

Theorem C04_reparse_ini :
  forall (bs abs : list iblock) (sel : str -> bool) (missing : list str)
         (refs : list (str * str)) (es : list entry) (skips : list (Merge.skip (K := str))),
  Forall legal_iblock bs -> iadjacent_ok bs ->
  walk_ini (ifile_text bs) = Ok es ->
  Permutation skips (parse_skips sel (ifile_text bs) es) ->
  Forall ilegal_ref abs ->
  map_result (ref_all str_eqb refs) (missing ++ filter sel (map irkey (irecords_of bs)))
    = Ok (map ientity_all abs) ->
  ilic 0 (imerged_blocks sel bs abs) = true ->
  exists a t out es',
    merge str_eqb true caps_ini (ifile_text bs) skips missing refs = Ok a /\
    staged_text (ifile_text bs) a = Some t /\
    out = (if nonempty skips || nonempty missing then imerged_blocks sel bs abs else bs) /\
    t = ifile_text out /\ Forall legal_iblock out /\ iadjacent_ok out /\
    walk_ini t = Ok es' /\
    map (entity_record t) (filter (is_kind KEntity) es') =
      filter (fun r => negb (sel (irkey r))) (irecords_of bs) ++ irecords_of abs /\
    map (fun e => opt_text t (e_val e)) (filter (is_kind KSection) es') = isections_of bs /\
    filter (is_kind KJunk) es' = [].
Proof. exact reparse_ini. Qed.

Theorem C04_reparse_ini_sectioned : forall sel bs abs,
  starts_with_section bs = true -> ilic 0 (imerged_blocks sel bs abs) = true.
Proof. exact ilic_imerged_sectioned. Qed.

(*  b=1 / # License / k=v , b selected: the premise fails and the attached comment of the
   kept entity k is lost (it becomes a standalone comment at offset 1) *)
Theorem C04_reparse_ini_license_needed :
  exists (bs : list iblock) (sel : str -> bool) refs t,
    Forall legal_iblock bs /\ iadjacent_ok bs /\
    ilic 0 (imerged_blocks sel bs []) = false /\
    irecords_of bs = [([98%N], [49%N], None);
                      ([107%N], [118%N], Some [35; 32; 76; 105; 99; 101; 110; 115; 101]%N)] /\
    (do a <- merge str_eqb true caps_ini (ifile_text bs)
               (parse_skips sel (ifile_text bs) (ientries_of bs)) [] refs;
     match staged_text (ifile_text bs) a with
     | Some t => do es <- walk_ini t;
                 Ok (t, map (entity_record t) (filter (is_kind KEntity) es), has_junk es)
     | None => Raise AssertionError
     end) = Ok (t, [([107%N], [118%N], None); ([98%N], [50%N], None)], false).
Proof.
  exists [il_b; il_k], (str_eqb [98%N]), [([98%N], [98; 61; 50]%N)],
    [10; 35; 32; 76; 105; 99; 101; 110; 115; 101; 10; 107; 61; 118; 10; 10; 98; 61; 50; 10]%N.
  split; [repeat constructor|]. repeat split; vm_compute; reflexivity.
Qed.

(* the listed finding: junk behind a section header; the parse of the staged text has
   junk again (the spans are those of the parse of the localization) *)
Theorem C04_reparse_ini_junk_refuted :
  exists (l10n staged : str) (junk : nat * nat),
    (do es <- walk_ini l10n; Ok (map e_span (filter (is_kind KJunk) es))) = Ok [junk] /\
    (do a <- merge str_eqb true caps_ini l10n
               [mkskip (Some (fst junk), Some (snd junk)) [106%N] true] [] [];
     match staged_text l10n a with Some t => Ok t | None => Raise AssertionError end) = Ok staged /\
    (do es <- walk_ini staged; Ok (map e_span (filter (is_kind KJunk) es))) = Ok [(6, 13)].
Proof.
  exists ini_junk_l10n,
    [91;83;116;114;105;93; 59;32;120;32;105;116;10;
     109;101;110;117;51;61;105;116;32;100;101;108;116;97;10; 10]%N, (6, 11).
  repeat split; vm_compute; reflexivity.
Qed.

(* [S] / ;c / a=1 / b=2 / c=3 (no final newline); b selected, d missing *)
Example C04_reparse_ini_example :
  let bs := [ISection [83%N] true; IEntity [(59%N, [99%N])] [97%N] [49%N] true;
             IEntity [] [98%N] [50%N] true; IEntity [] [99%N] [51%N] false] in
  let abs := [IEntity [(35%N, [100%N])] [100%N] [52%N] false; IEntity [] [98%N] [57%N] true] in
  let sel := str_eqb [98%N] in
  let refs := [([98%N], ientity_all (IEntity [] [98%N] [57%N] true));
               ([100%N], ientity_all (IEntity [(35%N, [100%N])] [100%N] [52%N] false))] in
  let skips := parse_skips sel (ifile_text bs) (ientries_of bs) in
  forallb legal_iblockb bs = true /\ iadjacent_okb bs = true /\
  walk_ini (ifile_text bs) = Ok (ientries_of bs) /\
  skips = [mkskip (Some 11, Some 14) [98%N] false] /\
  forallb (fun b => iis_entity b && legal_iblockb b) abs = true /\
  map_result (ref_all str_eqb refs) ([[100%N]] ++ filter sel (map irkey (irecords_of bs)))
    = Ok (map ientity_all abs) /\
  starts_with_section bs = true /\
  merge str_eqb true caps_ini (ifile_text bs) skips [[100%N]] refs
    = Ok (Write (ifile_text (imerged_blocks sel bs abs))) /\
  ifile_text (imerged_blocks sel bs abs) =
    [91;83;93;10; 59;99;10;97;61;49;10; 10; 99;61;51;10; 35;100;10;100;61;52;10; 98;61;57;10]%N /\
  (do es' <- walk_ini (ifile_text (imerged_blocks sel bs abs));
   Ok (map (entity_record (ifile_text (imerged_blocks sel bs abs))) (filter (is_kind KEntity) es'),
       filter (is_kind KJunk) es'))
  = Ok ([([97%N], [49%N], Some [59;99]%N); ([99%N], [51%N], None);
         ([100%N], [52%N], Some [35;100]%N); ([98%N], [57%N], None)], []).
Proof. cbv zeta. repeat split; vm_compute; reflexivity. Qed.

(* ==== C04_reparse_dtd ===============================================================
   The re-parse clause for DTD, from C02BlocksDtd.blocks_dtd(_bom) /
   C02_roundtrip_dtd_multi(_bom).  [mark]: the file starts with a byte order mark (the
   parser skips it, merge keeps it: it is outside every span).  [bs]: the localization as
   a legal block list (whitespace, standalone comments, declarations with an attached
   comment, parameter entities); skips: any permutation of the selected entities of its
   own parse with that parse's spans (a declaration <!ENTITY ... > without its attached
   comment, or a whole parameter-entity block - the block-boundary premise); [abs]: the
   appended reference entities, ordinary legal declarations (Entity.all = the block text,
   which ends in ">", so ensureNewline adds the line break; DTD would not need it).  The
   staged text is mark + the text of the legal block list [dmerged_blocks] and, when that
   list is separated as the block grammar asks, parses to exactly the unselected entities
   unchanged in order, then the reference entities, no junk.
   The premise [adjacent_ok_bom mark (dmerged_blocks ...)] is decidable and needed:
   an orphaned comment within one line break of a following declaration is attached to it
   (C04_reparse_dtd_premise_needed: key and value are still right and there is no junk,
   but the kept entity's attached comment changes); also the License rule at offsets 0/1
   and the tail of a parameter entity depend on what follows.  Not covered: reference
   parameter entities among the appended ones. *)
Import C02BlocksDtdRx C02BlocksDtdPeRx C02BlocksDtd MergeReparseDtd.

Theorem C04_reparse_dtd :
  forall (mark : bool) (bs abs : list C02BlocksDtd.block) (sel : str -> bool) (missing : list str)
         (refs : list (str * str)) (es : list entry) (skips : list (Merge.skip (K := str))),
  Forall C02BlocksDtd.legal_block bs -> adjacent_ok_bom mark bs -> (mark = true -> bs <> []) ->
  walk_dtd (file_text_bom mark bs) = Ok es ->
  Permutation skips (parse_skips sel (file_text_bom mark bs) es) ->
  Forall dlegal_ref abs ->
  map_result (ref_all str_eqb refs) (missing ++ filter sel (map drkey (C02BlocksDtd.records_of bs)))
    = Ok (map C02BlocksDtd.text abs) ->
  adjacent_ok_bom mark (dmerged_blocks sel bs abs) ->
  exists a t out es',
    merge str_eqb true caps_dtd (file_text_bom mark bs) skips missing refs = Ok a /\
    staged_text (file_text_bom mark bs) a = Some t /\
    out = (if nonempty skips || nonempty missing then dmerged_blocks sel bs abs else bs) /\
    t = file_text_bom mark out /\ Forall C02BlocksDtd.legal_block out /\ adjacent_ok_bom mark out /\
    walk_dtd t = Ok es' /\
    map (C02Blocks.entity_record t) (filter (C02Blocks.is_kind KEntity) es') =
      filter (fun r => negb (sel (drkey r))) (C02BlocksDtd.records_of bs) ++ C02BlocksDtd.records_of abs /\
    filter (C02Blocks.is_kind KJunk) es' = [].
Proof. exact reparse_dtd. Qed.

Theorem C04_reparse_dtd_premise_needed :
  exists (bs abs : list C02BlocksDtd.block) (sel : str -> bool) refs,
    Forall C02BlocksDtd.legal_block bs /\ adjacent_ok_bom false bs /\
    Forall dlegal_ref abs /\
    map_result (ref_all str_eqb refs) ([] ++ filter sel (map drkey (C02BlocksDtd.records_of bs)))
      = Ok (map C02BlocksDtd.text abs) /\
    C02BlocksDtd.adjacent_okb (dmerged_blocks sel bs abs) = false /\
    C02BlocksDtd.records_of bs =
      [([98%N], [60%N], Some (comment_text [99%N])); ([103%N], [120%N], None)] /\
    (do a <- merge str_eqb true caps_dtd (C02BlocksDtd.file_text bs)
               (parse_skips sel (C02BlocksDtd.file_text bs) (C02BlocksDtd.entries_of bs)) [] refs;
     match staged_text (C02BlocksDtd.file_text bs) a with
     | Some t => do es <- walk_dtd t;
                 Ok (map (C02Blocks.entity_record t) (filter (C02Blocks.is_kind KEntity) es), has_junk es)
     | None => Raise AssertionError
     end)
    = Ok ([([103%N], [120%N], Some (comment_text [99%N])); ([98%N], [121%N], None)], false).
Proof.
  exists [dw_bad; C02BlocksDtd.BBlank [10%N]; dw_good; C02BlocksDtd.BBlank [10%N]], [dw_ref],
    (str_eqb [98%N]), [([98%N], C02BlocksDtd.text dw_ref)].
  split; [repeat constructor|]. split; [vm_compute; reflexivity|].
  split; [repeat constructor|]. repeat split; vm_compute; reflexivity.
Qed.

(* with a byte order mark:  BOM <!-- c --> / <!ENTITY a "1"> / <!ENTITY b '<'> / ;
   b selected, d missing; the reference entities d and b are appended *)
Example C04_reparse_dtd_example :
  let B := C02BlocksDtd.BEntity in
  let bs := [B (Some ([32;99;32]%N, [10%N])) [32%N] [97%N] [32%N] 34%N [49%N] [];
             C02BlocksDtd.BBlank [10%N]; B None [32%N] [98%N] [32%N] 39%N [60%N] [];
             C02BlocksDtd.BBlank [10%N]] in
  let abs := [B None [32%N] [100%N] [32%N] 34%N [52%N] []; B None [32%N] [98%N] [32%N] 34%N [50%N] []] in
  let sel := str_eqb [98%N] in
  let refs := [([98%N], C02BlocksDtd.text (B None [32%N] [98%N] [32%N] 34%N [50%N] []));
               ([100%N], C02BlocksDtd.text (B None [32%N] [100%N] [32%N] 34%N [52%N] []))] in
  let l10n := file_text_bom true bs in
  let skips := parse_skips sel l10n (entries_of_bom true bs) in
  forallb C02BlocksDtd.legal_blockb bs = true /\
  (C02BlocksDtd.separatedb bs && C02BlocksDtd.license_okb 1 bs = true) /\
  walk_dtd l10n = Ok (entries_of_bom true bs) /\
  skips = [mkskip (Some 28, Some 43) [98%N] false] /\
  forallb (fun b => dis_entity b && C02BlocksDtd.legal_blockb b) abs = true /\
  map_result (ref_all str_eqb refs) ([[100%N]] ++ filter sel (map drkey (C02BlocksDtd.records_of bs)))
    = Ok (map C02BlocksDtd.text abs) /\
  (C02BlocksDtd.separatedb (dmerged_blocks sel bs abs) &&
   C02BlocksDtd.license_okb 1 (dmerged_blocks sel bs abs) = true) /\
  merge str_eqb true caps_dtd l10n skips [[100%N]] refs
    = Ok (Write (file_text_bom true (dmerged_blocks sel bs abs))) /\
  hd 0%N (file_text_bom true (dmerged_blocks sel bs abs)) = bom /\
  (do es' <- walk_dtd (file_text_bom true (dmerged_blocks sel bs abs));
   Ok (map (C02Blocks.entity_record (file_text_bom true (dmerged_blocks sel bs abs)))
           (filter (C02Blocks.is_kind KEntity) es'),
       filter (C02Blocks.is_kind KJunk) es'))
  = Ok ([([97%N], [49%N], Some (comment_text [32;99;32]%N)); ([100%N], [52%N], None);
         ([98%N], [50%N], None)], []).
Proof. cbv zeta. repeat split; vm_compute; reflexivity. Qed.
