(* C19 — lint flags every duplicate, every unparsed region and every changed ID.
   Theorems over Model/Lint.v (EntityLinter, lint_file, lint), for all entity
   lists, all checkers, all position methods and all Entity.equals; each is
   closed by a lemma of Proofs/LintProofs.v.  Results are [Ok fs]: a position
   method that raises (e.g. value_position on an entity without a value span)
   makes the whole lint raise, so the clauses are stated for a lint that
   returned, and C19_total says when it does. *)
From Coq Require Import ZArith NArith List Bool Lia.
From CL Require Import Base.Sx Base.Res Base.Str Regex.Rx Model.AddRemove Model.LineCol Model.Lint
                       Model.LintProps Proofs.LintProofs Proofs.LintExample Generated.C19Facts
                       Proofs.C02Blocks Proofs.C02BlocksJunkRx Proofs.C02BlocksJunk
                       Proofs.PropsValTotal Proofs.LintE2E Proofs.LintPropsE2E
                       Proofs.C02BlocksIni Proofs.C02BlocksIniJunk Proofs.LintIniE2E.
From CL Require Proofs.C02BlocksDtd Proofs.C02BlocksDtdJunk.
From CL Require Import Proofs.LintDtdE2E.
Import ListNotations.
Open Scope Z_scope.

Section C19.
Context {K : Type} (keqb : K -> K -> bool).
Hypothesis keqb_eq : forall a b, keqb a b = true <-> a = b.
Context {Msg : Type}.
Variable equals : @entity K -> @entity K -> result bool.

Notation entity := (@entity K).
Notation finding := (@finding K Msg).
Notation lint_entity := (@lint_entity K keqb Msg equals).
Notation lint_entities := (@lint_entities K keqb Msg equals).
Notation new_linter := (@new_linter K keqb Msg).

(* number of entities of the file (junk included) carrying the key *)
Definition occurrences (k : K) (cur : list entity) : nat :=
  length (filter (fun e => keqb k (e_key e)) cur).

(* the Counter the linter builds is that number *)
Theorem C19_counter : forall cur chk ref k,
  cget keqb k (key_count (new_linter cur chk ref)) = occurrences k cur.
Proof. exact (key_count_spec keqb keqb_eq). Qed.

(* duplicates: a full entity whose key occurs more than once gets exactly one
   duplicate error, at its own position; otherwise none *)
Theorem C19_duplicates : forall cur chk ref e fs,
  e_junk e = false -> lint_entity (new_linter cur chk ref) e = Ok fs ->
  ((1 < occurrences (e_key e) cur)%nat ->
     exists p, e_position e 0 = Ok p /\ filter is_dup fs = [dup_finding e p]) /\
  ((occurrences (e_key e) cur <= 1)%nat -> filter is_dup fs = []).
Proof.
  intros cur chk ref e fs Hj H.
  destruct (lint_entity_filters keqb keqb_eq equals cur chk ref e fs Hj H) as (Hd & _).
  unfold dup_part in Hd. change (kcount keqb (e_key e) cur) with (occurrences (e_key e) cur) in Hd.
  revert Hd. destruct (Nat.ltb_spec 1 (occurrences (e_key e) cur)); intros Hd; split; intros;
    auto; lia.
Qed.

(* ... over the whole file: the duplicate errors are, in file order, one per
   non-junk occurrence of a key occurring more than once *)
Theorem C19_duplicates_file : forall cur chk ref fs,
  lint_entities (new_linter cur chk ref) cur = Ok fs ->
  Forall2 (fun e f => exists p, e_position e 0 = Ok p /\ f = dup_finding e p)
          (filter (fun e => negb (e_junk e) && (1 <? occurrences (e_key e) cur)%nat) cur)
          (filter is_dup fs).
Proof. intros cur chk ref fs. exact (file_duplicates keqb keqb_eq equals cur chk ref cur fs). Qed.

(* junk: exactly one error (from its start to its end) and nothing else for it *)
Theorem C19_junk : forall cur chk ref e fs,
  e_junk e = true -> lint_entity (new_linter cur chk ref) e = Ok fs ->
  exists p q, e_position e 0 = Ok p /\ e_position e (-1) = Ok q /\ fs = [junk_finding e p q].
Proof. intros cur chk ref. exact (lint_entity_junk keqb equals cur chk ref). Qed.

Theorem C19_junk_file : forall cur chk ref fs,
  lint_entities (new_linter cur chk ref) cur = Ok fs ->
  Forall2 (fun e f => exists p q, e_position e 0 = Ok p /\ e_position e (-1) = Ok q /\
                                  f = junk_finding e p q)
          (filter e_junk cur) (filter is_junk fs).
Proof. intros cur chk ref fs. exact (file_junk keqb keqb_eq equals cur chk ref cur fs). Qed.

(* changed ID: one warning, at the entity's position (the position of its
   duplicate error), iff the key is in the reference and the last reference
   entity with the key is not equal to the entity *)
Theorem C19_changed : forall cur chk ref e fs,
  e_junk e = false -> lint_entity (new_linter cur chk ref) e = Ok fs ->
  let differs :=
    exists rl pre r post, ref = Some rl /\ rl = pre ++ r :: post /\ e_key r = e_key e /\
                          Forall (fun e' => e_key e' <> e_key e) post /\ equals e r = Ok false in
  (differs -> exists p, e_position e 0 = Ok p /\ filter is_changed fs = [changed_finding e p]) /\
  (~ differs -> filter is_changed fs = []).
Proof. exact (lint_entity_changed keqb keqb_eq equals). Qed.

Theorem C19_changed_file : forall cur chk ref fs,
  lint_entities (new_linter cur chk ref) cur = Ok fs ->
  Forall2 (fun e f => exists p, e_position e 0 = Ok p /\ f = changed_finding e p)
          (filter (changed_sel keqb equals ref) cur) (filter is_changed fs).
Proof. intros cur chk ref fs. exact (file_changed keqb keqb_eq equals cur chk ref cur fs). Qed.

(* checks: the checker's results for (e, e), in order, each at the position
   the entity's position / value_position method gives for it; and the three
   groups come in the order duplicate, changed, checks *)
Theorem C19_checks : forall cur chk ref e fs,
  e_junk e = false -> lint_entity (new_linter cur chk ref) e = Ok fs ->
  Forall2 (resolved e) (match chk with Some c => c e e | None => [] end) (filter is_check fs) /\
  filter is_junk fs = [] /\
  fs = filter is_dup fs ++ filter is_changed fs ++ filter is_check fs.
Proof.
  intros cur chk ref e fs Hj H.
  destruct (lint_entity_filters keqb keqb_eq equals cur chk ref e fs Hj H) as (_ & _ & A & B & C).
  auto.
Qed.

(* unique keys, no junk, checker silent on (e, e), every entity equal to the last
   reference entity with its key: no results *)
Theorem C19_clean : forall cur chk ref,
  NoDup (map e_key cur) ->
  (forall e, In e cur -> e_junk e = false) ->
  (forall e, In e cur -> match chk with Some c => c e e | None => [] end = []) ->
  (forall e, In e cur -> equal_to_reference equals ref e) ->
  lint_entities (new_linter cur chk ref) cur = Ok [].
Proof. exact (lint_entities_clean' keqb keqb_eq equals). Qed.

(* the reference lookup never raises: lint of an entity returns as soon as the
   entity's position methods resolve the offsets asked for and equals returns
   for the reference entity it is asked about *)
Theorem C19_total : forall cur chk ref e,
  (forall off, exists p, e_position e off = Ok p) ->
  (forall r, ref_entity keqb ref (e_key e) = Some r -> exists b, equals e r = Ok b) ->
  (forall r, In r (match chk with Some c => c e e | None => [] end) ->
             forall v, c_pos r = ValuePos v -> exists p, e_value_position e v = Ok p) ->
  exists fs, lint_entity (new_linter cur chk ref) e = Ok fs.
Proof. exact (lint_entity_total keqb equals). Qed.

(* ---- lint_file / lint ---------------------------------------------------- *)
Variable table : list rx.
Variable plugins : path -> bool.
Variable parse : path -> path -> list entity.
Variable isfile : path -> bool.
Variable Tests : Type.
Variable get_checker : path -> option Tests -> option (@checker_obj K Msg).
Notation lint_file := (@lint_file K keqb Msg equals table plugins parse isfile Tests get_checker).
Notation lint := (@lint K keqb Msg equals table plugins parse isfile Tests get_checker).

(* lint_file lints the parse of the file against the parse of the reference
   file (if it is a file) with the checker getChecker gives *)
Theorem C19_file : forall p ref extra,
  has_parser table plugins p = true ->
  lint_file p ref extra =
  match lint_entities (new_linter (parse p p) (file_checker parse Tests get_checker p extra)
                                  (file_reference parse isfile p ref)) (parse p p) with
  | Ok fs => Ok (map (fun f => (p, f)) fs)
  | Raise t => Raise t
  end.
Proof. exact (lint_file_unfold keqb equals table plugins parse isfile Tests get_checker). Qed.

Theorem C19_clean_file : forall p ref extra,
  has_parser table plugins p = true ->
  NoDup (map e_key (parse p p)) ->
  (forall e, In e (parse p p) -> e_junk e = false) ->
  (forall e, In e (parse p p) ->
             check_results (file_checker parse Tests get_checker p extra) e = []) ->
  (forall e, In e (parse p p) ->
             equal_to_reference equals (file_reference parse isfile p ref) e) ->
  lint_file p ref extra = Ok [].
Proof. exact (lint_file_clean' keqb keqb_eq equals table plugins parse isfile Tests get_checker). Qed.

(* files without a parser are skipped: they contribute nothing, wherever they
   stand in the list; given to lint_file directly they raise (UserWarning) *)
Theorem C19_skip : forall l1 p l2 g,
  has_parser table plugins p = false -> lint (l1 ++ p :: l2) g = lint (l1 ++ l2) g.
Proof. exact (lint_skip keqb equals table plugins parse isfile Tests get_checker). Qed.

Theorem C19_skip_all : forall files g,
  (forall p, In p files -> has_parser table plugins p = false) -> lint files g = Ok [].
Proof. exact (lint_only_skipped keqb equals table plugins parse isfile Tests get_checker). Qed.

Theorem C19_skip_lint_file : forall p ref extra,
  has_parser table plugins p = false -> lint_file p ref extra = Raise NotSupported.
Proof. exact (lint_file_no_parser keqb equals table plugins parse isfile Tests get_checker). Qed.

(* the results of a list of files are the results of its parts, in order *)
Theorem C19_lint_app : forall l1 l2 g,
  lint (l1 ++ l2) g =
  match lint l1 g with
  | Ok a => match lint l2 g with Ok b => Ok (a ++ b) | Raise t => Raise t end
  | Raise t => Raise t
  end.
Proof. exact (lint_app keqb equals table plugins parse isfile Tests get_checker). Qed.

End C19.

(* the position methods of the parser classes always resolve (no fuel runs
   out); inside the text they are the line/column of C17 *)
Theorem C19_positions_resolve : forall s sp vs off v,
  (exists p, entry_position s sp off = Ok p) /\
  (exists p, entry_value_position s (Some vs) (VOff off) = Ok p) /\
  (exists p, dtd_value_position s (Some vs) v = Ok p) /\
  (exists p, fluent_value_position s sp (VOff off) = Ok p) /\
  (exists p, android_position off = Ok p).
Proof.
  intros. repeat split;
    [apply entry_position_ok|apply entry_value_position_ok|apply dtd_value_position_ok|
     apply fluent_value_position_ok|eexists; reflexivity].
Qed.

Theorem C19_position_in_text : forall s sp off,
  0 <= off -> 0 <= fst sp -> fst sp + off <= Z.of_nat (length s) ->
  entry_position s sp off =
  Ok (Z.of_nat (1 + count_nl (firstn (Z.to_nat (fst sp + off)) s)),
      Z.of_nat (1 + cur 0 (firstn (Z.to_nat (fst sp + off)) s))).
Proof.
  intros s sp off H0 H1 H2. unfold entry_position.
  replace (off <? 0) with false by (symmetry; apply Z.ltb_ge; exact H0).
  apply ctx_linecol_spec. split; [apply Z.add_nonneg_nonneg; assumption|exact H2].
Qed.

(* ---- end to end: text x text -> result list ------------------------------------------------
   The linted file is the text of a block list with GARBAGE regions (Proofs/C02BlocksJunk.v for
   .properties: entities with attached comments and continuation lines, standalone comments,
   white-space, garbage; keys may repeat), the reference the text of another such list (or
   absent).  [lint_properties] (Model/LintProps.v, an instance of Model/LintText.v) parses
   both TEXTS with the parser model, builds the entity objects (key, raw value, position
   methods over the C17 line index), compares with Entry.equals over the unescaped values and
   runs the linter; no parse is supplied from outside.  Its result is [pexpected] = [expected]
   of Proofs/LintE2E.v on the blocks seen as items, computed from the blocks alone, in file
   order:
   - a garbage region: one "unparsed content" error from [lc pre] to [lc (pre ++ region)],
     where [pre] is the text before it and [lc pre] = (1 + newlines in pre, 1 + characters
     since the last newline of pre);
   - an entity block: a "duplicate" error at the start of the entity (for .properties its
     key; after its attached comment) if [key_occurrences], the number of entity blocks with
     the key, exceeds 1 -- that is at EVERY occurrence of a repeated key, the first one too,
     as the implementation does -- and a "changed" warning at the same place if the last
     entity block of the reference with the key ([ref_value]) has a value that unescapes
     differently;
   - nothing else.
   Premise beyond legality of the blocks ([block_key_ok]): no key of the linted file starts
   with "_junk_" (a key spelt like a junk key would count as a repetition of that Junk
   object's key).  That values unescape is no premise: [C19_props_val_total].
   Blocks with the same key are covered: the block theorems assume nothing about keys.
   The checker is a parameter: silent in the first theorem; arbitrary in the second, which
   says that whatever the checks add, the other findings are exactly the expected ones. *)

(* PropertiesEntity.val never raises: the unescape returns on every string *)
Theorem C19_props_val_total : forall raw, exists v, Unescape.props_val raw = Ok v.
Proof. exact props_val_total. Qed.

Theorem C19_end_to_end_properties :
  forall (Msg : Type) (chk : option (@checker str Msg)) (all : list jblock)
         (rref : option (list jblock)) (j0 : nat),
  Forall legal_jblock all -> jadjacent_ok all -> Forall block_key_ok all ->
  match rref with
  | Some rbs => Forall legal_jblock rbs /\ jadjacent_ok rbs
  | None => True
  end ->
  (forall e, match chk with Some c => c e e | None => [] end = []) ->
  lint_properties j0 chk (jfile_text all) (option_map jfile_text rref) =
  Ok (pexpected all rref).
Proof. intros Msg chk all rref j0. exact (e2e_properties_silent chk all rref j0). Qed.

Theorem C19_end_to_end_properties_checks :
  forall (Msg : Type) (chk : option (@checker str Msg)) (all : list jblock)
         (rref : option (list jblock)) (j0 : nat),
  Forall legal_jblock all -> jadjacent_ok all -> Forall block_key_ok all ->
  match rref with
  | Some rbs => Forall legal_jblock rbs /\ jadjacent_ok rbs
  | None => True
  end ->
  forall fs, lint_properties j0 chk (jfile_text all) (option_map jfile_text rref) = Ok fs ->
  filter (fun f => negb (is_check f)) fs = pexpected all rref.
Proof. intros Msg chk all rref j0. exact (e2e_properties chk all rref j0). Qed.

(* the text  k=v / zz / # c / k=w / m=1  against the reference text  k=v / m=2 : the premises
   hold, and the model run on the TEXTS (regex engine and all) gives the five findings *)
Example C19_example_end_to_end :
  Forall legal_jblock e2e_file /\ jadjacent_ok e2e_file /\ Forall block_key_ok e2e_file /\
  Forall legal_jblock e2e_ref /\ jadjacent_ok e2e_ref /\
  jfile_text e2e_file = [107; 61; 118; 10; 122; 122; 10; 35; 32; 99; 10;
                         107; 61; 119; 10; 109; 61; 49; 10]%N /\
  @lint_properties nat 0 None (jfile_text e2e_file) (Some (jfile_text e2e_ref)) =
  Ok [mkFinding 1 1 LError (MDuplicate [107%N]);
      mkFinding 2 1 LError (MJunk 4 (2, 1) (3, 1));
      mkFinding 4 1 LError (MDuplicate [107%N]);
      mkFinding 4 1 LWarning (MChanged [107%N]);
      mkFinding 5 1 LWarning (MChanged [109%N])] /\
  @pexpected nat e2e_file (Some e2e_ref) =
     [mkFinding 1 1 LError (MDuplicate [107%N]);
      mkFinding 2 1 LError (MJunk 4 (2, 1) (3, 1));
      mkFinding 4 1 LError (MDuplicate [107%N]);
      mkFinding 4 1 LWarning (MChanged [107%N]);
      mkFinding 5 1 LWarning (MChanged [109%N])].
Proof.
  split; [repeat constructor|]. split; [vm_compute; reflexivity|].
  split; [repeat constructor|].
  split; [repeat constructor|]. split; [vm_compute; reflexivity|].
  split; [vm_compute; reflexivity|]. split; vm_compute; reflexivity.
Qed.

(* ---- .ini end to end ---------------------------------------------------------------------
   As for .properties, on the block lists of Proofs/C02BlocksIniJunk.v: entities  key=value
   with attached comments, standalone comments, SECTION headers, white-space, garbage regions.
   Section headers are IniSection entries, not entities: lint never sees them, they only
   count as text for the positions.  .val is the raw value.  [iexpected] is [expected] of
   Proofs/LintE2E.v on the blocks seen as items. *)
Theorem C19_end_to_end_ini :
  forall (Msg : Type) (chk : option (@checker str Msg)) (all : list ijblock)
         (rref : option (list ijblock)) (j0 : nat),
  Forall legal_ijblock all -> ijadjacent_ok all -> Forall iblock_key_ok all ->
  match rref with
  | Some rbs => Forall legal_ijblock rbs /\ ijadjacent_ok rbs
  | None => True
  end ->
  (forall e, match chk with Some c => c e e | None => [] end = []) ->
  lint_ini j0 chk (ijfile_text all) (option_map ijfile_text rref) = Ok (iexpected all rref).
Proof. intros Msg chk all rref j0. exact (e2e_ini_silent chk all rref j0). Qed.

Theorem C19_end_to_end_ini_checks :
  forall (Msg : Type) (chk : option (@checker str Msg)) (all : list ijblock)
         (rref : option (list ijblock)) (j0 : nat),
  Forall legal_ijblock all -> ijadjacent_ok all -> Forall iblock_key_ok all ->
  match rref with
  | Some rbs => Forall legal_ijblock rbs /\ ijadjacent_ok rbs
  | None => True
  end ->
  forall fs, lint_ini j0 chk (ijfile_text all) (option_map ijfile_text rref) = Ok fs ->
  filter (fun f => negb (is_check f)) fs = iexpected all rref.
Proof. intros Msg chk all rref j0. exact (e2e_ini chk all rref j0). Qed.

(* [Str] / k=v / zz / ; c / k=w / m=1  against  [Str] / k=v / m=2 *)
Example C19_example_end_to_end_ini :
  Forall legal_ijblock ie2e_file /\ ijadjacent_ok ie2e_file /\ Forall iblock_key_ok ie2e_file /\
  Forall legal_ijblock ie2e_ref /\ ijadjacent_ok ie2e_ref /\
  @lint_ini nat 0 None (ijfile_text ie2e_file) (Some (ijfile_text ie2e_ref)) =
  Ok [mkFinding 2 1 LError (MDuplicate [107%N]);
      mkFinding 3 1 LError (MJunk 10 (3, 1) (4, 1));
      mkFinding 5 1 LError (MDuplicate [107%N]);
      mkFinding 5 1 LWarning (MChanged [107%N]);
      mkFinding 6 1 LWarning (MChanged [109%N])] /\
  @iexpected nat ie2e_file (Some ie2e_ref) =
     [mkFinding 2 1 LError (MDuplicate [107%N]);
      mkFinding 3 1 LError (MJunk 10 (3, 1) (4, 1));
      mkFinding 5 1 LError (MDuplicate [107%N]);
      mkFinding 5 1 LWarning (MChanged [107%N]);
      mkFinding 6 1 LWarning (MChanged [109%N])].
Proof.
  split; [repeat constructor|]. split; [vm_compute; reflexivity|].
  split; [repeat constructor|].
  split; [repeat constructor|]. split; [vm_compute; reflexivity|].
  split; vm_compute; reflexivity.
Qed.

(* ---- .dtd end to end ---------------------------------------------------------------------
   On the block lists of Proofs/C02BlocksDtdJunk.v: entity declarations
   <!ENTITY name "value"> with an attached comment, parameter-entity declarations (entities
   too: their value is the quoted text with its quotes), standalone comments, white-space,
   garbage regions; [mark]: the file starts with a byte order mark (text no entry covers; a
   file that is only the mark is one empty Junk at offset 1).  The entity class is DTDEntity:
   its value_position is DTDEntityMixin.value_position; .val is html.unescape(raw_val), a
   library function and here the parameter [unesc].  Positions are those of the start of the
   declaration (after its attached comment).  [dexpected] is [expected] of Proofs/LintE2E.v
   on the blocks seen as items ([ditems]). *)
Theorem C19_end_to_end_dtd :
  forall (unesc : str -> str) (Msg : Type) (chk : option (@checker str Msg))
         (mark : bool) (all : list C02BlocksDtdJunk.jblock)
         (rref : option (bool * list C02BlocksDtdJunk.jblock)) (j0 : nat),
  Forall C02BlocksDtdJunk.legal_jblock all -> C02BlocksDtdJunk.jadjacent_ok_bom mark all ->
  Forall dblock_key_ok all ->
  match rref with
  | Some (rm, rbs) => Forall C02BlocksDtdJunk.legal_jblock rbs /\ C02BlocksDtdJunk.jadjacent_ok_bom rm rbs
  | None => True
  end ->
  (forall e, match chk with Some c => c e e | None => [] end = []) ->
  lint_dtd unesc j0 chk (C02BlocksDtdJunk.jfile_text_bom mark all)
           (option_map (fun r => C02BlocksDtdJunk.jfile_text_bom (fst r) (snd r)) rref) =
  Ok (dexpected unesc mark all rref).
Proof. intros unesc Msg chk mark all rref j0. exact (e2e_dtd_silent unesc chk mark all rref j0). Qed.

Theorem C19_end_to_end_dtd_checks :
  forall (unesc : str -> str) (Msg : Type) (chk : option (@checker str Msg))
         (mark : bool) (all : list C02BlocksDtdJunk.jblock)
         (rref : option (bool * list C02BlocksDtdJunk.jblock)) (j0 : nat),
  Forall C02BlocksDtdJunk.legal_jblock all -> C02BlocksDtdJunk.jadjacent_ok_bom mark all ->
  Forall dblock_key_ok all ->
  match rref with
  | Some (rm, rbs) => Forall C02BlocksDtdJunk.legal_jblock rbs /\ C02BlocksDtdJunk.jadjacent_ok_bom rm rbs
  | None => True
  end ->
  forall fs, lint_dtd unesc j0 chk (C02BlocksDtdJunk.jfile_text_bom mark all)
               (option_map (fun r => C02BlocksDtdJunk.jfile_text_bom (fst r) (snd r)) rref) = Ok fs ->
  filter (fun f => negb (is_check f)) fs = dexpected unesc mark all rref.
Proof. intros unesc Msg chk mark all rref j0. exact (e2e_dtd unesc chk mark all rref j0). Qed.

(* <BOM><!ENTITY a "b"> / zz <!ENTITY a "c"> / <!ENTITY m "1">  against
   <!ENTITY a "b"> / <!ENTITY m "2">  (unescape: identity): the mark shifts the column on line 1 *)
Example C19_example_end_to_end_dtd :
  Forall C02BlocksDtdJunk.legal_jblock de2e_file /\ C02BlocksDtdJunk.jadjacent_ok_bom true de2e_file /\
  Forall dblock_key_ok de2e_file /\
  Forall C02BlocksDtdJunk.legal_jblock de2e_ref /\ C02BlocksDtdJunk.jadjacent_ok_bom false de2e_ref /\
  @lint_dtd nat (fun x => x) 0 None (C02BlocksDtdJunk.jfile_text_bom true de2e_file)
            (Some (C02BlocksDtdJunk.jfile_text_bom false de2e_ref)) =
  Ok [mkFinding 1 2 LError (MDuplicate [97%N]);
      mkFinding 2 1 LError (MJunk 17 (2, 1) (2, 4));
      mkFinding 2 4 LError (MDuplicate [97%N]);
      mkFinding 2 4 LWarning (MChanged [97%N]);
      mkFinding 3 1 LWarning (MChanged [109%N])] /\
  @dexpected (fun x => x) nat true de2e_file (Some (false, de2e_ref)) =
     [mkFinding 1 2 LError (MDuplicate [97%N]);
      mkFinding 2 1 LError (MJunk 17 (2, 1) (2, 4));
      mkFinding 2 4 LError (MDuplicate [97%N]);
      mkFinding 2 4 LWarning (MChanged [97%N]);
      mkFinding 3 1 LWarning (MChanged [109%N])].
Proof.
  split; [repeat constructor|]. split; [vm_compute; reflexivity|].
  split; [repeat constructor|].
  split; [repeat constructor|]. split; [vm_compute; reflexivity|].
  split; vm_compute; reflexivity.
Qed.

(* ---- non-vacuity: a concrete run, evaluated by the kernel ----------------
   text "a=1 / b=2 / a=3 / zz", reference "a=1 / b=9", a checker warning at the
   value of b: duplicate errors on lines 1 and 3, changed warnings for b and for
   the second a (the first equals the reference), the check at 2:3, junk on line 4 *)
Example C19_example_run :
  lint_entities Z.eqb ex_equals (new_linter Z.eqb ex_cur (Some ex_checker) (Some ex_ref)) ex_cur
  = Ok [mkFinding 1 1 LError (MDuplicate 1);
        mkFinding 2 1 LWarning (MChanged 2);
        mkFinding 2 3 LWarning (MCheck 7);
        mkFinding 3 1 LError (MDuplicate 1);
        mkFinding 3 1 LWarning (MChanged 1);
        mkFinding 4 1 LError (MJunk 3 (4, 1) (5, 1))].
Proof. vm_compute. reflexivity. Qed.

(* the premises of C19_duplicates / C19_changed / C19_junk hold of entities of that file *)
Example C19_example_premises :
  (1 < occurrences Z.eqb 1%Z ex_cur)%nat /\
  (exists r, nth_error ex_cur 1 = Some r /\ e_junk r = false /\
             differs_from_reference ex_equals (Some ex_ref) r) /\
  (exists j, nth_error ex_cur 3 = Some j /\ e_junk j = true /\
             exists fs, lint_entity Z.eqb ex_equals
                          (new_linter Z.eqb ex_cur (Some ex_checker) (Some ex_ref)) j = Ok fs).
Proof.
  split; [vm_compute; repeat constructor|]. split.
  - eexists; split; [reflexivity|]. split; [reflexivity|].
    exists ex_ref, [ex_entry ex_ref_text 10 1 false (0, 3) (2, 3)],
           (ex_entry ex_ref_text 11 2 false (4, 7) (6, 7)), [].
    repeat split; constructor.
  - eexists; split; [reflexivity|]. split; [reflexivity|]. eexists. vm_compute. reflexivity.
Qed.

(* the premises of C19_clean hold of a one-entity file equal to its reference *)
Example C19_example_clean :
  NoDup (map e_key ex_clean) /\
  (forall e, In e ex_clean -> e_junk e = false) /\
  (forall e, In e ex_clean -> equal_to_reference ex_equals (Some ex_ref) e) /\
  lint_entities Z.eqb ex_equals (new_linter Z.eqb ex_clean (@None (@checker Z Z)) (Some ex_ref)) ex_clean = Ok [].
Proof.
  split; [repeat constructor; intros []|]. split; [intros e [<-|[]]; reflexivity|].
  split; [|vm_compute; reflexivity].
  intros e [<-|[]] rl pre r post H1 H2 H3 H4.
  injection H1 as H1. subst rl. unfold ex_ref in H2.
  destruct pre as [|a [|b [|c pre]]]; cbn [app] in H2.
  - injection H2 as Hr _. subst r. reflexivity.
  - injection H2 as _ Hr _. subst r. vm_compute in H3. discriminate.
  - injection H2 as _ _ Hn. discriminate.
  - injection H2 as _ _ Hn. discriminate.
Qed.

(* hasParser on the generated dispatch table: a.ftl and values/strings-x.xml
   have a parser, a.txt and strings.txt do not *)
Example C19_example_hasparser :
  has_parser parser_dispatch (fun _ => false) (of_ascii [97; 46; 102; 116; 108]%nat) = true /\
  has_parser parser_dispatch (fun _ => false)
    (of_ascii [118; 47; 115; 116; 114; 105; 110; 103; 115; 45; 120; 46; 120; 109; 108]%nat) = true /\
  has_parser parser_dispatch (fun _ => false) (of_ascii [97; 46; 116; 120; 116]%nat) = false /\
  has_parser parser_dispatch (fun _ => false)
    (of_ascii [115; 116; 114; 105; 110; 103; 115; 46; 116; 120; 116]%nat) = false.
Proof. vm_compute. repeat split. Qed.

(* ---- END TO END with the checker of C06 instead of a parameter ------------------------------
   [props_lint_chk locale text] (Model/CheckPlain.v) is the .properties checker model of C06
   (Model/CheckProps.v) behind the checker interface of the linter: check(e, e) of the entity
   against itself, key and raw value from the entity object, the value by .val (the unescape),
   pre_comment.all and .all read from the TEXT with the parser model at the entity's offset;
   level, EntityPos / value offset, message text and category are kept; a raise of .val or of
   the checker would be an error finding.
   For a plain file (the linted text has no per cent sign, no backslash, no U+FFFD and does
   not contain the Localization_and_Plurals literal) the silence assumed by
   C19_end_to_end_properties is proved (C06_check_plain_silent_self), so with that checker the
   result is exactly [pexpected all rref]. *)
From CL Require Model.CheckProps.
From CL Require Import Model.CheckPlain Generated.C06Facts Proofs.E2ECheckedFinal.

Theorem C19_end_to_end_properties_checked :
  forall (locale : option str) (all : list jblock) (rref : option (list jblock)) (j0 : nat),
  Forall legal_jblock all -> jadjacent_ok all -> Forall block_key_ok all ->
  match rref with
  | Some rbs => Forall legal_jblock rbs /\ jadjacent_ok rbs
  | None => True
  end ->
  CheckProps.mem_N c_pct (jfile_text all) = false ->
  CheckProps.mem_N c_backslash (jfile_text all) = false ->
  CheckProps.mem_N c_fffd (jfile_text all) = false ->
  contains lit_plural_comment (jfile_text all) = false ->
  lint_properties j0 (Some (props_lint_chk locale (jfile_text all))) (jfile_text all)
                  (option_map jfile_text rref) = Ok (pexpected all rref).
Proof. exact e2e_properties_checked. Qed.

(* the instantiated checker is the real one: linting the text  k=a\qb  reports the
   unknown-escape warning of the checker at line 1, column 4; the plain text  k = a / m = b
   against the reference  k = x / m = b  gives exactly the "changed" warning *)
Example C19_example_checked :
  let s_ := map N.of_nat in
  let lt := s_ [107; 61; 97; 92; 113; 98; 10]%nat in
  let pT := s_ [107; 32; 61; 32; 97; 10; 109; 32; 61; 32; 98; 10]%nat in
  let pR := s_ [107; 32; 61; 32; 120; 10; 109; 32; 61; 32; 98; 10]%nat in
  match @lint_properties str 0 (Some (props_lint_chk None lt)) lt None with
  | Ok [f] => f_lineno f = 1 /\ f_column f = 4 /\ f_level f = LWarning /\
              match f_message f with MCheck _ => True | _ => False end
  | _ => False
  end /\
  @lint_properties str 0 (Some (props_lint_chk None pT)) pT (Some pR) =
  Ok [mkFinding 1 1 LWarning (MChanged [107%N])].
Proof. vm_compute. repeat split; reflexivity. Qed.
