(* C11 — placeholder while the model is being tied; theorems follow. *)
From CL Require Import Model.Pattern Model.Matcher.
