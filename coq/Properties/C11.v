(* C11 — reference and l10n path patterns map files back and forth losslessly.

   Model: Model/Pattern.v (PatternParser, node classes, expand, regex_pattern)
   and Model/Matcher.v (Matcher.match / sub / prefix / ...).  Matching runs the
   regex ENGINE (Regex/Rx.v) on the regular expression the model compiles from
   the pattern, as the implementation runs `re` on the text it assembles.

   Grammar of the theorems ([simple], Proofs/MatcherSpec.v): literal nodes,
   variables (first occurrence or repeat) unbound or bound to a wildcard-free
   value, stars and double stars, no root, an environment with distinct keys.
   {android_locale}, roots, nested variable values and everything else are
   covered by the correspondence suites of the check, not by these theorems. *)
From Coq Require Import NArith List Bool Arith Lia.
From CL Require Import Base.Sx Base.Res Base.Str Regex.Rx Model.Pattern Model.Matcher
  Proofs.MatcherSpec Proofs.MatcherSound Proofs.MatcherExpand Proofs.MatcherComplete
  Proofs.PathUnique Proofs.MatcherUnique Proofs.MatcherRoundtrip Proofs.MatcherRooted
  Proofs.AndroidProofs Proofs.AndroidLayout.
Import ListNotations.

(* Soundness of matching.  If a matcher of the grammar matches a path with
   dictionary d, then re-expanding its own pattern with the matched groups (the
   environment Matcher.sub builds) gives the path back — up to one final
   newline, which CPython's `$` lets through — and the wildcard values have
   their kinds: a star's value has no '/', a double star took no part or holds
   a non-empty text followed by its suffix. *)
Theorem C11_match_sound : forall M path d, simple M -> match_ M path = Ok (Some d) ->
  (exists p0, upto_final_newline path p0 /\
              expand_pattern (sub_env d (m_env M)) false (m_pat M) = Ok p0) /\
  kinds_ok (m_pat M) d.
Proof.
  intros M path d HS Hm. split; [eapply sub_self_expand; eauto|eapply match_kinds_ok; eauto].
Qed.

(* the same through the API: a.sub(a, path) is the path *)
Theorem C11_sub_self : forall M path d, simple M -> match_ M path = Ok (Some d) ->
  exists p0, upto_final_newline path p0 /\ sub M M path = Ok (Some p0).
Proof.
  intros M path d HS Hm. destruct (sub_self_expand M path d HS Hm) as [p0 [H1 H2]].
  exists p0. split; auto. unfold sub. rewrite Hm. simpl. rewrite H2. reflexivity.
Qed.

(* Completeness of matching.  Take a matcher of the grammar whose regular
   expression compiles (no group name twice) and whose variable names are not
   star group names.  Give every node a piece: a literal itself, a variable its
   value (from the environment, else from d), a wildcard its value in d
   ([node_piece]); the piece of a star has no '/', of a double star is empty or
   a non-empty text without newline + suffix, of an unbound variable is
   non-empty without newline ([piece_fits]).  Then the pieces are what the
   pattern expands to under the environment of sub, and the matcher matches
   that path. *)
Theorem C11_match_complete : forall M d pieces,
  simple M -> compiles M -> Forall var_not_star (p_nodes (m_pat M)) -> NoDup (map fst d) ->
  Forall2 (piece_for (m_env M) d) (p_nodes (m_pat M)) pieces ->
  expand_pattern (sub_env d (m_env M)) false (m_pat M) = Ok (concat pieces) /\
  exists d', match_ M (concat pieces) = Ok (Some d').
Proof.
  intros M d pieces HS HC Hv Hd HF. split.
  - apply expand_pieces; auto. clear - HF. induction HF; constructor; auto. destruct H; auto.
  - eapply match_complete; eauto.
Qed.

(* The grammar of the property ([in_grammar], Proofs/MatcherRoundtrip.v): a
   simple matcher that compiles, all variables bound (to wildcard-free values),
   stars in different '/'-segments and at most one double star: the node list
   read as F0 W1 F1 ... Wn Fn satisfies PathUnique.shape_ok.

   Uniqueness: two valuations whose expansions coincide give every node the
   same piece, hence agree on every wildcard. *)
Theorem C11_unique : forall M g g' X Y, in_grammar M ->
  Forall2 (piece_for (m_env M) g) (p_nodes (m_pat M)) X ->
  Forall2 (piece_for (m_env M) g') (p_nodes (m_pat M)) Y ->
  concat X = concat Y -> X = Y.
Proof. exact pieces_unique_grammar. Qed.

(* The round trip.  The two newline premises are the `$` caveat made explicit:
   CPython's `$` accepts one final newline, so a path ending in "\n" comes back
   without it (C12_whole_path). *)
Theorem C11_roundtrip : forall P Q path path',
  in_grammar P -> in_grammar Q -> same_wildcards P Q ->
  no_final_newline path -> no_final_newline path' ->
  sub P Q path = Ok (Some path') ->
  (exists d', match_ Q path' = Ok (Some d')) /\ sub Q P path' = Ok (Some path).
Proof. exact roundtrip. Qed.

(* ---- the grammar is inhabited and matching is not vacuous ---------------------- *)
Definition ex_env : list (str * str) :=
  [(of_ascii [108;111;99;97;108;101], of_ascii [100;101]);                 (* locale = de *)
   (of_ascii [98;97;115;101], of_ascii [47;108;49;48;110])].               (* base = /l10n *)
(* {base}/{locale}/**/x-*.ftl *)
Definition ex_pattern : str :=
  of_ascii [123;98;97;115;101;125;47;123;108;111;99;97;108;101;125;47;42;42;47;120;45;42;46;102;116;108].
(* /l10n/de/a/b/x-q.ftl *)
Definition ex_path : str :=
  of_ascii [47;108;49;48;110;47;100;101;47;97;47;98;47;120;45;113;46;102;116;108].

Example C11_example_simple :
  exists M d, mk_matcher ex_pattern ex_env None = Ok M /\ simple M /\
    match_ M ex_path = Ok (Some d) /\
    lookup (star_name 1) d = Some (Some (of_ascii [97;47;98;47])) /\     (* s1 = a/b/ *)
    lookup (star_name 2) d = Some (Some (of_ascii [113])) /\             (* s2 = q *)
    sub M M ex_path = Ok (Some ex_path).
Proof.
  destruct (mk_matcher ex_pattern ex_env None) as [M|] eqn:E; [|vm_compute in E; discriminate].
  destruct (match_ M ex_path) as [[d|]|] eqn:Em;
    [|exfalso; vm_compute in E; inversion E; subst; vm_compute in Em; discriminate
     |exfalso; vm_compute in E; inversion E; subst; vm_compute in Em; discriminate].
  exists M, d. vm_compute in E. inversion E; subst M. clear E.
  vm_compute in Em. inversion Em; subst d. clear Em.
  split; [reflexivity|]. split.
  - split; [vm_compute; reflexivity|]. split; [reflexivity|].
    vm_compute. repeat constructor; simpl; intuition discriminate.
  - split; [vm_compute; reflexivity|]. vm_compute. auto.
Qed.

(* r/**/x-*.ftl  <->  {base}/{locale}/**/y_*.ftl : both in the grammar, same
   wildcards, and a concrete round trip *)
Definition ex_ref : str := of_ascii [114;47;42;42;47;120;45;42;46;102;116;108].
Definition ex_l10n : str :=
  of_ascii [123;98;97;115;101;125;47;123;108;111;99;97;108;101;125;47;42;42;47;121;95;42;46;102;116;108].

Example C11_example_in_grammar : exists P Q,
  mk_matcher ex_ref [] None = Ok P /\ mk_matcher ex_l10n ex_env None = Ok Q /\
  in_grammar P /\ in_grammar Q /\ same_wildcards P Q /\
  sub P Q (of_ascii [114;47;97;47;98;47;120;45;113;46;102;116;108])           (* r/a/b/x-q.ftl *)
    = Ok (Some (of_ascii [47;108;49;48;110;47;100;101;47;97;47;98;47;121;95;113;46;102;116;108])).
Proof.
  destruct (mk_matcher ex_ref [] None) as [P|] eqn:EP; [|vm_compute in EP; discriminate].
  destruct (mk_matcher ex_l10n ex_env None) as [Q|] eqn:EQ; [|vm_compute in EQ; discriminate].
  exists P, Q. vm_compute in EP. inversion EP; subst P. vm_compute in EQ. inversion EQ; subst Q.
  split; [reflexivity|]. split; [reflexivity|].
  split; [|split; [|split; [reflexivity|vm_compute; reflexivity]]].
  - split; [split; [reflexivity|split; [reflexivity|constructor]]|].
    split; [eexists; eexists; vm_compute; reflexivity|].
    split; [repeat constructor|]. split; [repeat constructor|].
    right. vm_compute.
    exists [], [47%N], [120%N; 45%N], [(WStar, [46; 102; 116; 108]%N)].
    repeat split; auto.
  - split; [split; [vm_compute; reflexivity|split; [reflexivity|]]|].
    { vm_compute. repeat constructor; simpl; intuition discriminate. }
    split; [eexists; eexists; vm_compute; reflexivity|].
    split.
    { repeat constructor; simpl; intros k H; inversion H. }
    split.
    { repeat constructor; simpl; discriminate. }
    right. vm_compute.
    exists [], [47%N], [121%N; 95%N], [(WStar, [46; 102; 116; 108]%N)].
    repeat split; auto.
Qed.

(* ---- outside the grammar the round trip fails ------------------------------------ *)
Definition mk (p : list nat) : result matcher := mk_matcher (of_ascii p) [] None.

(* two stars in one segment:  r/*-*  <->  l/*_*  on  r/a-b_c :
   mapped to l/a_b_c, which maps back to r/a_b-c *)
Theorem C11_outside_grammar_refuted_two_stars : exists A B path mapped back,
  mk [114;47;42;45;42] = Ok A /\ mk [108;47;42;95;42] = Ok B /\
  sub A B path = Ok (Some mapped) /\ sub B A mapped = Ok (Some back) /\ back <> path.
Proof.
  destruct (mk [114;47;42;45;42]) as [A|] eqn:EA; [|vm_compute in EA; discriminate].
  destruct (mk [108;47;42;95;42]) as [B|] eqn:EB; [|vm_compute in EB; discriminate].
  exists A, B, (of_ascii [114;47;97;45;98;95;99]),
    (of_ascii [108;47;97;95;98;95;99]), (of_ascii [114;47;97;95;98;45;99]).
  vm_compute in EA. inversion EA; subst A. vm_compute in EB. inversion EB; subst B.
  split; [reflexivity|]. split; [reflexivity|].
  split; [vm_compute; reflexivity|]. split; [vm_compute; reflexivity|].
  vm_compute. discriminate.
Qed.

(* two double stars:  r/**/x/**/*  <->  l/**/y/**/*  on  r/1/x/2/y/3/f :
   mapped to l/1/y/2/y/3/f, which maps back to r/1/y/2/x/3/f  (known finding
   sub-roundtrip-two-starstar: every node is of the property's grammar) *)
Theorem C11_outside_grammar_refuted_two_starstar : exists A B path mapped back,
  mk [114;47;42;42;47;120;47;42;42;47;42] = Ok A /\
  mk [108;47;42;42;47;121;47;42;42;47;42] = Ok B /\
  simple A /\ simple B /\
  sub A B path = Ok (Some mapped) /\ sub B A mapped = Ok (Some back) /\ back <> path.
Proof.
  destruct (mk [114;47;42;42;47;120;47;42;42;47;42]) as [A|] eqn:EA; [|vm_compute in EA; discriminate].
  destruct (mk [108;47;42;42;47;121;47;42;42;47;42]) as [B|] eqn:EB; [|vm_compute in EB; discriminate].
  exists A, B, (of_ascii [114;47;49;47;120;47;50;47;121;47;51;47;102]),
    (of_ascii [108;47;49;47;121;47;50;47;121;47;51;47;102]),
    (of_ascii [114;47;49;47;121;47;50;47;120;47;51;47;102]).
  vm_compute in EA. inversion EA; subst A. vm_compute in EB. inversion EB; subst B.
  split; [reflexivity|]. split; [reflexivity|].
  split; [split; [reflexivity|split; [reflexivity|constructor]]|].
  split; [split; [reflexivity|split; [reflexivity|constructor]]|].
  split; [vm_compute; reflexivity|]. split; [vm_compute; reflexivity|].
  vm_compute. discriminate.
Qed.

(* ---- rooted matchers -------------------------------------------------------------------
   Proofs/MatcherRooted.v.  Matcher.__init__ stores mozpath.abspath(root) + "/" (the model's
   [with_root] appends "/" to a root given absolute and normalised; abspath itself is not
   modelled).  Pattern.regex_pattern puts re.escape(root) in front of the pattern's regular
   expression, Pattern.expand the root itself, unless the first node expands to an absolute
   path.  In the model re.escape(root) is one single-character literal regex per character
   of the root, whatever the character (the REGEX correspondence suite pins this against
   CPython's reading of the compiled text on roots with metacharacters).  The test looks at
   Pattern._first_segment: "" for an empty pattern and for a leading wildcard, else the
   expansion of the first node.  When that is decided ([rooted_ok]: leading wildcard, empty
   pattern, or a first node with a fixed text), the rooted matcher is, for match / sub /
   prefix / str, the unrooted matcher [unroot M] with the literal node [root_part root t] in front;
   [simple_rooted] / [in_grammar_rooted] ask that reading to be in the grammar. *)
Theorem C11_match_sound_rooted : forall M path d, simple_rooted M -> match_ M path = Ok (Some d) ->
  (exists p0, upto_final_newline path p0 /\
              expand_pattern (sub_env d (m_env M)) false (m_pat M) = Ok p0) /\
  kinds_ok (m_pat (unroot M)) d.
Proof. exact match_sound_rooted. Qed.

Theorem C11_sub_self_rooted : forall M path d, simple_rooted M -> match_ M path = Ok (Some d) ->
  exists p0, upto_final_newline path p0 /\ sub M M path = Ok (Some p0).
Proof. exact sub_self_rooted. Qed.

(* the root is literal text: it matches itself and nothing else, character by character,
   whatever characters it contains *)
Theorem C11_root_is_literal : forall M path d r t, simple_rooted M ->
  p_root (m_pat M) = Some r -> first_text (m_env M) (p_nodes (m_pat M)) = Some t ->
  match_ M path = Ok (Some d) -> starts_with (root_part r t) path = true.
Proof. exact rooted_match_starts_with_root. Qed.

(* the round trip with a root on either side, both sides, or none *)
Theorem C11_roundtrip_rooted : forall P Q path path',
  in_grammar_rooted P -> in_grammar_rooted Q -> same_wildcards P Q ->
  no_final_newline path -> no_final_newline path' ->
  sub P Q path = Ok (Some path') ->
  (exists d', match_ Q path' = Ok (Some d')) /\ sub Q P path' = Ok (Some path).
Proof. exact roundtrip_rooted. Qed.

(* browser/**/x-*.ftl under /data/c++/strings  <->  {base}/{locale}/**/y_*.ftl under
   "/x/gecko-strings (copy)" with base = l10n, locale = de *)
Definition exr_root_p : str := of_ascii [47;100;97;116;97;47;99;43;43;47;115;116;114;105;110;103;115].
Definition exr_root_q : str := of_ascii [47;120;47;103;101;99;107;111;45;115;116;114;105;110;103;115;32;40;99;111;112;121;41].
Definition exr_ref : str := of_ascii [98;114;111;119;115;101;114;47;42;42;47;120;45;42;46;102;116;108].
Definition exr_env : list (str * str) :=
  [(of_ascii [108;111;99;97;108;101], of_ascii [100;101]); (of_ascii [98;97;115;101], of_ascii [108;49;48;110])].
Definition exr_path : str := of_ascii [47;100;97;116;97;47;99;43;43;47;115;116;114;105;110;103;115;47;98;114;111;119;115;101;114;47;97;47;98;47;120;45;113;46;102;116;108].
Definition exr_mapped : str := of_ascii [47;120;47;103;101;99;107;111;45;115;116;114;105;110;103;115;32;40;99;111;112;121;41;47;108;49;48;110;47;100;101;47;97;47;98;47;121;95;113;46;102;116;108].

Example C11_example_rooted : exists P Q,
  mk_matcher exr_ref [] (Some exr_root_p) = Ok P /\
  mk_matcher ex_l10n exr_env (Some exr_root_q) = Ok Q /\
  in_grammar_rooted P /\ in_grammar_rooted Q /\ same_wildcards P Q /\
  sub P Q exr_path = Ok (Some exr_mapped) /\ sub Q P exr_mapped = Ok (Some exr_path) /\
  (* the metacharacters of the root are not regex syntax: c++ does not match cc *)
  match_ P (of_ascii [47;100;97;116;97;47;99;99;47;115;116;114;105;110;103;115;47;98;114;111;119;115;101;114;47;120;45;113;46;102;116;108]) = Ok None.
Proof.
  destruct (mk_matcher exr_ref [] (Some exr_root_p)) as [P|] eqn:EP; [|vm_compute in EP; discriminate].
  destruct (mk_matcher ex_l10n exr_env (Some exr_root_q)) as [Q|] eqn:EQ; [|vm_compute in EQ; discriminate].
  exists P, Q. vm_compute in EP. inversion EP; subst P. vm_compute in EQ. inversion EQ; subst Q.
  split; [reflexivity|]. split; [reflexivity|].
  split; [|split; [|split; [reflexivity|split; [vm_compute; reflexivity|split; vm_compute; reflexivity]]]].
  - split.
    + split; [constructor|]. simpl. eexists. split; [reflexivity|left; lia].
    + split; [split; [reflexivity|split; [reflexivity|constructor]]|].
      split; [eexists; eexists; vm_compute; reflexivity|].
      split; [repeat constructor|]. split; [repeat constructor|].
      right. vm_compute.
      eexists []. exists [47%N], [120%N; 45%N], [(WStar, [46; 102; 116; 108]%N)].
      repeat split; auto.
  - split.
    + split; [vm_compute; repeat constructor; simpl; intuition discriminate|].
      simpl. eexists. split; [vm_compute; reflexivity|left; lia].
    + split; [split; [vm_compute; reflexivity|split; [reflexivity|]]|].
      { vm_compute. repeat constructor; simpl; intuition discriminate. }
      split; [eexists; eexists; vm_compute; reflexivity|].
      split.
      { repeat constructor; simpl; intros k H; inversion H. }
      split.
      { repeat constructor; simpl; discriminate. }
      right. vm_compute.
      eexists []. exists [47%N], [121%N; 95%N], [(WStar, [46; 102; 116; 108]%N)].
      repeat split; auto.
Qed.

(* a rooted pattern that starts with a wildcard (the case repaired in the implementation:
   it raised KeyError / IndexError before):  *.ftl under /r  <->  *.ftl.bak under /s *)
Example C11_example_rooted_wildcard_first : exists P Q,
  mk_matcher (of_ascii [42;46;102;116;108]) [] (Some (of_ascii [47;114])) = Ok P /\
  mk_matcher (of_ascii [42;46;102;116;108;46;98;97;107]) [] (Some (of_ascii [47;115])) = Ok Q /\
  in_grammar_rooted P /\ in_grammar_rooted Q /\ same_wildcards P Q /\
  prefix P = Ok (of_ascii [47;114;47]) /\
  sub P Q (of_ascii [47;114;47;120;46;102;116;108]) = Ok (Some (of_ascii [47;115;47;120;46;102;116;108;46;98;97;107])) /\
  sub Q P (of_ascii [47;115;47;120;46;102;116;108;46;98;97;107]) = Ok (Some (of_ascii [47;114;47;120;46;102;116;108])).
Proof.
  destruct (mk_matcher (of_ascii [42;46;102;116;108]) [] (Some (of_ascii [47;114]))) as [P|] eqn:EP;
    [|vm_compute in EP; discriminate].
  destruct (mk_matcher (of_ascii [42;46;102;116;108;46;98;97;107]) [] (Some (of_ascii [47;115]))) as [Q|] eqn:EQ;
    [|vm_compute in EQ; discriminate].
  exists P, Q. vm_compute in EP. inversion EP; subst P. vm_compute in EQ. inversion EQ; subst Q.
  split; [reflexivity|]. split; [reflexivity|].
  split; [|split; [|split; [reflexivity|split; [vm_compute; reflexivity|split; vm_compute; reflexivity]]]].
  - split.
    + split; [constructor|]. simpl. eexists. split; [reflexivity|right; reflexivity].
    + split; [split; [reflexivity|split; [reflexivity|constructor]]|].
      split; [eexists; eexists; vm_compute; reflexivity|].
      split; [repeat constructor|]. split; [repeat constructor|]. left. reflexivity.
  - split.
    + split; [constructor|]. simpl. eexists. split; [reflexivity|right; reflexivity].
    + split; [split; [reflexivity|split; [reflexivity|constructor]]|].
      split; [eexists; eexists; vm_compute; reflexivity|].
      split; [repeat constructor|]. split; [repeat constructor|]. left. reflexivity.
Qed.

(* ---- {android_locale} <-> {locale} layouts, locale detected from the path ------------
   Proofs/AndroidLayout.v.  Patterns  a{android_locale}b  and  c{locale}d  (a, b, c, d
   literal; b and d non-empty without newline; NO bound locale on either side): for every
   locale l of the BCP 47 grammar of C12_android_roundtrip with qualifier A = to_android l,
   the android layout maps  a A b  to  c l d  and back.  The group is the lazy `.+?`; the
   engine's answer is pinned by soundness + the single hole, its existence by completeness;
   the locale comes out of the dictionary through to_bcp47 (to_android l) = l. *)
Theorem C11_android_layout_roundtrip : forall a b c d k k' l A,
  bcp47_grammar l -> to_android l = Ok A ->
  b <> [] -> has_char nl b = false -> d <> [] -> has_char nl d = false ->
  sub (android_side a b k) (locale_side c d k') (a ++ A ++ b) = Ok (Some (c ++ l ++ d)) /\
  sub (locale_side c d k') (android_side a b k) (c ++ l ++ d) = Ok (Some (a ++ A ++ b)).
Proof. exact android_layout_roundtrip. Qed.

(* res/values-{android_locale}/strings.xml <-> l10n/{locale}/strings.xml are such sides
   (as the parser builds them), he-Latn-IL is in the grammar, its qualifier b+iw+Latn+IL *)
Example C11_android_layout_example :
  mk_matcher (of_ascii [114;101;115;47;118;97;108;117;101;115;45;123;97;110;100;114;111;105;100;95;108;111;99;97;108;101;125;47;115;116;114;105;110;103;115;46;120;109;108]) [] None
    = Ok (android_side (of_ascii [114;101;115;47;118;97;108;117;101;115;45]) (of_ascii [47;115;116;114;105;110;103;115;46;120;109;108]) 3) /\
  mk_matcher (of_ascii [108;49;48;110;47;123;108;111;99;97;108;101;125;47;115;116;114;105;110;103;115;46;120;109;108]) [] None
    = Ok (locale_side (of_ascii [108;49;48;110;47]) (of_ascii [47;115;116;114;105;110;103;115;46;120;109;108]) 3) /\
  bcp47_grammar (of_ascii [104;101;45;76;97;116;110;45;73;76]) /\
  sub (android_side (of_ascii [114;101;115;47;118;97;108;117;101;115;45]) (of_ascii [47;115;116;114;105;110;103;115;46;120;109;108]) 3)
      (locale_side (of_ascii [108;49;48;110;47]) (of_ascii [47;115;116;114;105;110;103;115;46;120;109;108]) 3)
      (of_ascii [114;101;115;47;118;97;108;117;101;115;45;98;43;105;119;43;76;97;116;110;43;73;76;47;115;116;114;105;110;103;115;46;120;109;108])
    = Ok (Some (of_ascii [108;49;48;110;47;104;101;45;76;97;116;110;45;73;76;47;115;116;114;105;110;103;115;46;120;109;108])).
Proof.
  split; [vm_compute; reflexivity|]. split; [vm_compute; reflexivity|]. split; [|vm_compute; reflexivity].
  exists (of_ascii [104;101]), (of_ascii [45;76;97;116;110;45;73;76]). split; [reflexivity|]. split.
  - apply L_two; unfold lower; simpl; try lia; reflexivity.
  - apply T_both; unfold lower, upper; simpl; lia.
Qed.

(* ---- nested values: the listed finding ---------------------------------------------------
   {v}/{w}/* with v = x, w = {v}-n: every variable has a value (the pattern expands, no
   cycle), but matching raises: the regular expression defines the group v twice
   (known finding match-raises-nested-variable-reused).  C12_expand_match_nested therefore
   carries the premise that the regular expression compiles. *)
Theorem C11_nested_variable_reused_refuted : exists M,
  mk_matcher (of_ascii [123;118;125;47;123;119;125;47;42])
             [(of_ascii [118], of_ascii [120]); (of_ascii [119], of_ascii [123;118;125;45;110])] None = Ok M /\
  expand_pattern (sub_env [(star_name 1, Some (of_ascii [102]))] (m_env M)) false (m_pat M)
    = Ok (of_ascii [120;47;120;45;110;47;102]) /\
  match_ M (of_ascii [120;47;120;45;110;47;102]) = Raise ReError.
Proof.
  match goal with |- exists M, ?mk = Ok M /\ _ => destruct mk as [M|] eqn:E; [|vm_compute in E; discriminate] end.
  exists M. vm_compute in E. inversion E; subst M. split; [reflexivity|].
  split; vm_compute; reflexivity.
Qed.
