(* C11 — reference and l10n path patterns map files back and forth losslessly.

   Model: Model/Pattern.v (PatternParser, node classes, expand, regex_pattern)
   and Model/Matcher.v (Matcher.match / sub / prefix / ...).  Matching runs the
   regex ENGINE (Regex/Rx.v) on the regular expression the model compiles from
   the pattern, as the implementation runs `re` on the text it assembles.

   Grammar of the theorems ([simple], Proofs/MatcherSpec.v): literal nodes,
   variables (first occurrence or repeat) unbound or bound to a wildcard-free
   value, stars and double stars, no root, an environment with distinct keys.
   {android_locale}, roots, nested variable values and everything else are
   covered by the correspondence suites of the check, not by these theorems. *)
From Coq Require Import NArith List Bool Arith.
From CL Require Import Base.Sx Base.Res Base.Str Regex.Rx Model.Pattern Model.Matcher
  Proofs.MatcherSpec Proofs.MatcherSound Proofs.MatcherExpand Proofs.MatcherComplete
  Proofs.PathUnique Proofs.MatcherUnique Proofs.MatcherRoundtrip.
Import ListNotations.

(* Soundness of matching.  If a matcher of the grammar matches a path with
   dictionary d, then re-expanding its own pattern with the matched groups (the
   environment Matcher.sub builds) gives the path back — up to one final
   newline, which CPython's `$` lets through — and the wildcard values have
   their kinds: a star's value has no '/', a double star took no part or holds
   a non-empty text followed by its suffix. *)
Theorem C11_match_sound : forall M path d, simple M -> match_ M path = Ok (Some d) ->
  (exists p0, upto_final_newline path p0 /\
              expand_pattern (sub_env d (m_env M)) false (m_pat M) = Ok p0) /\
  kinds_ok (m_pat M) d.
Proof.
  intros M path d HS Hm. split; [eapply sub_self_expand; eauto|eapply match_kinds_ok; eauto].
Qed.

(* the same through the API: a.sub(a, path) is the path *)
Theorem C11_sub_self : forall M path d, simple M -> match_ M path = Ok (Some d) ->
  exists p0, upto_final_newline path p0 /\ sub M M path = Ok (Some p0).
Proof.
  intros M path d HS Hm. destruct (sub_self_expand M path d HS Hm) as [p0 [H1 H2]].
  exists p0. split; auto. unfold sub. rewrite Hm. simpl. rewrite H2. reflexivity.
Qed.

(* Completeness of matching.  Take a matcher of the grammar whose regular
   expression compiles (no group name twice) and whose variable names are not
   star group names.  Give every node a piece: a literal itself, a variable its
   value (from the environment, else from d), a wildcard its value in d
   ([node_piece]); the piece of a star has no '/', of a double star is empty or
   a non-empty text without newline + suffix, of an unbound variable is
   non-empty without newline ([piece_fits]).  Then the pieces are what the
   pattern expands to under the environment of sub, and the matcher matches
   that path. *)
Theorem C11_match_complete : forall M d pieces,
  simple M -> compiles M -> Forall var_not_star (p_nodes (m_pat M)) -> NoDup (map fst d) ->
  Forall2 (piece_for (m_env M) d) (p_nodes (m_pat M)) pieces ->
  expand_pattern (sub_env d (m_env M)) false (m_pat M) = Ok (concat pieces) /\
  exists d', match_ M (concat pieces) = Ok (Some d').
Proof.
  intros M d pieces HS HC Hv Hd HF. split.
  - apply expand_pieces; auto. clear - HF. induction HF; constructor; auto. destruct H; auto.
  - eapply match_complete; eauto.
Qed.

(* The grammar of the property ([in_grammar], Proofs/MatcherRoundtrip.v): a
   simple matcher that compiles, all variables bound (to wildcard-free values),
   stars in different '/'-segments and at most one double star: the node list
   read as F0 W1 F1 ... Wn Fn satisfies PathUnique.shape_ok.

   Uniqueness: two valuations whose expansions coincide give every node the
   same piece, hence agree on every wildcard. *)
Theorem C11_unique : forall M g g' X Y, in_grammar M ->
  Forall2 (piece_for (m_env M) g) (p_nodes (m_pat M)) X ->
  Forall2 (piece_for (m_env M) g') (p_nodes (m_pat M)) Y ->
  concat X = concat Y -> X = Y.
Proof. exact pieces_unique_grammar. Qed.

(* The round trip.  The two newline premises are the `$` caveat made explicit:
   CPython's `$` accepts one final newline, so a path ending in "\n" comes back
   without it (C12_whole_path). *)
Theorem C11_roundtrip : forall P Q path path',
  in_grammar P -> in_grammar Q -> same_wildcards P Q ->
  no_final_newline path -> no_final_newline path' ->
  sub P Q path = Ok (Some path') ->
  (exists d', match_ Q path' = Ok (Some d')) /\ sub Q P path' = Ok (Some path).
Proof. exact roundtrip. Qed.

(* ---- the grammar is inhabited and matching is not vacuous ---------------------- *)
Definition ex_env : list (str * str) :=
  [(of_ascii [108;111;99;97;108;101], of_ascii [100;101]);                 (* locale = de *)
   (of_ascii [98;97;115;101], of_ascii [47;108;49;48;110])].               (* base = /l10n *)
(* {base}/{locale}/**/x-*.ftl *)
Definition ex_pattern : str :=
  of_ascii [123;98;97;115;101;125;47;123;108;111;99;97;108;101;125;47;42;42;47;120;45;42;46;102;116;108].
(* /l10n/de/a/b/x-q.ftl *)
Definition ex_path : str :=
  of_ascii [47;108;49;48;110;47;100;101;47;97;47;98;47;120;45;113;46;102;116;108].

Example C11_example_simple :
  exists M d, mk_matcher ex_pattern ex_env None = Ok M /\ simple M /\
    match_ M ex_path = Ok (Some d) /\
    lookup (star_name 1) d = Some (Some (of_ascii [97;47;98;47])) /\     (* s1 = a/b/ *)
    lookup (star_name 2) d = Some (Some (of_ascii [113])) /\             (* s2 = q *)
    sub M M ex_path = Ok (Some ex_path).
Proof.
  destruct (mk_matcher ex_pattern ex_env None) as [M|] eqn:E; [|vm_compute in E; discriminate].
  destruct (match_ M ex_path) as [[d|]|] eqn:Em;
    [|exfalso; vm_compute in E; inversion E; subst; vm_compute in Em; discriminate
     |exfalso; vm_compute in E; inversion E; subst; vm_compute in Em; discriminate].
  exists M, d. vm_compute in E. inversion E; subst M. clear E.
  vm_compute in Em. inversion Em; subst d. clear Em.
  split; [reflexivity|]. split.
  - split; [vm_compute; reflexivity|]. split; [reflexivity|].
    vm_compute. repeat constructor; simpl; intuition discriminate.
  - split; [vm_compute; reflexivity|]. vm_compute. auto.
Qed.

(* r/**/x-*.ftl  <->  {base}/{locale}/**/y_*.ftl : both in the grammar, same
   wildcards, and a concrete round trip *)
Definition ex_ref : str := of_ascii [114;47;42;42;47;120;45;42;46;102;116;108].
Definition ex_l10n : str :=
  of_ascii [123;98;97;115;101;125;47;123;108;111;99;97;108;101;125;47;42;42;47;121;95;42;46;102;116;108].

Example C11_example_in_grammar : exists P Q,
  mk_matcher ex_ref [] None = Ok P /\ mk_matcher ex_l10n ex_env None = Ok Q /\
  in_grammar P /\ in_grammar Q /\ same_wildcards P Q /\
  sub P Q (of_ascii [114;47;97;47;98;47;120;45;113;46;102;116;108])           (* r/a/b/x-q.ftl *)
    = Ok (Some (of_ascii [47;108;49;48;110;47;100;101;47;97;47;98;47;121;95;113;46;102;116;108])).
Proof.
  destruct (mk_matcher ex_ref [] None) as [P|] eqn:EP; [|vm_compute in EP; discriminate].
  destruct (mk_matcher ex_l10n ex_env None) as [Q|] eqn:EQ; [|vm_compute in EQ; discriminate].
  exists P, Q. vm_compute in EP. inversion EP; subst P. vm_compute in EQ. inversion EQ; subst Q.
  split; [reflexivity|]. split; [reflexivity|].
  split; [|split; [|split; [reflexivity|vm_compute; reflexivity]]].
  - split; [split; [reflexivity|split; [reflexivity|constructor]]|].
    split; [eexists; eexists; vm_compute; reflexivity|].
    split; [repeat constructor|]. split; [repeat constructor|].
    right. vm_compute.
    exists [], [47%N], [120%N; 45%N], [(WStar, [46; 102; 116; 108]%N)].
    repeat split; auto.
  - split; [split; [vm_compute; reflexivity|split; [reflexivity|]]|].
    { vm_compute. repeat constructor; simpl; intuition discriminate. }
    split; [eexists; eexists; vm_compute; reflexivity|].
    split.
    { repeat constructor; simpl; intros k H; inversion H. }
    split.
    { repeat constructor; simpl; discriminate. }
    right. vm_compute.
    exists [], [47%N], [121%N; 95%N], [(WStar, [46; 102; 116; 108]%N)].
    repeat split; auto.
Qed.

(* ---- outside the grammar the round trip fails ------------------------------------ *)
Definition mk (p : list nat) : result matcher := mk_matcher (of_ascii p) [] None.

(* two stars in one segment:  r/*-*  <->  l/*_*  on  r/a-b_c :
   mapped to l/a_b_c, which maps back to r/a_b-c *)
Theorem C11_outside_grammar_refuted_two_stars : exists A B path mapped back,
  mk [114;47;42;45;42] = Ok A /\ mk [108;47;42;95;42] = Ok B /\
  sub A B path = Ok (Some mapped) /\ sub B A mapped = Ok (Some back) /\ back <> path.
Proof.
  destruct (mk [114;47;42;45;42]) as [A|] eqn:EA; [|vm_compute in EA; discriminate].
  destruct (mk [108;47;42;95;42]) as [B|] eqn:EB; [|vm_compute in EB; discriminate].
  exists A, B, (of_ascii [114;47;97;45;98;95;99]),
    (of_ascii [108;47;97;95;98;95;99]), (of_ascii [114;47;97;95;98;45;99]).
  vm_compute in EA. inversion EA; subst A. vm_compute in EB. inversion EB; subst B.
  split; [reflexivity|]. split; [reflexivity|].
  split; [vm_compute; reflexivity|]. split; [vm_compute; reflexivity|].
  vm_compute. discriminate.
Qed.

(* two double stars:  r/**/x/**/*  <->  l/**/y/**/*  on  r/1/x/2/y/3/f :
   mapped to l/1/y/2/y/3/f, which maps back to r/1/y/2/x/3/f  (known finding
   sub-roundtrip-two-starstar: every node is of the property's grammar) *)
Theorem C11_outside_grammar_refuted_two_starstar : exists A B path mapped back,
  mk [114;47;42;42;47;120;47;42;42;47;42] = Ok A /\
  mk [108;47;42;42;47;121;47;42;42;47;42] = Ok B /\
  simple A /\ simple B /\
  sub A B path = Ok (Some mapped) /\ sub B A mapped = Ok (Some back) /\ back <> path.
Proof.
  destruct (mk [114;47;42;42;47;120;47;42;42;47;42]) as [A|] eqn:EA; [|vm_compute in EA; discriminate].
  destruct (mk [108;47;42;42;47;121;47;42;42;47;42]) as [B|] eqn:EB; [|vm_compute in EB; discriminate].
  exists A, B, (of_ascii [114;47;49;47;120;47;50;47;121;47;51;47;102]),
    (of_ascii [108;47;49;47;121;47;50;47;121;47;51;47;102]),
    (of_ascii [114;47;49;47;121;47;50;47;120;47;51;47;102]).
  vm_compute in EA. inversion EA; subst A. vm_compute in EB. inversion EB; subst B.
  split; [reflexivity|]. split; [reflexivity|].
  split; [split; [reflexivity|split; [reflexivity|constructor]]|].
  split; [split; [reflexivity|split; [reflexivity|constructor]]|].
  split; [vm_compute; reflexivity|]. split; [vm_compute; reflexivity|].
  vm_compute. discriminate.
Qed.
