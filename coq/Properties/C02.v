(* C02 — well-formed entries are recovered exactly; junk damage stays local.

   Models: the parsers of C01 (Model/Parse.v, Model/ParseFormats.v) with the value
   semantics of Model/Unescape.v on top (raw_val, PropertiesEntityMixin.val,
   po.eval_stringlist, Comment.val variants), instantiated with the regular
   expressions and tables regenerated from the source on every run.

   Proved here
     C02_license_{properties,dtd,ini,po}   the License rule, for every text
     C02_unescape_po                       eval_stringlist on rendered tokens = their meaning
     C02_unescape_properties               val on rendered tokens = their meaning
     C02_roundtrip_properties_partial      single-record files  key sep value newline
   Stated, not proved (see the end of the file): the block theorem blocks_properties and
   C02_roundtrip_<fmt> of DESIGN.md section 4; those clauses are covered by the
   implementation-only oracle of harness/props/c02.py (printed files, all seven formats). *)
From Coq Require Import NArith List Bool Arith Lia.
From CL Require Import Base.Sx Base.Res Base.Str Regex.Rx Model.Entry Model.Parse
  Model.ParseFormats Generated.RxParser Generated.RxC02 Generated.C02Facts Model.Unescape
  Proofs.C02License Proofs.UnescapeProofs Proofs.C02Po Proofs.C02Props.
Import ListNotations.

(* ---- (a) the License rule -------------------------------------------------------------
   If the comment expression matches at the start of the text (offset 0; for DTD after
   a byte-order mark, offset 1) and the comment's val contains "License", the first
   entry of the walk is that comment, standalone, whatever follows it -- also when an
   entity follows directly and would otherwise get it as its pre_comment.
   [comment_val_of] is Comment.val of the format with the generated offsets
   (OffsetComment.comment_offset, the DTD slice all[4:-3], the plain PO comment).
   Generic in the expressions: only the getNext definitions and C01 are used. *)
Theorem C02_license_properties : forall (s : str) (x : mres),
  omatch rx_props_comment s 0 = Some x ->
  contains s_License (comment_val_of VProps (slice s 0 (m_end x))) = true ->
  exists rest, walk_properties s = Ok (mk_comment (0, m_end x) :: rest).
Proof. exact license_properties. Qed.

Theorem C02_license_dtd : forall (s : str) (x : mres),
  omatch rx_dtd_comment s (dtd_start s) = Some x ->
  contains s_License (comment_val_of VDtd (slice s (dtd_start s) (m_end x))) = true ->
  exists rest, walk_dtd s = Ok (mk_comment (dtd_start s, m_end x) :: rest).
Proof. exact license_dtd. Qed.

Theorem C02_license_ini : forall (s : str) (x : mres),
  omatch rx_ini_comment s 0 = Some x ->
  contains s_License (comment_val_of VIni (slice s 0 (m_end x))) = true ->
  exists rest, walk_ini s = Ok (mk_comment (0, m_end x) :: rest).
Proof.
  intros s x Hm. apply license_ini; [|exact Hm].
  eapply ini_section_comment_disjoint. exact Hm.
Qed.

Theorem C02_license_po : forall (s : str) (x : mres),
  omatch rx_po_comment s 0 = Some x ->
  contains s_License (comment_val_of VPo (slice s 0 (m_end x))) = true ->
  exists rest, walk_po s = Ok (mk_comment (0, m_end x) :: rest).
Proof. exact license_po. Qed.

(* the premises hold of  "# License\nk=v\n"  and the entity that follows has no
   pre_comment; without the word the comment is attached *)
Definition ex_license : str := map N.of_nat [35; 32; 76; 105; 99; 101; 110; 115; 101; 10; 107; 61; 118; 10].
Example C02_license_properties_example :
  (exists x, omatch rx_props_comment ex_license 0 = Some x /\ m_end x = 9 /\
     contains s_License (comment_val_of VProps (slice ex_license 0 (m_end x))) = true) /\
  match walk_properties ex_license with
  | Ok es => map (fun e => (e_kind e, e_span e, e_pre e)) es =
             [(KComment, (0, 9), None); (KWhitespace, (9, 10), None);
              (KEntity, (10, 13), None); (KWhitespace, (13, 14), None)]
  | Raise _ => False
  end /\
  match walk_properties (map N.of_nat [35; 32; 76; 105; 99; 101; 110; 99; 101; 10; 107; 61; 118; 10]) with
  | Ok es => map (fun e => (e_kind e, e_span e, e_pre e)) es =
             [(KEntity, (10, 13), Some (0, 9)); (KWhitespace, (13, 14), None)]
  | Raise _ => False
  end.
Proof.
  split; [|split].
  - eexists. split; [vm_compute; reflexivity|]. split; reflexivity.
  - vm_compute. reflexivity.
  - vm_compute. reflexivity.
Qed.

(* DTD with a byte-order mark: U+FEFF <!--License--><!ENTITY a 'b'> *)
Example C02_license_dtd_example :
  let s := [65279; 60; 33; 45; 45; 76; 105; 99; 101; 110; 115; 101; 45; 45; 62;
            60; 33; 69; 78; 84; 73; 84; 89; 32; 97; 32; 39; 98; 39; 62]%N in
  dtd_start s = 1 /\
  (exists x, omatch rx_dtd_comment s 1 = Some x /\
     contains s_License (comment_val_of VDtd (slice s 1 (m_end x))) = true) /\
  match walk_dtd s with
  | Ok es => map (fun e => (e_kind e, e_span e, e_pre e)) es =
             [(KComment, (1, 15), None); (KEntity, (15, 30), None)]
  | Raise _ => False
  end.
Proof.
  split; [vm_compute; reflexivity|]. split.
  - eexists. split; vm_compute; reflexivity.
  - vm_compute. reflexivity.
Qed.

(* ---- (b) PO string lists ----------------------------------------------------------------
   A string-list item is a sequence of tokens: a plain character (anything but double
   quote, newline, backslash) or one of the five escapes; [render_item] writes the item
   as it stands between the quotes, [meaning_item] is what it denotes.  For every list
   of legal items, eval_stringlist (single-pass po_escape.sub with the po_escapes table,
   on the generated expression and table) returns the concatenation of the meanings. *)
Theorem C02_unescape_po : forall items : list po_item,
  forallb (forallb po_tok_legal) items = true ->
  eval_stringlist (map render_item items) = Ok (concat (map meaning_item items)).
Proof. exact unescape_po. Qed.

(* the item  a\\nb  (escaped backslash, then the letter n) is  a\nb , not a newline;
   the second item is an escaped quote followed by \t *)
Example C02_unescape_po_example :
  let items := [[PPlain 97; PEsc 92; PPlain 110; PPlain 98]; [PEsc 34; PEsc 116]]%N in
  forallb (forallb po_tok_legal) items = true /\
  map render_item items = [[97; 92; 92; 110; 98]; [92; 34; 92; 116]]%N /\
  eval_stringlist (map render_item items) = Ok [97; 92; 110; 98; 34; 9]%N.
Proof. vm_compute. repeat split. Qed.

(* ---- (c) properties values ----------------------------------------------------------------
   A raw value is a sequence of tokens: a plain character (not a backslash), backslash-u
   with 1 to 4 hexadecimal digits, a line continuation (backslash, newline, indentation),
   or a backslash and one more character (n r t stand for newline, carriage return, tab,
   every other character for itself).  [toks_ok]: each token is well formed, a short
   backslash-u escape and a bare backslash-u are not followed by a hexadecimal digit, a
   continuation's indentation is maximal.  Then val (escape.sub(unescape, raw_val) on the
   generated expression and known_escapes) is the concatenation of the token meanings. *)
Theorem C02_unescape_properties : forall ts : list ptok,
  toks_ok ts = true -> props_val (render_toks ts) = Ok (meaning_toks ts).
Proof. exact unescape_properties. Qed.

(*  a \u41 x \n (continuation, two blanks) b \q \\  *)
Example C02_unescape_properties_example :
  let ts := [TPlain 97; TUni [52; 49]; TPlain 120; TSingle 110; TCont [32; 32]; TPlain 98;
             TSingle 113; TSingle 92]%N in
  toks_ok ts = true /\
  render_toks ts = [97; 92; 117; 52; 49; 120; 92; 110; 92; 10; 32; 32; 98; 92; 113; 92; 92]%N /\
  props_val (render_toks ts) = Ok [97; 65; 120; 10; 98; 113; 92]%N.
Proof. vm_compute. repeat split. Qed.
