(* C02 — well-formed entries are recovered exactly; junk damage stays local.

   Models: the parsers of C01 (Model/Parse.v, Model/ParseFormats.v) with the value
   semantics of Model/Unescape.v on top (raw_val, PropertiesEntityMixin.val,
   po.eval_stringlist, Comment.val variants), instantiated with the regular
   expressions and tables regenerated from the source on every run.

   Proved here
     C02_license_{properties,dtd,ini,po}   the License rule, for every text
     C02_unescape_po                       eval_stringlist on rendered tokens = their meaning
     C02_unescape_properties               val on rendered tokens = their meaning
     C02_roundtrip_properties_partial      single-record files  key sep value newline
     C02_blocks_properties, C02_roundtrip_properties_multi   block theorem, .properties
     C02_blocks_ini, C02_roundtrip_ini_multi                 block theorem, .ini
     C02_blocks_inc, C02_roundtrip_inc_multi, _nojunk        block theorem, .inc (filter state)
     C02_blocks_dtd(_bom), C02_roundtrip_dtd_multi(_bom)     block theorem, .dtd
     C02_blocks_properties_junk, C02_junk_properties         junk regions in .properties
     C02_blocks_properties_x, C02_roundtrip_properties_x     .properties with CRLF / trailing blanks,
                                                             indented keys, unterminated last comment
     C02_blocks_ini_junk, C02_roundtrip_ini_junk, C02_junk_ini   junk regions in .ini
     C02_blocks_dtd_junk(_bom), C02_roundtrip_dtd_junk, C02_junk_dtd   junk regions in .dtd
     C02_blocks_inc_junk, C02_roundtrip_inc_junk, C02_junk_inc   junk regions in .inc
     C02_blocks_po_junk, C02_roundtrip_po_junk, C02_junk_po      junk regions in .po
     C02_blocks_po, C02_roundtrip_po_multi                   block theorem, .po (with values)
   Stated, not proved (see the end of the file): what is still missing of
   C02_roundtrip_<fmt> of DESIGN.md section 4; those clauses are covered by the
   implementation-only oracle of harness/props/c02.py (printed files, all seven formats). *)
From Coq Require Import NArith List Bool Arith Lia.
From CL Require Import Base.Sx Base.Res Base.Str Regex.Rx Model.Entry Model.Parse
  Model.ParseFormats Generated.RxParser Generated.RxC02 Generated.C02Facts Model.Unescape
  Proofs.C02License Proofs.UnescapeProofs Proofs.C02Po Proofs.C02Props Proofs.C02Roundtrip
  Proofs.C02Blocks.
From CL Require Proofs.C02BlocksIni Proofs.C02BlocksInc Proofs.C02BlocksJunkRx Proofs.C02BlocksJunk
  Proofs.C02BlocksDtd Proofs.C02BlocksPoRx Proofs.C02BlocksPo Proofs.C02BlocksPoVal
  Proofs.C02BlocksIniJunk Proofs.C02BlocksDtdJunk Proofs.C02BlocksIncJunk Proofs.C02BlocksPoJunk
  Proofs.C02BlocksPropsX.
Import ListNotations.

(* ---- (a) the License rule -------------------------------------------------------------
   If the comment expression matches at the start of the text (offset 0; for DTD after
   a byte-order mark, offset 1) and the comment's val contains "License", the first
   entry of the walk is that comment, standalone, whatever follows it -- also when an
   entity follows directly and would otherwise get it as its pre_comment.
   [comment_val_of] is Comment.val of the format with the generated offsets
   (OffsetComment.comment_offset, the DTD slice all[4:-3], the plain PO comment).
   Generic in the expressions: only the getNext definitions and C01 are used. *)
Theorem C02_license_properties : forall (s : str) (x : mres),
  omatch rx_props_comment s 0 = Some x ->
  contains s_License (comment_val_of VProps (slice s 0 (m_end x))) = true ->
  exists rest, walk_properties s = Ok (mk_comment (0, m_end x) :: rest).
Proof. exact license_properties. Qed.

Theorem C02_license_dtd : forall (s : str) (x : mres),
  omatch rx_dtd_comment s (dtd_start s) = Some x ->
  contains s_License (comment_val_of VDtd (slice s (dtd_start s) (m_end x))) = true ->
  exists rest, walk_dtd s = Ok (mk_comment (dtd_start s, m_end x) :: rest).
Proof. exact license_dtd. Qed.

Theorem C02_license_ini : forall (s : str) (x : mres),
  omatch rx_ini_comment s 0 = Some x ->
  contains s_License (comment_val_of VIni (slice s 0 (m_end x))) = true ->
  exists rest, walk_ini s = Ok (mk_comment (0, m_end x) :: rest).
Proof.
  intros s x Hm. apply license_ini; [|exact Hm].
  eapply ini_section_comment_disjoint. exact Hm.
Qed.

Theorem C02_license_po : forall (s : str) (x : mres),
  omatch rx_po_comment s 0 = Some x ->
  contains s_License (comment_val_of VPo (slice s 0 (m_end x))) = true ->
  exists rest, walk_po s = Ok (mk_comment (0, m_end x) :: rest).
Proof. exact license_po. Qed.

(* the premises hold of  "# License\nk=v\n"  and the entity that follows has no
   pre_comment; without the word the comment is attached *)
Definition ex_license : str := map N.of_nat [35; 32; 76; 105; 99; 101; 110; 115; 101; 10; 107; 61; 118; 10].
Example C02_license_properties_example :
  (exists x, omatch rx_props_comment ex_license 0 = Some x /\ m_end x = 9 /\
     contains s_License (comment_val_of VProps (slice ex_license 0 (m_end x))) = true) /\
  match walk_properties ex_license with
  | Ok es => map (fun e => (e_kind e, e_span e, e_pre e)) es =
             [(KComment, (0, 9), None); (KWhitespace, (9, 10), None);
              (KEntity, (10, 13), None); (KWhitespace, (13, 14), None)]
  | Raise _ => False
  end /\
  match walk_properties (map N.of_nat [35; 32; 76; 105; 99; 101; 110; 99; 101; 10; 107; 61; 118; 10]) with
  | Ok es => map (fun e => (e_kind e, e_span e, e_pre e)) es =
             [(KEntity, (10, 13), Some (0, 9)); (KWhitespace, (13, 14), None)]
  | Raise _ => False
  end.
Proof.
  split; [|split].
  - eexists. split; [vm_compute; reflexivity|]. split; reflexivity.
  - vm_compute. reflexivity.
  - vm_compute. reflexivity.
Qed.

(* DTD with a byte-order mark: U+FEFF <!--License--><!ENTITY a 'b'> *)
Example C02_license_dtd_example :
  let s := [65279; 60; 33; 45; 45; 76; 105; 99; 101; 110; 115; 101; 45; 45; 62;
            60; 33; 69; 78; 84; 73; 84; 89; 32; 97; 32; 39; 98; 39; 62]%N in
  dtd_start s = 1 /\
  (exists x, omatch rx_dtd_comment s 1 = Some x /\
     contains s_License (comment_val_of VDtd (slice s 1 (m_end x))) = true) /\
  match walk_dtd s with
  | Ok es => map (fun e => (e_kind e, e_span e, e_pre e)) es =
             [(KComment, (1, 15), None); (KEntity, (15, 30), None)]
  | Raise _ => False
  end.
Proof.
  split; [vm_compute; reflexivity|]. split.
  - eexists. split; vm_compute; reflexivity.
  - vm_compute. reflexivity.
Qed.

(* ---- (b) PO string lists ----------------------------------------------------------------
   A string-list item is a sequence of tokens: a plain character (anything but double
   quote, newline, backslash) or one of the five escapes; [render_item] writes the item
   as it stands between the quotes, [meaning_item] is what it denotes.  For every list
   of legal items, eval_stringlist (single-pass po_escape.sub with the po_escapes table,
   on the generated expression and table) returns the concatenation of the meanings. *)
Theorem C02_unescape_po : forall items : list po_item,
  forallb (forallb po_tok_legal) items = true ->
  eval_stringlist (map render_item items) = Ok (concat (map meaning_item items)).
Proof. exact unescape_po. Qed.

(* the item  a\\nb  (escaped backslash, then the letter n) is  a\nb , not a newline;
   the second item is an escaped quote followed by \t *)
Example C02_unescape_po_example :
  let items := [[PPlain 97; PEsc 92; PPlain 110; PPlain 98]; [PEsc 34; PEsc 116]]%N in
  forallb (forallb po_tok_legal) items = true /\
  map render_item items = [[97; 92; 92; 110; 98]; [92; 34; 92; 116]]%N /\
  eval_stringlist (map render_item items) = Ok [97; 92; 110; 98; 34; 9]%N.
Proof. vm_compute. repeat split. Qed.

(* ---- (c) properties values ----------------------------------------------------------------
   A raw value is a sequence of tokens: a plain character (not a backslash), backslash-u
   with 1 to 4 hexadecimal digits, a line continuation (backslash, newline, indentation),
   or a backslash and one more character (n r t stand for newline, carriage return, tab,
   every other character for itself).  [toks_ok]: each token is well formed, a short
   backslash-u escape and a bare backslash-u are not followed by a hexadecimal digit, a
   continuation's indentation is maximal.  Then val (escape.sub(unescape, raw_val) on the
   generated expression and known_escapes) is the concatenation of the token meanings. *)
Theorem C02_unescape_properties : forall ts : list ptok,
  toks_ok ts = true -> props_val (render_toks ts) = Ok (meaning_toks ts).
Proof. exact unescape_properties. Qed.

(*  a \u41 x \n (continuation, two blanks) b \q \\  *)
Example C02_unescape_properties_example :
  let ts := [TPlain 97; TUni [52; 49]; TPlain 120; TSingle 110; TCont [32; 32]; TPlain 98;
             TSingle 113; TSingle 92]%N in
  toks_ok ts = true /\
  render_toks ts = [97; 92; 117; 52; 49; 120; 92; 110; 92; 10; 32; 32; 98; 92; 113; 92; 92]%N /\
  props_val (render_toks ts) = Ok [97; 65; 120; 10; 98; 113; 92]%N.
Proof. vm_compute. repeat split. Qed.

(* ---- (d) one record ------------------------------------------------------------------------
   A file  key sep value newline  with
     legal_key    non-empty, first character none of # ! blank tab CR LF, no = : LF in it,
                  last character not a blank or tab
     legal_sep    blanks-or-tabs, then : or =, then blanks-or-tabs
     legal_raw1   a value on ONE line: no LF or CR, neither end is a blank or tab, the last
                  character is not a backslash
   parses to exactly one entity with that key span and that value span, followed by the
   newline as whitespace; the key text and raw_val are the printed ones.
   PARTIAL: values with line continuations and values ending in an (escaped) backslash
   are not covered by this theorem; neither are several records, comments and junk (the
   block theorem below).  Those clauses are checked by execution only
   (harness/props/c02.py, printed files against the implementation). *)
Theorem C02_roundtrip_properties_partial : forall (key b1 : str) (sc : N) (b2 raw : str),
  legal_key key = true -> legal_sep b1 sc b2 = true -> legal_raw1 raw = true ->
  let sep := b1 ++ sc :: b2 in
  let s := key ++ sep ++ raw ++ [10%N] in
  let a := length key in
  let b := a + length sep in
  let n := b + length raw in
  walk_properties s =
    Ok [mkentry KEntity (0, n) (Some (0, a)) (Some (b, n)) None None; mk_white (n, S n)] /\
  slice s 0 a = key /\ slice s b n = raw.
Proof. exact roundtrip_one. Qed.

(* with (c): key, raw_val and val of the recovered entity, for a one-line value rendered
   from tokens ([html] is the DTD oracle, unused for properties) *)
Theorem C02_record_view_properties_partial :
  forall (html : str -> str) (key b1 : str) (sc : N) (b2 : str) (ts : list ptok),
  legal_key key = true -> legal_sep b1 sc b2 = true ->
  toks_ok ts = true -> legal_raw1 (render_toks ts) = true ->
  let raw := render_toks ts in
  let sep := b1 ++ sc :: b2 in
  views html VProps (key ++ sep ++ raw ++ [10%N]) =
  Ok [mkview KEntity (key ++ sep ++ raw) (KStr key) (Some raw) (Ok (Some (meaning_toks ts))) None;
      mkview KWhitespace [10%N] (KStr [10%N]) (Some [10%N]) (Ok (Some [10%N])) None].
Proof. exact record_view. Qed.

(*  "a b = x\u41\ty"  *)
Example C02_roundtrip_properties_example :
  let key := [97; 32; 98]%N in
  let ts := [TPlain 120; TUni [52; 49]; TSingle 116; TPlain 121]%N in
  legal_key key = true /\ legal_sep [32%N] 61%N [32%N] = true /\ toks_ok ts = true /\
  legal_raw1 (render_toks ts) = true /\
  views (fun x => x) VProps (key ++ ([32%N] ++ 61%N :: [32%N]) ++ render_toks ts ++ [10%N]) =
  Ok [mkview KEntity [97; 32; 98; 32; 61; 32; 120; 92; 117; 52; 49; 92; 116; 121]%N
             (KStr [97; 32; 98]%N) (Some [120; 92; 117; 52; 49; 92; 116; 121]%N)
             (Ok (Some [120; 65; 9; 121]%N)) None;
      mkview KWhitespace [10%N] (KStr [10%N]) (Some [10%N]) (Ok (Some [10%N])) None].
Proof. vm_compute. repeat split. Qed.

(* ---- the block theorem for .properties (DESIGN.md section 4, C02) -------------------------
   Proofs/C02Blocks.v.  A [block] is a run of blank characters, a standalone comment, or an
   entity line with an optional attached comment, a key, a separator and a value that may
   continue over several lines ending in an odd number of backslashes; [legal_block] and
   [adjacent_ok] are decidable (boolean) predicates defined there:
     - a comment block is followed by the end of the file or by a blank block containing a
       newline; an entity without final newline is the last block; if the first block is an
       entity, its attached comment does not contain "License" (that case is
       C02_license_properties);
   [entries_of] computes, from the blocks and their offsets only, the exact entry list (kind,
   span, key span, value span, pre-comment span, inner whitespace span). *)
Theorem C02_blocks_properties : forall bs : list C02Blocks.block,
  Forall C02Blocks.legal_block bs -> C02Blocks.adjacent_ok bs ->
  walk_properties (C02Blocks.file_text bs) = Ok (C02Blocks.entries_of bs).
Proof. exact C02Blocks.blocks_properties. Qed.

(* Multi-record round trip: a file printed from any list of legal blocks parses back to
   exactly its records (key text, raw value text, attached comment) in order, exactly its
   standalone comments, and NO junk. *)
Theorem C02_roundtrip_properties_multi : forall bs : list C02Blocks.block,
  Forall C02Blocks.legal_block bs -> C02Blocks.adjacent_ok bs ->
  exists es, walk_properties (C02Blocks.file_text bs) = Ok es /\
    map (C02Blocks.entity_record (C02Blocks.file_text bs))
        (filter (C02Blocks.is_kind KEntity) es) = C02Blocks.records_of bs /\
    map (fun e => C02Blocks.span_text (C02Blocks.file_text bs) (e_span e))
        (filter (C02Blocks.is_kind KComment) es) = C02Blocks.comments_of bs /\
    filter (C02Blocks.is_kind KJunk) es = [].
Proof. exact C02Blocks.C02_roundtrip_properties_multi. Qed.

(* ---- the block theorem for .ini ------------------------------------------------------------
   Proofs/C02BlocksIni.v.  An [iblock] is a run of whitespace, a standalone comment (lines
   starting with ; or #), a section header [name], or an entity line key=value with an
   optional attached comment (key and value taken as they stand, blanks included).
   [legal_iblock]: a key does not start with whitespace, "[", ";" or "#" and contains no "="
   or newline; a value contains no newline; a section name no "]", "=" or newline.
   [iadjacent_ok] (boolean): a comment block or an entity with comment lines starts a line
   (the comment expression is anchored at line starts); a comment block is followed by the
   end of the file, a whitespace block containing a newline, or a section header; a block
   without its final newline is the last one; an entity with comment lines below offset 2
   does not have "License" in them (that case is C02_license_ini).
   [ientries_of] computes the exact entry list from the blocks and their offsets. *)
Theorem C02_blocks_ini : forall bs : list C02BlocksIni.iblock,
  Forall C02BlocksIni.legal_iblock bs -> C02BlocksIni.iadjacent_ok bs ->
  walk_ini (C02BlocksIni.ifile_text bs) = Ok (C02BlocksIni.ientries_of bs).
Proof. exact C02BlocksIni.blocks_ini. Qed.

(* the entities of the walk are exactly the records (key, value = raw value, attached
   comment), the comment entries exactly the standalone comment blocks, the section entries
   exactly the section names, in order, and there is NO junk:
     iviews s es bs :=
       map (entity_record s) (filter (is_kind KEntity) es) = irecords_of bs /\
       map (fun e => span_text s (e_span e)) (filter (is_kind KComment) es) = icomments_of bs /\
       map (fun e => opt_text s (e_val e)) (filter (is_kind KSection) es) = isections_of bs /\
       filter (is_kind KJunk) es = []                                                     *)
Theorem C02_roundtrip_ini_multi : forall bs : list C02BlocksIni.iblock,
  Forall C02BlocksIni.legal_iblock bs -> C02BlocksIni.iadjacent_ok bs ->
  exists es, walk_ini (C02BlocksIni.ifile_text bs) = Ok es /\
             C02BlocksIni.iviews (C02BlocksIni.ifile_text bs) es bs.
Proof. exact C02BlocksIni.roundtrip_ini_multi. Qed.

(*  ; s / #       (standalone, in front of the section header)
    [Str]
    k=v
    ;c / #d / "a b = x ; y"   (attached comment; key "a b ", value " x ; y")
    <blank line>  ; s / #  <blank lines, indentation>  k=v  [Str]  <blank line>  k2=   *)
Example C02_blocks_ini_example :
  let A := C02BlocksIni.A in
  let bs := [C02BlocksIni.ix_c; C02BlocksIni.ix_sec; C02BlocksIni.ix_e1; C02BlocksIni.ix_e2; C02BlocksIni.ix_b; C02BlocksIni.ix_c; C02BlocksIni.ix_b;
             C02BlocksIni.ix_b2; C02BlocksIni.ix_e1; C02BlocksIni.ix_sec; C02BlocksIni.ix_b; C02BlocksIni.ix_e3] in
  Forall C02BlocksIni.legal_iblock bs /\ C02BlocksIni.iadjacent_ok bs /\
  C02BlocksIni.irecords_of bs =
    [(A [107], A [118], None);
     (A [97; 32; 98; 32], A [32; 120; 32; 59; 32; 121], Some (A [59; 99; 10; 35; 100]));
     (A [107], A [118], None); (A [107; 50], [], None)] /\
  C02BlocksIni.isections_of bs = [A [83; 116; 114]; A [83; 116; 114]] /\
  map (fun e => (e_kind e, e_span e)) (C02BlocksIni.ientries_of bs) =
  [(KComment, (0, 5)); (KWhitespace, (5, 6)); (KSection, (6, 11)); (KWhitespace, (11, 12));
   (KEntity, (12, 15)); (KWhitespace, (15, 16)); (KEntity, (22, 33)); (KWhitespace, (33, 35));
   (KComment, (35, 40)); (KWhitespace, (40, 45)); (KEntity, (45, 48)); (KWhitespace, (48, 49));
   (KSection, (49, 54)); (KWhitespace, (54, 56)); (KEntity, (56, 59))].
Proof. split; [repeat constructor|]. split; [vm_compute; reflexivity|]. repeat split. Qed.

(* ---- the block theorem for .inc (DefinesParser) -------------------------------------------
   Proofs/C02BlocksInc.v.  An [nblock] is a run of n newlines, a standalone comment (lines
   "# text"), an instruction "#word blanks rest" or an entity "#define blanks KEY [blank VALUE]"
   with an optional attached comment.  [legal_nblock]: KEY and the instruction word are
   non-empty runs of word characters (the generated table of \w), the word does not begin
   "define", VALUE and the rest of an instruction contain no newline.  [nadjacent_ok]: a comment
   block is followed by the end of the file, empty lines or an instruction; a block without
   its final newline is the last one.
   [nentries_of] threads the parser's filter state through the blocks: "#filter emptyLines"
   switches it on, "#unfilter emptyLines" off; a run of newlines (with the newline ending the
   line before it) is ONE Whitespace entry when it is a single newline or the filter is on,
   and ONE Junk entry otherwise, and always at offset 0. *)
Theorem C02_blocks_inc : forall bs : list C02BlocksInc.nblock,
  Forall C02BlocksInc.legal_nblock bs -> C02BlocksInc.nadjacent_ok bs ->
  walk_defines (C02BlocksInc.nfile_text bs) = Ok (C02BlocksInc.nentries_of bs).
Proof. exact C02BlocksInc.blocks_inc. Qed.

(* the entities are exactly the records (KEY, VALUE or none, attached comment), the comment
   entries the comment blocks, the instruction entries the instruction texts, in order, and
   every Junk entry is a run of newlines:
     nviews s es bs :=
       map (entity_nrecord s) (filter (is_kind KEntity) es) = nrecords_of bs /\
       map (fun e => span_text s (e_span e)) (filter (is_kind KComment) es) = ncomments_of bs /\
       map (fun e => opt_text s (e_val e)) (filter (is_kind KInstruction) es) = ninstrs_of bs /\
       forallb (fun e => all_nl (span_text s (e_span e))) (filter (is_kind KJunk) es) = true *)
Theorem C02_roundtrip_inc_multi : forall bs : list C02BlocksInc.nblock,
  Forall C02BlocksInc.legal_nblock bs -> C02BlocksInc.nadjacent_ok bs ->
  exists es, walk_defines (C02BlocksInc.nfile_text bs) = Ok es /\
             C02BlocksInc.nviews (C02BlocksInc.nfile_text bs) es bs.
Proof. exact C02BlocksInc.roundtrip_inc_multi. Qed.

(* [nblanks_ok false true bs]: the file does not start with an empty line and every run of
   empty lines lies where the filter is on (computed from the instructions in the blocks):
   then there is NO junk *)
Theorem C02_roundtrip_inc_nojunk : forall bs : list C02BlocksInc.nblock,
  Forall C02BlocksInc.legal_nblock bs -> C02BlocksInc.nadjacent_ok bs ->
  C02BlocksInc.nblanks_ok false true bs = true ->
  exists es, walk_defines (C02BlocksInc.nfile_text bs) = Ok es /\
             C02BlocksInc.nviews (C02BlocksInc.nfile_text bs) es bs /\
             filter (C02BlocksInc.is_kind KJunk) es = [].
Proof. exact C02BlocksInc.roundtrip_inc_nojunk. Qed.

(*  # s / #    #filter emptyLines  <1 empty line>  #define k v w  <2 empty lines>
    # c / #define<tab>k2   #unfilter emptyLines   #define k v w  <1 empty line: junk now>
    # c / #define<tab>k2   #inc <blank,tab>x.y   # s / #   <1 empty line: junk>   #define  _1<tab>  *)
Example C02_blocks_inc_example :
  let bs := [C02BlocksInc.nx_c; C02BlocksInc.nx_filter; C02BlocksInc.nx_b1; C02BlocksInc.nx_e1; C02BlocksInc.nx_b2; C02BlocksInc.nx_e2;
             C02BlocksInc.nx_unfilter; C02BlocksInc.nx_e1; C02BlocksInc.nx_b1; C02BlocksInc.nx_e2; C02BlocksInc.nx_incl; C02BlocksInc.nx_c;
             C02BlocksInc.nx_b1; C02BlocksInc.nx_e3] in
  Forall C02BlocksInc.legal_nblock bs /\ C02BlocksInc.nadjacent_ok bs /\
  C02BlocksInc.nblanks_ok false true bs = false /\
  map (fun e => (e_kind e, e_span e)) (C02BlocksInc.nentries_of bs) =
  [(KComment, (0, 6)); (KWhitespace, (6, 7)); (KInstruction, (7, 25)); (KWhitespace, (25, 27));
   (KEntity, (27, 40)); (KWhitespace, (40, 43)); (KEntity, (47, 57)); (KWhitespace, (57, 58));
   (KInstruction, (58, 78)); (KWhitespace, (78, 79)); (KEntity, (79, 92)); (KJunk, (92, 94));
   (KEntity, (98, 108)); (KWhitespace, (108, 109)); (KInstruction, (109, 118));
   (KWhitespace, (118, 119)); (KComment, (119, 125)); (KJunk, (125, 127)); (KEntity, (127, 139))].
Proof. split; [repeat constructor|]. split; [vm_compute; reflexivity|]. split; vm_compute; reflexivity. Qed.

(* ---- junk regions for .inc (Proofs/C02BlocksIncJunk.v) --------------------------------------------
   The blocks of C02_blocks_inc plus garbage regions [NJG g]: any nonempty text without "#" that
   does not start with a newline.  A region is followed by the end of the file, comment lines, an
   instruction or an entity, ends with a newline unless it is last, and does not directly follow a
   standalone comment ([jnadjacent_ok]).  The walk yields ONE Junk entry per region, covering
   exactly the region; the filter state passes through a region unchanged. *)
Theorem C02_blocks_inc_junk : forall bs : list C02BlocksIncJunk.jnblock,
  Forall C02BlocksIncJunk.legal_jnblock bs -> C02BlocksIncJunk.jnadjacent_ok bs ->
  walk_defines (C02BlocksIncJunk.jnfile_text bs) = Ok (C02BlocksIncJunk.jnentries_of bs).
Proof. exact C02BlocksIncJunk.blocks_inc_junk. Qed.

(* the entities are exactly the records, the standalone comments the comment blocks, the
   instructions the instruction blocks, and the texts of the Junk entries that are not runs of
   newlines (those come from the empty-line rule of the format) are, one for one and in order,
   exactly the garbage regions *)
Theorem C02_roundtrip_inc_junk : forall bs : list C02BlocksIncJunk.jnblock,
  Forall C02BlocksIncJunk.legal_jnblock bs -> C02BlocksIncJunk.jnadjacent_ok bs ->
  let s := C02BlocksIncJunk.jnfile_text bs in
  exists es, walk_defines s = Ok es /\
    (map (C02BlocksInc.entity_nrecord s) (filter (C02BlocksInc.is_kind KEntity) es) =
       C02BlocksIncJunk.jnrecords_of bs /\
     map (fun e => C02BlocksInc.span_text s (e_span e)) (filter (C02BlocksInc.is_kind KComment) es) =
       C02BlocksIncJunk.jncomments_of bs /\
     map (fun e => C02BlocksInc.opt_text s (e_val e)) (filter (C02BlocksInc.is_kind KInstruction) es) =
       C02BlocksIncJunk.jninstrs_of bs) /\
    filter (fun t => negb (C02BlocksInc.all_nl t))
           (map (fun e => C02BlocksInc.span_text s (e_span e)) (filter (C02BlocksInc.is_kind KJunk) es)) =
      C02BlocksIncJunk.jngarbage_of bs.
Proof. exact C02BlocksIncJunk.roundtrip_inc_junk. Qed.

(* one garbage region inserted between two legal block lists: every record, comment and
   instruction of both lists is recovered unchanged, in order; the only Junk entry that is not a
   run of newlines is the region, and the entry with exactly the span of the region is there *)
Theorem C02_junk_inc : forall (bs1 : list C02BlocksInc.nblock) (g : str) (bs2 : list C02BlocksInc.nblock),
  Forall C02BlocksInc.legal_nblock bs1 -> C02BlocksIncJunk.legal_ngarbage g = true ->
  Forall C02BlocksInc.legal_nblock bs2 ->
  C02BlocksIncJunk.jnadjacent_ok (C02BlocksIncJunk.nwith_garbage bs1 g bs2) ->
  let s := C02BlocksInc.nfile_text bs1 ++ g ++ C02BlocksInc.nfile_text bs2 in
  let p := length (C02BlocksInc.nfile_text bs1) in
  exists es, walk_defines s = Ok es /\
    map (C02BlocksInc.entity_nrecord s) (filter (C02BlocksInc.is_kind KEntity) es) =
      C02BlocksInc.nrecords_of bs1 ++ C02BlocksInc.nrecords_of bs2 /\
    map (fun e => C02BlocksInc.span_text s (e_span e)) (filter (C02BlocksInc.is_kind KComment) es) =
      C02BlocksInc.ncomments_of bs1 ++ C02BlocksInc.ncomments_of bs2 /\
    map (fun e => C02BlocksInc.opt_text s (e_val e)) (filter (C02BlocksInc.is_kind KInstruction) es) =
      C02BlocksInc.ninstrs_of bs1 ++ C02BlocksInc.ninstrs_of bs2 /\
    C02BlocksIncJunk.junk_texts s es = [g] /\ In (mk_junk (p, p + length g)) es /\
    slice s p (p + length g) = g.
Proof. exact C02BlocksIncJunk.inc_junk_one_region. Qed.

(*  #define k v w / garb, <empty line>, "x y" / # c, #define<tab>k2 / #inc  x.y : the premises hold,
    the region is at offsets 14..24; and a longer file with a filter instruction and three
    regions (the last without final newline), by evaluation *)
Example C02_junk_inc_example :
  let A := C02BlocksInc.A in
  let g := A [103; 97; 114; 98; 10; 10; 120; 32; 121; 10] in
  let bs1 := [C02BlocksInc.nx_e1] in let bs2 := [C02BlocksInc.nx_e2; C02BlocksInc.nx_incl] in
  Forall C02BlocksInc.legal_nblock bs1 /\ C02BlocksIncJunk.legal_ngarbage g = true /\
  Forall C02BlocksInc.legal_nblock bs2 /\
  C02BlocksIncJunk.jnadjacent_ok (C02BlocksIncJunk.nwith_garbage bs1 g bs2) /\
  length (C02BlocksInc.nfile_text bs1) = 14 /\ length g = 10 /\
  let NJB := C02BlocksIncJunk.NJB in let NJG := C02BlocksIncJunk.NJG in
  let bs := [NJB C02BlocksInc.nx_e1; C02BlocksIncJunk.njx_g; NJB C02BlocksInc.nx_e2; NJB C02BlocksInc.nx_filter;
             NJB C02BlocksInc.nx_b1; NJG (A [106; 10]); NJB C02BlocksInc.nx_incl; NJG (A [116; 97; 105; 108])] in
  Forall C02BlocksIncJunk.legal_jnblock bs /\ C02BlocksIncJunk.jnadjacent_ok bs /\
  filter (C02BlocksInc.is_kind KJunk) (C02BlocksIncJunk.jnentries_of bs) =
    [mk_junk (14, 24); mk_junk (59, 61); mk_junk (71, 75)].
Proof.
  split; [repeat constructor|]. split; [reflexivity|]. split; [repeat constructor|].
  split; [vm_compute; reflexivity|]. split; [reflexivity|]. split; [reflexivity|].
  split; [repeat constructor|]. split; vm_compute; reflexivity.
Qed.

(* ---- junk regions in .properties ("exactly the garbage is junk") ----------------------------
   Proofs/C02BlocksJunk.v.  A [jblock] is a block of C02_blocks_properties or a garbage region
   [JG gl]: lines (each ended by a newline) that contain none of "=" ":" "#" "!", the first of
   which starts with a non-whitespace character ([legal_garbage], boolean).  [jadjacent_ok]:
   as before, and a garbage region is followed by the end of the file, a comment or an entity
   (blank lines and further garbage lines are lines of the same region) and is not directly
   preceded by a standalone comment block.  [jentries_of] = the entries of the blocks with ONE
   Junk entry per region, covering exactly that region.  Any number of regions. *)
Theorem C02_blocks_properties_junk : forall bs : list C02BlocksJunk.jblock,
  Forall C02BlocksJunk.legal_jblock bs -> C02BlocksJunk.jadjacent_ok bs ->
  walk_properties (C02BlocksJunk.jfile_text bs) = Ok (C02BlocksJunk.jentries_of bs).
Proof. exact C02BlocksJunk.blocks_properties_junk. Qed.

(* one garbage region inserted between two legal block lists: every record and every
   standalone comment of both lists is recovered unchanged, in order, and there is exactly ONE
   Junk entry; its span starts where the text of the first list ends and covers exactly the
   garbage *)
Theorem C02_junk_properties : forall (bs1 : list C02Blocks.block) (gl : list str) (bs2 : list C02Blocks.block),
  Forall C02Blocks.legal_block bs1 -> C02BlocksJunk.legal_garbage gl = true ->
  Forall C02Blocks.legal_block bs2 ->
  C02BlocksJunk.jadjacent_ok (C02BlocksJunk.with_garbage bs1 gl bs2) ->
  let s := C02Blocks.file_text bs1 ++ C02BlocksJunkRx.gtext gl ++ C02Blocks.file_text bs2 in
  let p := length (C02Blocks.file_text bs1) in
  exists es, walk_properties s = Ok es /\
    map (C02Blocks.entity_record s) (filter (C02Blocks.is_kind KEntity) es) =
      C02Blocks.records_of bs1 ++ C02Blocks.records_of bs2 /\
    map (fun e => C02Blocks.span_text s (e_span e)) (filter (C02Blocks.is_kind KComment) es) =
      C02Blocks.comments_of bs1 ++ C02Blocks.comments_of bs2 /\
    filter (C02Blocks.is_kind KJunk) es = [mk_junk (p, p + length (C02BlocksJunkRx.gtext gl))] /\
    slice s p (p + length (C02BlocksJunkRx.gtext gl)) = C02BlocksJunkRx.gtext gl.
Proof. exact C02BlocksJunk.junk_one_region. Qed.

(*  k=v / garb, <empty line>, " x y" / #c1 !c2 "a b = x y" / k=v : the premises hold, the region
    is at offsets 4..15; and a longer file with three regions, by evaluation *)
Example C02_junk_properties_example :
  let A := C02Blocks.A in
  let gl := [A [103; 97; 114; 98]; []; A [32; 120; 32; 121]] in
  Forall C02Blocks.legal_block [C02Blocks.ex_e1] /\ C02BlocksJunk.legal_garbage gl = true /\
  Forall C02Blocks.legal_block [C02Blocks.ex_e2; C02Blocks.ex_e1] /\
  C02BlocksJunk.jadjacent_ok (C02BlocksJunk.with_garbage [C02Blocks.ex_e1] gl [C02Blocks.ex_e2; C02Blocks.ex_e1]) /\
  length (C02Blocks.file_text [C02Blocks.ex_e1]) = 4 /\ length (C02BlocksJunkRx.gtext gl) = 11 /\
  let bs := [C02BlocksJunk.JB C02Blocks.ex_e1; C02BlocksJunk.jx_g; C02BlocksJunk.JB C02Blocks.ex_c;
             C02BlocksJunk.JB C02Blocks.ex_b; C02BlocksJunk.JB C02Blocks.ex_e3; C02BlocksJunk.JG [A [106]];
             C02BlocksJunk.JB C02Blocks.ex_e2; C02BlocksJunk.JG [A [122]; []]] in
  Forall C02BlocksJunk.legal_jblock bs /\ C02BlocksJunk.jadjacent_ok bs /\
  map (fun e => (e_kind e, e_span e)) (C02BlocksJunk.jentries_of bs) =
  [(KEntity, (0, 3)); (KWhitespace, (3, 4)); (KJunk, (4, 15)); (KComment, (15, 20));
   (KWhitespace, (20, 22)); (KEntity, (22, 38)); (KWhitespace, (38, 39)); (KJunk, (39, 41));
   (KEntity, (49, 58)); (KWhitespace, (58, 59)); (KJunk, (59, 62))].
Proof.
  split; [repeat constructor|]. split; [reflexivity|]. split; [repeat constructor|].
  split; [vm_compute; reflexivity|]. split; [reflexivity|]. split; [reflexivity|].
  split; [repeat constructor|]. split; vm_compute; reflexivity.
Qed.

(* ---- .properties, the remaining layouts (Proofs/C02BlocksPropsX.v) -----------------------------------
   One block grammar for everything above and, in addition: blanks, tabs and carriage returns
   between a value and its newline (CRLF files); indentation between an attached comment and its
   key; a last standalone comment without its newline; a garbage region at the end of the file
   whose last line has no newline ([XGarbageEof gl lg]).  Blocks: [XBlank w], [XComment cs nl],
   [XEntity cs iw key b1 sc b2 conts lastl tb nl] (attached comment lines, indentation, key,
   separator, value lines, trailing blanks, newline), [XGarbage gl]; [legal_xblock] and
   [xadjacent_ok] are the decidable premises (as for C02_blocks_properties and
   C02_blocks_properties_junk; a value followed by blanks is still a value that does not end
   in a blank, and an empty value is not followed by a blank or tab, which the key expression
   would take).  The trailing blanks are not part of the value: with the newline and the
   whitespace blocks after it they are ONE whitespace entry; the indentation belongs to the inner
   whitespace of the entity. *)
Theorem C02_blocks_properties_x : forall bs : list C02BlocksPropsX.xblock,
  Forall C02BlocksPropsX.legal_xblock bs -> C02BlocksPropsX.xadjacent_ok bs ->
  walk_properties (C02BlocksPropsX.xfile_text bs) = Ok (C02BlocksPropsX.xentries_of bs).
Proof. exact C02BlocksPropsX.blocks_properties_x. Qed.

(* the entities are exactly the records (key, raw value without the trailing blanks, attached
   comment), the standalone comments the comment blocks, the Junk entries the garbage regions *)
Theorem C02_roundtrip_properties_x : forall bs : list C02BlocksPropsX.xblock,
  Forall C02BlocksPropsX.legal_xblock bs -> C02BlocksPropsX.xadjacent_ok bs ->
  let s := C02BlocksPropsX.xfile_text bs in
  exists es, walk_properties s = Ok es /\
    map (C02Blocks.entity_record s) (filter (C02Blocks.is_kind KEntity) es) =
      C02BlocksPropsX.xrecords_of bs /\
    map (fun e => C02Blocks.span_text s (e_span e)) (filter (C02Blocks.is_kind KComment) es) =
      C02BlocksPropsX.xcomments_of bs /\
    map (fun e => C02Blocks.span_text s (e_span e)) (filter (C02Blocks.is_kind KJunk) es) =
      C02BlocksPropsX.xgarbage_of bs.
Proof. exact C02BlocksPropsX.roundtrip_properties_x. Qed.

(* the earlier block grammars are the special case without indentation and trailing blanks *)
Theorem C02_properties_x_embeds : forall bs : list C02BlocksJunk.jblock,
  C02BlocksPropsX.xfile_text (map C02BlocksPropsX.x_of_jblock bs) = C02BlocksJunk.jfile_text bs.
Proof. exact C02BlocksPropsX.x_of_jblock_text. Qed.

(*  k=v CR LF / #c, <2 blanks>a b = x y<blank><tab> / <empty line> / # s, # / CR LF / k=v CR LF /
    garbage / #c, indented entity / a last comment without newline: the premises hold, the walk
    gives these kinds and spans; and a file that ends in  k : a\ / b<blank>  without newline  *)
Example C02_blocks_properties_x_example :
  let A := C02Blocks.A in
  let bs := [C02BlocksPropsX.xx_e1; C02BlocksPropsX.xx_e2; C02BlocksPropsX.XBlank (A [10]); C02BlocksPropsX.xx_c;
             C02BlocksPropsX.XBlank (A [13; 10]); C02BlocksPropsX.xx_e1; C02BlocksPropsX.xx_g;
             C02BlocksPropsX.xx_e2; C02BlocksPropsX.xx_c0] in
  Forall C02BlocksPropsX.legal_xblock bs /\ C02BlocksPropsX.xadjacent_ok bs /\
  map (fun e => (e_kind e, e_span e)) (C02BlocksPropsX.xentries_of bs) =
  [(KEntity, (0, 3)); (KWhitespace, (3, 5)); (KEntity, (10, 19)); (KWhitespace, (19, 23));
   (KComment, (23, 28)); (KWhitespace, (28, 31)); (KEntity, (31, 34)); (KWhitespace, (34, 36));
   (KJunk, (36, 47)); (KEntity, (52, 61)); (KWhitespace, (61, 64)); (KComment, (64, 70))] /\
  C02BlocksPropsX.xrecords_of bs =
    [(A [107], A [118], None); (A [97; 32; 98], A [120; 32; 121], Some (A [35; 99]));
     (A [107], A [118], None); (A [97; 32; 98], A [120; 32; 121], Some (A [35; 99]))] /\
  let bs2 := [C02BlocksPropsX.xx_c; C02BlocksPropsX.XBlank (A [10]); C02BlocksPropsX.xx_e3] in
  Forall C02BlocksPropsX.legal_xblock bs2 /\ C02BlocksPropsX.xadjacent_ok bs2 /\
  let bs3 := [C02BlocksPropsX.xx_e1; C02BlocksPropsX.XBlank (A [10]);
              C02BlocksPropsX.XGarbageEof [A [103]; []] (A [32; 120])] in
  Forall C02BlocksPropsX.legal_xblock bs3 /\ C02BlocksPropsX.xadjacent_ok bs3 /\
  map (fun e => (e_kind e, e_span e)) (C02BlocksPropsX.xentries_of bs3) =
  [(KEntity, (0, 3)); (KWhitespace, (3, 6)); (KJunk, (6, 11))].
Proof.
  split; [repeat constructor|]. split; [vm_compute; reflexivity|]. split; [vm_compute; reflexivity|].
  split; [reflexivity|]. split; [repeat constructor|]. split; [vm_compute; reflexivity|].
  split; [repeat constructor|]. split; vm_compute; reflexivity.
Qed.

(* ---- junk regions for .ini (Proofs/C02BlocksIniJunk.v) --------------------------------------------
   The blocks of C02_blocks_ini plus garbage regions [IJG gl]: lines, each ended by a newline,
   without "=" and "[" that do not start with ";" or "#", the first of which starts with a
   non-whitespace character.  A region is followed by the end of the file, a comment, a section
   header or an entity, and does not directly follow a standalone comment ([ijadjacent_ok]).
   The walk yields ONE Junk entry per region, covering exactly the region. *)
Theorem C02_blocks_ini_junk : forall bs : list C02BlocksIniJunk.ijblock,
  Forall C02BlocksIniJunk.legal_ijblock bs -> C02BlocksIniJunk.ijadjacent_ok bs ->
  walk_ini (C02BlocksIniJunk.ijfile_text bs) = Ok (C02BlocksIniJunk.ijentries_of bs).
Proof. exact C02BlocksIniJunk.blocks_ini_junk. Qed.

(* the entities are exactly the records, the standalone comments the comment blocks, the
   sections the section headers, and the texts of the Junk entries are, one for one and in
   order, exactly the garbage regions *)
Theorem C02_roundtrip_ini_junk : forall bs : list C02BlocksIniJunk.ijblock,
  Forall C02BlocksIniJunk.legal_ijblock bs -> C02BlocksIniJunk.ijadjacent_ok bs ->
  exists es, walk_ini (C02BlocksIniJunk.ijfile_text bs) = Ok es /\
    map (C02BlocksIni.entity_record (C02BlocksIniJunk.ijfile_text bs))
        (filter (C02BlocksIni.is_kind KEntity) es) = C02BlocksIniJunk.ijrecords_of bs /\
    map (fun e => C02BlocksIni.span_text (C02BlocksIniJunk.ijfile_text bs) (e_span e))
        (filter (C02BlocksIni.is_kind KComment) es) = C02BlocksIniJunk.ijcomments_of bs /\
    map (fun e => C02BlocksIni.opt_text (C02BlocksIniJunk.ijfile_text bs) (e_val e))
        (filter (C02BlocksIni.is_kind KSection) es) = C02BlocksIniJunk.ijsections_of bs /\
    map (fun e => C02BlocksIni.span_text (C02BlocksIniJunk.ijfile_text bs) (e_span e))
        (filter (C02BlocksIni.is_kind KJunk) es) = C02BlocksIniJunk.ijgarbage_of bs.
Proof. exact C02BlocksIniJunk.roundtrip_ini_junk. Qed.

(* one garbage region inserted between two legal block lists: every record, comment and section
   header of both lists is recovered unchanged, in order, and there is exactly ONE Junk entry;
   its span starts where the text of the first list ends and covers exactly the garbage *)
Theorem C02_junk_ini : forall (bs1 : list C02BlocksIni.iblock) (gl : list str) (bs2 : list C02BlocksIni.iblock),
  Forall C02BlocksIni.legal_iblock bs1 -> C02BlocksIniJunk.legal_igarbage gl = true ->
  Forall C02BlocksIni.legal_iblock bs2 ->
  C02BlocksIniJunk.ijadjacent_ok (C02BlocksIniJunk.iwith_garbage bs1 gl bs2) ->
  let s := C02BlocksIni.ifile_text bs1 ++ C02BlocksIniJunk.igtext gl ++ C02BlocksIni.ifile_text bs2 in
  let p := length (C02BlocksIni.ifile_text bs1) in
  exists es, walk_ini s = Ok es /\
    map (C02BlocksIni.entity_record s) (filter (C02BlocksIni.is_kind KEntity) es) =
      C02BlocksIni.irecords_of bs1 ++ C02BlocksIni.irecords_of bs2 /\
    map (fun e => C02BlocksIni.span_text s (e_span e)) (filter (C02BlocksIni.is_kind KComment) es) =
      C02BlocksIni.icomments_of bs1 ++ C02BlocksIni.icomments_of bs2 /\
    map (fun e => C02BlocksIni.opt_text s (e_val e)) (filter (C02BlocksIni.is_kind KSection) es) =
      C02BlocksIni.isections_of bs1 ++ C02BlocksIni.isections_of bs2 /\
    filter (C02BlocksIni.is_kind KJunk) es = [mk_junk (p, p + length (C02BlocksIniJunk.igtext gl))] /\
    slice s p (p + length (C02BlocksIniJunk.igtext gl)) = C02BlocksIniJunk.igtext gl.
Proof. exact C02BlocksIniJunk.ini_junk_one_region. Qed.

(*  [Str] / k=v / garb, <empty line>, " x;y" / ;c #d "a b = x ; y" / k2= : the premises hold, the
    region is at offsets 10..21; and a longer file with three regions, by evaluation *)
Example C02_junk_ini_example :
  let A := C02BlocksIni.A in
  let gl := [A [103; 97; 114; 98]; []; A [32; 120; 59; 121]] in
  let bs1 := [C02BlocksIni.ix_sec; C02BlocksIni.ix_e1] in
  let bs2 := [C02BlocksIni.ix_e2; C02BlocksIni.ix_e3] in
  Forall C02BlocksIni.legal_iblock bs1 /\ C02BlocksIniJunk.legal_igarbage gl = true /\
  Forall C02BlocksIni.legal_iblock bs2 /\
  C02BlocksIniJunk.ijadjacent_ok (C02BlocksIniJunk.iwith_garbage bs1 gl bs2) /\
  length (C02BlocksIni.ifile_text bs1) = 10 /\ length (C02BlocksIniJunk.igtext gl) = 11 /\
  let IJB := C02BlocksIniJunk.IJB in
  let bs := [IJB C02BlocksIni.ix_sec; IJB C02BlocksIni.ix_e1; C02BlocksIniJunk.ijx_g; IJB C02BlocksIni.ix_e2;
             C02BlocksIniJunk.IJG [A [106]]; IJB C02BlocksIni.ix_sec; IJB C02BlocksIni.ix_b;
             IJB C02BlocksIni.ix_c; IJB C02BlocksIni.ix_b; C02BlocksIniJunk.IJG [A [122]; []]] in
  Forall C02BlocksIniJunk.legal_ijblock bs /\ C02BlocksIniJunk.ijadjacent_ok bs /\
  map (fun e => (e_kind e, e_span e)) (C02BlocksIniJunk.ijentries_of bs) =
  [(KSection, (0, 5)); (KWhitespace, (5, 6)); (KEntity, (6, 9)); (KWhitespace, (9, 10));
   (KJunk, (10, 21)); (KEntity, (27, 38)); (KWhitespace, (38, 39)); (KJunk, (39, 41));
   (KSection, (41, 46)); (KWhitespace, (46, 48)); (KComment, (48, 53)); (KWhitespace, (53, 55));
   (KJunk, (55, 58))].
Proof.
  split; [repeat constructor|]. split; [reflexivity|]. split; [repeat constructor|].
  split; [vm_compute; reflexivity|]. split; [reflexivity|]. split; [reflexivity|].
  split; [repeat constructor|]. split; vm_compute; reflexivity.
Qed.

(* ---- the block theorem for .dtd (Proofs/C02BlocksDtd.v, C02BlocksDtdRx.v, C02BlocksDtdPeRx.v) ----
   Blocks: whitespace runs, standalone comments <!-- ... -->, entity declarations
   <!ENTITY key "value"> with an optional attached comment, and parameter-entity
   declarations with their reference; [legal_block] / [adjacent_ok] are the decidable
   predicates defined there (separation of comments, the License rule below offset 2,
   what may follow a parameter-entity reference); the _bom variants are for files that
   start with a byte-order mark. *)
Theorem C02_blocks_dtd : forall bs : list C02BlocksDtd.block,
  Forall C02BlocksDtd.legal_block bs -> C02BlocksDtd.adjacent_ok bs ->
  walk_dtd (C02BlocksDtd.file_text bs) = Ok (C02BlocksDtd.entries_of bs).
Proof. exact C02BlocksDtd.blocks_dtd. Qed.

Theorem C02_blocks_dtd_bom : forall (mark : bool) (bs : list C02BlocksDtd.block),
  Forall C02BlocksDtd.legal_block bs -> C02BlocksDtd.adjacent_ok_bom mark bs ->
  walk_dtd (C02BlocksDtd.file_text_bom mark bs) = Ok (C02BlocksDtd.entries_of_bom mark bs).
Proof. exact C02BlocksDtd.blocks_dtd_bom. Qed.

Theorem C02_roundtrip_dtd_multi : forall bs : list C02BlocksDtd.block,
  Forall C02BlocksDtd.legal_block bs -> C02BlocksDtd.adjacent_ok bs ->
  exists es, walk_dtd (C02BlocksDtd.file_text bs) = Ok es /\
    map (C02Blocks.entity_record (C02BlocksDtd.file_text bs)) (filter (C02Blocks.is_kind KEntity) es) =
      C02BlocksDtd.records_of bs /\
    map (fun e => C02Blocks.span_text (C02BlocksDtd.file_text bs) (e_span e))
        (filter (C02Blocks.is_kind KComment) es) = C02BlocksDtd.comments_of bs /\
    filter (C02Blocks.is_kind KJunk) es = [].
Proof. exact C02BlocksDtd.C02_roundtrip_dtd_multi. Qed.

Theorem C02_roundtrip_dtd_multi_bom : forall bs : list C02BlocksDtd.block,
  Forall C02BlocksDtd.legal_block bs -> C02BlocksDtd.adjacent_ok_bom true bs -> bs <> [] ->
  let s := C02BlocksDtd.file_text_bom true bs in
  exists es, walk_dtd s = Ok es /\
    map (C02Blocks.entity_record s) (filter (C02Blocks.is_kind KEntity) es) = C02BlocksDtd.records_of bs /\
    map (fun e => C02Blocks.span_text s (e_span e)) (filter (C02Blocks.is_kind KComment) es) =
      C02BlocksDtd.comments_of bs /\
    filter (C02Blocks.is_kind KJunk) es = [].
Proof. exact C02BlocksDtd.C02_roundtrip_dtd_multi_bom. Qed.

(* the premises hold of a file with all block kinds (an entity with attached comment, bare
   entities, a standalone comment, whitespace), by evaluation *)
Example C02_blocks_dtd_example :
  let bs := [C02BlocksDtd.ex_e1; C02BlocksDtd.ex_b; C02BlocksDtd.ex_e2; C02BlocksDtd.ex_b2;
             C02BlocksDtd.ex_c; C02BlocksDtd.ex_b2; C02BlocksDtd.ex_e1] in
  Forall C02BlocksDtd.legal_block bs /\ C02BlocksDtd.adjacent_ok bs /\
  walk_dtd (C02BlocksDtd.file_text bs) = Ok (C02BlocksDtd.entries_of bs) /\
  length (C02BlocksDtd.records_of bs) = 3.
Proof.
  destruct C02BlocksDtd.ex_dtd_blocks as [H1 [H2 [H3 _]]]. split; [exact H1|]. split; [exact H2|].
  split; [exact H3|]. reflexivity.
Qed.

(* ---- junk regions for .dtd (Proofs/C02BlocksDtdJunk.v) --------------------------------------------
   The blocks of C02_blocks_dtd plus garbage regions [JG g]: any nonempty text that does not start
   with whitespace or a byte order mark and in which "<" is never directly followed by "!" (stray
   tags, text, references, brackets; whitespace after the first character is part of the region).
   A region is followed by the end of the file, a comment or an entity declaration
   ([jadjacent_ok]; the License rule is tracked through the region).  The walk yields ONE Junk
   entry per region, covering exactly the region.  Not covered: garbage that itself starts with
   <!ENTITY or <!-- (broken declarations). *)
Theorem C02_blocks_dtd_junk : forall bs : list C02BlocksDtdJunk.jblock,
  Forall C02BlocksDtdJunk.legal_jblock bs -> C02BlocksDtdJunk.jadjacent_ok bs ->
  walk_dtd (C02BlocksDtdJunk.jfile_text bs) = Ok (C02BlocksDtdJunk.jentries_of bs).
Proof. exact C02BlocksDtdJunk.blocks_dtd_junk. Qed.

Theorem C02_blocks_dtd_junk_bom : forall (mark : bool) (bs : list C02BlocksDtdJunk.jblock),
  Forall C02BlocksDtdJunk.legal_jblock bs -> C02BlocksDtdJunk.jadjacent_ok_bom mark bs ->
  walk_dtd (C02BlocksDtdJunk.jfile_text_bom mark bs) = Ok (C02BlocksDtdJunk.jentries_of_bom mark bs).
Proof. exact C02BlocksDtdJunk.blocks_dtd_junk_bom. Qed.

(* the entities are exactly the records, the standalone comments the comment blocks, and the
   texts of the Junk entries are, one for one and in order, exactly the garbage regions *)
Theorem C02_roundtrip_dtd_junk : forall bs : list C02BlocksDtdJunk.jblock,
  Forall C02BlocksDtdJunk.legal_jblock bs -> C02BlocksDtdJunk.jadjacent_ok bs ->
  exists es, walk_dtd (C02BlocksDtdJunk.jfile_text bs) = Ok es /\
    map (C02Blocks.entity_record (C02BlocksDtdJunk.jfile_text bs)) (filter (C02Blocks.is_kind KEntity) es) =
      C02BlocksDtdJunk.jrecords_of bs /\
    map (fun e => C02Blocks.span_text (C02BlocksDtdJunk.jfile_text bs) (e_span e))
        (filter (C02Blocks.is_kind KComment) es) = C02BlocksDtdJunk.jcomments_of bs /\
    map (fun e => C02Blocks.span_text (C02BlocksDtdJunk.jfile_text bs) (e_span e))
        (filter (C02Blocks.is_kind KJunk) es) = C02BlocksDtdJunk.jgarbage_of bs.
Proof. exact C02BlocksDtdJunk.roundtrip_dtd_junk. Qed.

(* one garbage region inserted between two legal block lists: every record and every standalone
   comment of both lists is recovered unchanged, in order, and there is exactly ONE Junk entry;
   its span starts where the text of the first list ends and covers exactly the garbage *)
Theorem C02_junk_dtd : forall (bs1 : list C02BlocksDtd.block) (g : str) (bs2 : list C02BlocksDtd.block),
  Forall C02BlocksDtd.legal_block bs1 -> C02BlocksDtdJunk.legal_garbage g = true ->
  Forall C02BlocksDtd.legal_block bs2 ->
  C02BlocksDtdJunk.jadjacent_ok (C02BlocksDtdJunk.with_garbage bs1 g bs2) ->
  let s := C02BlocksDtd.file_text bs1 ++ g ++ C02BlocksDtd.file_text bs2 in
  let p := length (C02BlocksDtd.file_text bs1) in
  exists es, walk_dtd s = Ok es /\
    map (C02Blocks.entity_record s) (filter (C02Blocks.is_kind KEntity) es) =
      C02BlocksDtd.records_of bs1 ++ C02BlocksDtd.records_of bs2 /\
    map (fun e => C02Blocks.span_text s (e_span e)) (filter (C02Blocks.is_kind KComment) es) =
      C02BlocksDtd.comments_of bs1 ++ C02BlocksDtd.comments_of bs2 /\
    filter (C02Blocks.is_kind KJunk) es = [mk_junk (p, p + length g)] /\
    slice s p (p + length g) = g.
Proof. exact C02BlocksDtdJunk.dtd_junk_one_region. Qed.

(*  <!ENTITY a "b"> / "x<y> &amp; " / comment-with-entity, <!ENTITY a "b"> : the premises hold, the
    region is at offsets 15..26; and a longer file with three regions ("x<y> &amp; ", "]]>" and
    "<" newline at the end), by evaluation *)
Example C02_junk_dtd_example :
  let A := C02BlocksDtd.A in
  let g := A [120; 60; 121; 62; 32; 38; 97; 109; 112; 59; 32] in
  let bs1 := [C02BlocksDtd.ex_e1] in let bs2 := [C02BlocksDtd.ex_e2; C02BlocksDtd.ex_e1] in
  Forall C02BlocksDtd.legal_block bs1 /\ C02BlocksDtdJunk.legal_garbage g = true /\
  Forall C02BlocksDtd.legal_block bs2 /\
  C02BlocksDtdJunk.jadjacent_ok (C02BlocksDtdJunk.with_garbage bs1 g bs2) /\
  length (C02BlocksDtd.file_text bs1) = 15 /\ length g = 11 /\
  let JB := C02BlocksDtdJunk.JB in let JG := C02BlocksDtdJunk.JG in
  let bs := [JB C02BlocksDtd.ex_e1; C02BlocksDtdJunk.jx_g; JB C02BlocksDtd.ex_e2; JB C02BlocksDtd.ex_b;
             JB C02BlocksDtd.ex_c; JG (A [93; 93; 62]); JB C02BlocksDtd.ex_e1; JG (A [60; 10])] in
  Forall C02BlocksDtdJunk.legal_jblock bs /\ C02BlocksDtdJunk.jadjacent_ok bs /\
  filter (C02Blocks.is_kind KJunk) (C02BlocksDtdJunk.jentries_of bs) =
    [mk_junk (15, 26); mk_junk (87, 90); mk_junk (105, 107)].
Proof.
  split; [repeat constructor|]. split; [reflexivity|]. split; [repeat constructor|].
  split; [vm_compute; reflexivity|]. split; [reflexivity|]. split; [reflexivity|].
  split; [repeat constructor|]. split; vm_compute; reflexivity.
Qed.

(* ---- the block theorem for .po ---------------------------------------------------------------
   Proofs/C02BlocksPoRx.v, C02BlocksPo.v, C02BlocksPoVal.v.  A [pblock] is a run of whitespace, a
   standalone comment (lines #...), or a message: optional comment lines, optional whitespace
   with at most ONE newline, then [msgctxt items ws] msgid items ws msgstr items, where items is
   a non-empty list of (leading whitespace, tokens) printed as  ws* quote tokens quote  with the
   token grammar of C02_unescape_po.  [padjacent_ok]: a standalone comment block is followed by
   the end of the file or by a whitespace block with at least TWO newlines (the premise that
   excludes the listed finding po-comment-attached-across-one-blank-line: C02_po_one_blank_line
   shows it is needed); a message with comment lines below offset 2 does not have "License"
   in them.  [pentries_of]: entity span from the first keyword to the closing quote of the last
   msgstr item, key span = msgctxt/msgid lists, value span = msgstr list, pre-comment, inner
   whitespace. *)
Theorem C02_blocks_po : forall bs : list C02BlocksPo.pblock,
  Forall C02BlocksPo.legal_pblock bs -> C02BlocksPo.padjacent_ok bs ->
  walk_po (C02BlocksPo.pfile_text bs) = Ok (C02BlocksPo.pentries_of bs).
Proof. exact C02BlocksPo.blocks_po. Qed.

(* every message is recovered with its VALUES: [po_value_at] (Model/Unescape.v: createEntity's
   string lists evaluated by eval_stringlist, i.e. PoEntity.key = (msgid, msgctxt) and the
   msgstr) gives the concatenated token meanings of the printed items, with the attached
   comment; the comment entries are the standalone comment blocks; there is NO junk:
     pviews s es bs :=
       map (fun e => (po_value_at s (fst (e_span e)), option_map (span_text' s) (e_pre e)))
           (filter (is_kind KEntity) es) = map (fun r => (Ok (fst r), snd r)) (precords_of bs) /\
       map (fun e => span_text' s (e_span e)) (filter (is_kind KComment) es) = pcomments_of bs /\
       filter (is_kind KJunk) es = []                                                        *)
Theorem C02_roundtrip_po_multi : forall bs : list C02BlocksPo.pblock,
  Forall C02BlocksPo.legal_pblock bs -> C02BlocksPo.padjacent_ok bs ->
  exists es, walk_po (C02BlocksPo.pfile_text bs) = Ok es /\
             C02BlocksPoVal.pviews (C02BlocksPo.pfile_text bs) es bs.
Proof. exact C02BlocksPoVal.roundtrip_po_multi. Qed.

(* a file with all block kinds: the premises hold; its messages with their values *)
Example C02_blocks_po_example :
  let A := C02BlocksPo.A in
  let bs := [C02BlocksPo.px_c; C02BlocksPo.px_b2; C02BlocksPo.px_e1; C02BlocksPo.px_b; C02BlocksPo.px_e2; C02BlocksPo.px_b2; C02BlocksPo.px_e3] in
  Forall C02BlocksPo.legal_pblock bs /\ C02BlocksPo.padjacent_ok bs /\
  C02BlocksPoVal.precords_of bs =
    [(mkpov (A [97]) None (A [98; 10; 99]), None);
     (mkpov (A [97; 34; 98]) (Some (A [120])) [], Some (A [35; 32; 99; 10; 35; 44; 32; 100; 10]));
     (mkpov (A [97]) None (A [98]), Some (A [35; 32; 99; 10]))].
Proof. split; [repeat constructor|]. split; [vm_compute; reflexivity|]. reflexivity. Qed.

(* ---- junk regions for .po (Proofs/C02BlocksPoJunk.v) ----------------------------------------------
   The blocks of C02_blocks_po plus garbage regions [PJG g]: any nonempty text without "#" in which
   "m" is never directly followed by "s" (neither msgctxt nor msgid starts inside it), not
   starting with whitespace or a double quote.  A region is followed by the end of the file, a
   comment or a message and does not directly follow a standalone comment ([pjadjacent_ok]; the
   License rule is tracked through the region).  The walk yields ONE Junk entry per region,
   covering exactly the region. *)
Theorem C02_blocks_po_junk : forall bs : list C02BlocksPoJunk.pjblock,
  Forall C02BlocksPoJunk.legal_pjblock bs -> C02BlocksPoJunk.pjadjacent_ok bs ->
  walk_po (C02BlocksPoJunk.pjfile_text bs) = Ok (C02BlocksPoJunk.pjentries_of bs).
Proof. exact C02BlocksPoJunk.blocks_po_junk. Qed.

(* every message is recovered with the values of its string lists and its attached comment,
   every standalone comment is a comment entry, and the texts of the Junk entries are, one for
   one and in order, exactly the garbage regions *)
Theorem C02_roundtrip_po_junk : forall bs : list C02BlocksPoJunk.pjblock,
  Forall C02BlocksPoJunk.legal_pjblock bs -> C02BlocksPoJunk.pjadjacent_ok bs ->
  let s := C02BlocksPoJunk.pjfile_text bs in
  exists es, walk_po s = Ok es /\
    map (fun e => (po_value_at s (fst (e_span e)), option_map (C02BlocksPoVal.span_text' s) (e_pre e)))
        (filter (C02BlocksPoVal.is_kind KEntity) es) =
      map (fun r => (Ok (fst r), snd r)) (C02BlocksPoJunk.pjrecords_of bs) /\
    map (fun e => C02BlocksPoVal.span_text' s (e_span e)) (filter (C02BlocksPoVal.is_kind KComment) es) =
      C02BlocksPoJunk.pjcomments_of bs /\
    map (fun e => C02BlocksPoVal.span_text' s (e_span e)) (filter (C02BlocksPoVal.is_kind KJunk) es) =
      C02BlocksPoJunk.pjgarbage_of bs.
Proof. exact C02BlocksPoJunk.roundtrip_po_junk. Qed.

(* one garbage region inserted between two legal block lists: every message (values, attached
   comment) and every standalone comment of both lists is recovered unchanged, in order, and
   there is exactly ONE Junk entry; its span starts where the text of the first list ends and
   covers exactly the garbage *)
Theorem C02_junk_po : forall (bs1 : list C02BlocksPo.pblock) (g : str) (bs2 : list C02BlocksPo.pblock),
  Forall C02BlocksPo.legal_pblock bs1 -> C02BlocksPoJunk.legal_pgarbage g = true ->
  Forall C02BlocksPo.legal_pblock bs2 ->
  C02BlocksPoJunk.pjadjacent_ok (C02BlocksPoJunk.pwith_garbage bs1 g bs2) ->
  let s := C02BlocksPo.pfile_text bs1 ++ g ++ C02BlocksPo.pfile_text bs2 in
  let p := length (C02BlocksPo.pfile_text bs1) in
  exists es, walk_po s = Ok es /\
    map (fun e => (po_value_at s (fst (e_span e)), option_map (C02BlocksPoVal.span_text' s) (e_pre e)))
        (filter (C02BlocksPoVal.is_kind KEntity) es) =
      map (fun r => (Ok (fst r), snd r))
          (C02BlocksPoVal.precords_of bs1 ++ C02BlocksPoVal.precords_of bs2) /\
    map (fun e => C02BlocksPoVal.span_text' s (e_span e)) (filter (C02BlocksPoVal.is_kind KComment) es) =
      C02BlocksPoVal.pcomments_of bs1 ++ C02BlocksPoVal.pcomments_of bs2 /\
    filter (C02BlocksPoVal.is_kind KJunk) es = [mk_junk (p, p + length g)] /\
    slice s p (p + length g) = g.
Proof. exact C02BlocksPoJunk.po_junk_one_region. Qed.

(*  message / "junk text" newline / message with comment, blank, message : the premises hold; and a
    longer file with three regions (the last without final newline), by evaluation *)
Example C02_junk_po_example :
  let A := C02BlocksPo.A in
  let g := A [106; 117; 110; 107; 32; 116; 101; 120; 116; 10] in
  let bs1 := [C02BlocksPo.px_e1] in let bs2 := [C02BlocksPo.px_e2; C02BlocksPo.px_b; C02BlocksPo.px_e3] in
  Forall C02BlocksPo.legal_pblock bs1 /\ C02BlocksPoJunk.legal_pgarbage g = true /\
  Forall C02BlocksPo.legal_pblock bs2 /\
  C02BlocksPoJunk.pjadjacent_ok (C02BlocksPoJunk.pwith_garbage bs1 g bs2) /\ length g = 10 /\
  let PJB := C02BlocksPoJunk.PJB in let PJG := C02BlocksPoJunk.PJG in
  let bs := [PJB C02BlocksPo.px_e1; C02BlocksPoJunk.pjx_g; PJB C02BlocksPo.px_e2; PJB C02BlocksPo.px_b2;
             PJB C02BlocksPo.px_c; PJB C02BlocksPo.px_b2; PJG (A [120; 32; 61; 32; 121; 10]);
             PJB C02BlocksPo.px_e1; PJG (A [116; 97; 105; 108])] in
  Forall C02BlocksPoJunk.legal_pjblock bs /\ C02BlocksPoJunk.pjadjacent_ok bs /\
  map (fun e => C02BlocksPoVal.span_text' (C02BlocksPoJunk.pjfile_text bs) (e_span e))
      (filter (C02BlocksPoVal.is_kind KJunk) (C02BlocksPoJunk.pjentries_of bs)) =
    [A [106; 117; 110; 107; 32; 116; 101; 120; 116; 10]; A [120; 32; 61; 32; 121; 10]; A [116; 97; 105; 108]].
Proof.
  split; [repeat constructor|]. split; [reflexivity|]. split; [repeat constructor|].
  split; [vm_compute; reflexivity|]. split; [reflexivity|].
  split; [repeat constructor|]. split; vm_compute; reflexivity.
Qed.

(* the separation premise is needed (the listed finding): a comment block, ONE blank line and a
   message do not parse as a standalone comment and a message -- the same text IS the message
   with its comment attached across the blank line *)
Example C02_po_one_blank_line :
  let A := C02BlocksPo.A in
  let msg := C02BlocksPo.PEntity [] [] None [C02BlocksPo.it [32] [PPlain 97%N]] (A [32])
                                 [C02BlocksPo.it [32] [PPlain 98%N]] in
  let bs := [C02BlocksPo.PComment [(35%N, A [32; 99])]; C02BlocksPo.px_b; msg] in
  Forall C02BlocksPo.legal_pblock bs /\ C02BlocksPo.padjacent_okb bs = false /\
  walk_po (C02BlocksPo.pfile_text bs) <> Ok (C02BlocksPo.pentries_of bs) /\
  C02BlocksPo.pfile_text bs = C02BlocksPo.pfile_text [C02BlocksPo.px_e3] /\
  C02BlocksPo.padjacent_ok [C02BlocksPo.px_e3] /\
  walk_po (C02BlocksPo.pfile_text [C02BlocksPo.px_e3]) = Ok (C02BlocksPo.pentries_of [C02BlocksPo.px_e3]).
Proof. exact C02BlocksPo.px_one_blank_line. Qed.

(* ---- stated, NOT PROVED ---------------------------------------------------------------------
   Still missing: garbage outside the stated region grammars (DTD garbage that starts with <!ENTITY or
   <!--, inc and po garbage with a # in it, po garbage containing "ms", ini garbage whose last
   line has no newline at the end of the file, properties/ini garbage that shares a line with
   what follows); Fluent and Android (library parsers: oracle only).  The executable counterpart of
   all of it is the oracle of harness/props/c02.py for all seven formats. *)
