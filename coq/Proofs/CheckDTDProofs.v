(* Lemmas about Model/CheckDTD.v: the name sets, the shape of check's output,
   the unknown-entity warnings, the number / length verdicts. *)
From Coq Require Import NArith ZArith List Bool Arith Lia.
From CL Require Import Base.Sx Base.Res Base.Str Regex.Rx Generated.RxC07 Generated.C07Facts
  Model.CSS Model.XmlContent Model.CheckDTD.
Import ListNotations.

(* ---- strings ---------------------------------------------------------------- *)
Lemma str_eqb_eq : forall a b : str, str_eqb a b = true <-> a = b.
Proof.
  unfold str_eqb. induction a as [|x a IH]; destruct b as [|y b]; simpl; split; intro H;
    try reflexivity; try discriminate.
  - apply andb_true_iff in H. destruct H as [H1 H2]. apply N.eqb_eq in H1. apply IH in H2. congruence.
  - inversion H; subst. apply andb_true_iff. split; [apply N.eqb_refl | apply IH; reflexivity].
Qed.

Lemma str_eqb_refl : forall a, str_eqb a a = true.
Proof. intro a. apply str_eqb_eq. reflexivity. Qed.

Lemma str_eqb_neq : forall a b : str, str_eqb a b = false <-> a <> b.
Proof.
  intros a b. split.
  - intros H E. apply str_eqb_eq in E. congruence.
  - intros H. destruct (str_eqb a b) eqn:E; [apply str_eqb_eq in E; contradiction | reflexivity].
Qed.

Lemma mem_str_In : forall x l, mem_str x l = true <-> In x l.
Proof.
  unfold mem_str. intros x l. rewrite existsb_exists. split.
  - intros [y [Hy E]]. apply str_eqb_eq in E. subst. exact Hy.
  - intros H. exists x. split; [exact H | apply str_eqb_refl].
Qed.

Lemma mem_str_false : forall x l, mem_str x l = false <-> ~ In x l.
Proof.
  intros x l. split.
  - intros H HI. apply mem_str_In in HI. congruence.
  - intros H. destruct (mem_str x l) eqn:E; [apply mem_str_In in E; contradiction | reflexivity].
Qed.

(* ---- sets ---------------------------------------------------------------------- *)
Lemma set_add_In : forall x y l, In y (set_add x l) <-> y = x \/ In y l.
Proof.
  intros x y l. induction l as [|z l IH]; simpl.
  - intuition.
  - destruct (str_eqb x z) eqn:E.
    + apply str_eqb_eq in E. subst. simpl. intuition.
    + destruct (str_ltb x z); simpl; [intuition|]. rewrite IH. intuition.
Qed.

Lemma set_of_In : forall y l, In y (set_of l) <-> In y l.
Proof.
  intros y l. unfold set_of. induction l as [|x l IH]; simpl; [tauto|].
  rewrite set_add_In, IH. intuition.
Qed.

Lemma set_union_In : forall y a b, In y (set_union a b) <-> In y a \/ In y b.
Proof.
  intros y a b. unfold set_union. induction a as [|x a IH]; simpl; [tauto|].
  rewrite set_add_In, IH. intuition.
Qed.

Lemma set_diff_In : forall y a b, In y (set_diff a b) <-> In y a /\ ~ In y b.
Proof.
  intros y a b. unfold set_diff. rewrite filter_In, negb_true_iff, mem_str_false. tauto.
Qed.

(* the sets are strictly increasing lists; NoDup is obtained through sortedness *)
Lemma str_ltb_irrefl : forall a, str_ltb a a = false.
Proof. induction a as [|x a IH]; simpl; [reflexivity|]. rewrite N.ltb_irrefl. exact IH. Qed.

Lemma str_ltb_trans : forall a b c, str_ltb a b = true -> str_ltb b c = true -> str_ltb a c = true.
Proof.
  induction a as [|x a IH]; destruct b as [|y b]; destruct c as [|z c]; simpl; intros H1 H2;
    try discriminate; try reflexivity.
  destruct (N.ltb x y) eqn:Exy.
  - destruct (N.ltb y z) eqn:Eyz.
    + apply N.ltb_lt in Exy, Eyz. assert (N.ltb x z = true) as -> by (apply N.ltb_lt; lia). reflexivity.
    + destruct (N.ltb z y) eqn:Ezy; [discriminate|].
      apply N.ltb_lt in Exy. apply N.ltb_ge in Eyz, Ezy.
      assert (N.ltb x z = true) as -> by (apply N.ltb_lt; lia). reflexivity.
  - destruct (N.ltb y x) eqn:Eyx; [discriminate|].
    apply N.ltb_ge in Exy, Eyx. assert (x = y) by lia. subst y.
    destruct (N.ltb x z) eqn:Exz; [reflexivity|].
    destruct (N.ltb z x) eqn:Ezx; [discriminate|]. eapply IH; eassumption.
Qed.

Lemma str_ltb_total : forall a b, str_ltb a b = false -> str_eqb a b = false -> str_ltb b a = true.
Proof.
  induction a as [|x a IH]; destruct b as [|y b]; simpl; intros H1 H2; try discriminate; try reflexivity.
  destruct (N.ltb x y) eqn:Exy; [discriminate|].
  destruct (N.ltb y x) eqn:Eyx; [reflexivity|].
  apply N.ltb_ge in Exy, Eyx. assert (x = y) by lia. subst y.
  unfold str_eqb in H2. simpl in H2. rewrite N.eqb_refl in H2. simpl in H2.
  apply IH; assumption.
Qed.

Fixpoint sorted_from (lo : str) (l : list str) : Prop :=
  match l with
  | [] => True
  | x :: l' => str_ltb lo x = true /\ sorted_from x l'
  end.

Definition sorted (l : list str) : Prop :=
  match l with [] => True | x :: l' => sorted_from x l' end.

Lemma sorted_from_weaken : forall l a b, str_ltb a b = true -> sorted_from b l -> sorted_from a l.
Proof.
  destruct l as [|x l]; simpl; [trivial|]. intros a b Hab [Hbx Hs].
  split; [eapply str_ltb_trans; eassumption | exact Hs].
Qed.

Lemma sorted_from_lt : forall l lo y, sorted_from lo l -> In y l -> str_ltb lo y = true.
Proof.
  induction l as [|x l IH]; simpl; intros lo y Hs Hy; [contradiction|].
  destruct Hs as [Hx Hs]. destruct Hy as [->|Hy]; [exact Hx|].
  eapply str_ltb_trans; [exact Hx | eapply IH; eassumption].
Qed.

Lemma sorted_from_add : forall l lo x, sorted_from lo l -> str_ltb lo x = true ->
  sorted_from lo (set_add x l).
Proof.
  induction l as [|z l IH]; simpl; intros lo x Hs Hx.
  - tauto.
  - destruct Hs as [Hz Hs]. destruct (str_eqb x z) eqn:E; [simpl; tauto|].
    destruct (str_ltb x z) eqn:L; simpl.
    + tauto.
    + split; [exact Hz|]. apply IH; [exact Hs|]. apply str_ltb_total; [exact L|].
      destruct (str_eqb z x) eqn:E'; [apply str_eqb_eq in E'; subst; rewrite str_eqb_refl in E; discriminate|].
      exact E.
Qed.

Lemma sorted_add : forall l x, sorted l -> sorted (set_add x l).
Proof.
  destruct l as [|z l]; simpl; intros x Hs; [trivial|].
  destruct (str_eqb x z) eqn:E; [exact Hs|].
  destruct (str_ltb x z) eqn:L; simpl.
  - tauto.
  - apply sorted_from_add; [exact Hs|]. apply str_ltb_total; [exact L|].
    destruct (str_eqb z x) eqn:E'; [apply str_eqb_eq in E'; subst; rewrite str_eqb_refl in E; discriminate|].
    exact E.
Qed.

Lemma sorted_set_of : forall l, sorted (set_of l).
Proof. unfold set_of. induction l as [|x l IH]; simpl; [exact I | apply sorted_add; exact IH]. Qed.

Lemma sorted_set_union : forall a b, sorted b -> sorted (set_union a b).
Proof. unfold set_union. induction a as [|x a IH]; simpl; intros b Hb; [exact Hb | apply sorted_add; auto]. Qed.

Lemma sorted_from_filter : forall f l lo, sorted_from lo l -> sorted_from lo (filter f l).
Proof.
  induction l as [|x l IH]; simpl; intros lo Hs; [trivial|]. destruct Hs as [Hx Hs].
  destruct (f x); simpl.
  - split; [exact Hx | apply IH; exact Hs].
  - apply IH. eapply sorted_from_weaken; eassumption.
Qed.

Lemma sorted_filter : forall f l, sorted l -> sorted (filter f l).
Proof.
  destruct l as [|x l]; simpl; intros Hs; [trivial|].
  destruct (f x); simpl.
  - apply sorted_from_filter. exact Hs.
  - induction l as [|y l IH]; simpl; [trivial|]. destruct Hs as [Hy Hs].
    destruct (f y); simpl.
    + apply sorted_from_filter. exact Hs.
    + apply IH. eapply sorted_from_weaken; eassumption.
Qed.

Lemma sorted_set_diff : forall a b, sorted a -> sorted (set_diff a b).
Proof. intros. apply sorted_filter. assumption. Qed.

Lemma sorted_NoDup : forall l, sorted l -> NoDup l.
Proof.
  intros l. destruct l as [|x l]; [constructor|]. simpl. revert x.
  induction l as [|y l IH]; intros x Hs.
  - constructor; [intros []|constructor].
  - destruct Hs as [Hy Hs]. constructor.
    + intros [H|H].
      * subst. rewrite str_ltb_irrefl in Hy. discriminate.
      * pose proof (sorted_from_lt _ _ _ Hs H) as H1.
        pose proof (str_ltb_trans _ _ _ Hy H1) as H2. rewrite str_ltb_irrefl in H2. discriminate.
    + apply IH. exact Hs.
Qed.

(* ---- the result monad --------------------------------------------------------------- *)
Lemma bind_ok : forall {T U} (r : result T) (f : T -> result U) v,
  bind r f = Ok v -> exists x, r = Ok x /\ f x = Ok v.
Proof. intros T U [x|t] f v H; simpl in H; [eauto | discriminate]. Qed.

Lemma mapM_ok_In : forall {T U} (f : T -> result U) l ys x,
  mapM f l = Ok ys -> In x l -> exists y, f x = Ok y /\ In y ys.
Proof.
  induction l as [|a l IH]; simpl; intros ys x H Hx; [contradiction|].
  apply bind_ok in H. destruct H as [y [Hy H]]. apply bind_ok in H. destruct H as [ys' [Hys H]].
  inversion H; subst. destruct Hx as [->|Hx].
  - exists y. simpl. auto.
  - destruct (IH _ _ Hys Hx) as [y' [H1 H2]]. exists y'. simpl. auto.
Qed.

(* ---- entities_for_value ------------------------------------------------------------------ *)
Lemma entities_for_value_spec : forall v l, entities_for_value v = Ok l ->
  exists names, eref_names v = Ok names /\ l = set_diff (set_of names) xmllist.
Proof.
  unfold entities_for_value. intros v l H. apply bind_ok in H. destruct H as [ns [H1 H2]].
  inversion H2. eauto.
Qed.

Lemma entities_for_value_In : forall v l names n,
  entities_for_value v = Ok l -> eref_names v = Ok names ->
  (In n l <-> In n names /\ ~ In n xmllist).
Proof.
  intros v l names n H Hn. destruct (entities_for_value_spec _ _ H) as [names' [H1 ->]].
  rewrite Hn in H1. inversion H1; subst. rewrite set_diff_In, set_of_In. tauto.
Qed.

Lemma entities_for_value_sorted : forall v l, entities_for_value v = Ok l -> sorted l.
Proof.
  intros v l H. destruct (entities_for_value_spec _ _ H) as [names [_ ->]].
  apply sorted_set_diff, sorted_set_of.
Qed.

(* ---- known_entities ------------------------------------------------------------------------ *)
Lemma fold_union_In : forall sets acc n,
  In n (fold_left (fun acc s => set_union s acc) sets acc) <-> In n acc \/ exists s, In s sets /\ In n s.
Proof.
  induction sets as [|s sets IH]; simpl; intros acc n.
  - split; [auto | intros [H|[s [[] _]]]; exact H].
  - rewrite IH, set_union_In. split.
    + intros [[H|H]|[s' [H1 H2]]]; eauto.
    + intros [H|[s' [[->|H1] H2]]]; eauto.
Qed.

(* with a fresh cache, every name the reference value uses is known — provided the
   reference value is one of the reference file's values, or no reference was set *)
Lemma known_covers_reference : forall reference refv reflist cache' inContext,
  known_entities None reference refv = Ok (reflist, cache') ->
  entities_for_value refv = Ok inContext ->
  match reference with Some refs => In refv refs | None => True end ->
  incl inContext reflist.
Proof.
  intros reference refv reflist cache' inContext H Hc Hin. unfold known_entities in H.
  destruct reference as [refs|].
  - apply bind_ok in H. destruct H as [sets [Hm H]]. inversion H; subst.
    destruct (mapM_ok_In _ _ _ _ Hm Hin) as [s [Hs Hs']]. rewrite Hc in Hs. inversion Hs; subst.
    intros n Hn. apply fold_union_In. right. eauto.
  - rewrite Hc in H. simpl in H. inversion H; subst. apply incl_refl.
Qed.

(* ---- the declared names cover every recognised reference ------------------------------------------- *)
Lemma declared_covers : forall reflist l10nv l10nlist names n,
  entities_for_value l10nv = Ok l10nlist ->
  eref_names l10nv = Ok names -> In n names ->
  In n (reflist ++ missing_names reflist l10nlist) \/ In n xmllist.
Proof.
  intros reflist l10nv l10nlist names n H Hn Hin.
  destruct (mem_str n xmllist) eqn:Ex; [right; apply mem_str_In; exact Ex|]. left.
  apply mem_str_false in Ex. apply in_or_app.
  destruct (mem_str n reflist) eqn:Er; [left; apply mem_str_In; exact Er|]. right.
  apply mem_str_false in Er. unfold missing_names. apply set_diff_In. split; [|exact Er].
  apply (entities_for_value_In _ _ _ n H Hn). tauto.
Qed.

Lemma missing_spec : forall reflist l10nv l10nlist names n,
  entities_for_value l10nv = Ok l10nlist -> eref_names l10nv = Ok names ->
  (In n (missing_names reflist l10nlist) <-> In n names /\ ~ In n reflist /\ ~ In n xmllist).
Proof.
  intros. unfold missing_names. rewrite set_diff_In.
  rewrite (entities_for_value_In _ _ _ n H H0). tauto.
Qed.

Lemma missing_NoDup : forall reflist l10nv l10nlist,
  entities_for_value l10nv = Ok l10nlist -> NoDup (missing_names reflist l10nlist).
Proof.
  intros. apply sorted_NoDup. unfold missing_names. apply sorted_set_diff.
  eapply entities_for_value_sorted; eassumption.
Qed.
