(* A header instruction stays in front: when every version (merge_channels), resp. the
   reference and the old localization (serialize), starts with an instruction entry (kind
   COther, e.g. "#filter emptyLines" of an .inc file) of the same key, the merged entry list
   starts with such an entry — in particular not with whitespace, also after the
   serializer has pruned its placeholders. *)
From Coq Require Import ZArith NArith List Bool Arith Lia.
From CL Require Import Base.Sx Base.Res Base.Str Model.AddRemove Proofs.AddRemoveProofs
                       Proofs.AddRemoveSpec Model.Channels Proofs.ChannelsProofs Proofs.ChannelsSpec
                       Model.Serializer Proofs.SerializerProofs Proofs.SerializerSpec
                       Proofs.SerializerFinal Proofs.MergeShapeKeys Proofs.MergeShape
                       Proofs.MergeHead.
From CL Require Proofs.PropsShape Proofs.MergeReparse15 Proofs.SerializeReparse16 Proofs.MergeEntriesShape.
Import ListNotations.
Local Open Scope nat_scope.

Section Instr.
Variable kf : str.

Definition instr (e : centry) : Prop := c_kind e = COther /\ c_key e = kf.
Definition starts_instr (v : list centry) : Prop := exists e t, v = e :: t /\ instr e.

Lemma instr_nw e : instr e -> is_white e = false.
Proof. intros [K _]. unfold is_white. rewrite K. reflexivity. Qed.
Lemma instr_ns e : instr e -> is_sticky e = false.
Proof. intros [K _]. unfold is_sticky. rewrite K. reflexivity. Qed.
Lemma instr_key k e : key_ok (k, e) -> instr e -> k = DK kf.
Proof.
  intros Hk [K1 K2]. unfold key_ok in Hk. cbn [fst snd] in Hk. destruct k as [s|v n|i|s].
  - destruct Hk as [_ Hk]. congruence.
  - destruct Hk as [Hk _]. unfold is_comment in Hk. rewrite K1 in Hk. discriminate.
  - destruct Hk as [Hk _]. unfold is_white in Hk. rewrite K1 in Hk. discriminate.
  - destruct Hk as [Hk _]. unfold is_section in Hk. rewrite K1 in Hk. discriminate.
Qed.
Lemma instr_strip e e' : strip e = strip e' -> instr e -> instr e'.
Proof.
  intros Hs [K1 K2]. destruct (PropsShape.strip_fields _ _ Hs) as (F1 & F2 & _). split; congruence.
Qed.

Local Notation hdi := (hdk (DK kf) instr).

Lemma parse_number_hdi v c : ukeys v -> starts_instr v -> hdi (parse_resource (number c v)).
Proof.
  intros Hu (e & t & -> & He).
  pose proof (number_uniq (e :: t) c Hu) as Hn.
  pose proof (parse_resource_values _ Hn) as Hv.
  pose proof (number_strip (e :: t) c) as Hs.
  destruct (number c (e :: t)) as [|e' t'] eqn:En; [discriminate|].
  cbn in Hs. apply MergeReparse15.cons_inv in Hs. destruct Hs as [Hs _].
  destruct (dvalues_head _ _ _ Hv) as (k & D' & ED).
  pose proof (parse_resource_wf _ Hn) as Hw.
  assert (Pe : instr e') by (apply (instr_strip e); [symmetry; exact Hs|exact He]).
  assert (Kk : key_ok (k, e')).
  { destruct Hw as [_ Hw]. rewrite ED in Hw. apply (Forall_inv Hw). }
  exists e', D'. split; [|exact Pe]. rewrite ED, (instr_key k e' Kk Pe). reflexivity.
Qed.

Lemma fold_hdi ds : forall d, wf d -> Forall wf ds -> hdi d -> Forall (fun x => hdi x) ds ->
  hdi (fold_merge d ds).
Proof.
  induction ds as [|y ds IH]; intros d Hd Hds Hq Hqs; [exact Hq|].
  inversion Hds as [|? ? Hy Hds']; subst. inversion Hqs as [|? ? Hqy Hqs']; subst.
  cbn [fold_merge fold_left]. fold (fold_merge (merge_two d y true) ds).
  apply IH; try assumption.
  - apply merge_two_wf; assumption.
  - apply (merge_two_hdk (DK kf) instr instr_nw instr_ns instr_key d y true Hd Hy); [discriminate|exact Hq|right; exact Hqy].
Qed.

(* merge_channels *)
Theorem merge_entries_instr vs out : Forall ukeys vs -> Forall starts_instr vs ->
  merge_entries vs = Ok out -> starts_instr out.
Proof.
  intros Hu Hq Ho. destruct vs as [|v0 vs]; [discriminate|].
  unfold merge_entries, merge_resources, merge_dicts in Ho. cbn in Ho. inversion Ho; subst out; clear Ho.
  destruct (number_all_sep (v0 :: vs) Hu 0) as (_ & S2 & _). cbn in S2.
  inversion S2 as [|? ? Sv Svs]; subst.
  inversion Hu as [|? ? U0 Ur]; subst. inversion Hq as [|? ? Q0 Qr]; subst.
  assert (H : hdi (fold_merge (parse_resource (number 0 v0)) (map parse_resource (number_all (length v0) vs)))).
  { apply (fold_hdi _ _ Sv Svs); [apply parse_number_hdi; assumption|].
    clear - Ur Qr. generalize (length v0). revert Qr.
    induction Ur as [|v vs Hv _ IH]; intros Qr c; cbn; constructor.
    - inversion Qr; subst. apply parse_number_hdi; assumption.
    - inversion Qr; subst. apply IH. assumption. }
  destruct H as (e & D' & E & Pe). exists e, (dvalues D'). split; [exact (f_equal dvalues E)|exact Pe].
Qed.

(* serialize *)
Section Ser.
Variables (vR vL : list centry).
Hypothesis HpR : Forall MergeEntriesShape.plain vR.
Hypothesis HpL : Forall MergeEntriesShape.plain vL.
Hypothesis HuR : ukeys vR.
Hypothesis HuL : ukeys vL.
Hypothesis HsR : starts_instr vR.
Hypothesis HsL : vL = [] \/ starts_instr vL.
Let R : list centry := number 0 vR.
Let L : list centry := number (length vR) vL.
Variable wrap : centry -> str -> result centry.
Variable nd : new_data_t.
Hypothesis Hnd : NoDup (map fst nd).
Hypothesis Hwo : wrap_ok wrap.

Lemma instr_not_entity e : instr e -> is_entity e = false.
Proof. intros [K _]. unfold is_entity. rewrite K. reflexivity. Qed.

Lemma placeholder_instr e : instr e -> placeholder e = e.
Proof. intros H. unfold placeholder. rewrite (instr_not_entity e H). reflexivity. Qed.

Lemma san_instr ref e : instr e -> san ref nd e = e.
Proof.
  intros H. unfold san, should_placeholder. rewrite (instr_not_entity e H). reflexivity.
Qed.

Lemma numbered_starts v c : starts_instr v -> starts_instr (number c v).
Proof.
  intros (e & t & -> & He). pose proof (number_strip (e :: t) c) as Hs.
  destruct (number c (e :: t)) as [|e' t'] eqn:En; [discriminate|].
  cbn in Hs. apply MergeReparse15.cons_inv in Hs. destruct Hs as [Hs _].
  exists e', t'. split; [reflexivity|]. apply (instr_strip e); [symmetry; exact Hs|exact He].
Qed.

Lemma uniq_hdi l : uniq l -> starts_instr l -> hdi (parse_resource l).
Proof.
  intros Hn (e & t & -> & Pe).
  pose proof (parse_resource_values _ Hn) as Hv.
  destruct (dvalues_head _ _ _ Hv) as (k & D' & ED).
  pose proof (parse_resource_wf _ Hn) as Hw.
  assert (Kk : key_ok (k, e)).
  { destruct Hw as [_ Hw]. rewrite ED in Hw. apply (Forall_inv Hw). }
  exists e, D'. split; [|exact Pe]. rewrite ED, (instr_key k e Kk Pe). reflexivity.
Qed.

Lemma nodup_map_inj {A B} (f : A -> B) l a b : NoDup (map f l) -> In a l -> In b l -> f a = f b -> a = b.
Proof.
  induction l as [|x l IH]; intros Hn Ha Hb Hf; [contradiction|].
  cbn in Hn. inversion Hn as [|? ? Hx Hn']; subst.
  destruct Ha as [->|Ha], Hb as [->|Hb]; auto.
  - exfalso. apply Hx. rewrite Hf. apply in_map. exact Hb.
  - exfalso. apply Hx. rewrite <- Hf. apply in_map. exact Ha.
Qed.

Theorem serialize_entries_instr out : serialize_entries wrap R L nd = Ok out -> starts_instr out.
Proof.
  intros H.
  pose proof (MergeEntriesShape.guR vR HpR HuR) as guR. fold R in guR.
  pose proof (MergeEntriesShape.guL vR vL HpL HuL) as guL. fold R L in guL.
  pose proof (MergeEntriesShape.gnjR vR HpR) as njR. fold R in njR.
  pose proof (MergeEntriesShape.gnjL vR vL HpL) as njL. fold R L in njL.
  destruct (serialize_entries_inv wrap R L nd guR out H) as (NL & HNL & Hout).
  pose proof (P_wf R guR) as WP. pose proof (O_wf R L nd guL) as WO.
  pose proof (M1_wf R L nd guR guL) as WM1.
  pose proof (N_wf wrap R nd Hnd Hwo NL HNL) as WN.
  (* the placeholders of the reference start with the instruction *)
  assert (SR : starts_instr R) by (apply numbered_starts; exact HsR).
  assert (HP : hdi (P R)).
  { unfold P. apply uniq_hdi; [apply PL_uniq; exact guR|].
    unfold PL, placeholders. fold (nj R). rewrite njR.
    destruct SR as (e & t & -> & Pe). cbn [map]. rewrite (placeholder_instr e Pe).
    exists e, (map placeholder t). split; [reflexivity|exact Pe]. }
  assert (HO : O' R L nd = [] \/ hdi (O' R L nd)).
  { destruct HsL as [->|HsL'].
    - left. reflexivity.
    - right. unfold O'. apply uniq_hdi; [apply OL_uniq; exact guL|].
      unfold OL. fold (nj L). rewrite njL.
      destruct (numbered_starts vL (length vR) HsL') as (e & t & E & Pe). fold L in E. rewrite E.
      cbn [map]. rewrite (san_instr R e Pe).
      exists e, (map (san R nd) t). split; [reflexivity|exact Pe]. }
  assert (StO : Forall (fun p => is_sticky (snd p) = false) (O' R L nd)).
  { apply Forall_forall. intros [k e] Hin. cbn.
    assert (He : In e (OL R L nd)).
    { rewrite <- (parse_resource_values _ (OL_uniq R L nd guL)). unfold dvalues. apply in_map_iff. exists (k, e). auto. }
    unfold OL in He. fold (nj L) in He. rewrite njL in He. apply in_map_iff in He. destruct He as (o & <- & Ho').
    pose proof (MergeEntriesShape.plain_nosticky o (MergeEntriesShape.numbered_plain vL _ o HpL Ho')) as Hs.
    unfold san. destruct (should_placeholder (refkeys R) nd o); [|exact Hs].
    unfold placeholder. destruct (is_entity o); [reflexivity|exact Hs]. }
  pose proof (merge_two_hdk (DK kf) instr instr_nw instr_ns instr_key (P R) (O' R L nd) false WP WO
                (fun _ => StO) HP HO) as H1.
  fold (M1 R L nd) in H1. destruct H1 as (e1 & D1 & E1 & P1).
  (* the new entities do not have the instruction's key *)
  assert (StN : Forall (fun p => is_sticky (snd p) = false) (Nw NL)).
  { apply Forall_forall. intros [k e] Hin. cbn.
    destruct (N_pairs wrap R nd guR Hnd Hwo NL HNL k e Hin) as (Hc & _).
    unfold is_cent in Hc. unfold is_sticky. destruct (c_kind e); try discriminate; reflexivity. }
  assert (Hno : ~ In (DK kf) (dkeys (Nw NL))).
  { intros Hin. unfold dkeys in Hin. apply in_map_iff in Hin. destruct Hin as ([k e] & Hk & Hin).
    cbn in Hk. subst k. destruct (N_pairs wrap R nd guR Hnd Hwo NL HNL _ e Hin) as (_ & Hk & Hr).
    assert (Ekf : c_key e = kf) by (injection Hk; auto). rewrite Ekf in Hr.
    unfold refkeys in Hr. apply in_map_iff in Hr. destruct Hr as (r & Hrk & Hrin).
    apply filter_In in Hrin. destruct Hrin as [Hrin Hre].
    destruct SR as (f & t & ER & Pf).
    assert (Hf : In f R) by (rewrite ER; left; reflexivity).
    destruct guR as (Uk & _). rewrite njR in Uk.
    assert (Kf : keyed f = true).
    { destruct Pf as [K _]. unfold keyed, is_comment, is_white, is_section. rewrite K. reflexivity. }
    assert (Kr : keyed r = true).
    { unfold is_entity in Hre. unfold keyed, is_comment, is_white, is_section.
      destruct (c_kind r); try discriminate; reflexivity. }
    assert (Efr : f = r).
    { apply (nodup_map_inj c_key (filter keyed R)); [exact Uk| | |].
      - apply filter_In. auto.
      - apply filter_In. auto.
      - destruct Pf as [_ K2]. congruence. }
    subst r. rewrite (instr_not_entity f Pf) in Hre. discriminate. }
  assert (Hv : dvalues (M R L nd NL) = pws (map (valm (M1 R L nd) (Nw NL) false) (dkeys (M1 R L nd)))).
  { apply (merge_two_sub_dvalues (M1 R L nd) (Nw NL) false WM1 WN (fun _ => StN)).
    apply (N_keys_in_M1 wrap R L nd guR guL Hnd Hwo NL HNL). }
  rewrite E1 in Hv at 2. cbn [dkeys map fst] in Hv.
  assert (Ev : valm (M1 R L nd) (Nw NL) false (DK kf) = e1).
  { unfold valm, get_entity, get_older_entity.
    assert (od_get dkey_eqb (DK kf) (Nw NL) = None) as -> by (apply (od_get_None dkey_eqb dkey_eqb_eq); exact Hno).
    rewrite E1, od_get_head. reflexivity. }
  rewrite Ev in Hv.
  destruct (pws_head e1 (map (valm (M1 R L nd) (Nw NL) false) (map fst D1)) (instr_nw e1 P1)) as (t1 & Et1).
  rewrite Et1 in Hv.
  rewrite Hout, prune_placeholders_pws, Hv. cbn [filter].
  assert (is_placeholder e1 = false) as -> by (destruct P1 as [K _]; unfold is_placeholder; rewrite K; reflexivity).
  cbn [negb]. destruct (pws_head e1 (filter (fun e => negb (is_placeholder e)) t1) (instr_nw e1 P1)) as (t2 & ->).
  exists e1, t2. split; [reflexivity|exact P1].
Qed.
End Ser.
End Instr.
