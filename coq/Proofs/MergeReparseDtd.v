(* The re-parse clause of C04 for DTD, from the block theorem of C02
   (Proofs/C02BlocksDtd.v: blocks_dtd, blocks_dtd_bom, C02_roundtrip_dtd_multi(_bom))
   and the shared part (Proofs/MergeReparseShared.v).

   The localization is a byte order mark or not, then the text of a legal block list
   (whitespace, standalone comments, entity declarations with an attached comment,
   parameter entities).  The skips are the selected entities of the file's own parse,
   with the spans of that parse: a declaration  <!ENTITY ... >  without its attached
   comment and the whitespace behind that comment, or a whole parameter-entity block.
   A skipped declaration leaves its attached comment as a standalone comment followed
   by that whitespace.  DTD needs no line break between declarations, ensureNewline
   still ends each appended text with one (a declaration ends in ">").

   Unlike .properties, what is left need not be separated as the block grammar asks: an
   orphaned comment (or a standalone comment that a skipped parameter entity kept away
   from a declaration) is ATTACHED to a declaration that follows within one line break,
   the License rule looks at offsets 0 and 1, and the tail of a parameter entity
   swallows what follows.  So [adjacent_ok_bom] of the resulting block list is a
   premise (decidable; [dtd_orphan_witness] shows it is needed).  Appended reference
   entities are ordinary declarations (parameter entities are not covered). *)
From Coq Require Import NArith List Bool Arith Lia Permutation Sorted.
From CL Require Import Base.Sx Base.Res Base.Str Model.Merge Generated.C04Facts
  Model.Entry Model.Parse Model.ParseFormats Proofs.MergeProofs Proofs.MergeReparseShared
  Proofs.MergeRefuted Proofs.C02Roundtrip Proofs.C02BlocksRx Proofs.C02BlocksDtdRx
  Proofs.C02BlocksDtdPeRx Proofs.C02BlocksDtd.
From CL Require Proofs.C02Blocks.
Import ListNotations.
Local Open Scope nat_scope.

Local Arguments Nat.ltb : simpl never.
Local Arguments Nat.leb : simpl never.
Local Arguments N.eqb : simpl never.
Local Arguments decl_text : simpl never.
Local Arguments pe_text : simpl never.
Local Arguments comment_text : simpl never.

Local Notation skip := (@Merge.skip str).
Local Notation is_kind := C02Blocks.is_kind.
Local Notation entity_record := C02Blocks.entity_record.
Local Notation record := C02Blocks.record.

(* ---- an entity block: attached comment and whitespace | declaration | nothing ------- *)
Definition d_dec (b : block) : option (str * str * str * str) :=
  match b with
  | BEntity pre ws1 name ws2 q v ws3 => Some (pre_text pre, name, decl_text ws1 name ws2 q v ws3, [])
  | BPE d => Some ([], pe_name d, pe_text d, [])
  | _ => None
  end.

Lemma d_dec_text : forall b p k c q, d_dec b = Some (p, k, c, q) -> text b = p ++ c ++ q.
Proof.
  intros b p k c q H. destruct b; try discriminate; inversion H; subst; cbn [text app];
    now rewrite app_nil_r.
Qed.

Lemma decl_text_ne : forall ws1 name ws2 q v ws3, decl_text ws1 name ws2 q v ws3 <> [].
Proof. intros. unfold decl_text, ENT. discriminate. Qed.

Lemma pe_text_ne : forall d, pe_text d <> [].
Proof. intros. unfold pe_text, ENT. discriminate. Qed.

Lemma d_dec_core : forall b p k c q, d_dec b = Some (p, k, c, q) -> c <> [].
Proof.
  intros b p k c q H. destruct b; try discriminate; inversion H; subst;
    [apply decl_text_ne|apply pe_text_ne].
Qed.

Definition drkey (r : record) : str := fst (fst r).

Notation dblock_entities := (g_entities text d_dec).

Lemma dkeys_of_records : forall bs, keys_of d_dec bs = map drkey (records_of bs).
Proof.
  induction bs as [|b rest IH]; [reflexivity|]. cbn [keys_of flat_map].
  fold (keys_of d_dec rest). rewrite IH. destruct b; reflexivity.
Qed.

Lemma dents_spans : forall bs off w,
  map e_span (filter (is_kind KEntity) (ents off w bs)) = map snd (dblock_entities (off + w) bs).
Proof.
  induction bs as [|b rest IH]; intros off w.
  - simpl ents. now rewrite flush_no by discriminate.
  - destruct b as [x|body|pre ws1 name ws2 q v ws3|d].
    + simpl ents. rewrite IH. cbn [g_entities g_entity d_dec text app].
      now replace (off + (w + length x)) with (off + w + length x) by lia.
    + simpl ents. rewrite filter_app, flush_no by discriminate.
      cbn [app filter C02Blocks.is_kind mk_comment e_kind]. rewrite IH.
      cbn [g_entities g_entity d_dec text app].
      now rewrite Nat.add_0_r.
    + simpl ents. rewrite filter_app, flush_no by discriminate.
      cbn [app filter C02Blocks.is_kind entity_entry e_kind map e_span]. rewrite IH.
      cbn [g_entities]. unfold g_entity at 1. cbn [d_dec app map snd text]. rewrite Nat.add_0_r.
      rewrite <- !(decl_text_length ws1 name ws2 q v ws3), app_length.
      match goal with |- ?p :: map snd (dblock_entities ?o1 rest) = ?q :: map snd (dblock_entities ?o2 rest) =>
        replace o1 with o2 by lia; replace p with q; [reflexivity|] end.
      f_equal; lia.
    + simpl ents. rewrite filter_app, flush_no by discriminate.
      cbn [app filter C02Blocks.is_kind pe_entry e_kind map e_span]. rewrite IH.
      cbn [g_entities]. unfold g_entity at 1. cbn [d_dec app map snd text length].
      rewrite !Nat.add_0_r. reflexivity.
Qed.

Lemma dparse_entities_blocks : forall bs (a w : str),
  parse_entities (a ++ w ++ file_text bs) (ents (length a) (length w) bs)
  = dblock_entities (length a + length w) bs.
Proof.
  intros bs a w. apply map_pair_eq.
  - rewrite (g_entities_keys text d_dec), dkeys_of_records. unfold parse_entities. rewrite map_map. cbn [fst].
    destruct (ents_views bs a w) as [H _]. rewrite <- H. rewrite map_map. reflexivity.
  - unfold parse_entities. rewrite map_map. cbn [snd]. exact (dents_spans bs (length a) (length w)).
Qed.

(* ---- the splice on blocks ---------------------------------------------------- *)
Definition dkept_of (sel : str -> bool) (b : block) : list block :=
  match b with
  | BEntity pre _ name _ _ _ _ =>
      if sel name
      then match pre with
           | Some (body, iw) => BComment body :: (match iw with [] => [] | _ => [BBlank iw] end)
           | None => []
           end
      else [b]
  | BPE d => if sel (pe_name d) then [] else [b]
  | _ => [b]
  end.
Definition dkept (sel : str -> bool) (bs : list block) : list block := flat_map (dkept_of sel) bs.

Lemma dfile_text_app : forall l1 l2, file_text (l1 ++ l2) = file_text l1 ++ file_text l2.
Proof. intros. unfold file_text. now rewrite map_app, concat_app. Qed.

Lemma dkept_ftext_blocks : forall sel bs, kept_ftext text d_dec sel bs = file_text (dkept sel bs).
Proof.
  intros sel bs. induction bs as [|b rest IH]; [reflexivity|].
  unfold kept_ftext, dkept in *. cbn [map concat flat_map]. rewrite dfile_text_app, IH. f_equal.
  unfold kept_text. destruct b as [x|body|pre ws1 name ws2 q v ws3|d]; cbn [d_dec dkept_of];
    try (unfold file_text; cbn [map concat]; now rewrite app_nil_r).
  - destruct (sel name); [|unfold file_text; cbn [map concat]; now rewrite app_nil_r].
    rewrite app_nil_r. destruct pre as [[body iw]|]; [|reflexivity].
    destruct iw; unfold file_text; cbn [map concat text pre_text]; now rewrite ?app_nil_r.
  - destruct (sel (pe_name d)); [reflexivity|unfold file_text; cbn [map concat]; now rewrite app_nil_r].
Qed.

(* ---- the staged text as a block list ------------------------------------------ *)
Definition dis_entity (b : block) : bool :=
  match b with BEntity _ _ _ _ _ _ _ => true | _ => false end.

(* a reference entity: an ordinary declaration (with or without attached comment);
   Entity.all is the text of the block *)
Definition dlegal_ref (b : block) : Prop := dis_entity b = true /\ legal_block b.

Definition dappended (abs : list block) : list block :=
  flat_map (fun b => [b; BBlank [10%N]]) abs.

Definition dmerged_blocks (sel : str -> bool) (bs abs : list block) : list block :=
  dkept sel bs ++ BBlank [10%N] :: dappended abs.

Lemma ends_with_nl_app_ne : forall (a b : str), b <> [] -> ends_with_nl (a ++ b) = ends_with_nl b.
Proof.
  induction a as [|x a IH]; intros b Hb; [reflexivity|].
  cbn [app]. destruct (a ++ b) as [|y r] eqn:E.
  - apply app_eq_nil in E. destruct E. contradiction.
  - rewrite ends_with_nl_cons2, <- E. now apply IH.
Qed.

Lemma dentity_text_no_nl : forall b, dis_entity b = true -> ends_with_nl (text b) = false.
Proof.
  intros b H. destruct b as [| |pre ws1 name ws2 q v ws3|]; try discriminate.
  cbn [text]. unfold decl_text.
  replace (pre_text pre ++ ENT ++ ws1 ++ name ++ ws2 ++ q :: v ++ q :: ws3 ++ [62%N])
    with ((pre_text pre ++ ENT ++ ws1 ++ name ++ ws2 ++ q :: v ++ q :: ws3) ++ [62%N]).
  - now rewrite ends_with_nl_app_ne by discriminate.
  - repeat (rewrite <- app_assoc; cbn [app]). reflexivity.
Qed.

Lemma dmerged_blocks_text : forall sel bs abs, Forall dlegal_ref abs ->
  file_text (dmerged_blocks sel bs abs) =
  file_text (dkept sel bs) ++ [10%N] ++ concat (map ensure_newline (map text abs)).
Proof.
  intros sel bs abs Ha. unfold dmerged_blocks. rewrite dfile_text_app. f_equal.
  rewrite file_text_cons. cbn [text]. f_equal.
  induction Ha as [|b abs [He _] _ IH]; [reflexivity|].
  unfold dappended in *. cbn [flat_map app map concat]. rewrite !file_text_cons, IH. cbn [text].
  unfold ensure_newline. rewrite (dentity_text_no_nl b He). now rewrite <- app_assoc.
Qed.

Lemma legal_dblank_nl : legal_block (BBlank [10%N]).
Proof. reflexivity. Qed.

Lemma dkept_legal : forall sel bs, Forall legal_block bs -> Forall legal_block (dkept sel bs).
Proof.
  intros sel bs H. induction H as [|b rest Hb _ IH]; [constructor|].
  unfold dkept in *. cbn [flat_map]. apply Forall_app. split; [|exact IH].
  destruct b as [x|body|pre ws1 name ws2 q v ws3|d]; cbn [dkept_of]; try (repeat constructor; exact Hb).
  - destruct (sel name); [|repeat constructor; exact Hb].
    destruct pre as [[body iw]|]; [|constructor].
    unfold legal_block in Hb. cbn [legal_blockb legal_pre] in Hb.
    apply andb_true_iff in Hb. destruct Hb as [Hb _].
    apply andb_true_iff in Hb. destruct Hb as [Hb _].
    apply andb_true_iff in Hb. destruct Hb as [Hb1 Hb2].
    constructor; [exact Hb1|]. destruct iw as [|c iw]; [constructor|].
    repeat constructor. unfold legal_block. cbn [legal_blockb is_nil negb andb]. exact Hb2.
  - destruct (sel (pe_name d)); repeat constructor; exact Hb.
Qed.

Lemma dmerged_blocks_legal : forall sel bs abs, Forall legal_block bs -> Forall dlegal_ref abs ->
  Forall legal_block (dmerged_blocks sel bs abs).
Proof.
  intros sel bs abs Hleg Ha. unfold dmerged_blocks. apply Forall_app. split; [now apply dkept_legal|].
  constructor; [exact legal_dblank_nl|].
  induction Ha as [|b abs [_ Hl] _ IH]; [constructor|].
  unfold dappended in *. cbn [flat_map app]. repeat constructor; [exact Hl|exact IH].
Qed.

(* -- records -- *)
Lemma drecords_of_app : forall l1 l2, records_of (l1 ++ l2) = records_of l1 ++ records_of l2.
Proof.
  induction l1 as [|b l1 IH]; intro l2; [reflexivity|]. destruct b; cbn [app records_of]; now rewrite IH.
Qed.

Lemma drecords_dkept : forall sel bs,
  records_of (dkept sel bs) = filter (fun r => negb (sel (drkey r))) (records_of bs).
Proof.
  intros sel. induction bs as [|b rest IH]; [reflexivity|].
  unfold dkept in *. cbn [flat_map]. rewrite drecords_of_app, IH.
  destruct b as [x|body|pre ws1 name ws2 q v ws3|d]; cbn [dkept_of records_of app]; try reflexivity.
  - cbn [filter drkey fst]. destruct (sel name); cbn [negb]; [|reflexivity].
    destruct pre as [[body [|c iw]]|]; reflexivity.
  - cbn [filter drkey fst]. destruct (sel (pe_name d)); reflexivity.
Qed.

Lemma drecords_appended : forall abs, records_of (dappended abs) = records_of abs.
Proof.
  induction abs as [|b abs IH]; [reflexivity|]. unfold dappended in *. cbn [flat_map app].
  destruct b; cbn [records_of]; now rewrite IH.
Qed.

Lemma dmerged_blocks_records : forall sel bs abs,
  records_of (dmerged_blocks sel bs abs) =
  filter (fun r => negb (sel (drkey r))) (records_of bs) ++ records_of abs.
Proof.
  intros. unfold dmerged_blocks.
  rewrite drecords_of_app, drecords_dkept. cbn [records_of]. now rewrite drecords_appended.
Qed.

(* ---- the theorem ------------------------------------------------------------------ *)
Lemma caps_dtd_facts :
  has caps_dtd can_copy = false /\ has caps_dtd can_skip = true /\ has caps_dtd can_merge = true.
Proof. repeat split; reflexivity. Qed.

Definition mark_text (mark : bool) : str := if mark then [bom] else [].

Lemma file_text_bom_eq : forall mark bs, file_text_bom mark bs = mark_text mark ++ file_text bs.
Proof. reflexivity. Qed.

(* the parse of a file with or without a mark, and the records of it *)
Lemma droundtrip : forall mark bs, Forall legal_block bs -> adjacent_ok_bom mark bs ->
  (mark = true -> bs <> []) ->
  let s := file_text_bom mark bs in
  exists es, walk_dtd s = Ok es /\
    map (entity_record s) (filter (is_kind KEntity) es) = records_of bs /\
    filter (is_kind KJunk) es = [].
Proof.
  intros mark bs Hleg Hadj Hne s. destruct mark.
  - destruct (C02_roundtrip_dtd_multi_bom bs Hleg Hadj (Hne eq_refl)) as (es & H1 & H2 & _ & H4).
    exists es. auto.
  - destruct (C02_roundtrip_dtd_multi bs Hleg Hadj) as (es & H1 & H2 & _ & H4).
    exists es. auto.
Qed.

Lemma dparse_link : forall mark bs, (mark = true -> bs <> []) ->
  parse_entities (file_text_bom mark bs) (entries_of_bom mark bs)
  = dblock_entities (length (mark_text mark)) bs.
Proof.
  intros mark bs Hne. destruct mark.
  - destruct bs as [|b rest]; [now specialize (Hne eq_refl)|].
    unfold entries_of_bom, file_text_bom.
    exact (dparse_entities_blocks (b :: rest) [bom] []).
  - exact (dparse_entities_blocks bs [] []).
Qed.

Theorem reparse_dtd :
  forall (mark : bool) (bs abs : list block) (sel : str -> bool) (missing : list str)
         (refs : list (str * str)) (es : list entry) (skips : list skip),
  Forall legal_block bs -> adjacent_ok_bom mark bs -> (mark = true -> bs <> []) ->
  walk_dtd (file_text_bom mark bs) = Ok es ->
  Permutation skips (parse_skips sel (file_text_bom mark bs) es) ->
  Forall dlegal_ref abs ->
  map_result (ref_all str_eqb refs) (missing ++ filter sel (map drkey (records_of bs)))
    = Ok (map text abs) ->
  adjacent_ok_bom mark (dmerged_blocks sel bs abs) ->
  exists a t out es',
    merge str_eqb true caps_dtd (file_text_bom mark bs) skips missing refs = Ok a /\
    staged_text (file_text_bom mark bs) a = Some t /\
    out = (if nonempty skips || nonempty missing then dmerged_blocks sel bs abs else bs) /\
    t = file_text_bom mark out /\ Forall legal_block out /\ adjacent_ok_bom mark out /\
    walk_dtd t = Ok es' /\
    map (entity_record t) (filter (is_kind KEntity) es') =
      filter (fun r => negb (sel (drkey r))) (records_of bs) ++ records_of abs /\
    filter (is_kind KJunk) es' = [].
Proof.
  intros mark bs abs sel missing refs es skips Hleg Hadj Hmark Hwalk Hperm Habs Hlk Hadj'.
  rewrite (blocks_dtd_bom mark bs Hleg Hadj) in Hwalk. inversion Hwalk; subst es. clear Hwalk.
  unfold parse_skips in Hperm. rewrite (dparse_link mark bs Hmark) in Hperm.
  rewrite <- dkeys_of_records in Hlk.
  destruct caps_dtd_facts as (Hc & Hs & Hm).
  destruct (merge_on_blocks text d_dec d_dec_text d_dec_core caps_dtd (mark_text mark) bs sel missing refs
              skips (map text abs) Hc Hs Hm Hperm Hlk) as (a & Hmerge & Hcase).
  change (ftext text bs) with (file_text bs) in *.
  rewrite <- file_text_bom_eq in Hmerge, Hcase.
  destruct Hcase as [[Hne Hst]|(Hne & -> & Hnil & Hnone)]; rewrite Hne.
  - assert (staged_text (file_text_bom mark bs) a = Some (file_text_bom mark (dmerged_blocks sel bs abs))) as Hst'.
    { rewrite Hst. f_equal. rewrite file_text_bom_eq. f_equal.
      rewrite (dmerged_blocks_text sel bs abs Habs), dkept_ftext_blocks. reflexivity. }
    assert (mark = true -> dmerged_blocks sel bs abs <> []) as Hne'.
    { intros _. unfold dmerged_blocks. destruct (dkept sel bs); discriminate. }
    destruct (droundtrip mark (dmerged_blocks sel bs abs)
                (dmerged_blocks_legal sel bs abs Hleg Habs) Hadj' Hne') as (es' & Hw & Hrec & Hjunk).
    rewrite dmerged_blocks_records in Hrec.
    exists a, (file_text_bom mark (dmerged_blocks sel bs abs)), (dmerged_blocks sel bs abs), es'.
    repeat split; auto using dmerged_blocks_legal.
  - assert (abs = []) as -> by (destruct abs; [reflexivity|discriminate]).
    destruct (droundtrip mark bs Hleg Hadj Hmark) as (es' & Hw & Hrec & Hjunk).
    exists CopyL10n, (file_text_bom mark bs), bs, es'. repeat split; auto.
    rewrite Hrec. cbn [records_of]. rewrite app_nil_r. symmetry.
    rewrite dkeys_of_records in Hnone. exact (filter_none_all drkey sel (records_of bs) Hnone).
Qed.

(* ---- why the adjacency premise is there -------------------------------------------- *)
(*  <!--c--><!ENTITY b "<">  /  <!ENTITY g "x">  with b selected: the comment that was
   attached to b is left in front of g, one line break away, and the parser attaches it
   to g: the record of the kept entity g changes (its attached comment), though key and
   value are right and there is no junk *)
Definition dw_bad : block := BEntity (Some ([99%N], [])) [32%N] [98%N] [32%N] 34%N [60%N] [].
Definition dw_good : block := BEntity None [32%N] [103%N] [32%N] 34%N [120%N] [].
Definition dw_ref : block := BEntity None [32%N] [98%N] [32%N] 34%N [121%N] [].

Lemma dtd_orphan_witness :
  let bs := [dw_bad; BBlank [10%N]; dw_good; BBlank [10%N]] in
  let abs := [dw_ref] in
  let sel := str_eqb [98%N] in
  let refs := [([98%N], text dw_ref)] in
  Forall legal_block bs /\ adjacent_ok_bom false bs /\
  walk_dtd (file_text bs) = Ok (entries_of bs) /\
  Forall dlegal_ref abs /\
  map_result (ref_all str_eqb refs) ([] ++ filter sel (map drkey (records_of bs))) = Ok (map text abs) /\
  adjacent_okb (dmerged_blocks sel bs abs) = false /\
  records_of bs = [([98%N], [60%N], Some (comment_text [99%N])); ([103%N], [120%N], None)] /\
  (do a <- merge str_eqb true caps_dtd (file_text bs)
             (parse_skips sel (file_text bs) (entries_of bs)) [] refs;
   match staged_text (file_text bs) a with
   | Some t => do es <- walk_dtd t;
               Ok (map (entity_record t) (filter (is_kind KEntity) es), has_junk es)
   | None => Raise AssertionError
   end)
  = Ok ([([103%N], [120%N], Some (comment_text [99%N])); ([98%N], [121%N], None)], false).
Proof.
  cbv zeta. split; [repeat constructor|]. split; [vm_compute; reflexivity|].
  split; [vm_compute; reflexivity|]. split; [repeat constructor|].
  repeat split; vm_compute; reflexivity.
Qed.
