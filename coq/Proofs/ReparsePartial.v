(* The re-parse clauses of C15/C16, conditional on the re-parse lemma for the output
   entry list (the block theorems of C02, not available): if the real parser, run on
   the concatenated entry texts, yields the same entries (kind, key, text, value), then
   what is proved about the entry list holds of the re-parsed text. *)
From Coq Require Import ZArith NArith List Bool Arith Lia.
From CL Require Import Base.Sx Base.Res Base.Str Model.AddRemove Model.Channels
                       Proofs.ChannelsProofs Proofs.ChannelsSpec Model.Serializer
                       Proofs.SerializerProofs Proofs.SerializerSpec Proofs.SerializerFinal.
Import ListNotations.
Local Open Scope nat_scope.

Definition nonjunk (e : centry) : Prop := is_junk e = false.

(* the parser returns, for the text of [es], entries equal to [es] up to object identity *)
Definition reparses (parse : str -> list centry) (es : list centry) : Prop :=
  map strip (parse (serialize_legacy es)) = map strip es.

Lemma strip_kind a b : strip a = strip b -> c_kind a = c_kind b /\ c_key a = c_key b.
Proof. unfold strip. intros H. inversion H. auto. Qed.

Lemma cons_eq_inv {A} (x y : A) l m : x :: l = y :: m -> x = y /\ l = m.
Proof. intros H. injection H. auto. Qed.

Lemma strip_pred (f : centry -> bool) :
  (forall a b, strip a = strip b -> f a = f b) ->
  forall l1 l2, map strip l1 = map strip l2 -> map strip (filter f l1) = map strip (filter f l2).
Proof.
  intros Hf. induction l1 as [|a l1 IH]; intros [|b l2] H; cbn in *; try discriminate; [reflexivity|].
  apply cons_eq_inv in H. destruct H as [H1 H2].
  rewrite (Hf a b H1). destruct (f b); cbn; rewrite ?H1, (IH l2 H2); reflexivity.
Qed.

Lemma has_key_strip k a b : strip a = strip b -> has_key k a = has_key k b.
Proof.
  intros H. apply strip_kind in H. destruct H as [H1 H2].
  unfold has_key, keyed, is_comment, is_white, is_section. rewrite H1, H2. reflexivity.
Qed.

Lemma is_cent_strip a b : strip a = strip b -> is_cent a = is_cent b.
Proof. intros H. apply strip_kind in H. unfold is_cent. destruct H as [-> _]. reflexivity. Qed.

Lemma is_junk_strip a b : strip a = strip b -> is_junk a = is_junk b.
Proof. intros H. apply strip_kind in H. unfold is_junk. destruct H as [-> _]. reflexivity. Qed.

Lemma strip_count f l1 l2 : (forall a b, strip a = strip b -> f a = f b) ->
  map strip l1 = map strip l2 -> length (filter f l1) = length (filter f l2).
Proof.
  intros Hf H. pose proof (strip_pred f Hf l1 l2 H) as E.
  rewrite <- (map_length strip (filter f l1)), E, map_length. reflexivity.
Qed.

Lemma strip_forall_nonjunk l1 l2 : map strip l1 = map strip l2 -> Forall nonjunk l2 -> Forall nonjunk l1.
Proof.
  revert l2. induction l1 as [|a l1 IH]; intros [|b l2] H HF; cbn in *; try discriminate; constructor.
  - apply cons_eq_inv in H. destruct H as [H1 _]. inversion HF; subst. unfold nonjunk in *.
    rewrite (is_junk_strip a b H1). assumption.
  - apply cons_eq_inv in H. destruct H as [_ H2]. inversion HF; subst. eapply IH; eassumption.
Qed.

Lemma strip_keys f l1 l2 : (forall a b, strip a = strip b -> f a = f b) ->
  map strip l1 = map strip l2 -> map c_key (filter f l1) = map c_key (filter f l2).
Proof.
  intros Hf H. pose proof (strip_pred f Hf l1 l2 H) as E.
  assert (G : forall l, map c_key l = map (fun t => snd (fst (fst t))) (map strip l)).
  { intros l. rewrite map_map. reflexivity. }
  rewrite (G (filter f l1)), (G (filter f l2)), E. reflexivity.
Qed.

(* ---- C15 ------------------------------------------------------------------------------------ *)
Lemma first_entry_nonjunk k vs e0 : Forall (Forall nonjunk) vs -> first_entry k vs = Some e0 -> nonjunk e0.
Proof.
  intros HF H. apply first_entry_In in H. destruct H as (v & Hv & He & _).
  rewrite Forall_forall in HF. pose proof (HF v Hv) as Hv'. rewrite Forall_forall in Hv'. apply Hv'. exact He.
Qed.

Lemma merged_nonjunk vs out : Forall ukeys vs -> Forall (Forall nonjunk) vs ->
  merge_entries vs = Ok out -> Forall nonjunk out.
Proof.
  intros Hu HF H. apply Forall_forall. intros e He. unfold nonjunk.
  destruct (is_junk e) eqn:Ej; [|reflexivity]. exfalso.
  assert (Hk : keyed e = true).
  { unfold is_junk in Ej. unfold keyed, is_comment, is_white, is_section. destruct (c_kind e); try discriminate; reflexivity. }
  destruct (newest_wins vs out Hu H e He Hk) as (e0 & H0 & Hs).
  pose proof (first_entry_nonjunk _ _ _ HF H0) as Hn. unfold nonjunk in Hn.
  rewrite (is_junk_strip e0 e Hs) in Hn. congruence.
Qed.

Theorem merge_reparse parse name vs txt :
  Forall ukeys vs -> Forall (Forall nonjunk) vs -> merge_channels name vs = Ok txt ->
  exists out, merge_entries vs = Ok out /\ txt = serialize_legacy out /\ Forall nonjunk out /\
    (reparses parse out ->
       Forall nonjunk (parse txt) /\
       forall v e, In v vs -> In e v -> keyed e = true ->
         length (filter (has_key (c_key e)) (parse txt)) = 1).
Proof.
  intros Hu HF H. destruct (merge_channels_inv name vs txt H) as (out & Ho & ->).
  exists out. split; [exact Ho|]. split; [reflexivity|].
  pose proof (merged_nonjunk vs out Hu HF Ho) as Hn. split; [exact Hn|].
  intros Hr. unfold reparses in Hr. split.
  - eapply strip_forall_nonjunk; eassumption.
  - intros v e Hv He Hk.
    rewrite (strip_count (has_key (c_key e)) _ out (has_key_strip (c_key e)) Hr).
    apply (keys_once vs out Hu Ho v e Hv He Hk).
Qed.

(* ---- C16 ------------------------------------------------------------------------------------ *)
Lemma serialize_inv wrap name reference old nd txt :
  serialize wrap name reference old nd = Ok txt ->
  exists out, serialize_entries wrap reference old nd = Ok out /\ txt = serialize_legacy out.
Proof.
  unfold serialize. destruct (get_parser name) as [[p|]|]; cbn; try discriminate.
  destruct (serialize_entries wrap reference old nd) as [out|]; cbn; [|discriminate].
  intros H; inversion H; subst. exists out. auto.
Qed.

Lemma serialized_nonjunk wrap reference old nd out : wrap_ok wrap ->
  serialize_entries wrap reference old nd = Ok out -> Forall nonjunk out.
Proof.
  intros Hw H. apply Forall_forall. intros e He.
  destruct (serialize_sources wrap reference old nd out H e He) as [_ [S|[S|S]]].
  - apply S.
  - apply S.
  - destruct S as (r & raw & _ & _ & _ & Hwr). apply Hw in Hwr. destruct Hwr as [Hk _].
    unfold nonjunk, is_junk. rewrite Hk. reflexivity.
Qed.

Theorem serialize_reparse parse wrap name reference old nd txt :
  uniq (nj reference) -> uniq (nj old) -> NoDup (map fst nd) -> wrap_ok wrap ->
  serialize wrap name reference old nd = Ok txt ->
  exists out, serialize_entries wrap reference old nd = Ok out /\ txt = serialize_legacy out /\
    Forall nonjunk out /\
    (reparses parse out ->
       Forall nonjunk (parse txt) /\
       map c_key (filter is_cent (parse txt)) =
         filter (has_value old nd) (refkeys reference)).
Proof.
  intros H1 H2 H3 H4 H. destruct (serialize_inv _ _ _ _ _ _ H) as (out & Ho & ->).
  exists out. split; [exact Ho|]. split; [reflexivity|].
  pose proof (serialized_nonjunk _ _ _ _ _ H4 Ho) as Hn. split; [exact Hn|].
  intros Hr. unfold reparses in Hr. split.
  - eapply strip_forall_nonjunk; eassumption.
  - rewrite (strip_keys is_cent _ out is_cent_strip Hr).
    apply (entities_keys_thm wrap reference old nd H1 H2 H3 H4 out Ho).
Qed.
