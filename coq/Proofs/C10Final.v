(* Assembly of the C10 statements over the model's own entry points
   ([orun], [lrun], [exit_code]). *)
From Coq Require Import ZArith NArith List Bool Arith Lia.
From CL Require Import Base.Sx Base.Res Base.Str Model.Tree Model.Observer
  Generated.ObserverFacts Proofs.TreeProofs Proofs.TreeRefine Proofs.ObserverProofs
  Proofs.ObserverList.
Import ListNotations.

Local Open Scope nat_scope.

(* ---- one observer ---------------------------------------------------------------- *)
Theorem summary_counts : forall q flt h loc k, Forall ev_ok h ->
  count_of (o_summary (orun q flt init_state h)) loc k = hist_count flt h loc k /\
  total (o_summary (orun q flt init_state h)) k = hist_total flt h k /\
  o_error (orun q flt init_state h) = existsb (ev_sets_error flt) h.
Proof.
  intros q flt h loc k Hh.
  rewrite (proj1 (orun_eq q flt h init_state init_ok Hh)).
  pose proof (proj_run q flt h init_state) as P. unfold proj in P.
  assert (Hs : o_summary (orun_pure q flt init_state h) = fst (se_run flt (proj init_state) h))
    by (unfold proj; rewrite <- P; reflexivity).
  assert (He : o_error (orun_pure q flt init_state h) = snd (se_run flt (proj init_state) h))
    by (unfold proj; rewrite <- P; reflexivity).
  rewrite Hs, He.
  destruct (se_run_count flt h (proj init_state) ltac:(constructor) Hh) as (_ & B & C).
  rewrite B, C, se_run_error. simpl. auto.
Qed.

(* ---- the list ---------------------------------------------------------------------- *)
Lemma forall_filter : forall {A} (P : A -> Prop) (g : A -> bool) l, Forall P l -> Forall P (filter g l).
Proof.
  intros A P g l H. induction H as [|x l Hx Hl IH]; simpl; [constructor|].
  destruct (g x); [constructor; assumption | assumption].
Qed.

Lemma init_list_confs : forall confs, map fst (l_obs (init_list confs)) = confs.
Proof. intro confs. unfold init_list. simpl. rewrite map_map. simpl. apply map_id. Qed.

Theorem list_run : forall q confs h, Forall ev_ok h ->
  let st := fst (lrun q (init_list confs) h) in
  l_own st = orun q None init_state (filter (ev_reaches confs) h) /\
  l_obs st = map (fun cf => (cf, orun (c_quiet cf) (c_filter cf) init_state h)) confs.
Proof.
  intros q confs h Hh. cbv zeta. rewrite lrun_fst.
  destruct (lrun_spec q h (init_list confs) (init_list_ok confs) Hh) as (_ & B & C).
  rewrite init_list_confs in B. split.
  - rewrite B. symmetry. apply (orun_eq q None _ init_state init_ok). apply forall_filter. exact Hh.
  - rewrite C. unfold init_list. simpl. rewrite map_map. simpl. apply map_ext. intro cf.
    f_equal. symmetry. apply (orun_eq _ _ h init_state init_ok Hh).
Qed.

Theorem list_summary : forall q confs h loc k, Forall ev_ok h ->
  let st := fst (lrun q (init_list confs) h) in
  count_of (o_summary (l_own st)) loc k = hist_count None (filter (ev_reaches confs) h) loc k.
Proof.
  intros q confs h loc k Hh. cbv zeta.
  rewrite (proj1 (list_run q confs h Hh)).
  apply summary_counts. apply forall_filter. exact Hh.
Qed.

(* ---- quiet, for the list as compareProjects builds it (one level for all) ------ *)
Definition with_quiet (q : nat) (cf : oconf) : oconf := {| c_quiet := q; c_filter := c_filter cf |}.

Lemma ev_reaches_quiet : forall q confs e, ev_reaches (map (with_quiet q) confs) e = ev_reaches confs e.
Proof.
  intros q confs [c f d | f stats]; [|reflexivity]. simpl. f_equal.
  induction confs as [|cf confs IH]; simpl; [reflexivity | rewrite IH; reflexivity].
Qed.

Lemma hist_paths_filter : forall g h x, In x (hist_paths (filter g h)) -> In x (hist_paths h).
Proof.
  intros g h x. unfold hist_paths. induction h as [|e h IH]; simpl; [auto|].
  destruct (g e); simpl; rewrite ?in_app_iff; tauto.
Qed.

Theorem list_quiet : forall q q' confs h, q <= q' -> Forall ev_ok h -> prefix_free (hist_paths h) ->
  let st := fst (lrun q (init_list (map (with_quiet q) confs)) h) in
  let st' := fst (lrun q' (init_list (map (with_quiet q') confs)) h) in
  o_summary (l_own st') = o_summary (l_own st) /\
  o_error (l_own st') = o_error (l_own st) /\
  (forall rz, exit_code rz st' = exit_code rz st) /\
  (forall p v', In (p, v') (flatten (o_details (l_own st'))) ->
                exists v, In (p, v) (flatten (o_details (l_own st))) /\ subseq v' v) /\
  map (fun cs => (o_summary (snd cs), o_error (snd cs))) (l_obs st') =
  map (fun cs => (o_summary (snd cs), o_error (snd cs))) (l_obs st).
Proof.
  intros q q' confs h Hq Hh Hpf. cbv zeta.
  destruct (list_run q (map (with_quiet q) confs) h Hh) as [A B].
  destruct (list_run q' (map (with_quiet q') confs) h Hh) as [A' B'].
  rewrite A, A', B, B'.
  assert (Ef : filter (ev_reaches (map (with_quiet q') confs)) h = filter (ev_reaches (map (with_quiet q) confs)) h).
  { apply filter_ext. intro e. rewrite !ev_reaches_quiet. reflexivity. }
  rewrite Ef. set (h' := filter (ev_reaches (map (with_quiet q) confs)) h).
  assert (Hh' : Forall ev_ok h') by (apply forall_filter; exact Hh).
  assert (Hpf' : prefix_free (hist_paths h')).
  { eapply prefix_free_sub; [|exact Hpf]. intros x Hx. eapply hist_paths_filter. exact Hx. }
  destruct (orun_quiet q q' None h' Hq Hh' Hpf') as (S1 & S2 & S3).
  split; [exact S1|]. split; [exact S2|]. split.
  - intro rz. unfold exit_code. rewrite A, A', Ef. fold h'. rewrite S2. reflexivity.
  - split; [exact S3|]. rewrite !map_map. simpl. apply map_ext. intro cf.
    destruct (orun_quiet q q' (c_filter cf) h Hq Hh Hpf) as (T1 & T2 & _). rewrite T1, T2. reflexivity.
Qed.

(* ---- exit status ------------------------------------------------------------------- *)
Theorem exit_counts : forall rz q confs h, Forall ev_ok h -> Forall no_errors_stats h ->
  let st := fst (lrun q (init_list confs) h) in
  exit_code rz st = exit_error <-> rz = false /\ 0 < total (o_summary (l_own st)) (msg_key CError).
Proof.
  intros rz q confs h Hh Hn. cbv zeta. rewrite exit_code_spec.
  rewrite (proj1 (list_run q confs h Hh)).
  set (h' := filter (ev_reaches confs) h).
  assert (Hh' : Forall ev_ok h') by (apply forall_filter; exact Hh).
  assert (Hn' : Forall no_errors_stats h') by (apply forall_filter; exact Hn).
  destruct (summary_counts q None h' 0%N (msg_key CError) Hh') as (_ & T & E).
  rewrite T, E. rewrite (error_flag_counts None h' Hn'). tauto.
Qed.
