(* Witnesses for the findings of C04, evaluated by the kernel.  The
   .properties witness is re-parsed by the parser model of C01
   (Model/ParseFormats.v, regexes generated from parser/properties.py). *)
From Coq Require Import NArith List Bool Arith Lia.
From CL Require Import Base.Sx Base.Res Base.Str Model.AddRemove Model.Merge Generated.C04Facts
  Model.Entry Model.Parse Model.ParseFormats Proofs.MergeProofs.
Import ListNotations.
Local Open Scope nat_scope.

(* keys of the entities a parse found, and (key, Entity.all) of each *)
Definition entity_keys (s : str) (es : list entry) : list str :=
  flat_map (fun e => match e_kind e, e_key e with
                     | KEntity, Some k => [slice s (fst k) (snd k)]
                     | _, _ => []
                     end) es.

Definition entity_alls (s : str) (es : list entry) : list (str * str) :=
  flat_map (fun e => match e_kind e, e_key e with
                     | KEntity, Some k => [(slice s (fst k) (snd k), all_text s e)]
                     | _, _ => []
                     end) es.

Definition has_junk (es : list entry) : bool :=
  existsb (fun e => match e_kind e with KJunk => true | _ => false end) es.

Definition parsed_keys (s : str) : result (list str) :=
  do es <- walk_properties s; Ok (entity_keys s es).

(* a=1 \n b=2 \n c=3 \n *)
Definition d3_reference : str := [97; 61; 49; 10; 98; 61; 50; 10; 99; 61; 51; 10]%N.
(* a=x\  (no final newline) *)
Definition d3_l10n : str := [97; 61; 120; 92]%N.
Definition key_a : str := [97%N].
Definition key_b : str := [98%N].
Definition key_c : str := [99%N].

Definition d3_refs : list (str * str) :=
  match walk_properties d3_reference with
  | Ok es => entity_alls d3_reference es
  | Raise _ => []
  end.

(* the staged text: the localization is copied and the reference texts appended *)
Definition d3_staged : result str :=
  do a <- merge str_eqb true caps_properties d3_l10n [] [key_b; key_c] d3_refs;
  match a with
  | CopyL10nAppend t => Ok (d3_l10n ++ t)
  | _ => Raise AssertionError
  end.

Lemma d3_witness :
  (* the reference is clean and has the keys a, b, c *)
  (do es <- walk_properties d3_reference; Ok (has_junk es, entity_keys d3_reference es))
    = Ok (false, [key_a; key_b; key_c]) /\
  (* the localization is clean, has no duplicate key and lacks b and c *)
  (do es <- walk_properties d3_l10n; Ok (has_junk es, entity_keys d3_l10n es))
    = Ok (false, [key_a]) /\
  (* merge appends "\n" and the texts of b and c to a copy of the localization *)
  d3_staged = Ok [97; 61; 120; 92; 10; 98; 61; 50; 10; 99; 61; 51; 10]%N /\
  (* ... and the staged text has the keys a and c only *)
  (do t <- d3_staged; parsed_keys t) = Ok [key_a; key_c].
Proof. vm_compute. repeat split; reflexivity. Qed.

(* ---- Android: entities without spans -------------------------------------- *)
Lemma android_one_skip_twice : forall (contents : str) (k : str) (j : bool) missing refs,
  merge str_eqb true caps_android contents [mkskip (None, None) k j] missing refs
  = Ok (Write (contents ++ contents)).
Proof.
  intros contents k j missing refs. unfold merge, caps_android. simpl.
  unfold remove_spans. simpl. unfold pyslice. simpl.
  rewrite !slice_full. simpl. reflexivity.
Qed.

Lemma android_junk_unchanged : forall (contents : str) (k : str) missing refs,
  merge str_eqb true caps_android contents [mkskip (Some 0, Some 0) k true] missing refs
  = Ok (Write contents).
Proof.
  intros contents k missing refs. unfold merge, caps_android. simpl.
  unfold remove_spans. simpl. unfold pyslice. simpl. rewrite slice_full. reflexivity.
Qed.

Lemma android_two_skips_raise : forall (contents : str) (skips : list (skip (K := str))) missing refs,
  2 <= length skips -> (exists s, In s skips /\ sk_start s = None) ->
  merge str_eqb true caps_android contents skips missing refs = Raise TypeError.
Proof.
  intros contents skips missing refs Hlen Hn. unfold merge, caps_android. simpl.
  destruct skips as [|s skips]; [simpl in Hlen; lia|]. simpl nonempty. cbv iota.
  now rewrite (sort_skips_raises (s :: skips) Hlen Hn).
Qed.

(* ---- an entity listed twice in skips -------------------------------------- *)
(* merge() itself appends a reference text once per entry of skips.  Before
   /repo b431102 compare() listed  <!ENTITY w "<b">  (reference
   <!ENTITY w "10em">, two error-level check results) twice; it now lists every
   entity once, which is the premise of C04_appended_once. *)
Definition dtd_l10n : str :=   (* <!ENTITY w "<b">\n *)
  [60;33;69;78;84;73;84;89;32;119;32;34;60;98;34;62;10]%N.
Definition dtd_ref_w : str :=  (* <!ENTITY w "10em"> *)
  [60;33;69;78;84;73;84;89;32;119;32;34;49;48;101;109;34;62]%N.
Definition key_w : str := [119%N].

Lemma twice_witness :
  let sk := mkskip (Some 0, Some 16) key_w false in
  merge str_eqb true caps_dtd dtd_l10n [sk; sk] [] [(key_w, dtd_ref_w)]
  = Ok (Write ([10%N] ++ [10%N] ++ (dtd_ref_w ++ [10%N]) ++ (dtd_ref_w ++ [10%N]))).
Proof. vm_compute. reflexivity. Qed.
