(* C08: duplicated attributes / variant keys and the plural-category check. *)
From Coq Require Import ZArith NArith List Bool Arith Lia Permutation Sorted.
From CL Require Import Base.Sx Base.Res Base.Str
  Generated.C08Facts Model.Ftl Model.CheckFluent Model.CheckFluentSpec
  Proofs.CheckFluentBase Proofs.CheckFluentRefs.
Import ListNotations.

Local Arguments Nat.ltb : simpl never.
Local Arguments Nat.leb : simpl never.
Local Arguments Nat.eqb : simpl never.

(* ---- the shared loop ------------------------------------------------------------------------ *)
Lemma filter_split_perm : forall {A} (p a b : A -> bool) l,
  (forall x, In x l -> p x = a x || b x) -> (forall x, In x l -> a x && b x = false) ->
  Permutation (filter a l ++ filter b l) (filter p l).
Proof.
  intros A p a b l. induction l as [|x l IH]; intros Hp Hd; simpl; [constructor|].
  assert (IH' : Permutation (filter a l ++ filter b l) (filter p l)).
  { apply IH; intros y Hy; [apply Hp | apply Hd]; right; exact Hy. }
  specialize (Hp x (or_introl eq_refl)). specialize (Hd x (or_introl eq_refl)).
  destruct (a x), (b x); simpl in *; try discriminate; rewrite Hp.
  - constructor. exact IH'.
  - apply Permutation_sym. apply Permutation_cons_app. apply Permutation_sym. exact IH'.
  - exact IH'.
Qed.

Section DupProof.
Context {T : Type} (eqb : T -> T -> bool).
Hypothesis eqb_eq : forall a b, eqb a b = true <-> a = b.

Let mem (i : nat) (w : list nat) : bool := existsb (Nat.eqb i) w.

Definition strip (x : bool * nat * T) : T * nat := (snd x, snd (fst x)).

Definition matches (left : T * nat) (rest : list (T * nat)) : list (T * nat) :=
  filter (fun r => eqb (fst left) (fst r)) rest.

Lemma dup_inner_out : forall rest left right wl warned,
  map strip (fst (dup_inner eqb left right rest wl warned)) =
  (if wl then [] else match matches left rest with [] => [] | _ => [left] end) ++ matches left rest.
Proof.
  induction rest as [|r rest IH]; intros left right wl warned; simpl.
  - destruct wl; reflexivity.
  - unfold matches. simpl. destruct (eqb (fst left) (fst r)) eqn:E.
    + specialize (IH left (S right) true (right :: warned)).
      destruct (dup_inner eqb left (S right) rest true (right :: warned)) as [out w]. simpl in *.
      rewrite map_app. simpl. rewrite IH. simpl.
      assert (Hr : (fst left, snd r) = r).
      { apply eqb_eq in E. rewrite E. destruct r; reflexivity. }
      unfold strip at 2. simpl. rewrite Hr.
      destruct wl; simpl; [reflexivity|]. unfold strip. simpl. destruct left; reflexivity.
    + apply IH.
Qed.

Lemma mem_cons : forall i x w, mem i (x :: w) = (i =? x) || mem i w.
Proof. reflexivity. Qed.

Lemma dup_inner_warned : forall rest left right wl warned,
  (forall i, i < right -> mem i (snd (dup_inner eqb left right rest wl warned)) = mem i warned) /\
  (forall j item, nth_error rest j = Some item ->
     mem (right + j) (snd (dup_inner eqb left right rest wl warned)) =
     mem (right + j) warned || eqb (fst left) (fst item)).
Proof.
  induction rest as [|r rest IH]; intros left right wl warned; cbn [dup_inner].
  - split; [reflexivity|]. intros [|j] item H; discriminate.
  - destruct (eqb (fst left) (fst r)) eqn:E.
    + destruct (IH left (S right) true (right :: warned)) as [H1 H2].
      destruct (dup_inner eqb left (S right) rest true (right :: warned)) as [out w].
      cbn [snd fst] in *. split.
      * intros i Hi. rewrite H1 by lia. rewrite mem_cons.
        replace (i =? right) with false by (symmetry; apply Nat.eqb_neq; lia). reflexivity.
      * intros [|j] item Hj; cbn [nth_error] in Hj.
        -- inversion Hj; subst. rewrite Nat.add_0_r, E, orb_true_r.
           rewrite H1 by lia. rewrite mem_cons, Nat.eqb_refl. reflexivity.
        -- replace (right + S j) with (S right + j) by lia. rewrite (H2 j item Hj), mem_cons.
           replace (S right + j =? right) with false by (symmetry; apply Nat.eqb_neq; lia). reflexivity.
    + destruct (IH left (S right) wl warned) as [H1 H2]. split.
      * intros i Hi. apply H1. lia.
      * intros [|j] item Hj; cbn [nth_error] in Hj.
        -- inversion Hj; subst. rewrite Nat.add_0_r, E, orb_false_r. apply H1. lia.
        -- replace (right + S j) with (S right + j) by lia. apply H2, Hj.
Qed.

Lemma count_eq_cons : forall x y l, count_eq eqb x (y :: l) = (if eqb x y then 1 else 0) + count_eq eqb x l.
Proof. intros. unfold count_eq. simpl. destruct (eqb x y); reflexivity. Qed.

Lemma eqb_sym' : forall a b, eqb a b = eqb b a.
Proof.
  intros a b. destruct (eqb a b) eqn:E.
  - apply eqb_eq in E. subst. symmetry. apply eqb_eq. reflexivity.
  - destruct (eqb b a) eqn:E'; [|reflexivity]. apply eqb_eq in E'. subst.
    rewrite (proj2 (eqb_eq a a) eq_refl) in E. discriminate.
Qed.

Lemma count_eq_matches : forall it rest,
  count_eq eqb (fst it) (map fst rest) = length (matches it rest).
Proof.
  intros it rest. unfold count_eq, matches. induction rest as [|r rest IH]; simpl; [reflexivity|].
  destruct (eqb (fst it) (fst r)); simpl; rewrite IH; reflexivity.
Qed.

Lemma dup_outer_perm : forall items left warned (seen : T -> bool),
  (forall j item, nth_error items j = Some item -> mem (left + j) warned = seen (fst item)) ->
  Permutation (map strip (dup_outer eqb left items warned))
              (filter (fun it => negb (seen (fst it)) && (2 <=? count_eq eqb (fst it) (map fst items))) items).
Proof.
  induction items as [|it rest IH]; intros left warned seen Hinv; simpl; [constructor|].
  pose proof (Hinv 0 it eq_refl) as H0. rewrite Nat.add_0_r in H0. fold (mem left warned).
  destruct (mem left warned) eqn:Ew.
  - (* already warned: the class was handled by an earlier left *)
    rewrite <- H0. simpl.
    rewrite (IH (S left) warned seen).
    + apply Permutation_refl'. apply filter_ext_in. intros x Hx.
      destruct (seen (fst x)) eqn:Es; [reflexivity|]. simpl. rewrite count_eq_cons.
      destruct (eqb (fst x) (fst it)) eqn:E; [|reflexivity].
      apply eqb_eq in E. rewrite E in Es. congruence.
    + intros j item Hj. replace (S left + j) with (left + S j) by lia. apply Hinv. exact Hj.
  - rewrite <- H0. simpl negb. rewrite andb_true_l.
    pose proof (dup_inner_out rest it (S left) false warned) as Hout.
    destruct (dup_inner_warned rest it (S left) false warned) as [Hw1 Hw2].
    destruct (dup_inner eqb it (S left) rest false warned) as [out w]. simpl in Hout, Hw1, Hw2.
    rewrite map_app, Hout.
    set (seen' := fun t => seen t || eqb (fst it) t).
    rewrite (IH (S left) w seen').
    2:{ intros j item Hj. change (S left + j) with (S (left + j)).
        rewrite (Hw2 j item Hj). unfold seen'. f_equal.
        replace (S (left + j)) with (left + S j) by lia. apply Hinv. exact Hj. }
    rewrite count_eq_cons, (proj2 (eqb_eq _ _) eq_refl), count_eq_matches.
    assert (Hrest : Permutation
      (matches it rest ++ filter (fun x => negb (seen' (fst x)) && (2 <=? count_eq eqb (fst x) (map fst rest))) rest)
      (filter (fun x => negb (seen (fst x)) && (2 <=? count_eq eqb (fst x) (map fst (it :: rest)))) rest)).
    { unfold matches. apply filter_split_perm.
      - intros x Hx. unfold seen'. simpl map. rewrite count_eq_cons, (eqb_sym' (fst x) (fst it)).
        destruct (eqb (fst it) (fst x)) eqn:E.
        + apply eqb_eq in E. rewrite <- E, <- H0. simpl.
          rewrite count_eq_matches.
          assert (In x (matches it rest)).
          { unfold matches. apply filter_In. split; [exact Hx | apply eqb_eq; exact E]. }
          destruct (matches it rest); [contradiction | reflexivity].
        + rewrite orb_false_r. reflexivity.
      - intros x Hx. unfold seen'. destruct (eqb (fst it) (fst x)); [|reflexivity].
        rewrite orb_true_r. reflexivity. }
    destruct (matches it rest) as [|m ms] eqn:Em.
    + simpl. simpl in Hrest. exact Hrest.
    + simpl. constructor. exact Hrest.
Qed.

Theorem dups_perm : forall items, Permutation (map strip (dups eqb items)) (duplicated eqb items).
Proof.
  intro items. unfold dups, duplicated.
  apply (dup_outer_perm items 0 [] (fun _ => false)). intros. reflexivity.
Qed.
End DupProof.

Theorem dup_attr_msgs_perm : forall attrs,
  Permutation (dup_attr_msgs attrs)
              (map (fun it => emit y_dup_attr_left KDupAttr (snd it) [fst it])
                   (duplicated str_eqb (map (fun a => (a_name a, a_pos a)) attrs))).
Proof.
  intro attrs. unfold dup_attr_msgs.
  rewrite <- (dups_perm str_eqb str_eqb_eq), map_map.
  apply Permutation_refl'. apply map_ext. intros [[[] p] n]; reflexivity.
Qed.

Theorem dup_variant_msgs_perm : forall keys,
  Permutation (dup_variant_msgs keys)
              (map (fun it => emit y_dup_variant_left KDupVariant (snd it) [key_string (fst it)])
                   (duplicated vkey_eqb keys)).
Proof.
  intro keys. unfold dup_variant_msgs.
  rewrite <- (dups_perm vkey_eqb vkey_eqb_eq), map_map.
  apply Permutation_refl'. apply map_ext. intros [[[] p] n]; reflexivity.
Qed.

(* ---- where these warnings stand in the result of check_message / check_term ------------------- *)
Lemma filter_ev_kind : forall kf known rr evs,
  (forall t, kf (KObsRef t) = false) ->
  filter (by_kind kf) (flat_map (ev_msg known rr) evs) =
  flat_map (fun keys => (if kf KDupVariant then dup_variant_msgs keys else [])
                        ++ (if kf KPlural then plural_msgs known keys else [])) (selects_of evs).
Proof.
  intros kf known rr evs Hk. rewrite filter_flat_map. unfold selects_of. rewrite flat_map_flat_map.
  apply flat_map_ext. intros [p id attr|p id [a|]|keys]; simpl; try reflexivity.
  - unfold obsolete_ref. destruct (dhas _ _ _); simpl; [reflexivity|]. unfold by_kind. simpl. rewrite Hk. reflexivity.
  - unfold obsolete_ref. destruct (dhas _ _ _); simpl; [reflexivity|]. unfold by_kind. simpl. rewrite Hk. reflexivity.
  - rewrite app_nil_r. apply filter_check_variants.
Qed.

Lemma filter_missing_kind : forall kf rrefs lrefs,
  (forall t, kf (KMissRef t) = false) -> filter (by_kind kf) (missing_ref_msgs rrefs lrefs) = [].
Proof.
  intros kf rrefs lrefs Hk. unfold missing_ref_msgs. rewrite filter_flat_map. apply flat_map_nil. intros [k d].
  rewrite filter_flat_map. apply flat_map_nil. intros [n t]. simpl.
  destruct (mem_str _ _); simpl; [reflexivity|]. unfold by_kind. simpl. rewrite Hk. reflexivity.
Qed.

Lemma selects_of_app : forall a b, selects_of (a ++ b) = selects_of a ++ selects_of b.
Proof. intros. unfold selects_of. apply flat_map_app. Qed.

Lemma selects_of_flat_map : forall {A} (g : A -> list event) l,
  selects_of (flat_map g l) = flat_map (fun x => selects_of (g x)) l.
Proof. intros. unfold selects_of. apply flat_map_flat_map. Qed.

Theorem dup_attr_in_check_message : forall known r l,
  filter is_dup_attr (check_message known r l) = dup_attr_msgs (e_attrs l).
Proof.
  intros. unfold is_dup_attr. rewrite filter_check_message by (try split; reflexivity).
  rewrite filter_ev_kind, filter_missing_kind by reflexivity. simpl.
  rewrite (flat_map_nil (fun _ : list (vkey * nat) => [])) by reflexivity.
  rewrite (flat_map_nil (fun a => filter _ _)).
  - rewrite !app_nil_r. reflexivity.
  - intro a. rewrite filter_ev_kind by reflexivity. apply flat_map_nil. reflexivity.
Qed.

Theorem dup_variant_in_check_message : forall known r l,
  filter is_dup_variant (check_message known r l) =
  flat_map dup_variant_msgs (selects_of (message_events l)).
Proof.
  intros. unfold is_dup_variant. rewrite filter_check_message by (try split; reflexivity).
  rewrite filter_ev_kind, filter_missing_kind by reflexivity. simpl. rewrite app_nil_r.
  unfold message_events. rewrite selects_of_app, flat_map_app, selects_of_flat_map, flat_map_flat_map.
  f_equal.
  - apply flat_map_ext. intro keys. apply app_nil_r.
  - apply flat_map_ext. intro a. rewrite filter_ev_kind by reflexivity. simpl.
    apply flat_map_ext. intro keys. apply app_nil_r.
Qed.

Theorem plural_in_check_message : forall known r l,
  filter is_plural (check_message known r l) =
  flat_map (plural_msgs known) (selects_of (message_events l)).
Proof.
  intros. unfold is_plural. rewrite filter_check_message by (try split; reflexivity).
  rewrite filter_ev_kind, filter_missing_kind by reflexivity. simpl. rewrite app_nil_r.
  unfold message_events. rewrite selects_of_app, flat_map_app, selects_of_flat_map, flat_map_flat_map.
  f_equal. apply flat_map_ext. intro a. rewrite filter_ev_kind by reflexivity. reflexivity.
Qed.

(* check_term: duplicated attributes, then the checks of every select expression of the deep walk *)
Theorem check_term_exact : forall known l,
  check_term known l =
  dup_attr_msgs (e_attrs l) ++ flat_map (check_variants known) (selects_of (term_events l)).
Proof.
  intros. unfold check_term. f_equal. unfold selects_of. rewrite flat_map_flat_map.
  apply flat_map_ext. intros [p id attr|p id attr|keys]; simpl; rewrite ?app_nil_r; reflexivity.
Qed.

(* ---- sorted(set) ---------------------------------------------------------------------------------- *)
Definition str_lt (a b : str) : Prop := str_ltb a b = true.

Lemma str_ltb_irrefl : forall a, str_ltb a a = false.
Proof. induction a as [|x a IH]; simpl; [reflexivity|]. rewrite N.ltb_irrefl, N.eqb_refl, IH. reflexivity. Qed.

Lemma str_ltb_trans : forall a b c, str_ltb a b = true -> str_ltb b c = true -> str_ltb a c = true.
Proof.
  induction a as [|x a IH]; intros [|y b] [|z c]; simpl; try discriminate; try reflexivity.
  rewrite !orb_true_iff, !andb_true_iff, !N.ltb_lt, !N.eqb_eq.
  intros [H1|[H1 H1']] [H2|[H2 H2']].
  - left. lia.
  - left. lia.
  - left. lia.
  - right. split; [lia|]. eapply IH; eassumption.
Qed.

Lemma str_ltb_total : forall a b, str_ltb a b = false -> str_eqb a b = false -> str_ltb b a = true.
Proof.
  unfold str_eqb. induction a as [|x a IH]; intros [|y b]; simpl; try discriminate; try reflexivity.
  rewrite !orb_false_iff, !andb_false_iff, orb_true_iff, andb_true_iff, N.ltb_lt, !N.ltb_ge, !N.eqb_neq, N.eqb_eq.
  intros [H1 H2] H3.
  destruct (N.eq_dec x y) as [E|E].
  - right. split; [congruence|]. apply IH.
    + destruct H2 as [H2|H2]; [contradiction | exact H2].
    + destruct H3 as [H3|H3]; [contradiction | exact H3].
  - left. lia.
Qed.

Lemma insert_str_In : forall x l n, In n (insert_str x l) <-> n = x \/ In n l.
Proof.
  intros x l n. induction l as [|y l IH]; simpl.
  - split; [intros [H|[]]; auto | intros [H|[]]; auto].
  - destruct (str_ltb x y).
    + simpl. split; [intros [H|H]; auto | intros [H|H]; auto].
    + destruct (str_eqb x y) eqn:E.
      * apply str_eqb_eq in E. subst. simpl. split; [auto | intros [H|H]; auto].
      * simpl. rewrite IH. split; [intros [H|[H|H]]; auto | intros [H|[H|H]]; auto].
Qed.

Lemma insert_str_sorted : forall x l, StronglySorted str_lt l -> StronglySorted str_lt (insert_str x l).
Proof.
  intros x l H. induction H as [|y l Hs IH Hy]; simpl.
  - constructor; constructor.
  - destruct (str_ltb x y) eqn:E1.
    + constructor; [constructor; assumption|]. constructor; [exact E1|].
      rewrite Forall_forall in *. intros z Hz. eapply str_ltb_trans; [exact E1 | apply Hy, Hz].
    + destruct (str_eqb x y) eqn:E2; [constructor; assumption|].
      constructor; [exact IH|]. rewrite Forall_forall in *. intros z Hz.
      apply insert_str_In in Hz. destruct Hz as [->|Hz]; [|apply Hy, Hz].
      apply str_ltb_total; assumption.
Qed.

Theorem sorted_set_spec : forall l,
  StronglySorted str_lt (sorted_set l) /\ forall n, In n (sorted_set l) <-> In n l.
Proof.
  induction l as [|x l [IH1 IH2]]; simpl.
  - split; [constructor | tauto].
  - split; [apply insert_str_sorted, IH1|]. intro n. rewrite insert_str_In, IH2.
    split; [intros [H|H]; auto | intros [H|H]; auto].
Qed.

(* ---- the plural check ------------------------------------------------------------------------------------ *)
Definition plural_expected (kp : list str) (keys : list (vkey * nat)) : Prop :=
  (exists c, In c kp /\ c <> s_other /\ In c (given_plurals keys)) /\
  (exists c, In c kp /\ ~ In c (given_plurals keys)).

Theorem plural_msgs_spec : forall known keys,
  match known with
  | None => plural_msgs known keys = []
  | Some kp =>
      (plural_expected kp keys ->
         exists k0 p0 rest missing,
           keys = (k0, p0) :: rest /\
           plural_msgs known keys = [emit y_missing_plural KPlural p0 [join s_comma missing]] /\
           StronglySorted str_lt missing /\
           forall c, In c missing <-> In c kp /\ ~ In c (given_plurals keys))
      /\ (~ plural_expected kp keys -> plural_msgs known keys = [])
  end.
Proof.
  intros [kp|] keys; [|reflexivity].
  unfold plural_msgs, plural_expected. fold (given_plurals keys).
  set (given := given_plurals keys).
  set (check := filter (fun c => negb (str_eqb c s_other)) kp).
  set (missing := sorted_set (filter (fun c => negb (mem_str c given)) kp)).
  assert (Hmiss : forall c, In c missing <-> In c kp /\ ~ In c given).
  { intro c. unfold missing. rewrite (proj2 (sorted_set_spec _)), filter_In, negb_true_iff, mem_str_false. tauto. }
  assert (Hex : existsb (fun g => mem_str g check) given = true <->
                exists c, In c kp /\ c <> s_other /\ In c given).
  { rewrite existsb_exists. split.
    - intros [g [Hg Hm]]. apply mem_str_In in Hm. unfold check in Hm. apply filter_In in Hm.
      destruct Hm as [Hk Hn]. apply negb_true_iff, str_eqb_neq in Hn. exists g. auto.
    - intros [c [Hk [Hn Hg]]]. exists c. split; [exact Hg|]. apply mem_str_In. unfold check.
      apply filter_In. split; [exact Hk|]. apply negb_true_iff, str_eqb_neq. exact Hn. }
  destruct kp as [|c0 kp'].
  { split; [|reflexivity]. intros [[c [[] _]] _]. }
  split.
  - intros [H1 [c [Hc1 Hc2]]]. apply Hex in H1.
    assert (Hm : In c missing) by (apply Hmiss; auto).
    destruct keys as [|[k0 p0] rest] eqn:Ek.
    { exfalso. destruct (proj1 Hex H1) as [c' [_ [_ Hin]]]. exact Hin. }
    exists k0, p0, rest, missing. split; [reflexivity|]. split.
    + rewrite H1. destruct missing; [contradiction | reflexivity].
    + split; [apply sorted_set_spec | exact Hmiss].
  - intro Hn. destruct (existsb (fun g => mem_str g check) given) eqn:E; [|reflexivity].
    destruct missing as [|m ms] eqn:Em; [reflexivity|].
    exfalso. apply Hn. split; [apply Hex; reflexivity|].
    exists m. apply Hmiss. left. reflexivity.
Qed.
