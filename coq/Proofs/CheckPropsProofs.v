(* Proofs about Model/CheckProps.v: the printf verdict over the difflib model. *)
From Coq Require Import NArith List Bool Arith Lia ZifyBool.
From CL Require Import Base.Sx Base.Res Base.Str Regex.Rx Regex.RxLemmas
  Generated.RxC06 Generated.C06Facts Model.Difflib Model.CheckProps Model.CheckPropsSpec
  Proofs.DifflibProofs.
Import ListNotations.

Local Arguments Nat.ltb : simpl never.
Local Arguments Nat.leb : simpl never.
Local Arguments Nat.eqb : simpl never.
Local Arguments Nat.sub : simpl never.

(* ---- equality tests ---------------------------------------------------------- *)
Lemma str_eqb_eq (x y : str) : str_eqb x y = true <-> x = y.
Proof.
  unfold str_eqb. revert y; induction x as [|c x IH]; intros [|d y]; cbn;
    try (split; [discriminate|discriminate]); try (split; reflexivity).
  rewrite andb_true_iff, N.eqb_eq, IH. split; [intros [-> ->]; reflexivity|].
  intros H; inversion H; auto.
Qed.

Lemma spec_eqb_eq (x y : spec) : spec_eqb x y = true <-> x = y.
Proof.
  destruct x as [x|], y as [y|]; cbn; try (split; [discriminate|discriminate]);
    try (split; reflexivity).
  rewrite str_eqb_eq. split; [intros ->; reflexivity|intros H; inversion H; reflexivity].
Qed.

Lemma specs_eqb_eq (x y : list spec) : specs_eqb x y = true <-> x = y.
Proof.
  revert y; induction x as [|c x IH]; intros [|d y]; cbn;
    try (split; [discriminate|discriminate]); try (split; reflexivity).
  rewrite andb_true_iff, spec_eqb_eq, IH. split; [intros [-> ->]; reflexivity|].
  intros H; inversion H; auto.
Qed.

(* ---- mapM ----------------------------------------------------------------------- *)
Lemma mapM_ok {A B} (f : A -> result B) : forall l,
  (forall x, In x l -> exists y, f x = Ok y) ->
  exists ys, mapM f l = Ok ys /\ length ys = length l.
Proof.
  induction l as [|x l IH]; intros H; cbn; [exists []; auto|].
  destruct (H x (or_introl eq_refl)) as [y ->].
  destruct IH as (ys & -> & Hl); [intros z Hz; apply H; right; exact Hz|].
  exists (y :: ys). cbn. auto.
Qed.

(* ---- the format strings take the arguments the code gives them -------------- *)
Definition fmt2_ok (f : str) : Prop := forall n x, exists s, pyfmt f [FN n; FS x] = Ok s.

Lemma fmt_trailing_ok : fmt2_ok lit_pf_fmt_trailing.
Proof. intros n x. eexists. vm_compute. reflexivity. Qed.
Lemma fmt_missing_ok : fmt2_ok lit_pf_fmt_missing.
Proof. intros n x. eexists. vm_compute. reflexivity. Qed.
Lemma fmt_obsolete_ok : fmt2_ok lit_pf_fmt_obsolete.
Proof. intros n x. eexists. vm_compute. reflexivity. Qed.
Lemma fmt_replace_ok : forall n x y, exists s, pyfmt lit_pf_fmt_replace [FN n; FS x; FS y] = Ok s.
Proof. intros n x y. eexists. vm_compute. reflexivity. Qed.

Lemma msg_ref_ok f l i : fmt2_ok f -> i < length l -> exists s, msg_ref f l i = Ok s.
Proof.
  intros Hf Hi. unfold msg_ref, nth_spec.
  destruct (nth_error l i) as [x|] eqn:E; [apply Hf|].
  apply nth_error_None in E. lia.
Qed.

Lemma msg_replace_ok refS ls i j : i < length refS -> j < length ls ->
  exists s, msg_replace refS ls (i, j) = Ok s.
Proof.
  intros Hi Hj. unfold msg_replace, nth_spec.
  destruct (nth_error ls j) as [y|] eqn:E1; [|apply nth_error_None in E1; lia].
  destruct (nth_error refS i) as [x|] eqn:E2; [|apply nth_error_None in E2; lia].
  apply fmt_replace_ok.
Qed.

Lemma in_range x lo hi : In x (range lo hi) -> lo <= x < hi.
Proof. unfold range. rewrite in_seq. lia. Qed.

Lemma range_length lo hi : length (range lo hi) = hi - lo.
Proof. apply seq_length. Qed.

(* ---- the opcode walk --------------------------------------------------------------
   an opcode is quiet when it produces no error message: "equal", or the
   "delete" that reaches the end of the reference list *)
Definition quiet_op (la : nat) (o : opcode) : bool :=
  match o_tag o with
  | Equal => true
  | Delete => Nat.eqb (o_i2 o) la
  | _ => false
  end.

Lemma walk_ops_ok refS ls : forall ops i j msgs warn,
  tiles refS ls ops i j ->
  exists msgs' warn', walk_ops refS ls ops msgs warn = Ok (msgs ++ msgs', warn') /\
    (msgs' = [] <-> forallb (quiet_op (length refS)) ops = true).
Proof.
  induction ops as [|o ops IH]; intros i j msgs warn Ht; cbn [walk_ops forallb].
  - exists [], warn. rewrite app_nil_r. split; [reflexivity|]. split; reflexivity.
  - destruct Ht as (H1 & H2 & (B1 & B2 & B3 & B4 & Htag) & Ht).
    unfold quiet_op at 1. destruct (o_tag o).
    + (* Replace *)
      destruct Htag as [T1 T2].
      destruct (mapM_ok (msg_replace refS ls)
                  (combine (range (o_i1 o) (o_i2 o)) (range (o_j1 o) (o_j2 o)))) as (ws & -> & Hl).
      { intros [x y] Hin. pose proof (in_combine_l _ _ _ _ Hin) as Hx.
        pose proof (in_combine_r _ _ _ _ Hin) as Hy.
        apply in_range in Hx. apply in_range in Hy. apply msg_replace_ok; lia. }
      destruct (IH _ _ (msgs ++ ws) warn Ht) as (m' & w' & -> & _).
      exists (ws ++ m'), w'. rewrite app_assoc. split; [reflexivity|].
      rewrite combine_length, !range_length in Hl.
      split; [|discriminate]. intros E. destruct ws; [cbn in Hl; lia|discriminate].
    + (* Delete *)
      destruct Htag as [T1 T2].
      destruct (Nat.eqb (o_i2 o) (length refS)) eqn:E.
      * destruct (mapM_ok (msg_ref lit_pf_fmt_trailing refS) (range (o_i1 o) (o_i2 o)))
          as (ws & -> & Hl).
        { intros x Hx. apply in_range in Hx. apply msg_ref_ok; [apply fmt_trailing_ok|lia]. }
        destruct (IH _ _ msgs (Some (join lit_pf_join_warn ws)) Ht) as (m' & w' & -> & Hq).
        exists m', w'. split; [reflexivity|exact Hq].
      * destruct (mapM_ok (msg_ref lit_pf_fmt_missing refS) (range (o_i1 o) (o_i2 o)))
          as (ws & -> & Hl).
        { intros x Hx. apply in_range in Hx. apply msg_ref_ok; [apply fmt_missing_ok|lia]. }
        destruct (IH _ _ (msgs ++ ws) warn Ht) as (m' & w' & -> & _).
        exists (ws ++ m'), w'. rewrite app_assoc. split; [reflexivity|].
        rewrite range_length in Hl.
        split; [|discriminate]. intros E'. destruct ws; [cbn in Hl; lia|discriminate].
    + (* Insert *)
      destruct Htag as [T1 T2].
      destruct (mapM_ok (msg_ref lit_pf_fmt_obsolete ls) (range (o_j1 o) (o_j2 o)))
        as (ws & -> & Hl).
      { intros x Hx. apply in_range in Hx. apply msg_ref_ok; [apply fmt_obsolete_ok|lia]. }
      destruct (IH _ _ (msgs ++ ws) warn Ht) as (m' & w' & -> & _).
      exists (ws ++ m'), w'. rewrite app_assoc. split; [reflexivity|].
      rewrite range_length in Hl.
      split; [|discriminate]. intros E'. destruct ws; [cbn in Hl; lia|discriminate].
    + (* Equal *)
      destruct (IH _ _ msgs warn Ht) as (m' & w' & -> & Hq).
      exists m', w'. split; [reflexivity|exact Hq].
Qed.

(* ---- quiet opcodes only: the second list is a prefix of the first -------------- *)
Lemma nth_error_ext {A} : forall (l1 l2 : list A),
  (forall d, nth_error l1 d = nth_error l2 d) -> l1 = l2.
Proof.
  induction l1 as [|x l1 IH]; intros [|y l2] H; auto.
  - specialize (H 0); discriminate.
  - specialize (H 0); discriminate.
  - pose proof (H 0) as H0. cbn in H0. inversion H0; subst. f_equal.
    apply IH. intros d. apply (H (S d)).
Qed.

Lemma pointwise_prefix {A} (a b : list A) : length b <= length a ->
  (forall d, d < length b -> nth_error a d = nth_error b d) -> prefix b a.
Proof.
  intros Hl H. exists (skipn (length b) a).
  rewrite <- (firstn_skipn (length b) a) at 1. f_equal.
  apply nth_error_ext. intros d.
  destruct (le_lt_dec (length b) d) as [Hge|Hlt].
  - assert (nth_error b d = None) as -> by (apply nth_error_None; lia).
    apply nth_error_None. rewrite firstn_length. lia.
  - rewrite <- (H d Hlt). clear H. revert d a Hl Hlt. generalize (length b) as n.
    induction n as [|n IH]; intros d a Hl Hlt; [lia|].
    destruct a as [|x a]; [cbn in Hl; lia|]. destruct d; cbn; [reflexivity|].
    apply IH; cbn in Hl; lia.
Qed.

Lemma tiles_quiet_prefix {T} (a b : list T) : forall ops i j,
  tiles a b ops i j -> forallb (quiet_op (length a)) ops = true ->
  length b - j <= length a - i /\
  forall d, d < length b - j -> nth_error a (i + d) = nth_error b (j + d).
Proof.
  induction ops as [|o ops IH]; intros i j Ht Hq.
  - destruct Ht as [-> ->]. split; [lia|]. intros d Hd. lia.
  - destruct Ht as (H1 & H2 & (B1 & B2 & B3 & B4 & Htag) & Ht).
    cbn in Hq. apply andb_true_iff in Hq. destruct Hq as [Hq Hqs].
    unfold quiet_op in Hq. destruct (o_tag o) eqn:Etag; try discriminate.
    + (* the trailing delete: nothing may follow *)
      destruct Htag as [T1 T2]. apply Nat.eqb_eq in Hq.
      destruct ops as [|o' ops].
      * destruct Ht as [_ Hj]. split; [lia|]. intros d Hd. lia.
      * exfalso. destruct Ht as (H1' & _ & (C1 & C2 & _ & _ & Htag') & _).
        cbn in Hqs. apply andb_true_iff in Hqs. destruct Hqs as [Hq' _].
        unfold quiet_op in Hq'. destruct (o_tag o'); try discriminate; lia.
    + (* equal *)
      destruct Htag as (T1 & T2 & T3).
      destruct (IH _ _ Ht Hqs) as [L1 L2]. split; [lia|].
      intros d Hd. destruct (le_lt_dec (o_i2 o - o_i1 o) d) as [Hge|Hlt].
      * specialize (L2 (d - (o_i2 o - o_i1 o)) ltac:(lia)).
        replace (o_i2 o + (d - (o_i2 o - o_i1 o))) with (i + d) in L2 by lia.
        replace (o_j2 o + (d - (o_i2 o - o_i1 o))) with (j + d) in L2 by lia. exact L2.
      * rewrite <- H1, <- H2. apply T3. exact Hlt.
Qed.

(* ---- literals: what the generated constants must be ------------------------------ *)
Lemma printf_literals :
  lit_pf_exc_sev = s_error /\ lit_pf_exc_cat = s_printf /\
  lit_pf_err_sev = s_error /\ lit_pf_err_cat = s_printf /\ lit_pf_err_pos = 0 /\
  lit_pf_warn_sev = s_warning /\ lit_pf_warn_cat = s_printf /\ lit_pf_warn_pos = 0.
Proof. repeat split; reflexivity. Qed.

(* ---- the verdict of the comparison ------------------------------------------------ *)
Definition error_f (p : nat) (m : str) : finding := mkf s_error p false m s_printf.
Definition warning_f (m : str) : finding := mkf s_warning 0 false m s_printf.

Lemma has_error_findings msgs warn :
  has_error (printf_findings msgs warn) = nonempty msgs.
Proof.
  unfold printf_findings. destruct printf_literals as (_ & _ & -> & _ & _ & -> & _ & _).
  destruct msgs; destruct warn; reflexivity.
Qed.

Theorem compare_specs_verdict : forall refS ls,
  length ls < autojunk_threshold ->
  exists fs, compare_specs refS ls = Ok fs /\
    (has_error fs = true <-> ~ prefix ls refS) /\
    (ls = refS -> fs = []) /\
    (prefix ls refS -> ls <> refS ->
       exists ws, mapM (msg_ref lit_pf_fmt_trailing refS) (range (length ls) (length refS)) = Ok ws /\
                  fs = [warning_f (join lit_pf_join_warn ws)]) /\
    (~ prefix ls refS ->
       exists m rest, fs = error_f 0 m :: rest /\
                      (rest = [] \/ exists w, rest = [warning_f w])).
Proof.
  intros refS ls Hlen. unfold compare_specs.
  destruct (specs_eqb refS ls) eqn:Eeq.
  - apply specs_eqb_eq in Eeq. subst ls. exists []. split; [reflexivity|].
    split; [|split; [|split]].
    + split; [discriminate|]. intros H. exfalso. apply H. exists []. rewrite app_nil_r. reflexivity.
    + reflexivity.
    + intros _ H. contradiction.
    + intros H. exfalso. apply H. exists []. rewrite app_nil_r. reflexivity.
  - assert (refS <> ls) as Hne.
    { intros E. apply specs_eqb_eq in E. congruence. }
    assert (autojunk_threshold <=? length ls = false) as -> by (apply Nat.leb_gt; exact Hlen).
    destruct (get_opcodes_tiles spec_eqb spec_eqb_eq refS ls) as (ops & Hops & Ht).
    (* proper prefix: the opcodes are known exactly *)
    assert (prefix ls refS -> exists ws,
              mapM (msg_ref lit_pf_fmt_trailing refS) (range (length ls) (length refS)) = Ok ws /\
              walk_ops refS ls ops [] None = Ok ([], Some (join lit_pf_join_warn ws))) as Hpre.
    { intros [c Hc]. subst refS. assert (c <> []) as Hcn.
      { intros ->. rewrite app_nil_r in Hne. congruence. }
      rewrite (get_opcodes_prefix spec_eqb spec_eqb_eq ls c Hcn) in Hops. inversion Hops; subst ops.
      destruct (mapM_ok (msg_ref lit_pf_fmt_trailing (ls ++ c)) (range (length ls) (length (ls ++ c))))
        as (ws & Hws & _).
      { intros x Hx. apply in_range in Hx. apply msg_ref_ok; [apply fmt_trailing_ok|lia]. }
      exists ws. split; [exact Hws|].
      destruct (Nat.eqb (length ls) 0); cbn [app walk_ops o_tag o_i1 o_i2];
        rewrite Nat.eqb_refl, Hws; reflexivity. }
    rewrite Hops.
    destruct (walk_ops_ok refS ls ops 0 0 [] None Ht) as (msgs & warn & Hw & Hq).
    rewrite Hw. cbn [app]. eexists; split; [reflexivity|].
    rewrite has_error_findings.
    assert (~ prefix ls refS <-> nonempty msgs = true) as Hiff.
    { split.
      - intros Hnp. destruct msgs; [|reflexivity]. exfalso. apply Hnp.
        destruct (tiles_quiet_prefix refS ls ops 0 0 Ht (proj1 Hq eq_refl)) as [L1 L2].
        apply pointwise_prefix; [lia|]. intros d Hd. apply (L2 d). lia.
      - intros Hm Hp. destruct (Hpre Hp) as (ws & _ & Hw'). rewrite Hw in Hw'.
        inversion Hw'; subst. discriminate. }
    split; [|split; [|split]].
    + split; intros H; apply Hiff; exact H.
    + intros E. congruence.
    + intros Hp _. destruct (Hpre Hp) as (ws & Hws & Hw'). rewrite Hw in Hw'.
      inversion Hw'; subst. exists ws. split; [exact Hws|].
      unfold printf_findings, warning_f. cbn.
      destruct printf_literals as (_ & _ & _ & _ & _ & -> & -> & ->). reflexivity.
    + intros Hnp. apply Hiff in Hnp. unfold printf_findings, error_f, warning_f. rewrite Hnp.
      destruct printf_literals as (_ & _ & -> & -> & -> & -> & -> & ->).
      eexists; eexists; split; [reflexivity|].
      destruct warn; [right; eexists; reflexivity|left; reflexivity].
Qed.

(* ---- checkPrintf -------------------------------------------------------------------- *)
Theorem check_printf_verdict : forall refS v,
  match get_printf_specs v with
  | Raise t => check_printf refS v = Raise t
  | Ok (SErr p e) => check_printf refS v = Ok [error_f p (perr_msg e)]
  | Ok (SOk ls) =>
      length ls < autojunk_threshold ->
      exists fs, check_printf refS v = Ok fs /\
        (has_error fs = true <-> ~ prefix ls refS) /\
        (ls = refS -> fs = []) /\
        (prefix ls refS -> ls <> refS ->
           exists ws, mapM (msg_ref lit_pf_fmt_trailing refS)
                           (range (length ls) (length refS)) = Ok ws /\
                      fs = [warning_f (join lit_pf_join_warn ws)]) /\
        (~ prefix ls refS ->
           exists m rest, fs = error_f 0 m :: rest /\
                          (rest = [] \/ exists w, rest = [warning_f w]))
  end.
Proof.
  intros refS v. unfold check_printf. destruct (get_printf_specs v) as [[p e|ls]|t].
  - unfold error_f. destruct printf_literals as (-> & -> & _). reflexivity.
  - intros H. apply compare_specs_verdict. exact H.
  - reflexivity.
Qed.

(* getPrintfSpecs never runs out of fuel *)
Lemma specs_loop_fuel s : forall ms h specs, specs_loop s ms h specs <> Raise OutOfFuel.
Proof.
  induction ms as [|x ms IH]; intros h specs; cbn.
  - destruct (h && negb (forallb truthy_spec specs)); discriminate.
  - destruct (gtext s g_printf_good x); [|discriminate].
    destruct (str_eqb s0 lit_pe_escaped); [apply IH|].
    destruct (_ || _); [discriminate|].
    destruct (gtext s g_printf_number x) as [nt|]; [|apply IH].
    destruct (py_int nt) as [n|t] eqn:E.
    + destruct n; [destruct (length specs); [discriminate|apply IH]|].
      destruct (_ <=? _); apply IH.
    + intros H. inversion H; subst. clear -E. unfold py_int in E.
      destruct nt; [discriminate|]. revert E. generalize 0%N. generalize (n :: nt).
      induction l as [|c l IHl]; intros acc E; cbn in E; [discriminate|].
      destruct (_ && _); [eapply IHl; exact E|discriminate].
Qed.

Theorem get_printf_specs_fuel v : get_printf_specs v <> Raise OutOfFuel.
Proof.
  unfold get_printf_specs, finditer. destruct (rfinditer rx_printf v) eqn:E.
  - apply specs_loop_fuel.
  - exfalso. exact (rfinditer_no_fuel _ _ E).
Qed.
