(* C08: which messages are errors; terms; sorting and rebasing; totality. *)
From Coq Require Import ZArith NArith List Bool Arith Lia Permutation Sorted.
From CL Require Import Base.Sx Base.Res Base.Str Regex.Rx Regex.RxLemmas
  Generated.RxC08 Generated.C08Facts Model.Ftl Model.CheckFluent Model.CheckFluentSpec
  Proofs.CheckFluentBase.
Import ListNotations.

Local Arguments Nat.ltb : simpl never.
Local Arguments Nat.leb : simpl never.

(* ---- the style attribute ------------------------------------------------------------------ *)
Lemma check_style_error : forall d m e, has_error (fst (check_style d m e)) = css_bad m e.
Proof.
  intros d m e. unfold check_style, css_bad.
  destruct m as [[|x lm]|]; try reflexivity.
  destruct e as [[|y es]|]; try reflexivity;
    destruct (css_l10n_loop (x :: lm) d []) as [d' msgs]; simpl;
    destruct (fold_left _ d' msgs); reflexivity.
Qed.

Lemma lstyle_error : forall a rc, has_error (fst (lstyle a rc)) = bad_style_attr a.
Proof.
  intros a rc. unfold lstyle, bad_style_attr.
  destruct (str_eqb (a_name a) s_style); simpl; [|reflexivity].
  destruct (pattern_variants (a_value a)) as [t|]; [|reflexivity].
  destruct (parse_css_spec t) as [m e].
  destruct rc as [|[d|]]; simpl; try apply check_style_error.
  pose proof (check_style_error d m e) as H. destruct (check_style d m e). exact H.
Qed.

Lemma attr_stream_error : forall known R attrs rc,
  has_error (attr_stream known R attrs rc) = existsb bad_style_attr attrs.
Proof.
  intros known R attrs. induction attrs as [|a attrs IH]; intro rc; simpl; [reflexivity|].
  rewrite !has_error_app, ev_msg_no_error, lstyle_error, IH. reflexivity.
Qed.

(* ---- value and attribute names ---------------------------------------------------------------- *)
Lemma value_msgs_error : forall R l,
  has_error (value_msgs R l) = negb (Bool.eqb (r_has_value R) (is_some (e_value l))).
Proof.
  intros R l. unfold value_msgs. destruct (e_value l) as [[vpos p]|]; destruct (r_has_value R); reflexivity.
Qed.

Lemma missing_part_error : forall rpos lpos : list (str * nat),
  has_error (flat_map (fun p => if dhas str_eqb (fst p) lpos then []
                                else [emit y_missing_attribute KMissAttr 0 [fst p]]) rpos)
  = negb (subset_str (map fst rpos) (map fst lpos)).
Proof.
  intros rpos lpos. rewrite has_error_flat_map. unfold subset_str.
  induction rpos as [|[n p] rpos IH]; simpl; [reflexivity|].
  rewrite IH, dhas_mem_keys. destruct (mem_str n (map fst lpos)); reflexivity.
Qed.

Lemma obsolete_part_error : forall rpos lpos : list (str * nat),
  has_error (flat_map (fun p => if dhas str_eqb (fst p) rpos then []
                                else [emit y_obsolete_attribute KObsAttr (snd p) [fst p]]) lpos)
  = negb (subset_str (map fst lpos) (map fst rpos)).
Proof.
  intros rpos lpos. rewrite has_error_flat_map. unfold subset_str.
  induction lpos as [|[n p] lpos IH]; simpl; [reflexivity|].
  rewrite IH, dhas_mem_keys. destruct (mem_str n (map fst rpos)); reflexivity.
Qed.

Lemma attr_msgs_error : forall rpos lpos,
  has_error (attr_msgs rpos lpos) =
  negb (subset_str (map fst rpos) (map fst lpos) && subset_str (map fst lpos) (map fst rpos)).
Proof.
  intros. unfold attr_msgs. rewrite has_error_app, missing_part_error, obsolete_part_error.
  rewrite negb_andb. reflexivity.
Qed.

(* ---- C08_errors -------------------------------------------------------------------------------- *)
Theorem check_message_error : forall known r l,
  has_error (check_message known r l) =
  negb (Bool.eqb (ref_has_value r) (has_value l)) || negb (same_attr_names r l) || bad_style l.
Proof.
  intros known r l. rewrite check_message_msgs.
  rewrite !has_error_app, dup_attr_no_error, ev_msg_no_error, attr_stream_error,
    value_msgs_error, attr_msgs_error, missing_ref_no_error, r_has_value_rvisit.
  unfold same_attr_names, bad_style, has_value.
  rewrite (subset_str_ext _ (attr_names r) _ (attr_names l) (r_attr_pos_keys r) (l10n_attr_pos_keys l)).
  rewrite (subset_str_ext _ (attr_names l) _ (attr_names r) (l10n_attr_pos_keys l) (r_attr_pos_keys r)).
  simpl. rewrite orb_false_r.
  destruct (negb (Bool.eqb _ _)), (negb (_ && _)), (existsb _ _); reflexivity.
Qed.

Lemma same_attr_names_spec : forall r l,
  same_attr_names r l = true <-> (forall n, In n (attr_names r) <-> In n (attr_names l)).
Proof.
  intros r l. unfold same_attr_names. rewrite andb_true_iff, !subset_str_spec. split.
  - intros [H1 H2] n. split; auto.
  - intro H. split; intros n Hn; apply H; exact Hn.
Qed.

Theorem check_message_error_iff : forall known r l,
  has_error (check_message known r l) = true <->
  ref_has_value r <> has_value l
  \/ ~ (forall n, In n (attr_names r) <-> In n (attr_names l))
  \/ bad_style l = true.
Proof.
  intros known r l. rewrite check_message_error, !orb_true_iff, !negb_true_iff.
  rewrite <- same_attr_names_spec. split.
  - intros [[H|H]|H].
    + left. intro E. rewrite E in H. rewrite Bool.eqb_reflx in H. discriminate.
    + right. left. congruence.
    + right. right. exact H.
  - intros [H|[H|H]].
    + left. left. destruct (ref_has_value r), (has_value l); try reflexivity; exfalso; apply H; reflexivity.
    + left. right. destruct (same_attr_names r l); [exfalso; apply H; reflexivity | reflexivity].
    + right. exact H.
Qed.

Theorem same_shape_no_error : forall known r l,
  ref_has_value r = has_value l ->
  (forall n, In n (attr_names r) <-> In n (attr_names l)) ->
  bad_style l = false ->
  has_error (check_message known r l) = false.
Proof.
  intros known r l Hv Hn Hs. rewrite check_message_error, Hv, Hs, Bool.eqb_reflx.
  apply same_attr_names_spec in Hn. rewrite Hn. reflexivity.
Qed.

(* ---- terms ----------------------------------------------------------------------------------------- *)
Theorem check_term_no_error : forall known l, has_error (check_term known l) = false.
Proof.
  intros. unfold check_term. rewrite has_error_app, dup_attr_no_error, has_error_flat_map. simpl.
  apply existsb_false. intros [p id attr|p id attr|keys]; simpl; auto using check_variants_no_error.
Qed.

(* ---- sorting and rebasing ----------------------------------------------------------------------------- *)
Lemma insert_msg_perm : forall x s, Permutation (insert_msg x s) (x :: s).
Proof.
  intros x s. induction s as [|y s IH]; simpl; [reflexivity|].
  destruct (m_pos y <? m_pos x); [|reflexivity].
  rewrite IH. apply perm_swap.
Qed.

Theorem sort_msgs_perm : forall l, Permutation (sort_msgs l) l.
Proof.
  induction l as [|x l IH]; simpl; [constructor|].
  unfold sort_msgs in *. simpl. rewrite insert_msg_perm. constructor. exact IH.
Qed.

Definition pos_le (a b : msg) : Prop := m_pos a <= m_pos b.

Lemma insert_msg_sorted : forall x s, StronglySorted pos_le s -> StronglySorted pos_le (insert_msg x s).
Proof.
  intros x s H. induction H as [|y s Hs IH Hy]; simpl.
  - constructor; constructor.
  - destruct (m_pos y <? m_pos x) eqn:E.
    + constructor; [exact IH|]. apply Nat.ltb_lt in E.
      rewrite Forall_forall in *. intros z Hz.
      apply (Permutation_in _ (insert_msg_perm x s)) in Hz. destruct Hz as [<-|Hz].
      * unfold pos_le. lia.
      * apply Hy, Hz.
    + apply Nat.ltb_ge in E. constructor; [constructor; assumption|].
      constructor; [exact E|]. rewrite Forall_forall in *. intros z Hz. specialize (Hy z Hz).
      unfold pos_le in *. lia.
Qed.

Theorem sort_msgs_sorted : forall l, StronglySorted pos_le (sort_msgs l).
Proof.
  induction l as [|x l IH]; [constructor|]. unfold sort_msgs in *. simpl.
  apply insert_msg_sorted, IH.
Qed.

(* stability: the messages of one position keep their order *)
Lemma insert_msg_filter : forall p x s,
  filter (fun m => m_pos m =? p) (insert_msg x s) = filter (fun m => m_pos m =? p) (x :: s).
Proof.
  intros p x s. induction s as [|y s IH]; [reflexivity|]. simpl insert_msg.
  destruct (m_pos y <? m_pos x) eqn:E; [|reflexivity].
  apply Nat.ltb_lt in E. simpl in *. rewrite IH.
  destruct (m_pos x =? p) eqn:Ex, (m_pos y =? p) eqn:Ey; try reflexivity.
  apply Nat.eqb_eq in Ex, Ey. lia.
Qed.

Theorem sort_msgs_stable : forall p l,
  filter (fun m => m_pos m =? p) (sort_msgs l) = filter (fun m => m_pos m =? p) l.
Proof.
  intros p l. induction l as [|x l IH]; [reflexivity|]. unfold sort_msgs in *. simpl fold_right.
  rewrite insert_msg_filter. simpl. rewrite IH. reflexivity.
Qed.

Lemma has_error_perm : forall a b, Permutation a b -> has_error a = has_error b.
Proof.
  intros a b H. induction H; simpl; try congruence.
  destruct (m_err x), (m_err y); reflexivity.
Qed.

(* ---- totality ----------------------------------------------------------------------------------------------- *)
Theorem css_spec_finditer_total : forall val, rfinditer rx_c08_css_spec val <> None.
Proof. intro val. apply rfinditer_no_fuel. Qed.

Theorem css_sep_match_total : forall s off, rmatch rx_c08_css_sep s off <> MFuel.
Proof. intros. apply rmatch_no_fuel. Qed.

Theorem encoding_issues_total : forall all key, exists v, encoding_issues all key = Ok v.
Proof.
  intros all key. unfold encoding_issues.
  destruct (rfinditer rx_c08_mochibake all) eqn:E; [eexists; reflexivity|].
  exfalso. exact (rfinditer_no_fuel _ _ E).
Qed.

Lemma lookup_str_In : forall {V} k (m : list (str * V)) v, lookup_str k m = Some v -> In (k, v) m.
Proof.
  intros V k m v. induction m as [|[k' v'] m IH]; simpl; [discriminate|].
  destruct (str_eqb k k') eqn:E.
  - intro H. inversion H; subst. apply str_eqb_eq in E. subst. left. reflexivity.
  - intro H. right. apply IH, H.
Qed.

Lemma plural_indices_in_range :
  forallb (fun p => snd p <? length categories_by_index) categories_by_locale = true.
Proof. vm_compute. reflexivity. Qed.

Theorem get_plural_total : forall locale, exists v, get_plural locale = Ok v.
Proof.
  intro locale. unfold get_plural. destruct (get_plural_rule locale) as [i|] eqn:E; [|eexists; reflexivity].
  assert (Hi : i < length categories_by_index).
  { unfold get_plural_rule in E. destruct locale as [loc|]; [|discriminate].
    pose proof plural_indices_in_range as H. rewrite forallb_forall in H.
    destruct (lookup_str loc categories_by_locale) as [j|] eqn:E1.
    - inversion E; subst. apply lookup_str_In in E1. apply H in E1. apply Nat.ltb_lt in E1. exact E1.
    - apply lookup_str_In in E. apply H in E. apply Nat.ltb_lt in E. exact E. }
  destruct (nth_error categories_by_index i) eqn:En; [eexists; reflexivity|].
  apply nth_error_None in En. lia.
Qed.

Theorem check_total : forall locale r l all key, exists issues, check locale r l all key = Ok issues.
Proof.
  intros. unfold check.
  destruct (encoding_issues_total all key) as [enc ->].
  destruct (get_plural_total locale) as [known ->]. simpl. eexists. reflexivity.
Qed.

(* ---- check = encoding warnings ++ sorted, rebased entry messages ------------------------------------------------ *)
Lemma encoding_no_error : forall all key enc, encoding_issues all key = Ok enc -> existsb i_err enc = false.
Proof.
  intros all key enc. unfold encoding_issues. destruct (rfinditer _ _); [|discriminate].
  intro H. inversion H; subst. clear H. induction l as [|x l IH]; [reflexivity|]. simpl. exact IH.
Qed.

Lemma rebase_err : forall start l, existsb i_err (map (rebase start) l) = has_error l.
Proof. intros. induction l as [|x l IH]; simpl; [reflexivity | rewrite IH; reflexivity]. Qed.

Theorem check_error : forall locale r l all key issues known,
  check locale r l all key = Ok issues -> get_plural locale = Ok known ->
  existsb i_err issues = has_error (entry_msgs known r l).
Proof.
  intros locale r l all key issues known. unfold check.
  destruct (encoding_issues all key) as [enc|] eqn:Ee; simpl; [|discriminate].
  intros H Hk. rewrite Hk in H. simpl in H. inversion H; subst. clear H.
  rewrite existsb_app, (encoding_no_error _ _ _ Ee), rebase_err. simpl.
  apply has_error_perm, sort_msgs_perm.
Qed.

Theorem check_term_independent : forall locale r r' l all key,
  e_term l = true -> check locale r l all key = check locale r' l all key.
Proof. intros. unfold check, entry_msgs. rewrite H. reflexivity. Qed.

Theorem check_term_never_error : forall locale r l all key issues,
  e_term l = true -> check locale r l all key = Ok issues -> existsb i_err issues = false.
Proof.
  intros locale r l all key issues Ht H.
  destruct (get_plural_total locale) as [known Hk].
  rewrite (check_error _ _ _ _ _ _ _ H Hk). unfold entry_msgs. rewrite Ht. apply check_term_no_error.
Qed.
