(* Statements of C01 over the parser models: what it means for a getNext to
   be well behaved, and what the walk then guarantees.  Definitions only;
   the proofs are in Proofs/WalkProofs.v. *)
From Coq Require Import NArith List Bool Arith.
From CL Require Import Base.Sx Base.Res Base.Str Regex.Rx Model.Entry Model.Parse.
Import ListNotations.

(* one step: the entry starts exactly where it was asked to, is not
   zero-width, stays inside the text, and its own span is ordered *)
Definition entry_ok (s : str) (off : nat) (e : entry) : Prop :=
  span_start e = off /\ off < snd (e_span e) /\ snd (e_span e) <= length s /\
  span_start e <= fst (e_span e) /\ fst (e_span e) <= snd (e_span e).

Definition span_inside (lo hi : nat) (o : option span) : Prop :=
  forall sp, o = Some sp -> lo <= fst sp /\ fst sp <= snd sp /\ snd sp <= hi.

(* every entity's key and value lie inside its own text *)
Definition spans_inside (e : entry) : Prop :=
  e_kind e = KEntity ->
  span_inside (span_start e) (snd (e_span e)) (e_key e) /\
  span_inside (span_start e) (snd (e_span e)) (e_val e).

Definition gn_contract {C} (gn : C -> str -> nat -> entry * C) : Prop :=
  forall c s off, off < length s ->
    entry_ok s off (fst (gn c s off)) /\ spans_inside (fst (gn c s off)).

(* the entries tile [off, length s): each starts where the previous ended *)
Fixpoint tiles (s : str) (off : nat) (es : list entry) : Prop :=
  match es with
  | [] => length s <= off
  | e :: es' => span_start e = off /\ off < snd (e_span e) /\
                snd (e_span e) <= length s /\ tiles s (snd (e_span e)) es'
  end.

Definition lossless {C} (gn : C -> str -> nat -> entry * C) (c0 : C) (s : str) : Prop :=
  exists es,
    walk gn c0 s = Ok es /\                             (* terminates: fuel never exhausted *)
    length es <= length s /\                            (* finite, at most one entry per character *)
    concat (map (all_text s) es) = s /\                 (* nothing lost, duplicated or reordered *)
    tiles s 0 es /\
    Forall spans_inside es /\
    walk_localizable gn c0 s = Ok (filter is_localizable es).

(* DTD: a leading byte-order mark is dropped, and a file that is only the
   mark yields the single zero-width Junk (1,1) *)
Definition bom : N := 65279%N.
Definition body_of (s : str) : str :=
  match s with c :: s' => if N.eqb c bom then s' else s | [] => [] end.
Definition skip_of (s : str) : nat :=
  match s with c :: _ => if N.eqb c bom then 1 else 0 | [] => 0 end.

Definition lossless_dtd (gn : unit -> str -> nat -> entry * unit) (s : str) : Prop :=
  exists es,
    walk gn tt s = Ok es /\
    length es <= length s /\
    concat (map (all_text s) es) = body_of s /\
    (s = [bom] \/ tiles s (skip_of s) es) /\
    Forall spans_inside es /\
    walk_localizable gn tt s = Ok (filter is_localizable es).
