(* C09, arguments: get_params computes the first-occurrence map under implicit
   numbering, and check_params reports exactly the declarative issue sets of
   Proofs/CheckAndroidSpec.v. *)
From Coq Require Import NArith List Bool Arith Lia.
From CL Require Import Base.Sx Base.Res Base.Str Regex.Rx Generated.RxC09 Generated.C09Facts
  Model.CheckAndroid Proofs.CheckAndroidSpec.
Import ListNotations.

(* ---- strings ------------------------------------------------------------------ *)
Lemma str_eqb_eq : forall a b, str_eqb a b = true <-> a = b.
Proof.
  unfold str_eqb. induction a as [|x a IH]; destruct b as [|y b]; simpl; split; intro H;
    try discriminate; auto.
  - apply andb_true_iff in H. destruct H as [H1 H2]. apply N.eqb_eq in H1. apply IH in H2.
    subst. reflexivity.
  - inversion H; subst. apply andb_true_iff. split; [apply N.eqb_refl|]. apply IH. reflexivity.
Qed.

Lemma str_eqb_refl : forall a, str_eqb a a = true.
Proof. intro a. apply str_eqb_eq. reflexivity. Qed.

Lemma str_eqb_neq : forall a b, str_eqb a b = false <-> a <> b.
Proof.
  intros a b. split.
  - intros H E. apply str_eqb_eq in E. congruence.
  - intro H. destruct (str_eqb a b) eqn:E; auto. apply str_eqb_eq in E. contradiction.
Qed.

(* ---- first_conv ------------------------------------------------------------------- *)
Lemma first_conv_nil : forall k, first_conv k [] = None.
Proof. reflexivity. Qed.

Lemma first_conv_cons : forall k k' f st rs,
  first_conv k ((k', f, st) :: rs) = if Nat.eqb k k' then Some f else first_conv k rs.
Proof. intros. unfold first_conv. simpl. destruct (Nat.eqb k k'); reflexivity. Qed.

Lemma first_conv_app : forall k a b,
  first_conv k (a ++ b) = match first_conv k a with Some f => Some f | None => first_conv k b end.
Proof.
  intros k a b. induction a as [|[[k' f] st] a IH]; [reflexivity|].
  rewrite <- app_comm_cons, !first_conv_cons. destruct (Nat.eqb k k'); auto.
Qed.

Lemma first_conv_some_in : forall k rs f, first_conv k rs = Some f -> exists st, In (k, f, st) rs.
Proof.
  intros k rs f. induction rs as [|[[k' f'] st] rs IH]; [discriminate|].
  rewrite first_conv_cons. destruct (Nat.eqb k k') eqn:E.
  - intro H. inversion H; subst. apply Nat.eqb_eq in E. subst. exists st. left. reflexivity.
  - intro H. apply IH in H. destruct H as [st' H]. exists st'. right. exact H.
Qed.

Lemma first_conv_none_not_in : forall k rs, first_conv k rs = None ->
  forall f st, ~ In (k, f, st) rs.
Proof.
  intros k rs. induction rs as [|[[k' f'] st'] rs IH]; intros H f st HI; [inversion HI|].
  rewrite first_conv_cons in H. destruct (Nat.eqb k k') eqn:E; [discriminate|].
  destruct HI as [HI|HI].
  - inversion HI; subst. rewrite Nat.eqb_refl in E. discriminate.
  - eapply IH; eauto.
Qed.

Lemma in_first_conv_some : forall k f st rs, In (k, f, st) rs -> exists f2, first_conv k rs = Some f2.
Proof.
  intros k f st rs H. destruct (first_conv k rs) as [f2|] eqn:E; [eauto|].
  exfalso. eapply first_conv_none_not_in; eauto.
Qed.

(* ---- pget --------------------------------------------------------------------------- *)
Lemma pget_app : forall k a b,
  pget k (a ++ b) = match pget k a with Some f => Some f | None => pget k b end.
Proof.
  intros k a b. induction a as [|[k' f] a IH]; [reflexivity|].
  simpl. destruct (Nat.eqb k k'); auto.
Qed.

Lemma pget_in : forall k v m, pget k m = Some v -> In (k, v) m.
Proof.
  intros k v m. induction m as [|[k' v'] m IH]; [discriminate|].
  simpl. destruct (Nat.eqb k k') eqn:E.
  - intro H. inversion H; subst. apply Nat.eqb_eq in E. subst. left. reflexivity.
  - intro H. right. auto.
Qed.

Lemma in_pget_nodup : forall k v m, NoDup (map fst m) -> In (k, v) m -> pget k m = Some v.
Proof.
  intros k v m. induction m as [|[k' v'] m IH]; intros ND HI; [inversion HI|].
  simpl in ND. inversion ND as [|? ? Hn ND']; subst. simpl. destruct HI as [HI|HI].
  - inversion HI; subst. rewrite Nat.eqb_refl. reflexivity.
  - destruct (Nat.eqb k k') eqn:E.
    + apply Nat.eqb_eq in E. subst. exfalso. apply Hn.
      apply (in_map fst) in HI. exact HI.
    + auto.
Qed.

Lemma pget_none_not_in : forall k m, pget k m = None -> ~ In k (map fst m).
Proof.
  intros k m. induction m as [|[k' v'] m IH]; intros H HI; [inversion HI|].
  simpl in H. destruct (Nat.eqb k k') eqn:E; [discriminate|].
  destruct HI as [HI|HI].
  - simpl in HI. subst. rewrite Nat.eqb_refl in E. discriminate.
  - apply IH; auto.
Qed.

Lemma NoDup_app_one : forall (l : list nat) x, NoDup l -> ~ In x l -> NoDup (l ++ [x]).
Proof.
  induction l as [|y l IH]; intros x ND Hn; simpl.
  - constructor; [intros []|constructor].
  - inversion ND; subst. constructor.
    + intro HI. apply in_app_or in HI. destruct HI as [HI|[HI|[]]]; [contradiction|].
      subst. apply Hn. left. reflexivity.
    + apply IH; auto. intro HI. apply Hn. right. exact HI.
Qed.

(* ---- the loop of get_params ------------------------------------------------------------ *)
(* the list of conflict messages, by recursion over the resolved occurrences *)
Fixpoint conflicts_from (seen rs : list rocc) : list (str * nat) :=
  match rs with
  | [] => []
  | (k, f, st) :: rs' =>
      match first_conv k seen with
      | Some f2 => if str_eqb f2 f then [] else [(render t_conflict [dec_of_nat k; f; f2], st)]
      | None => []
      end ++ conflicts_from (seen ++ [(k, f, st)]) rs'
  end.

Definition inv (seen : list rocc) (st : pstate) : Prop :=
  (forall k, pget k (ps_params st) = first_conv k seen) /\
  NoDup (map fst (ps_params st)) /\
  ps_count st = length seen.

Lemma pstep_inv : forall seen st explicit f start,
  inv seen st ->
  let k := match explicit with Some n => n | None => ps_next st end in
  let st' := pstep st (explicit, f, start) in
  inv (seen ++ [(k, f, start)]) st' /\
  ps_next st' = match explicit with Some _ => ps_next st | None => S (ps_next st) end /\
  ps_errors st' = ps_errors st ++ conflicts_from seen [(k, f, start)].
Proof.
  intros seen st explicit f start [Hp [Hnd Hc]] k st'.
  unfold st', pstep. fold k.
  assert (Hk : pget k (ps_params st) = first_conv k seen) by apply Hp.
  simpl conflicts_from. rewrite <- Hk.
  destruct (pget k (ps_params st)) as [f2|] eqn:Eg.
  - destruct (str_eqb f2 f) eqn:Ef; simpl.
    + apply str_eqb_eq in Ef. subst f2. unfold inv; simpl; repeat split.
      * intro k0. rewrite first_conv_app, <- Hp. simpl.
        destruct (pget k0 (ps_params st)) eqn:E0; auto.
        rewrite first_conv_cons. destruct (Nat.eqb k0 k) eqn:E; auto.
        apply Nat.eqb_eq in E. subst. congruence.
      * exact Hnd.
      * rewrite app_length. simpl. lia.
      * rewrite app_nil_r. reflexivity.
    + unfold inv; simpl; repeat split.
      * intro k0. rewrite first_conv_app, <- Hp. simpl.
        destruct (pget k0 (ps_params st)) eqn:E0; auto.
        rewrite first_conv_cons. destruct (Nat.eqb k0 k) eqn:E; auto.
        apply Nat.eqb_eq in E. subst. congruence.
      * exact Hnd.
      * rewrite app_length. simpl. lia.
  - unfold inv; simpl; repeat split.
    + intro k0. rewrite pget_app, first_conv_app, <- Hp.
      destruct (pget k0 (ps_params st)) eqn:E0; auto.
      rewrite first_conv_cons. simpl. destruct (Nat.eqb k0 k); reflexivity.
    + rewrite map_app. simpl. apply NoDup_app_one. exact Hnd. apply pget_none_not_in. exact Eg.
    + rewrite app_length. simpl. lia.
    + rewrite app_nil_r. reflexivity.
Qed.

Lemma resolve_length : forall os n, length (resolve n os) = length os.
Proof.
  induction os as [|[[[e|] f] st] os IH]; intro n; simpl; auto.
Qed.

Lemma fold_inv : forall os seen st, inv seen st ->
  let rs := resolve (ps_next st) os in
  let st' := fold_left pstep os st in
  inv (seen ++ rs) st' /\ ps_errors st' = ps_errors st ++ conflicts_from seen rs.
Proof.
  induction os as [|[[explicit f] start] os IH]; intros seen st Hinv.
  - simpl. rewrite !app_nil_r. split; auto.
  - destruct (pstep_inv seen st explicit f start Hinv) as [Hinv' [Hnext Herr]].
    specialize (IH _ _ Hinv'). cbv zeta in IH. destruct IH as [IH1 IH2].
    cbv zeta.
    change (fold_left pstep ((explicit, f, start) :: os) st)
      with (fold_left pstep os (pstep st (explicit, f, start))).
    assert (Hres : resolve (ps_next st) (@cons occ (explicit, f, start) os) =
                   (match explicit with Some n => n | None => ps_next st end, f, start) ::
                   resolve (ps_next (pstep st (explicit, f, start))) os).
    { rewrite Hnext. destruct explicit; reflexivity. }
    rewrite Hres. split.
    + rewrite <- app_assoc in IH1. exact IH1.
    + rewrite IH2, Herr. simpl conflicts_from.
      destruct (first_conv _ seen) as [f2|]; [destruct (str_eqb f2 f)|]; simpl;
        rewrite <- ?app_assoc, ?app_nil_r; reflexivity.
Qed.

Lemma params_of_occs_spec : forall os,
  let st := params_of_occs os in
  let rs := resolve 1 os in
  (forall k, pget k (ps_params st) = first_conv k rs) /\
  NoDup (map fst (ps_params st)) /\
  ps_count st = length os /\
  ps_errors st = conflicts_from [] rs.
Proof.
  intro os. cbv zeta. unfold params_of_occs.
  assert (H0 : inv [] (mkps [] [] 0 1)).
  { unfold inv. simpl. repeat split; auto. constructor. }
  destruct (fold_inv os [] _ H0) as [[H1 [H2 H3]] H4]. simpl in *.
  repeat split; auto. rewrite H3. apply resolve_length.
Qed.

Lemma conflicts_from_in : forall rs seen e,
  In e (conflicts_from seen rs) <->
  exists pre k f st post f2, rs = pre ++ (k, f, st) :: post /\
    first_conv k (seen ++ pre) = Some f2 /\ f2 <> f /\
    e = (render t_conflict [dec_of_nat k; f; f2], st).
Proof.
  induction rs as [|[[k f] st] rs IH]; intros seen e; simpl.
  - split; [intros []|]. intros [pre [? [? [? [? [? [H _]]]]]]]. destruct pre; discriminate.
  - rewrite in_app_iff, IH. split.
    + intros [H|H].
      * destruct (first_conv k seen) as [f2|] eqn:E; [|inversion H].
        destruct (str_eqb f2 f) eqn:Ef; [inversion H|]. destruct H as [H|[]].
        exists [], k, f, st, rs, f2. rewrite app_nil_r. repeat split; auto.
        apply str_eqb_neq. exact Ef.
      * destruct H as [pre [k' [f' [st' [post [f2 [H1 [H2 [H3 H4]]]]]]]]].
        exists ((k, f, st) :: pre), k', f', st', post, f2. repeat split; auto.
        -- rewrite H1. reflexivity.
        -- rewrite <- app_assoc in H2. exact H2.
    + intros [pre [k' [f' [st' [post [f2 [H1 [H2 [H3 H4]]]]]]]]]. destruct pre as [|r pre].
      * left. simpl in H1. inversion H1; subst. rewrite app_nil_r in H2. rewrite H2.
        apply str_eqb_neq in H3. rewrite H3. left. reflexivity.
      * right. simpl in H1. inversion H1; subst.
        exists pre, k', f', st', post, f2. repeat split; auto.
        rewrite <- app_assoc. exact H2.
Qed.

Lemma conflicts_in : forall rs e,
  In e (conflicts_from [] rs) <->
  exists k f st f2, In (k, f, st) rs /\ first_conv k rs = Some f2 /\ f2 <> f /\
    e = (render t_conflict [dec_of_nat k; f; f2], st).
Proof.
  intros rs e. rewrite conflicts_from_in. split.
  - intros [pre [k [f [st [post [f2 [H1 [H2 [H3 H4]]]]]]]]]. simpl in H2.
    exists k, f, st, f2. repeat split; auto.
    + rewrite H1. apply in_elt.
    + rewrite H1, first_conv_app, H2. reflexivity.
  - intros [k [f [st [f2 [H1 [H2 [H3 H4]]]]]]].
    apply in_split in H1. destruct H1 as [pre [post H1]].
    exists pre, k, f, st, post, f2. repeat split; auto. simpl.
    rewrite H1, first_conv_app in H2. destruct (first_conv k pre) as [x|]; [exact H2|].
    rewrite first_conv_cons, Nat.eqb_refl in H2. inversion H2. congruence.
Qed.

(* ---- sorted(lparams) ----------------------------------------------------------------------- *)
Lemma insert_item_in : forall x y l, In x (insert_item y l) <-> x = y \/ In x l.
Proof.
  intros x y l. induction l as [|z l IH]; simpl.
  - split; intros [H|H]; auto.
  - destruct (fst y <=? fst z); simpl.
    + split; intros [H|H]; auto.
    + rewrite IH. split; intros [H|[H|H]]; auto.
Qed.

Lemma sorted_items_in : forall x m, In x (sorted_items m) <-> In x m.
Proof.
  intros x m. induction m as [|y m IH]; simpl; [tauto|].
  rewrite insert_item_in, IH. split; intros [H|H]; auto.
Qed.

Lemma mem_nat_in : forall k l, mem_nat k l = true <-> In k l.
Proof.
  intros k l. unfold mem_nat. rewrite existsb_exists. split.
  - intros [x [H1 H2]]. apply Nat.eqb_eq in H2. subst. exact H1.
  - intro H. exists k. split; auto. apply Nat.eqb_refl.
Qed.

Lemma pget_none_iff : forall k m, pget k m = None <-> ~ In k (map fst m).
Proof.
  intros k m. split; [apply pget_none_not_in|].
  intro H. destruct (pget k m) as [v|] eqn:E; auto.
  exfalso. apply H. apply pget_in in E. apply (in_map fst) in E. exact E.
Qed.

(* ---- check_params ---------------------------------------------------------------------------- *)
Lemma sev_l10n_conflict : fst y_l10n_conflict = true. Proof. reflexivity. Qed.
Lemma sev_not_in_ref : fst (fst y_not_in_ref) = true. Proof. reflexivity. Qed.
Lemma sev_mismatch : fst (fst y_mismatch) = true. Proof. reflexivity. Qed.
Lemma sev_not_in_l10n : fst (fst y_not_in_l10n) = false. Proof. reflexivity. Qed.
Lemma sev_count : fst (fst y_count) = false. Proof. reflexivity. Qed.

Definition any_param_issue (params : pmap) (rs : list rocc) (i : issue) : Prop :=
  is_conflict rs i \/ is_not_in_ref params rs i \/ is_mismatch params rs i \/ is_omitted params rs i.

Lemma check_params_st_spec : forall (params : pmap) os,
  let l := params_of_occs os in
  let rs := resolve 1 os in
  let conflicts := map (var_issue y_l10n_conflict) (ps_errors l) in
  let missing_ref := flat_map (l10n_param_issue params) (sorted_items (ps_params l)) in
  let missing_l10n := flat_map (ref_param_issue (ps_params l)) params in
  (forall i, In i conflicts <-> is_conflict rs i) /\
  (forall i, In i missing_ref <-> is_not_in_ref params rs i \/ is_mismatch params rs i) /\
  (forall i, In i missing_l10n <-> is_omitted params rs i).
Proof.
  intros params os. cbv zeta.
  destruct (params_of_occs_spec os) as [Hp [Hnd [Hc He]]]. cbv zeta in *.
  split; [|split]; intro i.
  - rewrite in_map_iff. split.
    + intros [[msg st] [H1 H2]]. rewrite He in H2. apply conflicts_in in H2.
      destruct H2 as [k [f [st' [f2 [A [B [C D]]]]]]]. inversion D; subst.
      exists k, f, st', f2. repeat split; auto.
    + intros [k [f [st [f2 [A [B [C D]]]]]]].
      exists (render t_conflict [dec_of_nat k; f; f2], st). split.
      * subst i. reflexivity.
      * rewrite He. apply conflicts_in. exists k, f, st, f2. auto.
  - rewrite in_flat_map. split.
    + intros [[k v] [H1 H2]]. apply (proj1 (sorted_items_in _ _)) in H1.
      apply in_pget_nodup in H1; auto. rewrite Hp in H1.
      unfold l10n_param_issue in H2. simpl in H2.
      destruct (pget k params) as [f'|] eqn:Eg.
      * destruct (str_eqb f' v) eqn:Ef; [inversion H2|]. destruct H2 as [H2|[]].
        right. exists k, v, f'. repeat split; auto. apply str_eqb_neq. exact Ef.
      * destruct H2 as [H2|[]]. left. exists k, v. auto.
    + intros [[k [f [A [B C]]]]|[k [f [f' [A [B [C D]]]]]]].
      * exists (k, f). split.
        -- apply (proj2 (sorted_items_in _ _)). apply pget_in. rewrite Hp. exact A.
        -- unfold l10n_param_issue. simpl. rewrite B. left. auto.
      * exists (k, f). split.
        -- apply (proj2 (sorted_items_in _ _)). apply pget_in. rewrite Hp. exact A.
        -- unfold l10n_param_issue. simpl. rewrite B.
           apply str_eqb_neq in C. rewrite C. left. auto.
  - rewrite in_flat_map. split.
    + intros [[k v] [H1 H2]]. unfold ref_param_issue in H2. simpl in H2.
      destruct (mem_nat k (map fst (sorted_items (ps_params (params_of_occs os))))) eqn:Em;
        [inversion H2|]. destruct H2 as [H2|[]].
      exists k, v. repeat split; auto. rewrite <- Hp. apply pget_none_iff.
      intro HI. assert (Hm : mem_nat k (map fst (sorted_items (ps_params (params_of_occs os)))) = true).
      { apply mem_nat_in. apply in_map_iff in HI. destruct HI as [[k' v'] [E1 E2]].
        apply in_map_iff. exists (k', v'). split; auto. apply (proj2 (sorted_items_in _ _)). exact E2. }
      congruence.
    + intros [k [f [A [B C]]]]. exists (k, f). split; auto.
      unfold ref_param_issue. simpl.
      destruct (mem_nat k (map fst (sorted_items (ps_params (params_of_occs os))))) eqn:Em.
      * exfalso. apply mem_nat_in in Em. apply in_map_iff in Em.
        destruct Em as [[k' v'] [E1 E2]]. simpl in E1. subst k'.
        apply (proj1 (sorted_items_in _ _)) in E2. rewrite <- Hp in B. apply pget_none_iff in B.
        apply B. apply (in_map fst) in E2. exact E2.
      * left. auto.
Qed.

Theorem check_params_spec : forall params count s os,
  scan_params s = Ok os ->
  let rs := resolve 1 os in
  exists issues, check_params params count s = Ok issues /\
  forall i, In i issues <->
    any_param_issue params rs i \/
    (i = count_issue /\ count <> length os /\ forall j, ~ any_param_issue params rs j).
Proof.
  intros params count s os Hs rs.
  unfold check_params, get_params. rewrite Hs. simpl.
  eexists. split; [reflexivity|].
  destruct (check_params_st_spec params os) as [H1 [H2 H3]]. cbv zeta in *. fold rs in H1, H2, H3.
  destruct (params_of_occs_spec os) as [_ [_ [Hc _]]]. cbv zeta in Hc.
  intro i. unfold check_params_st.
  set (c := map (var_issue y_l10n_conflict) (ps_errors (params_of_occs os))) in *.
  set (mr := flat_map (l10n_param_issue params) (sorted_items (ps_params (params_of_occs os)))) in *.
  set (ml := flat_map (ref_param_issue (ps_params (params_of_occs os))) params) in *.
  assert (Hany : forall j, In j (c ++ mr ++ ml) <-> any_param_issue params rs j).
  { intro j. rewrite !in_app_iff, H1, H2, H3. unfold any_param_issue. tauto. }
  rewrite !in_app_iff. rewrite Hc.
  split.
  - intros [H|[H|[H|H]]].
    + left. apply Hany. rewrite !in_app_iff. auto.
    + left. apply Hany. rewrite !in_app_iff. auto.
    + left. apply Hany. rewrite !in_app_iff. auto.
    + destruct (c ++ mr ++ ml) as [|x t] eqn:E; simpl in H.
      * destruct (Nat.eqb count (length os)) eqn:En; simpl in H; [inversion H|].
        destruct H as [H|[]]. right. repeat split; auto.
        -- apply Nat.eqb_neq. exact En.
        -- intros j Hj. apply Hany in Hj. inversion Hj.
      * inversion H.
  - intros [H|[H [Hn Hnone]]].
    + apply Hany in H. rewrite !in_app_iff in H. tauto.
    + right. right. right.
      destruct (c ++ mr ++ ml) as [|x t] eqn:E; simpl.
      * apply Nat.eqb_neq in Hn. rewrite Hn. simpl. left. auto.
      * exfalso. apply (Hnone x). apply Hany. left. reflexivity.
Qed.

(* severities of the declarative issues *)
Lemma conflict_is_error : forall rs i, is_conflict rs i -> i_error i = true.
Proof. intros rs i [k [f [st [f2 [_ [_ [_ H]]]]]]]. subst. reflexivity. Qed.
Lemma not_in_ref_is_error : forall p rs i, is_not_in_ref p rs i -> i_error i = true.
Proof. intros p rs i [k [f [_ [_ H]]]]. subst. reflexivity. Qed.
Lemma mismatch_is_error : forall p rs i, is_mismatch p rs i -> i_error i = true.
Proof. intros p rs i [k [f [f' [_ [_ [_ H]]]]]]. subst. reflexivity. Qed.
Lemma omitted_is_warning : forall p rs i, is_omitted p rs i -> i_error i = false.
Proof. intros p rs i [k [f [_ [_ H]]]]. subst. reflexivity. Qed.
Lemma count_is_warning : i_error count_issue = false.
Proof. reflexivity. Qed.

(* the errors of check_params are exactly the three declarative error sets *)
Theorem check_params_errors : forall params count s os,
  scan_params s = Ok os ->
  let rs := resolve 1 os in
  exists issues, check_params params count s = Ok issues /\
  forall i, (In i issues /\ i_error i = true) <->
    (is_conflict rs i \/ is_not_in_ref params rs i \/ is_mismatch params rs i).
Proof.
  intros params count s os Hs rs.
  destruct (check_params_spec params count s os Hs) as [issues [H1 H2]]. fold rs in H2.
  exists issues. split; auto. intro i. rewrite H2. unfold any_param_issue. split.
  - intros [[[H|[H|[H|H]]]|[H _]] He]; auto.
    + apply omitted_is_warning in H. congruence.
    + subst i. rewrite count_is_warning in He. discriminate.
  - intros [H|[H|H]].
    + split; [auto|]. eapply conflict_is_error; eauto.
    + split; [auto|]. eapply not_in_ref_is_error; eauto.
    + split; [auto|]. eapply mismatch_is_error; eauto.
Qed.

(* every occurrence uses a position of the reference with the reference's
   conversion: no error *)
Theorem check_params_subset_no_error : forall params count s os,
  scan_params s = Ok os ->
  (forall k f st, In (k, f, st) (resolve 1 os) -> pget k params = Some f) ->
  exists issues, check_params params count s = Ok issues /\
                 Forall (fun i => i_error i = false) issues.
Proof.
  intros params count s os Hs Hsub.
  destruct (check_params_errors params count s os Hs) as [issues [H1 H2]].
  exists issues. split; auto. apply Forall_forall. intros i Hi.
  destruct (i_error i) eqn:He; auto. exfalso.
  destruct (proj1 (H2 i) (conj Hi He)) as [H|[H|H]].
  - destruct H as [k [f [st [f2 [A [B [C _]]]]]]].
    apply first_conv_some_in in B. destruct B as [st2 B].
    apply Hsub in A. apply Hsub in B. congruence.
  - destruct H as [k [f [A [B _]]]]. apply first_conv_some_in in A. destruct A as [st A].
    apply Hsub in A. congruence.
  - destruct H as [k [f [f' [A [B [C _]]]]]]. apply first_conv_some_in in A. destruct A as [st A].
    apply Hsub in A. congruence.
Qed.

(* a position of the reference that the localized string omits is reported,
   as a warning *)
Theorem check_params_omitted_warning : forall params count s os k f,
  scan_params s = Ok os ->
  In (k, f) params -> first_conv k (resolve 1 os) = None ->
  exists issues, check_params params count s = Ok issues /\
                 In (not_in_l10n_issue k f) issues /\ i_error (not_in_l10n_issue k f) = false.
Proof.
  intros params count s os k f Hs Hin Hnone.
  destruct (check_params_spec params count s os Hs) as [issues [H1 H2]].
  exists issues. split; auto. split; [|reflexivity].
  apply H2. left. right. right. right. exists k, f. auto.
Qed.

(* and nothing but omissions and the count mismatch is ever a warning *)
Theorem check_params_warnings : forall params count s os,
  scan_params s = Ok os ->
  exists issues, check_params params count s = Ok issues /\
  forall i, In i issues -> i_error i = false ->
            is_omitted params (resolve 1 os) i \/ i = count_issue.
Proof.
  intros params count s os Hs.
  destruct (check_params_spec params count s os Hs) as [issues [H1 H2]].
  exists issues. split; auto. intros i Hi He. apply H2 in Hi.
  destruct Hi as [[H|[H|[H|H]]]|[H _]]; auto.
  - apply conflict_is_error in H. congruence.
  - apply not_in_ref_is_error in H. congruence.
  - apply mismatch_is_error in H. congruence.
Qed.
