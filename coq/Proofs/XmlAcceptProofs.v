(* Model/XmlContent.v accepts every value of the C07 value grammar: text,
   entity references to accepted names, character references to inert
   characters, start / end / empty tags with attributes — and decides their
   balance.  The grammar is a token list; [bal] is the bracket discipline. *)
From Coq Require Import NArith List Bool Arith Lia.
From CL Require Import Base.Str Regex.Rx Generated.C07Facts Model.XmlContent Proofs.XmlRejectProofs.
Import ListNotations.

Local Arguments is_name_start : simpl never.
Local Arguments is_name_char : simpl never.
Local Arguments is_xml_char : simpl never.
Local Arguments is_ws : simpl never.
Local Arguments is_digit : simpl never.
Local Arguments is_hex : simpl never.
Local Arguments N.eqb : simpl never.
Local Arguments Nat.eqb : simpl never.
Local Arguments str_eqb : simpl never.
Local Arguments mem_str : simpl never.
Local Arguments N.mul : simpl never.
Local Arguments N.add : simpl never.

(* ---- the grammar ---------------------------------------------------------------- *)
Inductive apart :=
| AText (s : str)                 (* characters *)
| ARef (n : str)                  (* &n; *)
| ADec (ds : str)                 (* &#ds; *)
| AHex (ds : str).                (* &#xds; *)

Inductive tok :=
| TPart (p : apart)
| TOpen (name : str) (attrs : list (str * list apart))       (* <name a="..." ...> *)
| TEmpty (name : str) (attrs : list (str * list apart))      (* <name a="..." .../> *)
| TClose (name : str).                                       (* </name> *)

Definition render_part (p : apart) : str :=
  match p with
  | AText s => s
  | ARef n => c_amp :: n ++ [c_semi]
  | ADec ds => c_amp :: c_hash :: ds ++ [c_semi]
  | AHex ds => c_amp :: c_hash :: c_x :: ds ++ [c_semi]
  end.

Definition render_parts (ps : list apart) : str := concat (map render_part ps).

Definition render_attr (a : str * list apart) : str :=
  32%N :: fst a ++ c_eq :: c_dq :: render_parts (snd a) ++ [c_dq].

Definition render_attrs (l : list (str * list apart)) : str := concat (map render_attr l).

Definition render_tok (t : tok) : str :=
  match t with
  | TPart p => render_part p
  | TOpen n attrs => c_lt :: n ++ render_attrs attrs ++ [c_gt]
  | TEmpty n attrs => c_lt :: n ++ render_attrs attrs ++ [c_slash; c_gt]
  | TClose n => c_lt :: c_slash :: n ++ [c_gt]
  end.

Definition render (ts : list tok) : str := concat (map render_tok ts).

(* side conditions *)
Definition name_ok (n : str) : bool :=
  match n with
  | c :: cs => is_name_start c && forallb is_name_char cs
  | [] => false
  end.

Definition dec_value (ds : str) : N := fold_left (fun v c => 10 * v + digit_val c)%N ds 0%N.
Definition hex_value (ds : str) : N := fold_left (fun v c => 16 * v + hex_val c)%N ds 0%N.

(* characters that stay harmless when a reference to them is replaced by the character *)
Definition inert (v : N) : bool :=
  is_xml_char v && negb (N.eqb v c_amp) && negb (N.eqb v c_lt) && negb (N.eqb v c_gt) &&
  negb (N.eqb v c_dq) && negb (N.eqb v c_sq).

Definition text_char (c : N) : bool :=
  is_xml_char c && negb (N.eqb c c_lt) && negb (N.eqb c c_amp) && negb (N.eqb c c_gt).

Definition attr_char (c : N) : bool :=
  is_xml_char c && negb (N.eqb c c_lt) && negb (N.eqb c c_amp) && negb (N.eqb c c_dq).

Definition notnil (s : str) : bool := match s with [] => false | _ => true end.

Definition part_ok (refok : str -> bool) (txt : N -> bool) (p : apart) : bool :=
  match p with
  | AText s => forallb txt s
  | ARef n => name_ok n && refok n
  | ADec ds => notnil ds && forallb is_digit ds && inert (dec_value ds)
  | AHex ds => notnil ds && forallb is_hex ds && inert (hex_value ds)
  end.

Fixpoint distinct (l : list str) : bool :=
  match l with
  | [] => true
  | x :: l' => negb (mem_str x l') && distinct l'
  end.

Definition attrs_ok (refok : str -> bool) (attrs : list (str * list apart)) : bool :=
  distinct (map fst attrs) &&
  forallb (fun a => name_ok (fst a) && forallb (part_ok refok attr_char) (snd a)) attrs.

Definition tok_ok (refok : str -> bool) (t : tok) : bool :=
  match t with
  | TPart p => part_ok refok text_char p
  | TOpen n attrs | TEmpty n attrs => name_ok n && attrs_ok refok attrs
  | TClose n => name_ok n
  end.

(* the bracket discipline *)
Fixpoint bal (k : list str) (ts : list tok) : bool :=
  match ts with
  | [] => match k with [] => true | _ => false end
  | TPart _ :: ts' | TEmpty _ _ :: ts' => bal k ts'
  | TOpen n _ :: ts' => bal (n :: k) ts'
  | TClose n :: ts' =>
      match k with
      | top :: k' => str_eqb top n && bal k' ts'
      | [] => false
      end
  end.

(* ---- character facts ----------------------------------------------------------------- *)
Lemma neq_of : forall (f : N -> bool) c d, f c = true -> f d = false -> N.eqb c d = false.
Proof.
  intros f c d Hc Hd. destruct (N.eqb c d) eqn:E; [|reflexivity].
  apply N.eqb_eq in E. subst. congruence.
Qed.

Lemma ws_cases : forall c, is_ws c = true -> c = 32%N \/ c = 9%N \/ c = 10%N \/ c = 13%N.
Proof.
  unfold is_ws. intros c H. repeat (apply orb_true_iff in H; destruct H as [H|H]);
    apply N.eqb_eq in H; auto.
Qed.

Lemma name_char_not_ws : forall c, is_name_char c = true -> is_ws c = false.
Proof.
  intros c H. destruct (is_ws c) eqn:E; [|reflexivity].
  destruct (ws_cases _ E) as [ -> | [ -> | [ -> | -> ] ] ]; vm_compute in H; discriminate.
Qed.

Lemma name_start_not_ws : forall c, is_name_start c = true -> is_ws c = false.
Proof.
  intros c H. destruct (is_ws c) eqn:E; [|reflexivity].
  destruct (ws_cases _ E) as [ -> | [ -> | [ -> | -> ] ] ]; vm_compute in H; discriminate.
Qed.

Lemma name_start_is_char : forall c, is_name_start c = true -> is_name_char c = true.
Proof.
  (* NameChar = NameStartChar + more: the first ranges of the two tables coincide *)
  intros c H. unfold is_name_start, is_name_char in *.
  unfold name_char_ranges. unfold name_start_ranges in H.
  unfold in_ranges in *. cbn [existsb fst snd] in *.
  repeat (apply orb_true_iff in H; destruct H as [H|H]; [rewrite H; repeat rewrite orb_true_r; reflexivity|]).
  discriminate.
Qed.

Ltac nm c d := (apply (neq_of is_name_char c d); [assumption | vm_compute; reflexivity]).
Ltac ns c d := (apply (neq_of is_name_start c d); [assumption | vm_compute; reflexivity]).
Ltac dg c d := (apply (neq_of is_digit c d); [assumption | vm_compute; reflexivity]).
Ltac hx c d := (apply (neq_of is_hex c d); [assumption | vm_compute; reflexivity]).

Section Accept.
Variable refok : str -> bool.

Ltac stp := cbn [run_opt]; unfold step, with_mode, push_tag; cbn [x_mode x_stack x_tag x_attrs back].
Ltac rdc := cbv beta iota; cbn [x_mode x_stack x_tag x_attrs back orb andb].

(* ---- text ---------------------------------------------------------------------------------- *)
Lemma text_run : forall s rb k t a, forallb text_char s = true ->
  exists rb', run_opt refok (mkx (MText rb) k t a) s = Some (mkx (MText rb') k t a).
Proof.
  induction s as [|c s IH]; intros rb k t a H.
  - exists rb. reflexivity.
  - cbn [forallb] in H. apply andb_true_iff in H. destruct H as [Hc Hs].
    unfold text_char in Hc. repeat (apply andb_true_iff in Hc; destruct Hc as [Hc ?]).
    apply negb_true_iff in H, H0, H1. stp. rewrite H1, H0.
    destruct (N.eqb c c_rbr); [apply IH; exact Hs|]. rewrite H, Hc. apply IH. exact Hs.
Qed.

(* ---- references ----------------------------------------------------------------------------- *)
Lemma ent_name_run : forall cs x acc k t a, forallb is_name_char cs = true ->
  run_opt refok (mkx (MEnt x acc) k t a) cs = Some (mkx (MEnt x (rev cs ++ acc)) k t a).
Proof.
  induction cs as [|c cs IH]; intros x acc k t a H; [reflexivity|].
  cbn [forallb] in H. apply andb_true_iff in H. destruct H as [Hc Hs].
  stp. replace (N.eqb c c_semi) with false by (symmetry; nm c c_semi). rewrite Hc. rdc.
  rewrite IH by exact Hs. cbn [rev]. rewrite <- app_assoc. reflexivity.
Qed.

Lemma ref_run : forall n x k t a, name_ok n = true -> refok n = true ->
  run_opt refok (mkx (MAmp x) k t a) (n ++ [c_semi]) = Some (mkx (back x) k t a).
Proof.
  intros [|c cs] x k t a Hn Hr; [discriminate|]. cbn [name_ok] in Hn.
  apply andb_true_iff in Hn. destruct Hn as [Hc Hs].
  cbn [app]. stp. replace (N.eqb c c_hash) with false by (symmetry; ns c c_hash). rewrite Hc.
  rewrite run_opt_app, ent_name_run by exact Hs. stp.
  replace (N.eqb c_semi c_semi) with true by reflexivity.
  replace (rev (rev cs ++ [c])) with (c :: cs) by (rewrite rev_app_distr, rev_involutive; reflexivity).
  rewrite Hr. reflexivity.
Qed.

Lemma dec_digits_run : forall ds x v k t a, forallb is_digit ds = true ->
  run_opt refok (mkx (MDec x v) k t a) ds =
  Some (mkx (MDec x (fold_left (fun v c => 10 * v + digit_val c)%N ds v)) k t a).
Proof.
  induction ds as [|c ds IH]; intros x v k t a H; [reflexivity|].
  cbn [forallb] in H. apply andb_true_iff in H. destruct H as [Hc Hs].
  stp. replace (N.eqb c c_semi) with false by (symmetry; dg c c_semi). rewrite Hc. rdc.
  rewrite IH by exact Hs. reflexivity.
Qed.

Lemma hex_digits_run : forall ds x v k t a, forallb is_hex ds = true ->
  run_opt refok (mkx (MHex x v) k t a) ds =
  Some (mkx (MHex x (fold_left (fun v c => 16 * v + hex_val c)%N ds v)) k t a).
Proof.
  induction ds as [|c ds IH]; intros x v k t a H; [reflexivity|].
  cbn [forallb] in H. apply andb_true_iff in H. destruct H as [Hc Hs].
  stp. replace (N.eqb c c_semi) with false by (symmetry; hx c c_semi). rewrite Hc. rdc.
  rewrite IH by exact Hs. reflexivity.
Qed.

Lemma inert_char : forall v, inert v = true -> is_xml_char v = true.
Proof. unfold inert. intros v H. repeat (apply andb_true_iff in H; destruct H as [H ?]). exact H. Qed.

Lemma dec_run : forall ds x k t a,
  notnil ds = true -> forallb is_digit ds = true -> inert (dec_value ds) = true ->
  run_opt refok (mkx (MAmp x) k t a) (c_hash :: ds ++ [c_semi]) = Some (mkx (back x) k t a).
Proof.
  intros [|c ds] x k t a Hn Hd Hi; [discriminate|].
  cbn [forallb] in Hd. apply andb_true_iff in Hd. destruct Hd as [Hc Hs].
  stp. replace (N.eqb c_hash c_hash) with true by reflexivity. cbn [app]. stp.
  replace (N.eqb c c_x) with false by (symmetry; dg c c_x). rewrite Hc.
  rewrite run_opt_app, dec_digits_run by exact Hs. stp.
  replace (N.eqb c_semi c_semi) with true by reflexivity.
  unfold dec_value in Hi. cbn [fold_left] in Hi.
  replace (10 * 0 + digit_val c)%N with (digit_val c) in Hi by reflexivity.
  rewrite (inert_char _ Hi). reflexivity.
Qed.

Lemma hex_run : forall ds x k t a,
  notnil ds = true -> forallb is_hex ds = true -> inert (hex_value ds) = true ->
  run_opt refok (mkx (MAmp x) k t a) (c_hash :: c_x :: ds ++ [c_semi]) = Some (mkx (back x) k t a).
Proof.
  intros [|c ds] x k t a Hn Hd Hi; [discriminate|].
  cbn [forallb] in Hd. apply andb_true_iff in Hd. destruct Hd as [Hc Hs].
  stp. replace (N.eqb c_hash c_hash) with true by reflexivity. stp.
  replace (N.eqb c_x c_x) with true by reflexivity. cbn [app]. stp. rewrite Hc.
  rewrite run_opt_app, hex_digits_run by exact Hs. stp.
  replace (N.eqb c_semi c_semi) with true by reflexivity.
  unfold hex_value in Hi. cbn [fold_left] in Hi.
  replace (16 * 0 + hex_val c)%N with (hex_val c) in Hi by reflexivity.
  rewrite (inert_char _ Hi). reflexivity.
Qed.

(* a part in element content *)
Lemma part_run_text : forall p rb k t a, part_ok refok text_char p = true ->
  exists rb', run_opt refok (mkx (MText rb) k t a) (render_part p) = Some (mkx (MText rb') k t a).
Proof.
  intros [s|n|ds|ds] rb k t a H; cbn [part_ok render_part] in *.
  - apply text_run. exact H.
  - apply andb_true_iff in H. destruct H as [Hn Hr]. exists 0. stp.
    replace (N.eqb c_amp c_lt) with false by reflexivity.
    replace (N.eqb c_amp c_amp) with true by reflexivity.
    apply (ref_run n RContent); assumption.
  - apply andb_true_iff in H. destruct H as [H Hi]. apply andb_true_iff in H. destruct H as [Hn Hd].
    exists 0. stp.
    replace (N.eqb c_amp c_lt) with false by reflexivity.
    replace (N.eqb c_amp c_amp) with true by reflexivity.
    apply (dec_run ds RContent); assumption.
  - apply andb_true_iff in H. destruct H as [H Hi]. apply andb_true_iff in H. destruct H as [Hn Hd].
    exists 0. stp.
    replace (N.eqb c_amp c_lt) with false by reflexivity.
    replace (N.eqb c_amp c_amp) with true by reflexivity.
    apply (hex_run ds RContent); assumption.
Qed.

(* ---- attribute values ------------------------------------------------------------------------------ *)
Lemma attr_text_run : forall s k t a, forallb attr_char s = true ->
  run_opt refok (mkx (MAVal c_dq) k t a) s = Some (mkx (MAVal c_dq) k t a).
Proof.
  induction s as [|c s IH]; intros k t a H; [reflexivity|].
  cbn [forallb] in H. apply andb_true_iff in H. destruct H as [Hc Hs].
  unfold attr_char in Hc. repeat (apply andb_true_iff in Hc; destruct Hc as [Hc ?]).
  apply negb_true_iff in H, H0, H1. stp. rewrite H, H1, H0, Hc. apply IH. exact Hs.
Qed.

Lemma part_run_attr : forall p k t a, part_ok refok attr_char p = true ->
  run_opt refok (mkx (MAVal c_dq) k t a) (render_part p) = Some (mkx (MAVal c_dq) k t a).
Proof.
  intros [s|n|ds|ds] k t a H; cbn [part_ok render_part] in *.
  - apply attr_text_run. exact H.
  - apply andb_true_iff in H. destruct H as [Hn Hr]. stp.
    replace (N.eqb c_amp c_dq) with false by reflexivity.
    replace (N.eqb c_amp c_lt) with false by reflexivity.
    replace (N.eqb c_amp c_amp) with true by reflexivity.
    apply (ref_run n (RAttr c_dq)); assumption.
  - apply andb_true_iff in H. destruct H as [H Hi]. apply andb_true_iff in H. destruct H as [Hn Hd].
    stp.
    replace (N.eqb c_amp c_dq) with false by reflexivity.
    replace (N.eqb c_amp c_lt) with false by reflexivity.
    replace (N.eqb c_amp c_amp) with true by reflexivity.
    apply (dec_run ds (RAttr c_dq)); assumption.
  - apply andb_true_iff in H. destruct H as [H Hi]. apply andb_true_iff in H. destruct H as [Hn Hd].
    stp.
    replace (N.eqb c_amp c_dq) with false by reflexivity.
    replace (N.eqb c_amp c_lt) with false by reflexivity.
    replace (N.eqb c_amp c_amp) with true by reflexivity.
    apply (hex_run ds (RAttr c_dq)); assumption.
Qed.

Lemma parts_run_attr : forall ps k t a, forallb (part_ok refok attr_char) ps = true ->
  run_opt refok (mkx (MAVal c_dq) k t a) (render_parts ps) = Some (mkx (MAVal c_dq) k t a).
Proof.
  induction ps as [|p ps IH]; intros k t a H; [reflexivity|].
  cbn [forallb] in H. apply andb_true_iff in H. destruct H as [Hp Hs].
  unfold render_parts. cbn [map concat]. rewrite run_opt_app, part_run_attr by exact Hp.
  apply IH. exact Hs.
Qed.

Lemma aname_run : forall cs acc k t a, forallb is_name_char cs = true ->
  run_opt refok (mkx (MAName acc) k t a) cs = Some (mkx (MAName (rev cs ++ acc)) k t a).
Proof.
  induction cs as [|c cs IH]; intros acc k t a H; [reflexivity|].
  cbn [forallb] in H. apply andb_true_iff in H. destruct H as [Hc Hs].
  stp. rewrite Hc. rdc. rewrite IH by exact Hs. cbn [rev]. rewrite <- app_assoc. reflexivity.
Qed.

(* one attribute, from inside the start tag, after its leading blank *)
Lemma attr_body_run : forall an ps k t a,
  name_ok an = true -> forallb (part_ok refok attr_char) ps = true -> mem_str an a = false ->
  run_opt refok (mkx (MSTag true) k t a) (an ++ c_eq :: c_dq :: render_parts ps ++ [c_dq]) =
  Some (mkx (MSTag false) k t (an :: a)).
Proof.
  intros [|c cs] ps k t a Hn Hp Hm; [discriminate|]. cbn [name_ok] in Hn.
  apply andb_true_iff in Hn. destruct Hn as [Hc Hs].
  cbn [app]. stp.
  rewrite (name_start_not_ws _ Hc).
  replace (N.eqb c c_gt) with false by (symmetry; ns c c_gt).
  replace (N.eqb c c_slash) with false by (symmetry; ns c c_slash).
  rewrite Hc. rdc. rewrite run_opt_app, aname_run by exact Hs. stp.
  replace (is_name_char c_eq) with false by reflexivity.
  replace (N.eqb c_eq c_eq) with true by reflexivity. rdc.
  replace (rev (rev cs ++ [c])) with (c :: cs) by (rewrite rev_app_distr, rev_involutive; reflexivity).
  rewrite Hm. rdc. stp.
  replace (is_ws c_dq) with false by reflexivity.
  replace (N.eqb c_dq c_dq) with true by reflexivity. rdc.
  rewrite run_opt_app, parts_run_attr by exact Hp. stp.
  replace (N.eqb c_dq c_dq) with true by reflexivity. reflexivity.
Qed.

Lemma attr_run : forall an ps sp k t a,
  name_ok an = true -> forallb (part_ok refok attr_char) ps = true -> mem_str an a = false ->
  run_opt refok (mkx (MSTag sp) k t a) (render_attr (an, ps)) = Some (mkx (MSTag false) k t (an :: a)).
Proof.
  intros an ps sp k t a Hn Hp Hm. unfold render_attr. cbn [fst snd]. stp.
  replace (is_ws 32) with true by reflexivity. rdc. apply attr_body_run; assumption.
Qed.

Lemma distinct_cons : forall x l, distinct (x :: l) = true -> mem_str x l = false /\ distinct l = true.
Proof. intros x l H. cbn [distinct] in H. apply andb_true_iff in H. destruct H as [H1 H2]. apply negb_true_iff in H1. auto. Qed.

Lemma mem_str_cons : forall x y l, mem_str x (y :: l) = str_eqb x y || mem_str x l.
Proof. reflexivity. Qed.

Lemma str_eqb_sym : forall a b : str, str_eqb a b = str_eqb b a.
Proof.
  unfold str_eqb. induction a as [|x a IH]; destruct b as [|y b]; try reflexivity.
  rewrite N.eqb_sym, IH. reflexivity.
Qed.

(* all attributes; the names seen so far are [seen], none of them is used again *)
Lemma attrs_run : forall attrs sp k t seen,
  distinct (map fst attrs) = true ->
  forallb (fun a => name_ok (fst a) && forallb (part_ok refok attr_char) (snd a)) attrs = true ->
  (forall a, In a attrs -> mem_str (fst a) seen = false) ->
  exists sp' seen',
    run_opt refok (mkx (MSTag sp) k t seen) (render_attrs attrs) = Some (mkx (MSTag sp') k t seen').
Proof.
  induction attrs as [|[an ps] attrs IH]; intros sp k t seen Hd Hf Hs.
  - exists sp, seen. reflexivity.
  - cbn [map fst] in Hd. destruct (distinct_cons _ _ Hd) as [Hm Hd'].
    cbn [forallb fst snd] in Hf. apply andb_true_iff in Hf. destruct Hf as [Ha Hf].
    apply andb_true_iff in Ha. destruct Ha as [Hn Hp].
    unfold render_attrs. cbn [map concat]. rewrite run_opt_app.
    rewrite (attr_run an ps sp k t seen Hn Hp (Hs (an, ps) (or_introl eq_refl))).
    apply IH; try assumption.
    intros a Ha. rewrite mem_str_cons. rewrite (Hs a (or_intror Ha)), orb_false_r.
    destruct (str_eqb (fst a) an) eqn:E; [|reflexivity].
    exfalso. assert (mem_str an (map fst attrs) = true); [|congruence].
    unfold mem_str. apply existsb_exists. exists (fst a). split; [apply in_map; exact Ha|].
    rewrite str_eqb_sym. exact E.
Qed.

(* ---- tags ------------------------------------------------------------------------------------------------ *)
Lemma sname_run : forall cs acc k t a, forallb is_name_char cs = true ->
  run_opt refok (mkx (MSName acc) k t a) cs = Some (mkx (MSName (rev cs ++ acc)) k t a).
Proof.
  induction cs as [|c cs IH]; intros acc k t a H; [reflexivity|].
  cbn [forallb] in H. apply andb_true_iff in H. destruct H as [Hc Hs].
  stp. rewrite Hc. rdc. rewrite IH by exact Hs. cbn [rev]. rewrite <- app_assoc. reflexivity.
Qed.

Lemma ename_run : forall cs acc k t a, forallb is_name_char cs = true ->
  run_opt refok (mkx (MEName acc) k t a) cs = Some (mkx (MEName (rev cs ++ acc)) k t a).
Proof.
  induction cs as [|c cs IH]; intros acc k t a H; [reflexivity|].
  cbn [forallb] in H. apply andb_true_iff in H. destruct H as [Hc Hs].
  stp. rewrite Hc. rdc. rewrite IH by exact Hs. cbn [rev]. rewrite <- app_assoc. reflexivity.
Qed.

(* "<name" and the attributes: the machine is inside the start tag, or still in the name *)
Lemma tag_head_run : forall n attrs rb k t a,
  name_ok n = true -> attrs_ok refok attrs = true ->
  exists m t' a',
    run_opt refok (mkx (MText rb) k t a) (c_lt :: n ++ render_attrs attrs) = Some (mkx m k t' a') /\
    ((exists acc, m = MSName acc /\ rev acc = n) \/ (exists sp, m = MSTag sp /\ t' = n)).
Proof.
  intros [|c cs] attrs rb k t a Hn Ha; [discriminate|]. cbn [name_ok] in Hn.
  apply andb_true_iff in Hn. destruct Hn as [Hc Hs].
  unfold attrs_ok in Ha. apply andb_true_iff in Ha. destruct Ha as [Hd Hf].
  stp. replace (N.eqb c_lt c_lt) with true by reflexivity. cbn [app]. stp.
  replace (N.eqb c c_slash) with false by (symmetry; ns c c_slash).
  replace (N.eqb c c_bang) with false by (symmetry; ns c c_bang).
  replace (N.eqb c c_qm) with false by (symmetry; ns c c_qm).
  rewrite Hc. rewrite run_opt_app, sname_run by exact Hs.
  destruct attrs as [|[an ps] attrs].
  - cbn [render_attrs map concat run_opt]. do 3 eexists. split; [reflexivity|]. left.
    eexists. split; [reflexivity|]. rewrite rev_app_distr, rev_involutive. reflexivity.
  - (* the first attribute starts with a blank *)
    unfold render_attrs. cbn [map concat]. unfold render_attr at 1. cbn [fst snd app]. stp.
    replace (is_name_char 32) with false by reflexivity.
    replace (is_ws 32) with true by reflexivity. rdc.
    replace (rev (rev cs ++ [c])) with (c :: cs) by (rewrite rev_app_distr, rev_involutive; reflexivity).
    cbn [map fst] in Hd. destruct (distinct_cons _ _ Hd) as [Hm Hd'].
    cbn [forallb fst snd] in Hf. apply andb_true_iff in Hf. destruct Hf as [Ha Hf].
    apply andb_true_iff in Ha. destruct Ha as [Hn Hp].
    rewrite run_opt_app, (attr_body_run an ps k (c :: cs) [] Hn Hp eq_refl).
    destruct (attrs_run attrs false k (c :: cs) [an] Hd' Hf) as [sp' [seen' Hrun]].
    { intros x Hx. rewrite mem_str_cons. cbn [mem_str existsb]. rewrite orb_false_r.
      destruct (str_eqb (fst x) an) eqn:E; [|reflexivity].
      exfalso. assert (mem_str an (map fst attrs) = true); [|congruence].
      unfold mem_str. apply existsb_exists. exists (fst x). split; [apply in_map; exact Hx|].
      rewrite str_eqb_sym. exact E. }
    unfold render_attrs in Hrun. rewrite Hrun.
    do 3 eexists. split; [reflexivity|]. right. eexists. split; reflexivity.
Qed.

Lemma open_run : forall n attrs rb k t a, name_ok n = true -> attrs_ok refok attrs = true ->
  run_opt refok (mkx (MText rb) k t a) (render_tok (TOpen n attrs)) = Some (mkx (MText 0) (n :: k) [] []).
Proof.
  intros n attrs rb k t a Hn Ha. cbn [render_tok].
  replace (c_lt :: n ++ render_attrs attrs ++ [c_gt]) with ((c_lt :: n ++ render_attrs attrs) ++ [c_gt])
    by (cbn [app]; rewrite <- app_assoc; reflexivity).
  rewrite run_opt_app.
  destruct (tag_head_run n attrs rb k t a Hn Ha) as [m [t' [a' [Hr [[acc [-> Hacc]]|[sp [-> ->]]]]]]];
    rewrite Hr; stp.
  - assert (Hnc : is_name_char c_gt = false) by reflexivity. rewrite Hnc.
    replace (is_ws c_gt) with false by reflexivity.
    replace (N.eqb c_gt c_gt) with true by reflexivity. rdc. rewrite Hacc. reflexivity.
  - replace (is_ws c_gt) with false by reflexivity.
    replace (N.eqb c_gt c_gt) with true by reflexivity. rdc. reflexivity.
Qed.

Lemma empty_run : forall n attrs rb k t a, name_ok n = true -> attrs_ok refok attrs = true ->
  run_opt refok (mkx (MText rb) k t a) (render_tok (TEmpty n attrs)) = Some (mkx (MText 0) k [] []).
Proof.
  intros n attrs rb k t a Hn Ha. cbn [render_tok].
  replace (c_lt :: n ++ render_attrs attrs ++ [c_slash; c_gt])
    with ((c_lt :: n ++ render_attrs attrs) ++ [c_slash; c_gt])
    by (cbn [app]; rewrite <- app_assoc; reflexivity).
  rewrite run_opt_app.
  destruct (tag_head_run n attrs rb k t a Hn Ha) as [m [t' [a' [Hr [[acc [-> Hacc]]|[sp [-> ->]]]]]]];
    rewrite Hr; stp.
  - assert (Hnc : is_name_char c_slash = false) by reflexivity. rewrite Hnc.
    replace (is_ws c_slash) with false by reflexivity.
    replace (N.eqb c_slash c_gt) with false by reflexivity.
    replace (N.eqb c_slash c_slash) with true by reflexivity. rdc. stp.
    replace (N.eqb c_gt c_gt) with true by reflexivity. reflexivity.
  - replace (is_ws c_slash) with false by reflexivity.
    replace (N.eqb c_slash c_gt) with false by reflexivity.
    replace (N.eqb c_slash c_slash) with true by reflexivity. rdc. stp.
    replace (N.eqb c_gt c_gt) with true by reflexivity. reflexivity.
Qed.

Lemma close_run : forall n rb k t a, name_ok n = true ->
  run_opt refok (mkx (MText rb) k t a) (render_tok (TClose n)) =
  match k with
  | top :: k' => if str_eqb top n then Some (mkx (MText 0) k' [] []) else None
  | [] => None
  end.
Proof.
  intros [|c cs] rb k t a Hn; [discriminate|]. cbn [name_ok] in Hn.
  apply andb_true_iff in Hn. destruct Hn as [Hc Hs].
  cbn [render_tok app]. stp.
  replace (N.eqb c_lt c_lt) with true by reflexivity. rdc. stp.
  replace (N.eqb c_slash c_slash) with true by reflexivity. rdc. stp.
  rewrite Hc. rdc. rewrite run_opt_app, ename_run by exact Hs. stp.
  assert (Hnc : is_name_char c_gt = false) by reflexivity. rewrite Hnc.
  replace (is_ws c_gt) with false by reflexivity.
  replace (N.eqb c_gt c_gt) with true by reflexivity. rdc.
  replace (rev (rev cs ++ [c])) with (c :: cs) by (rewrite rev_app_distr, rev_involutive; reflexivity).
  unfold pop_tag. cbn [x_stack]. destruct k as [|top k']; [reflexivity|].
  destruct (str_eqb top (c :: cs)); reflexivity.
Qed.

(* the machine decides the balance of a token list whose tokens are well formed *)
Theorem grammar_run : forall ts rb k t a, forallb (tok_ok refok) ts = true ->
  run refok (mkx (MText rb) k t a) (render ts) = bal k ts.
Proof.
  induction ts as [|tk ts IH]; intros rb k t a H.
  - cbn [render map concat run bal]. unfold final. cbn [x_mode x_stack]. destruct k; reflexivity.
  - cbn [forallb] in H. apply andb_true_iff in H. destruct H as [Hk Hs].
    unfold render. cbn [map concat]. fold (render ts). rewrite run_app.
    destruct tk as [p|n attrs|n attrs|n]; cbn [tok_ok] in Hk; cbn [bal].
    + destruct (part_run_text p rb k t a Hk) as [rb' Hr]. cbn [render_tok]. rewrite Hr. apply IH. exact Hs.
    + apply andb_true_iff in Hk. destruct Hk as [Hn Ha]. rewrite open_run by assumption. apply IH. exact Hs.
    + apply andb_true_iff in Hk. destruct Hk as [Hn Ha]. rewrite empty_run by assumption. apply IH. exact Hs.
    + rewrite close_run by assumption. destruct k as [|top k']; [reflexivity|].
      destruct (str_eqb top n); [apply IH; exact Hs | reflexivity].
Qed.
End Accept.

Theorem grammar_fragment : forall refok ts, forallb (tok_ok refok) ts = true ->
  fragment_ok refok (render ts) = bal [] ts.
Proof. intros. unfold fragment_ok, x_init. apply grammar_run. assumption. Qed.
