(* A concrete file for the Examples of Properties/C19.v: the text
     a=1 / b=2 / a=3 / zz      (four lines)
   parsed as three entities (keys 1, 2, 1) and one junk region, a reference
     a=1 / b=9
   and a checker that warns at offset 0 of the value of b. *)
From Coq Require Import ZArith NArith List Bool.
From CL Require Import Base.Sx Base.Res Base.Str Model.Lint.
Import ListNotations.
Open Scope Z_scope.

Definition ex_text : list N := of_ascii [97; 61; 49; 10; 98; 61; 50; 10; 97; 61; 51; 10; 122; 122; 10]%nat.
Definition ex_ref_text : list N := of_ascii [97; 61; 49; 10; 98; 61; 57; 10]%nat.

Definition ex_entry (s : list N) (id : nat) (k : Z) (junk : bool) (sp vs : span) : @entity Z :=
  mkEntity id k junk [] (entry_position s sp) (entry_value_position s (Some vs)).

Definition ex_cur : list (@entity Z) :=
  [ex_entry ex_text 0 1 false (0, 3) (2, 3);
   ex_entry ex_text 1 2 false (4, 7) (6, 7);
   ex_entry ex_text 2 1 false (8, 11) (10, 11);
   ex_entry ex_text 3 99 true (12, 15) (12, 15)].

Definition ex_ref : list (@entity Z) :=
  [ex_entry ex_ref_text 10 1 false (0, 3) (2, 3);
   ex_entry ex_ref_text 11 2 false (4, 7) (6, 7)].

(* a=1 equals the reference's a=1; nothing else is equal *)
Definition ex_equals (a b : @entity Z) : result bool :=
  Ok (Nat.eqb (e_id a) 0 && Nat.eqb (e_id b) 10).

Definition ex_checker : @checker Z Z :=
  fun e _ => if Nat.eqb (e_id e) 1 then [mkCres LWarning (ValuePos (VOff 0)) 7 0] else [].

(* the same file without the repeated key, the junk and the changed value *)
Definition ex_clean : list (@entity Z) :=
  [ex_entry ex_text 0 1 false (0, 3) (2, 3)].
