(* C02, properties: the block theorem.  A file that is a sequence of blocks
     - an entity  key sep value newline , optionally preceded directly by comment lines
       (its attached comment); the value may continue over several physical lines (a line
       ending in an odd number of backslashes continues) and its last line may end in
       escaped backslashes; the last block of the file may lack its final newline,
     - a standalone comment (comment lines), followed by a whitespace block that contains
       a newline or by the end of the file,
     - a run of whitespace (blank lines, indentation: blanks, tabs, CR, LF),
   parses to exactly the entries computed from the blocks by [entries_of]
   ([blocks_properties]); the entities are the records, the comments the comment blocks,
   and there is no Junk ([C02_roundtrip_properties_multi]).
   Not covered: junk regions; blanks between the value and its newline; indentation
   between an attached comment and its key; a comment without final newline at the end
   of the file; the License rule (that is C02_license_properties).
   Regex-specific: follows the engine through the generated expressions of the
   properties parser at an arbitrary offset (Proofs/C02BlocksRx.v, C02BlocksVal.v). *)
From Coq Require Import NArith List Bool Arith Lia.
From CL Require Import Base.Sx Base.Res Base.Str Regex.Rx Regex.RxLemmas Model.Entry Model.Parse
  Model.ParseFormats Generated.RxParser Proofs.UnescapeProofs
  Proofs.ClassLoop Proofs.ClassLoop2 Proofs.C02Props Proofs.WalkProofs Proofs.C02Roundtrip
  Proofs.C02BlocksRx Proofs.C02BlocksVal.
Import ListNotations.

Local Arguments Nat.ltb : simpl never.
Local Arguments Nat.leb : simpl never.
Local Arguments Nat.eqb : simpl never.
Local Arguments N.eqb : simpl never.
Local Arguments N.leb : simpl never.
Local Arguments chr_ok : simpl never.
Local Arguments vraw : simpl never.

(* ---- blocks --------------------------------------------------------------------------------- *)
(* a comment line [cline]: the marker (# or !) and the text after it, without the newline;
   [cline_text], [ctext], [cbody], [legal_cline] are in C02BlocksRx.v *)
Inductive block :=
| BBlank (w : str)                                   (* whitespace: blanks, tabs, CR, LF *)
| BComment (cs : list cline)                         (* standalone comment lines *)
| BEntity (cs : list cline) (key b1 : str) (sc : N) (b2 : str) (conts : list str) (lastl : str)
          (nl : bool).
    (* attached comment lines, then  key sep value LF ; the value is the physical lines
       [conts] (each ends in an odd number of backslashes and continues on the next line)
       and the last line [lastl]: its text is [vraw conts lastl] (C02BlocksVal.v);
       [nl = false]: the final newline is missing (only at the end of the file) *)

Definition eol (nl : bool) : str := if nl then [10%N] else [].

Definition text (b : block) : str :=
  match b with
  | BBlank w => w
  | BComment cs => ctext cs
  | BEntity cs key b1 sc b2 conts lastl nl =>
      ctext cs ++ key ++ b1 ++ sc :: b2 ++ vraw conts lastl ++ eol nl
  end.

Definition is_nil {A} (l : list A) : bool := match l with [] => true | _ => false end.

Definition legal_blockb (b : block) : bool :=
  match b with
  | BBlank w => negb (is_nil w) && forallb (fun c => mem c WS) w
  | BComment cs => negb (is_nil cs) && forallb legal_cline cs
  | BEntity cs key b1 sc b2 conts lastl _ =>
      forallb legal_cline cs && legal_key key && legal_sep b1 sc b2 && legal_value conts lastl
  end.
Definition legal_block (b : block) : Prop := legal_blockb b = true.

(* local separation: a standalone comment is followed by the end of the file or by a
   whitespace block that contains a newline (anything else would merge with it or make
   it the attached comment of what follows); an entity without its final newline is the
   last block.  Whitespace blocks may be adjacent: they merge into one entry. *)
Fixpoint separatedb (bs : list block) : bool :=
  match bs with
  | [] => true
  | BComment _ :: rest =>
      match rest with
      | [] => true
      | BBlank w :: _ => mem 10%N w
      | _ => false
      end && separatedb rest
  | BEntity _ _ _ _ _ _ _ nl :: rest => (nl || is_nil rest) && separatedb rest
  | _ :: rest => separatedb rest
  end.

(* the License rule (C02_license_properties) is excluded: the file does not start with
   an entity whose attached comment contains "License" *)
Definition license_okb (bs : list block) : bool :=
  match bs with
  | BEntity cs _ _ _ _ _ _ _ :: _ => negb (contains s_License (comment_val (COffset 1) (cbody cs)))
  | _ => true
  end.

Definition adjacent_okb (bs : list block) : bool := separatedb bs && license_okb bs.
Definition adjacent_ok (bs : list block) : Prop := adjacent_okb bs = true.

(* ---- the expected entries --------------------------------------------------------------------
   [off] is the offset reached, [w] the length of the whitespace pending there: the newline
   that ends an entity or comment line and every whitespace block after it form ONE
   whitespace entry *)
Definition flush (off w : nat) : list entry :=
  match w with 0 => [] | _ => [mk_white (off, off + w)] end.

Fixpoint ents (off w : nat) (bs : list block) : list entry :=
  match bs with
  | [] => flush off w
  | BBlank x :: rest => ents off (w + length x) rest
  | BComment cs :: rest =>
      let a := off + w in
      let e := a + length (cbody cs) in
      flush off w ++ mk_comment (a, e) :: ents e 1 rest
  | BEntity cs key b1 sc b2 conts lastl nl :: rest =>
      let a := off + w in
      let k := a + length (ctext cs) in
      let ke := k + length key in
      let v := ke + length b1 + 1 + length b2 in
      let e := v + length (vraw conts lastl) in
      flush off w ++
      mkentry KEntity (k, e) (Some (k, ke)) (Some (v, e))
              (match cs with [] => None | _ => Some (a, k - 1) end)
              (match cs with [] => None | _ => Some (k - 1, k) end)
      :: ents e (length (eol nl)) rest
  end.

Definition entries_of (bs : list block) : list entry := ents 0 0 bs.

Definition file_text (bs : list block) : str := concat (map text bs).

(* ---- sanity: the statement on concrete files, by evaluation --------------------------------- *)
Definition A (l : list nat) : str := map N.of_nat l.
(*  k=v  *)
Definition ex_e1 : block := BEntity [] (A [107]) [] 61%N [] [] (A [118]) true.
(*  #c1 / !c2 / a b = x y  *)
Definition ex_e2 : block :=
  BEntity [(35%N, A [99; 49]); (33%N, A [99; 50])] (A [97; 32; 98]) (A [32]) 61%N (A [32]) [] (A [120; 32; 121]) true.
(*  k : a\ / <blank>b\\\ / c\\   (two continuation lines, the last line ends in an escaped backslash) *)
Definition ex_e3 : block :=
  BEntity [] (A [107]) (A [32]) 58%N (A [32]) [A [97; 92]; A [32; 98; 92; 92; 92]] (A [99; 92; 92]) true.
(*  the same without the final newline  *)
Definition ex_e4 : block :=
  BEntity [(35%N, A [99])] (A [107]) (A [32]) 58%N (A [32]) [A [97; 92]] (A [32; 99; 92; 92]) false.
(*  # standalone  *)
Definition ex_c : block := BComment [(35%N, A [32; 115]); (35%N, [])].
Definition ex_b : block := BBlank (A [10]).
Definition ex_b2 : block := BBlank (A [32; 10; 9]).

Example ex_entity_lines : let bs := [ex_e1; ex_e1; ex_e2] in
  Forall legal_block bs /\ adjacent_ok bs /\ walk_properties (file_text bs) = Ok (entries_of bs).
Proof. split; [repeat constructor|]. split; vm_compute; reflexivity. Qed.

Example ex_continuation : let bs := [ex_e3; ex_e1; ex_b; ex_e3] in
  Forall legal_block bs /\ adjacent_ok bs /\ walk_properties (file_text bs) = Ok (entries_of bs) /\
  map (fun e => (e_kind e, e_span e, e_val e)) (entries_of bs) =
  [(KEntity, (0, 16), Some (4, 16)); (KWhitespace, (16, 17), Some (16, 17));
   (KEntity, (17, 20), Some (19, 20)); (KWhitespace, (20, 22), Some (20, 22));
   (KEntity, (22, 38), Some (26, 38)); (KWhitespace, (38, 39), Some (38, 39))].
Proof. split; [repeat constructor|]. split; [vm_compute; reflexivity|]. split; vm_compute; reflexivity. Qed.

Example ex_no_final_newline : let bs := [ex_e1; ex_c; ex_b; ex_e4] in
  Forall legal_block bs /\ adjacent_ok bs /\ walk_properties (file_text bs) = Ok (entries_of bs) /\
  adjacent_okb [ex_e4; ex_b] = false.
Proof. split; [repeat constructor|]. split; [vm_compute; reflexivity|]. split; vm_compute; reflexivity. Qed.

Example ex_all_kinds : let bs := [ex_b; ex_c; ex_b2; ex_b; ex_e2; ex_b; ex_e1; ex_e2; ex_c; ex_b; ex_e1; ex_b2; ex_c] in
  Forall legal_block bs /\ adjacent_ok bs /\ walk_properties (file_text bs) = Ok (entries_of bs) /\
  map (fun e => (e_kind e, e_span e)) (entries_of bs) =
  [(KWhitespace, (0, 1)); (KComment, (1, 6)); (KWhitespace, (6, 11));
   (KEntity, (19, 28)); (KWhitespace, (28, 30)); (KEntity, (30, 33)); (KWhitespace, (33, 34));
   (KEntity, (42, 51)); (KWhitespace, (51, 52)); (KComment, (52, 57)); (KWhitespace, (57, 59));
   (KEntity, (59, 62)); (KWhitespace, (62, 66)); (KComment, (66, 71)); (KWhitespace, (71, 72))].
Proof. split; [repeat constructor|]. split; [vm_compute; reflexivity|]. split; vm_compute; reflexivity. Qed.

(* the License rule: the hypothesis license_ok is needed, and a standalone first comment
   with the word is fine *)
Definition ex_lic : list cline := [(35%N, 32%N :: s_License)].
Example ex_license_needed :
  let bs := [BEntity ex_lic (A [107]) [] 61%N [] [] (A [118]) true] in
  Forall legal_block bs /\ adjacent_okb bs = false /\ walk_properties (file_text bs) <> Ok (entries_of bs).
Proof. split; [repeat constructor|]. split; [vm_compute; reflexivity|]. vm_compute. discriminate. Qed.
Example ex_license_standalone :
  let bs := [BComment ex_lic; ex_b; ex_e1] in
  Forall legal_block bs /\ adjacent_ok bs /\ walk_properties (file_text bs) = Ok (entries_of bs).
Proof. split; [repeat constructor|]. split; vm_compute; reflexivity. Qed.

(* ---- character classes ------------------------------------------------------------------------ *)
Lemma ws_not_cm : forall c, mem c WS = true -> mem c CM = false.
Proof.
  intros c H. apply mem_in in H. simpl in H.
  destruct H as [<-|[<-|[<-|[<-|[]]]]]; reflexivity.
Qed.

Lemma cm_not_ws : forall c, mem c CM = true -> mem c WS = false.
Proof. intros c H. apply mem_in in H. simpl in H. destruct H as [<-|[<-|[]]]; reflexivity. Qed.

Lemma head_is_app : forall f (x y : str), x <> [] -> head_is f (x ++ y) = head_is f x.
Proof. intros f [|c x] y H; [contradiction|reflexivity]. Qed.

Lemma head_ws_not_cm : forall x, x <> [] -> forallb (fun c => mem c WS) x = true ->
  head_is (fun c => mem c CM) x = false.
Proof.
  intros [|c x] Hne H; [contradiction|]. simpl in H. apply andb_true_iff in H. destruct H as [H _].
  cbn [head_is]. apply ws_not_cm. exact H.
Qed.

(* ---- step: whitespace -------------------------------------------------------------------------- *)
Lemma gn_white : forall (a x y : str),
  x <> [] -> forallb (fun c => mem c WS) x = true -> head_is (fun c => mem c WS) y = false ->
  gn_properties (a ++ x ++ y) (length a) = mk_white (length a, length a + length x).
Proof.
  intros a x y Hne Hx Hy. unfold gn_properties, get_next_properties.
  rewrite omatch_comment_none by (rewrite head_is_app by exact Hne; apply head_ws_not_cm; auto).
  rewrite omatch_ws_run by auto. reflexivity.
Qed.

Ltac norm_app := repeat (progress (rewrite <- ?app_assoc; cbn [app])).

(* ---- step: key and value ------------------------------------------------------------------------ *)
Lemma entity_tail : forall (P : str) c0 ktl b1 sc b2 conts lastl T cc wsp dflt,
  legal_key (c0 :: ktl) = true -> legal_sep b1 sc b2 = true -> legal_value conts lastl = true ->
  tail_ok T ->
  let raw := vraw conts lastl in
  let s := P ++ c0 :: ktl ++ b1 ++ sc :: b2 ++ raw ++ T in
  let v := length P + S (length ktl) + length b1 + 1 + length b2 in
  match omatch rx_props_key s (length P) with
  | Some k =>
      let (endval, startline) :=
        value_loop rx_props_escaped_end (S (length s)) s (m_end k) (m_end k) in
      let endval := match osearch rx_props_trailing_ws s startline with
                    | Some ws => m_start ws
                    | None => endval
                    end in
      mkentry KEntity (m_start k, endval) (group g_props_key_key k) (Some (m_end k, endval)) cc wsp
  | None => dflt
  end =
  mkentry KEntity (length P, v + length raw) (Some (length P, length P + S (length ktl)))
          (Some (v, v + length raw)) cc wsp.
Proof.
  intros P c0 ktl b1 sc b2 conts lastl T cc wsp dflt Hk Hs Hr HT raw s v.
  unfold legal_value in Hr. apply andb_true_iff in Hr. destruct Hr as [Hr Hhead].
  apply andb_true_iff in Hr. destruct Hr as [Hconts Hlast].
  destruct (last_facts lastl Hlast) as [L1 [L2 [L3 L4]]].
  assert (R2' : head_is (fun c => mem c BL) (raw ++ T) = false).
  { apply negb_true_iff in Hhead. fold raw in Hhead.
    destruct raw as [|r0 raw']; [|exact Hhead].
    destruct HT as [->|[X ->]]; reflexivity. }
  unfold s at 1. rewrite omatch_key by auto. fold v. cbn [m_end m_start].
  set (A0 := P ++ c0 :: ktl ++ b1 ++ sc :: b2).
  assert (Es : s = A0 ++ vpre conts ++ lastl ++ T).
  { unfold s, A0, raw, vraw. norm_app. reflexivity. }
  assert (Es' : s = (A0 ++ vpre conts) ++ lastl ++ T)
    by (rewrite Es, <- app_assoc; reflexivity).
  assert (Ev : v = length A0).
  { unfold v, A0. rewrite !app_length. simpl. rewrite !app_length. simpl. lia. }
  assert (Er : length raw = length (vpre conts) + length lastl)
    by (unfold raw, vraw; apply app_length).
  assert (El : value_loop rx_props_escaped_end (S (length s)) s v v =
               (v + length raw, v + length (vpre conts))).
  { rewrite Es at 2. rewrite Ev, value_loop_tail; auto.
    - rewrite Er. f_equal. lia.
    - rewrite Es, !app_length. pose proof (ctext_length_ge []).
      assert (length conts <= length (vpre conts)).
      { clear. induction conts as [|l c IH]; [simpl; lia|]. rewrite vpre_cons, app_length. simpl. lia. }
      lia. }
  rewrite El. cbv beta iota zeta.
  destruct (tw_search_tail (A0 ++ vpre conts) lastl T HT L2 L4) as [x [X1 X2]].
  assert (X : osearch rx_props_trailing_ws s (v + length (vpre conts)) = Some x).
  { rewrite Es', Ev, <- app_length. exact X1. }
  rewrite X, X2, app_length, <- Ev, <- Nat.add_assoc, <- Er.
  unfold group. cbn [m_caps get_cap]. unfold g_props_key_key.
  replace (Nat.eqb 1 1) with true by reflexivity. reflexivity.
Qed.

(* ---- step: an entity line with its attached comment ------------------------------------------- *)
Lemma count_nl1 : count_char 10%N [10%N] = 1.
Proof. reflexivity. Qed.

Lemma match_ne : forall {A B : Type} (l : list A) (x : B), l <> [] ->
  match l with [] => None | _ :: _ => Some x end = Some x.
Proof. intros A B [|c l] x H; [contradiction|reflexivity]. Qed.

Lemma gn_entity : forall (a : str) cs c0 ktl b1 sc b2 conts lastl T,
  forallb legal_cline cs = true -> legal_key (c0 :: ktl) = true -> legal_sep b1 sc b2 = true ->
  legal_value conts lastl = true -> tail_ok T ->
  (a = [] -> contains s_License (comment_val (COffset 1) (cbody cs)) = false) ->
  let raw := vraw conts lastl in
  let s := a ++ ctext cs ++ c0 :: ktl ++ b1 ++ sc :: b2 ++ raw ++ T in
  let k := length a + length (ctext cs) in
  let v := k + S (length ktl) + length b1 + 1 + length b2 in
  gn_properties s (length a) =
  mkentry KEntity (k, v + length raw) (Some (k, k + S (length ktl))) (Some (v, v + length raw))
    (match cs with [] => None | _ => Some (length a, k - 1) end)
    (match cs with [] => None | _ => Some (k - 1, k) end).
Proof.
  intros a cs c0 ktl b1 sc b2 conts lastl T Hcs Hk Hs Hr HT Hlic raw s k v.
  destruct (c0_facts c0 ktl Hk) as [C1 C2].
  set (X := c0 :: ktl ++ b1 ++ sc :: b2 ++ raw ++ T) in *.
  assert (HX1 : head_is (fun c => mem c CM) X = false) by exact C1.
  assert (HX2 : head_is (fun c => mem c WS) X = false) by exact C2.
  assert (Hcase : cs = [] \/ cs <> []) by (destruct cs; [left; reflexivity|right; discriminate]).
  destruct Hcase as [Ecs|Hne].
  - (* no comment *)
    subst cs.
    assert (Es : s = a ++ X) by reflexivity.
    assert (Ek : k = length a) by (unfold k; simpl; lia).
    unfold gn_properties, get_next_properties.
    rewrite Es, omatch_comment_none, omatch_ws_none by auto.
    cbv beta iota zeta. unfold v. rewrite Ek. unfold X, raw. apply entity_tail; auto.
  - rewrite !(match_ne cs) by exact Hne.
    set (L := a ++ cbody cs). set (P := a ++ ctext cs).
    assert (Es1 : s = a ++ cbody cs ++ [10%N] ++ X).
    { unfold s. rewrite (ctext_body cs Hne), <- app_assoc. reflexivity. }
    assert (Es2 : s = L ++ [10%N] ++ X) by (rewrite Es1; unfold L; rewrite <- app_assoc; reflexivity).
    assert (Es3 : s = P ++ X) by (unfold s, P; rewrite <- app_assoc; reflexivity).
    assert (EL : length a + length (cbody cs) = length L) by (unfold L; rewrite app_length; reflexivity).
    assert (EP : length L + 1 = length P).
    { unfold L, P. rewrite (ctext_body cs Hne), !app_length. simpl. lia. }
    assert (Ekp : k = length P) by (unfold k, P; rewrite app_length; reflexivity).
    assert (Ec : omatch rx_props_comment s (length a) = Some (mkres (length a) (length L) [])).
    { unfold s. rewrite omatch_comment by auto. rewrite EL. reflexivity. }
    assert (Lic : Nat.eqb (length a) 0 &&
                  contains s_License (comment_val (COffset 1) (slice s (length a) (length L))) = false).
    { rewrite <- EL, Es1, slice_mid. destruct a as [|a0 a']; [|reflexivity].
      rewrite Hlic by reflexivity. reflexivity. }
    assert (Ew : omatch rx_props_ws s (length L) = Some (mkres (length L) (length P) [])).
    { rewrite Es2, omatch_ws_run; [rewrite <- EP; reflexivity|discriminate|reflexivity|exact HX2]. }
    assert (Ect : (1 <? count_char 10%N (slice s (length L) (length P))) = false).
    { rewrite <- EP, Es2. replace (length L + 1) with (length L + length [10%N]) by reflexivity.
      rewrite slice_mid. reflexivity. }
    unfold gn_properties, get_next_properties.
    rewrite Ec. cbn [m_start m_end]. rewrite Lic. cbv beta iota zeta. cbn [m_start m_end].
    rewrite Ew. cbn [m_start m_end]. rewrite Ect. cbv beta iota zeta. cbn [mspan m_start m_end].
    replace (k - 1) with (length L) by lia. rewrite Ekp.
    unfold v. rewrite Ekp, Es3. unfold X, raw. apply entity_tail; auto.
Qed.

(* ---- step: a standalone comment ----------------------------------------------------------------- *)
Lemma count_char_app : forall c (x y : str), count_char c (x ++ y) = count_char c x + count_char c y.
Proof. intros. unfold count_char. rewrite filter_app, app_length. reflexivity. Qed.

Lemma count_char_mem : forall x, mem 10%N x = true -> 1 <= count_char 10%N x.
Proof.
  induction x as [|d x IH]; intros H; [discriminate|].
  unfold mem in H. cbn [existsb] in H. unfold count_char. cbn [filter].
  destruct (N.eqb 10 d); [simpl; lia|]. simpl in H. apply IH in H. exact H.
Qed.

Lemma gn_comment : forall (a : str) cs after,
  cs <> [] -> forallb legal_cline cs = true ->
  (after = [] \/ exists x y, after = x ++ y /\ forallb (fun c => mem c WS) x = true /\
                             mem 10%N x = true) ->
  gn_properties (a ++ ctext cs ++ after) (length a) =
  mk_comment (length a, length a + length (cbody cs)).
Proof.
  intros a cs after Hne Hcs Hafter. set (s := a ++ ctext cs ++ after).
  assert (HX1 : head_is (fun c => mem c CM) after = false).
  { destruct Hafter as [->|[x [y [-> [Hx Hm]]]]]; [reflexivity|].
    assert (x <> []) by (intro; subst x; discriminate).
    rewrite head_is_app by auto. apply head_ws_not_cm; auto. }
  set (L := a ++ cbody cs). set (P := a ++ ctext cs).
  assert (Es2 : s = L ++ 10%N :: after).
  { unfold s, L. rewrite (ctext_body cs Hne), <- !app_assoc. reflexivity. }
  assert (EL : length a + length (cbody cs) = length L) by (unfold L; rewrite app_length; reflexivity).
  assert (EP : length L + 1 = length P).
  { unfold L, P. rewrite (ctext_body cs Hne), !app_length. simpl. lia. }
  assert (Ec : omatch rx_props_comment s (length a) = Some (mkres (length a) (length L) [])).
  { unfold s. rewrite omatch_comment by auto. rewrite EL. reflexivity. }
  unfold gn_properties, get_next_properties. fold s.
  rewrite Ec. cbn [m_start m_end].
  destruct (Nat.eqb (length a) 0 &&
            contains s_License (comment_val (COffset 1) (slice s (length a) (length L)))) eqn:Lic.
  - unfold mspan. cbn [m_start m_end]. rewrite EL. reflexivity.
  - cbv beta iota zeta. cbn [m_start m_end].
    set (r := run false (points WS) None after).
    assert (Ew : omatch rx_props_ws s (length L) = Some (mkres (length L) (length L + S r) [])).
    { rewrite Es2, omatch_ws. cbv zeta. rewrite run_none_cons, chr_ok_points.
      replace (mem 10%N WS) with true by reflexivity. fold r. reflexivity. }
    rewrite Ew. cbn [m_start m_end].
    assert (Esl : slice s (length L) (length L + S r) = 10%N :: firstn r after).
    { rewrite Es2, slice_app0. reflexivity. }
    rewrite Esl.
    destruct Hafter as [Ea|[x [y [Ea [Hx Hm]]]]].
    + (* end of the file: no key follows *)
      assert (Er : r = 0) by (unfold r; rewrite Ea; reflexivity).
      rewrite Er. simpl firstn. rewrite count_nl1. replace (1 <? 1) with false by reflexivity.
      cbv beta iota zeta. cbn [mspan m_start m_end]. rewrite EP.
      assert (Es3 : s = P ++ []) by (unfold s, P; rewrite Ea, app_assoc; reflexivity).
      rewrite Es3, omatch_key_nil. rewrite EL. reflexivity.
    + assert (Hr : length x <= r).
      { unfold r. rewrite Ea. apply run_ge_prefix. apply ws_class. exact Hx. }
      assert (Ect : (1 <? count_char 10%N (10%N :: firstn r after)) = true).
      { apply Nat.ltb_lt. rewrite Ea, firstn_app.
        rewrite (firstn_all2 x) by exact Hr.
        change (10%N :: x ++ firstn (r - length x) y) with ([10%N] ++ x ++ firstn (r - length x) y).
        rewrite !count_char_app, count_nl1. pose proof (count_char_mem x Hm). lia. }
      rewrite Ect. cbv beta iota zeta. unfold mspan. cbn [m_start m_end]. rewrite EL. reflexivity.
Qed.

(* ---- the walk ------------------------------------------------------------------------------------ *)
Lemma walk_step : forall fuel s off es,
  off < length s ->
  walk_loop (stateless gn_properties) fuel tt s (snd (e_span (gn_properties s off))) = Ok es ->
  walk_loop (stateless gn_properties) (S fuel) tt s off = Ok (gn_properties s off :: es).
Proof.
  intros fuel s off es Hoff H. rewrite walk_loop_S.
  replace (off <? length s) with true by (symmetry; apply Nat.ltb_lt; exact Hoff).
  unfold stateless at 1. rewrite H. reflexivity.
Qed.

(* the invariant: [a] has been consumed, the whitespace [w] is pending *)
Definition stmt (bs : list block) (a w : str) : Prop :=
  (a = [] -> w = [] -> license_okb bs = true) ->
  forall fuel, length (a ++ w ++ file_text bs) - length a < fuel ->
  walk_loop (stateless gn_properties) fuel tt (a ++ w ++ file_text bs) (length a) =
  Ok (ents (length a) (length w) bs).

Definition nonblank_head (bs : list block) : Prop :=
  match bs with BBlank _ :: _ => False | _ => True end.

Lemma ents_flush : forall bs off w, nonblank_head bs ->
  ents off w bs = flush off w ++ ents (off + w) 0 bs.
Proof.
  intros [|[x|cs|cs key b1 sc b2 conts lastl nl] rest] off w H; try contradiction; simpl;
    rewrite ?Nat.add_0_r, ?app_nil_r; reflexivity.
Qed.

Lemma lift_flush : forall bs, nonblank_head bs ->
  head_is (fun c => mem c WS) (file_text bs) = false ->
  (forall a, stmt bs a []) ->
  forall a w, forallb (fun c => mem c WS) w = true -> stmt bs a w.
Proof.
  intros bs Hnb Hhead H0 a w Hw Hlic fuel Hf.
  destruct w as [|c w'] eqn:Ew; [apply (H0 a); auto|]. rewrite <- Ew in *.
  assert (Hne : w <> []) by (rewrite Ew; discriminate).
  destruct fuel as [|f]; [lia|].
  rewrite ents_flush by exact Hnb.
  assert (Efl : flush (length a) (length w) = [mk_white (length a, length a + length w)])
    by (rewrite Ew; reflexivity).
  rewrite Efl. simpl app.
  pose proof (gn_white a w (file_text bs) Hne Hw Hhead) as G.
  rewrite <- G. apply walk_step.
  - rewrite !app_length. rewrite Ew. simpl. lia.
  - rewrite G. cbn [mk_white e_span snd].
    assert (Hs : a ++ w ++ file_text bs = (a ++ w) ++ [] ++ file_text bs)
      by (rewrite <- app_assoc; reflexivity).
    rewrite Hs, <- app_length. apply (H0 (a ++ w)).
    + intros E. apply app_eq_nil in E. destruct E as [_ E]. contradiction.
    + rewrite <- Hs. rewrite !app_length in *. rewrite Ew in *. simpl in *. lia.
Qed.

Lemma file_text_cons : forall b bs, file_text (b :: bs) = text b ++ file_text bs.
Proof. reflexivity. Qed.

Lemma head_ctext : forall cs X, cs <> [] -> forallb legal_cline cs = true ->
  head_is (fun c => mem c WS) (ctext cs ++ X) = false.
Proof.
  intros [|[c t] cs] X Hne H; [contradiction|]. simpl in H. apply andb_true_iff in H.
  destruct H as [H _]. unfold legal_cline in H. apply andb_true_iff in H. destruct H as [H _].
  cbn [fst] in H. rewrite ctext_cons. unfold cline_text. cbn [fst snd]. simpl app. cbn [head_is].
  apply cm_not_ws. exact H.
Qed.

Lemma cbody_length_pos : forall cs, cs <> [] -> 1 <= length (cbody cs).
Proof.
  intros [|c [|c2 cs]] H; [contradiction| |].
  - rewrite cbody_one. simpl. lia.
  - rewrite cbody_cons, app_length. unfold cline_text. simpl. lia.
Qed.

Lemma walk_ents : forall bs, Forall legal_block bs -> separatedb bs = true ->
  forall a w, forallb (fun c => mem c WS) w = true -> stmt bs a w.
Proof.
  induction bs as [|b rest IH]; intros Hleg Hsep.
  - apply lift_flush; [exact I|reflexivity|].
    intros a _ fuel Hf. simpl. apply walk_loop_done. rewrite !app_length. simpl. lia.
  - inversion Hleg as [|b' rest' Hb Hrest]; subst b' rest'.
    destruct b as [x|cs|cs key b1 sc b2 conts lastl nl].
    + (* whitespace: joins what is pending *)
      intros a w Hw Hlic fuel Hf. simpl in Hsep.
      unfold legal_block in Hb. cbn [legal_blockb] in Hb. apply andb_true_iff in Hb. destruct Hb as [Hx1 Hx2].
      assert (Hs : a ++ w ++ file_text (BBlank x :: rest) = a ++ (w ++ x) ++ file_text rest).
      { rewrite file_text_cons. simpl text. rewrite <- app_assoc. reflexivity. }
      simpl ents. rewrite Hs in *. rewrite <- app_length. apply (IH Hrest Hsep); auto.
      * rewrite forallb_app, Hw, Hx2. reflexivity.
      * intros _ E. apply app_eq_nil in E. destruct E as [_ E]. subst x. discriminate.
    + (* a standalone comment *)
      unfold legal_block in Hb. cbn [legal_blockb] in Hb. apply andb_true_iff in Hb. destruct Hb as [Hc1 Hc2].
      assert (Hne : cs <> []) by (destruct cs; [discriminate|discriminate]).
      simpl in Hsep. apply andb_true_iff in Hsep. destruct Hsep as [Hnext Hsep].
      apply lift_flush; [exact I| rewrite file_text_cons; apply head_ctext; auto |].
      intros a _ fuel Hf. destruct fuel as [|f]; [lia|].
      rewrite file_text_cons in *. simpl text in *. simpl app in *.
      assert (Hafter : file_text rest = [] \/
                exists x y, file_text rest = x ++ y /\ forallb (fun c => mem c WS) x = true /\
                            mem 10%N x = true).
      { destruct rest as [|[x| |] rest']; try discriminate; [left; reflexivity|].
        right. exists x, (file_text rest'). split; [reflexivity|]. split; [|exact Hnext].
        inversion Hrest as [|b' r' Hx _]; subst. unfold legal_block in Hx. cbn [legal_blockb] in Hx.
        apply andb_true_iff in Hx. destruct Hx as [_ Hx]. exact Hx. }
      pose proof (gn_comment a cs (file_text rest) Hne Hc2 Hafter) as G.
      simpl ents. rewrite !Nat.add_0_r. rewrite <- G. apply walk_step.
      * rewrite !app_length. pose proof (ctext_length_ge cs). destruct cs; [contradiction|].
        simpl in *. lia.
      * rewrite G. cbn [mk_comment e_span snd].
        assert (Hs : a ++ ctext cs ++ file_text rest = (a ++ cbody cs) ++ [10%N] ++ file_text rest).
        { rewrite (ctext_body cs Hne), <- !app_assoc. reflexivity. }
        rewrite Hs, <- app_length. change 1 with (length [10%N]).
        apply (IH Hrest Hsep); [reflexivity| |].
        -- intros E. apply app_eq_nil in E. destruct E as [_ E]. discriminate.
        -- rewrite <- Hs.
           assert (Elen : length (ctext cs) = length (cbody cs) + 1)
             by (rewrite (ctext_body cs Hne), app_length; reflexivity).
           pose proof (cbody_length_pos cs Hne).
           rewrite !app_length in *. simpl in *. lia.
    + (* an entity line *)
      unfold legal_block in Hb. cbn [legal_blockb] in Hb. apply andb_true_iff in Hb. destruct Hb as [Hb Hr].
      apply andb_true_iff in Hb. destruct Hb as [Hb Hs]. apply andb_true_iff in Hb.
      destruct Hb as [Hcs Hk]. simpl in Hsep. apply andb_true_iff in Hsep.
      destruct Hsep as [Hnl Hsep].
      destruct key as [|c0 ktl]; [discriminate|].
      destruct (c0_facts c0 ktl Hk) as [_ C2].
      set (raw := vraw conts lastl).
      assert (Etxt : forall Y, text (BEntity cs (c0 :: ktl) b1 sc b2 conts lastl nl) ++ Y =
                     ctext cs ++ c0 :: ktl ++ b1 ++ sc :: b2 ++ raw ++ eol nl ++ Y).
      { intros Y. cbn [text]. fold raw. norm_app. reflexivity. }
      apply lift_flush; [exact I| |].
      { rewrite file_text_cons, Etxt. destruct cs as [|c1 cs1]; [exact C2|].
        apply head_ctext; [discriminate|exact Hcs]. }
      intros a Hlic fuel Hf. destruct fuel as [|f]; [lia|].
      rewrite file_text_cons in *. rewrite Etxt in *. simpl app in *.
      assert (Hl : a = [] -> contains s_License (comment_val (COffset 1) (cbody cs)) = false).
      { intros Ea. specialize (Hlic Ea eq_refl). simpl in Hlic. apply negb_true_iff in Hlic.
        exact Hlic. }
      assert (HT : tail_ok (eol nl ++ file_text rest)).
      { destruct nl; [right; eexists; reflexivity|]. simpl in Hnl.
        destruct rest; [left; reflexivity|discriminate]. }
      assert (Hew : forallb (fun c => mem c WS) (eol nl) = true) by (destruct nl; reflexivity).
      pose proof (gn_entity a cs c0 ktl b1 sc b2 conts lastl (eol nl ++ file_text rest)
                    Hcs Hk Hs Hr HT Hl) as G.
      cbv zeta in G. fold raw in G. simpl ents. fold raw. rewrite !Nat.add_0_r. simpl length.
      set (k := length a + length (ctext cs)) in *.
      set (v := k + S (length ktl) + length b1 + 1 + length b2) in *.
      rewrite <- G. apply walk_step.
      * rewrite !app_length. simpl. rewrite !app_length. simpl. rewrite !app_length. simpl. lia.
      * rewrite G. cbn [e_span snd].
        set (A0 := a ++ ctext cs ++ c0 :: ktl ++ b1 ++ sc :: b2 ++ raw).
        assert (Hs2 : a ++ ctext cs ++ c0 :: ktl ++ b1 ++ sc :: b2 ++ raw ++ eol nl ++ file_text rest
                      = A0 ++ eol nl ++ file_text rest).
        { unfold A0. norm_app. reflexivity. }
        assert (El : v + length raw = length A0).
        { unfold A0, v, k. rewrite !app_length. simpl. rewrite !app_length. simpl.
          rewrite !app_length. lia. }
        rewrite Hs2, El.
        apply (IH Hrest Hsep); [exact Hew| |].
        -- intros E. unfold A0 in E. apply app_eq_nil in E. destruct E as [_ E].
           apply app_eq_nil in E. destruct E as [_ E]. discriminate.
        -- assert (Hlt : length a < length A0) by (rewrite <- El; unfold v, k; lia).
           rewrite Hs2 in Hf. clear - Hf Hlt. rewrite !app_length in *. simpl in *. lia.
Qed.

(* ---- the block theorem ---------------------------------------------------------------------------- *)
Theorem blocks_properties : forall bs : list block,
  Forall legal_block bs -> adjacent_ok bs ->
  walk_properties (file_text bs) = Ok (entries_of bs).
Proof.
  intros bs Hleg Hadj. unfold adjacent_ok, adjacent_okb in Hadj. apply andb_true_iff in Hadj.
  destruct Hadj as [Hsep Hlic]. unfold walk_properties, walk, entries_of.
  apply (walk_ents bs Hleg Hsep [] [] eq_refl (fun _ _ => Hlic)). simpl. lia.
Qed.

(* ---- the records of a file -------------------------------------------------------------------------- *)
(* key text, raw value text, text of the attached comment (lines joined by newlines, with
   their markers) *)
Definition record := (str * str * option str)%type.

Fixpoint records_of (bs : list block) : list record :=
  match bs with
  | [] => []
  | BEntity cs key _ _ _ conts lastl _ :: rest =>
      (key, vraw conts lastl, match cs with [] => None | _ => Some (cbody cs) end) :: records_of rest
  | _ :: rest => records_of rest
  end.

Fixpoint comments_of (bs : list block) : list str :=
  match bs with
  | [] => []
  | BComment cs :: rest => cbody cs :: comments_of rest
  | _ :: rest => comments_of rest
  end.

Definition span_text (s : str) (sp : span) : str := slice s (fst sp) (snd sp).
Definition opt_text (s : str) (o : option span) : str :=
  match o with Some sp => span_text s sp | None => [] end.

Definition entity_record (s : str) (e : entry) : record :=
  (opt_text s (e_key e), opt_text s (e_val e), option_map (span_text s) (e_pre e)).

Definition is_kind (k : kind) (e : entry) : bool :=
  match e_kind e, k with
  | KEntity, KEntity | KComment, KComment | KWhitespace, KWhitespace | KJunk, KJunk
  | KSection, KSection | KInstruction, KInstruction => true
  | _, _ => false
  end.

Lemma flush_no : forall k off w, k <> KWhitespace -> filter (is_kind k) (flush off w) = [].
Proof. intros k off [|w] H; [reflexivity|]. destruct k; try reflexivity. contradiction. Qed.

Lemma ents_views : forall bs, Forall legal_block bs -> forall (a w : str),
  let s := a ++ w ++ file_text bs in
  map (entity_record s) (filter (is_kind KEntity) (ents (length a) (length w) bs)) = records_of bs /\
  map (fun e => span_text s (e_span e)) (filter (is_kind KComment) (ents (length a) (length w) bs))
    = comments_of bs /\
  filter (is_kind KJunk) (ents (length a) (length w) bs) = [].
Proof.
  induction bs as [|b rest IH]; intros Hleg a w s.
  - simpl ents. rewrite !flush_no by discriminate. repeat split.
  - inversion Hleg as [|b' rest' Hb Hrest]; subst b' rest'. specialize (IH Hrest).
    destruct b as [x|cs|cs key b1 sc b2 conts lastl nl].
    + assert (Hs : s = a ++ (w ++ x) ++ file_text rest).
      { unfold s. rewrite file_text_cons. cbn [text]. rewrite <- app_assoc. reflexivity. }
      simpl ents. rewrite <- app_length, Hs. apply IH.
    + unfold legal_block in Hb. cbn [legal_blockb] in Hb. apply andb_true_iff in Hb.
      destruct Hb as [Hc1 _].
      assert (Hne : cs <> []) by (destruct cs; [discriminate|discriminate]).
      set (A0 := a ++ w ++ cbody cs).
      assert (Hs : s = A0 ++ [10%N] ++ file_text rest).
      { unfold s, A0. rewrite file_text_cons. cbn [text]. rewrite (ctext_body cs Hne).
        norm_app. reflexivity. }
      assert (El : length a + length w + length (cbody cs) = length A0)
        by (unfold A0; rewrite !app_length; lia).
      destruct (IH A0 [10%N]) as [I1 [I2 I3]]. rewrite <- Hs in I1, I2.
      change (length [10%N]) with 1 in I1, I2, I3.
      simpl ents. rewrite !filter_app, !flush_no by discriminate. rewrite El.
      cbn [app filter is_kind mk_comment e_kind map e_span]. rewrite I1, I2, I3.
      split; [reflexivity|split; [|reflexivity]]. cbn [comments_of]. f_equal.
      assert (Hs' : s = (a ++ w) ++ cbody cs ++ [10%N] ++ file_text rest)
        by (rewrite Hs; unfold A0; norm_app; reflexivity).
      unfold span_text. cbn [fst snd]. rewrite <- El, <- app_length, Hs'. apply slice_mid.
    + set (raw := vraw conts lastl).
      set (K0 := a ++ w ++ ctext cs).
      set (V0 := K0 ++ key ++ b1 ++ sc :: b2).
      set (A0 := V0 ++ raw).
      assert (Hs : s = A0 ++ eol nl ++ file_text rest).
      { unfold s, A0, V0, K0. rewrite file_text_cons. cbn [text]. fold raw. norm_app. reflexivity. }
      assert (Ek : length a + length w + length (ctext cs) = length K0)
        by (unfold K0; rewrite !app_length; lia).
      assert (Ev : length K0 + length key + length b1 + 1 + length b2 = length V0).
      { unfold V0. rewrite !app_length. simpl. rewrite ?app_length. lia. }
      assert (Ee : length V0 + length raw = length A0) by (unfold A0; rewrite app_length; lia).
      destruct (IH A0 (eol nl)) as [I1 [I2 I3]]. rewrite <- Hs in I1, I2.
      simpl ents. fold raw. rewrite !filter_app, !flush_no by discriminate. rewrite Ek, Ev, Ee.
      cbn [app filter is_kind e_kind map]. rewrite I1, I2, I3.
      split; [|split; reflexivity]. cbn [records_of]. fold raw. f_equal. unfold entity_record. cbn [e_key e_val e_pre opt_text].
      unfold span_text. cbn [fst snd].
      assert (S1 : slice s (length K0) (length K0 + length key) = key).
      { unfold s. rewrite file_text_cons. cbn [text]. fold raw.
        replace (a ++ w ++ (ctext cs ++ key ++ b1 ++ sc :: b2 ++ raw ++ eol nl) ++ file_text rest)
          with (K0 ++ key ++ (b1 ++ sc :: b2 ++ raw ++ eol nl) ++ file_text rest)
          by (unfold K0; norm_app; reflexivity).
        apply slice_mid. }
      assert (S2 : slice s (length V0) (length A0) = raw).
      { rewrite <- Ee, Hs. unfold A0. rewrite <- app_assoc. apply slice_mid. }
      rewrite S1, S2. f_equal.
      assert (Hcase : cs = [] \/ cs <> []) by (destruct cs; [left; reflexivity|right; discriminate]).
      destruct Hcase as [Ecs|Hne]; [rewrite Ecs; reflexivity|].
      rewrite !(match_ne cs) by exact Hne.
      cbn [option_map]. f_equal. cbn [fst snd].
      assert (Ec : length K0 - 1 = length (a ++ w) + length (cbody cs)).
      { rewrite <- Ek, (ctext_body cs Hne), !app_length. simpl. lia. }
      rewrite <- app_length, Ec. unfold s. rewrite file_text_cons. cbn [text]. fold raw.
      replace (a ++ w ++ (ctext cs ++ key ++ b1 ++ sc :: b2 ++ raw ++ eol nl) ++ file_text rest)
        with ((a ++ w) ++ cbody cs ++ [10%N] ++ (key ++ b1 ++ sc :: b2 ++ raw ++ eol nl) ++ file_text rest)
        by (rewrite (ctext_body cs Hne); norm_app; reflexivity).
      apply slice_mid.
Qed.

(* the entities of the walk are exactly the records (key, raw value, attached comment), in
   order; the standalone comments are exactly the comment blocks; there is no Junk entry *)
Theorem C02_roundtrip_properties_multi : forall bs : list block,
  Forall legal_block bs -> adjacent_ok bs ->
  exists es, walk_properties (file_text bs) = Ok es /\
    map (entity_record (file_text bs)) (filter (is_kind KEntity) es) = records_of bs /\
    map (fun e => span_text (file_text bs) (e_span e)) (filter (is_kind KComment) es) =
      comments_of bs /\
    filter (is_kind KJunk) es = [].
Proof.
  intros bs Hleg Hadj. exists (entries_of bs). split; [apply blocks_properties; auto|].
  exact (ents_views bs Hleg [] []).
Qed.

Example ex_multi_records :
  let bs := [ex_b; ex_c; ex_b2; ex_e2; ex_e1; ex_c] in
  Forall legal_block bs /\ adjacent_ok bs /\
  records_of bs = [(A [97; 32; 98], A [120; 32; 121], Some (A [35; 99; 49; 10; 33; 99; 50]));
                   (A [107], A [118], None)] /\
  comments_of bs = [A [35; 32; 115; 10; 35]; A [35; 32; 115; 10; 35]].
Proof. split; [repeat constructor|]. split; [vm_compute; reflexivity|]. split; reflexivity. Qed.
