(* Completeness of matching for the grammar: a path assembled from one piece per
   node, where the pieces of wildcards and unbound variables are of the kind
   their regex fragment admits, is matched by the engine. *)
From Coq Require Import NArith List Bool Arith Lia.
From CL Require Import Base.Sx Base.Res Base.Str Regex.Rx Regex.RxLemmas Regex.RxSem
  Model.Pattern Model.Matcher Proofs.MatcherBase Proofs.MatcherSpec Proofs.MatcherCompile
  Proofs.MatcherSound Proofs.MatcherExpand.
Import ListNotations.

Local Arguments open_group : simpl never.
Local Arguments back_ref : simpl never.
Local Arguments expand_node : simpl never.

(* the value a variable expands to under the environment of Matcher.sub *)
Definition var_value (e : env) (d : list (str * option str)) (name : str) : option str :=
  match lookup name e with
  | Some v => value_text v
  | None => match lookup name d with Some (Some t) => Some t | _ => None end
  end.

Definition node_piece (e : env) (d : list (str * option str)) (n : node) : option str :=
  match n with
  | NLit t => Some t
  | NVar name _ => var_value e d name
  | NAndroid _ => None
  | NStar k => match lookup (star_name k) d with Some (Some t) => Some t | _ => None end
  | NStarstar k _ =>
      match lookup (star_name k) d with
      | Some (Some t) => Some t
      | Some None => Some []
      | None => None
      end
  end.

(* what the regex fragment of the node admits *)
Definition piece_fits (e : env) (n : node) (piece : str) : Prop :=
  match n with
  | NLit _ => True
  | NVar name _ => lookup name e = None -> piece <> [] /\ has_char nl piece = false
  | NAndroid _ => False
  | NStar _ => has_char c_slash piece = false
  | NStarstar _ suffix =>
      piece = [] \/ exists b, b <> [] /\ has_char nl b = false /\ piece = b ++ suffix
  end.

Definition piece_for (e : env) (d : list (str * option str)) (n : node) (piece : str) : Prop :=
  node_piece e d n = Some piece /\ piece_fits e n piece.

(* variable names are not the group names of stars *)
Definition var_not_star (n : node) : Prop :=
  match n with NVar name _ => forall k, name <> star_name k | _ => True end.

Lemma not_char_chars : forall c t, has_char c t = false ->
  Forall (fun x => chr_ok true [(c, c)] x = true) t.
Proof.
  induction t as [|x t IH]; intros H; simpl in *; constructor.
  - apply orb_false_iff in H. destruct H as [H _]. apply N.eqb_neq in H.
    unfold chr_ok, in_ranges. simpl. rewrite orb_false_r.
    destruct (N.leb c x && N.leb x c) eqn:E; auto.
    apply andb_true_iff in E. destruct E as [E1 E2].
    apply N.leb_le in E1. apply N.leb_le in E2. exfalso. apply H. lia.
  - apply IH. apply orb_false_iff in H. tauto.
Qed.

Lemma lit_intro : forall t s u, suf s = t ++ u ->
  exists s', lit t s = Some s' /\ consumed s s' t /\ caps s' = caps s.
Proof.
  induction t as [|c t IH]; intros s u Hs; simpl in *.
  - exists s. split; auto. split; [apply consumed_refl|auto].
  - rewrite Hs. rewrite N.eqb_refl.
    destruct (IH (advance s c (t ++ u)) u eq_refl) as [s' [H1 [H2 H3]]].
    exists s'. split; auto. split; [|simpl in H3; auto].
    change (c :: t) with ([c] ++ t). eapply consumed_trans; [|exact H2].
    unfold consumed. simpl. rewrite Hs. repeat split. lia.
Qed.

Record finv (path : str) (e : env) (d : list (str * option str)) (c : cst) (s : st) : Prop := mkfinv {
  f_names_lt : forall name g, lookup name (c_names c) = Some g -> g < c_next c;
  f_caps_lt : forall g a b, get_cap g (caps s) = Some (a, b) -> a <= b /\ b <= pos s;
  f_vars : forall name g, lookup name (c_names c) = Some g -> (forall k, name <> star_name k) ->
             exists t, var_value e d name = Some t /\ cap_text path s g = Some t
}.

Lemma finv_move : forall path e d c s s' t,
  finv path e d c s -> consumed s s' t -> caps s' = caps s -> finv path e d c s'.
Proof.
  intros path e d c s s' t [F1 F2 F3] [_ [_ Hp]] Hc. constructor; auto.
  - intros g a b Hg. rewrite Hc in Hg. apply F2 in Hg. lia.
  - intros n g Hl Hn. destruct (F3 n g Hl Hn) as [t' [H1 H2]]. exists t'. split; auto.
    unfold cap_text. rewrite Hc. exact H2.
Qed.

(* a fresh group around a group-free body *)
Lemma open_group_complete : forall path e d name c g c1 s s1 piece,
  open_group name c = (g, c1) -> c_err c1 = false ->
  at_path path s -> finv path e d c s ->
  consumed s s1 piece -> caps s1 = caps s ->
  ((forall k, name <> star_name k) -> var_value e d name = Some piece) ->
  finv path e d c1 (set_cap g (pos s, pos s1) s1).
Proof.
  intros path e d name c g c1 s s1 piece Ho Herr Hat [F1 F2 F3] Hcons Hcaps Hv.
  unfold open_group in Ho. inversion Ho; subst g c1. clear Ho. simpl in Herr.
  apply orb_false_iff in Herr. destruct Herr as [Herr Hvalid].
  apply orb_false_iff in Herr. destruct Herr as [Herr Hdup].
  destruct (lookup name (c_names c)) eqn:El; [discriminate|].
  destruct (at_path_consumed _ _ _ _ Hat Hcons) as [Hat1 Hpiece].
  assert (Hpos : pos s <= pos s1) by (destruct Hcons as [_ [_ Hc]]; lia).
  constructor; simpl.
  - intros n g Hl. rewrite lookup_app in Hl. destruct (lookup n (c_names c)) eqn:E.
    + inversion Hl; subst. apply F1 in E. lia.
    + simpl in Hl. destruct (str_eqb n name); inversion Hl; subst. lia.
  - intros g a b Hg. destruct (Nat.eqb g (c_next c)) eqn:E.
    + inversion Hg; subst. lia.
    + rewrite Hcaps in Hg. apply F2 in Hg. lia.
  - intros n g Hl Hn. rewrite lookup_app in Hl. destruct (lookup n (c_names c)) eqn:E.
    + inversion Hl; subst g. pose proof (F1 _ _ E) as Hlt.
      destruct (F3 n n0 E Hn) as [t [H1 H2]]. exists t. split; auto.
      unfold cap_text in *. simpl.
      assert (Hne : Nat.eqb n0 (c_next c) = false) by (apply Nat.eqb_neq; lia).
      rewrite Hne, Hcaps. exact H2.
    + simpl in Hl. destruct (str_eqb n name) eqn:En; [|discriminate].
      assert (g = c_next c) by congruence. subst g.
      apply str_eqb_eq in En. subst n. exists piece. split; [auto|].
      unfold cap_text. simpl. rewrite Nat.eqb_refl. rewrite Hpiece. reflexivity.
Qed.

Lemma app_inv_head_suf : forall (t u v : str), t ++ u = t ++ v -> u = v.
Proof. intros. eapply app_inv_head; eauto. Qed.

Lemma node_complete : forall path e d n c items c' s piece rest,
  simple_node e n = true -> var_not_star n -> piece_for e d n piece ->
  simple_items e n c = (items, c') -> c_err c' = false ->
  at_path path s -> suf s = piece ++ rest -> finv path e d c s ->
  exists s', sem_list items s s' /\ consumed s s' piece /\ finv path e d c' s'.
Proof.
  intros path e d n c items c' s piece rest Hsimple Hns [Hpiece Hfits] Hitems Herr Hat Hsuf Hinv.
  destruct n as [t|name rep|rep|k|k suffix]; simpl in Hsimple, Hpiece, Hfits, Hns.
  - (* literal *)
    inversion Hpiece; subst t. simpl in Hitems. inversion Hitems; subst items c'.
    destruct (sem_lits_intro piece s rest Hsuf) as [s' [H1 [H2 [H3 H4]]]].
    exists s'. split; auto. split; auto. eapply finv_move; eauto.
  - apply andb_true_iff in Hsimple. destruct Hsimple as [_ Hv].
    destruct rep.
    + (* back-reference *)
      unfold simple_items, back_ref in Hitems.
      destruct (lookup name (c_names c)) as [g|] eqn:El.
      2: { inversion Hitems; subst. simpl in Herr. discriminate. }
      inversion Hitems; subst items c'. clear Hitems.
      destruct (f_vars _ _ _ _ _ Hinv name g El Hns) as [t [Hvt Hcap]].
      rewrite Hpiece in Hvt. inversion Hvt; subst t.
      unfold cap_text in Hcap. destruct (get_cap g (caps s)) as [[a b]|] eqn:Eg; [|discriminate].
      inversion Hcap as [Hslice]. clear Hcap Hvt.
      destruct (f_caps_lt _ _ _ _ _ Hinv _ _ _ Eg) as [Hab Hb].
      destruct (lit_intro piece s rest Hsuf) as [s' [Hl [Hc Hcaps]]].
      symmetry in Hslice. subst piece.
      exists s'. split; [|split; [auto|eapply finv_move; eauto]].
      econstructor; [|constructor]. econstructor; [exact Eg|].
      destruct Hat as [A1 [A2 A3]]. rewrite A1, bref_text by auto. exact Hl.
    + (* named group *)
      unfold simple_items in Hitems.
      destruct (open_group name c) as [g c1] eqn:Ho. inversion Hitems; subst items c'. clear Hitems.
      assert (Hbody : exists s1, sem_list (var_body e name) s s1 /\ consumed s s1 piece /\
                                 caps s1 = caps s).
      { unfold var_body. unfold var_value in Hpiece. destruct (lookup name e) as [v|] eqn:El.
        - rewrite Hpiece. destruct (sem_lits_intro piece s rest Hsuf) as [s1 [H1 [H2 [H3 H4]]]].
          exists s1. auto.
        - destruct (Hfits eq_refl) as [Hne Hnl].
          destruct (iter_chr_intro true [(nl, nl)] piece s (not_char_chars _ _ Hnl) rest Hsuf)
            as [s1 [H1 [H2 [H3 H4]]]].
          exists s1. split; [|auto]. econstructor; [|constructor].
          unfold rx_lazy_any, rx_any. econstructor; [exact H1|].
          destruct piece; [congruence|simpl; lia]. }
      destruct Hbody as [s1 [Hb [Hc Hcaps]]].
      exists (set_cap g (pos s, pos s1) s1). split; [|split; [exact Hc|]].
      * econstructor; [|constructor]. constructor. apply sem_cat_list. exact Hb.
      * eapply open_group_complete; eauto.
  - contradiction.
  - (* star *)
    destruct (lookup (star_name k) e) eqn:El; [discriminate|].
    unfold simple_items in Hitems.
    destruct (open_group (star_name k) c) as [g c1] eqn:Ho.
    inversion Hitems; subst items c'. clear Hitems.
    destruct (iter_chr_intro true [(c_slash, c_slash)] piece s (not_char_chars _ _ Hfits) rest Hsuf)
      as [s1 [H1 [H2 [H3 H4]]]].
    exists (set_cap g (pos s, pos s1) s1). split; [|split; [exact H2|]].
    + econstructor; [|constructor]. constructor. unfold rx_not_slash.
      econstructor; [exact H1|lia].
    + eapply open_group_complete; eauto. intro Hk. exfalso. apply (Hk k). reflexivity.
  - (* double star *)
    destruct (lookup (star_name k) e) eqn:El; [discriminate|].
    unfold simple_items in Hitems.
    destruct (open_group (star_name k) c) as [g c1] eqn:Ho.
    inversion Hitems; subst items c'. clear Hitems.
    destruct Hfits as [Hempty|[b [Hb [Hnl Hpb]]]].
    + (* no directories: the optional group is skipped *)
      subst piece. exists s. split; [|split; [apply consumed_refl|]].
      * econstructor; [|constructor]. apply S_AltR. constructor.
      * unfold open_group in Ho. inversion Ho; subst g c1. clear Ho. simpl in Herr.
        apply orb_false_iff in Herr. destruct Herr as [Herr Hvalid].
        apply orb_false_iff in Herr. destruct Herr as [Herr Hdup].
        destruct (lookup (star_name k) (c_names c)) eqn:Eln; [discriminate|].
        destruct Hinv as [F1 F2 F3]. constructor; simpl; auto.
        -- intros n g Hl. rewrite lookup_app in Hl. destruct (lookup n (c_names c)) eqn:E.
           ++ inversion Hl; subst. apply F1 in E. lia.
           ++ simpl in Hl. destruct (str_eqb n (star_name k)); inversion Hl; subst. lia.
        -- intros n g Hl Hn. rewrite lookup_app in Hl. destruct (lookup n (c_names c)) eqn:E.
           ++ inversion Hl; subst. apply F3; auto.
           ++ simpl in Hl. destruct (str_eqb n (star_name k)) eqn:En; [|discriminate].
              apply str_eqb_eq in En. subst n. exfalso. apply (Hn k). reflexivity.
    + subst piece. rewrite <- app_assoc in Hsuf.
      destruct (iter_chr_intro true [(nl, nl)] b s (not_char_chars _ _ Hnl) (suffix ++ rest) Hsuf)
        as [s1 [H1 [H2 [H3 H4]]]].
      destruct (sem_lits_intro suffix s1 rest H3) as [s2 [L1 [L2 [L3 L4]]]].
      pose proof (consumed_trans _ _ _ _ _ H2 L2) as Hc.
      exists (set_cap g (pos s, pos s2) s2). split; [|split; [exact Hc|]].
      * econstructor; [|constructor]. apply S_AltL. constructor.
        apply (sem_cat_list (rx_any_plus :: map chr_lit suffix)).
        econstructor; [|exact L1]. unfold rx_any_plus, rx_any. econstructor; [exact H1|].
        destruct b; [congruence|simpl; lia].
      * eapply open_group_complete; eauto; [congruence|].
        intro Hk. exfalso. apply (Hk k). reflexivity.
Qed.

Lemma nodes_complete : forall path e d ns pieces c items c' s rest,
  forallb (simple_node e) ns = true -> Forall var_not_star ns ->
  Forall2 (piece_for e d) ns pieces ->
  simple_compile e ns c = (items, c') -> c_err c' = false ->
  at_path path s -> suf s = concat pieces ++ rest -> finv path e d c s ->
  exists s', sem_list items s s' /\ consumed s s' (concat pieces) /\ finv path e d c' s'.
Proof.
  intros path e d ns pieces c items c' s rest Hs Hns HF. revert c items c' s rest Hs Hns.
  induction HF as [|n piece ns pieces Hp HF IH];
    intros c items c' s rest Hs Hns Hc Herr Hat Hsuf Hinv.
  - simpl in Hc. inversion Hc; subst. exists s. split; [constructor|].
    split; [apply consumed_refl|auto].
  - simpl in Hs. apply andb_true_iff in Hs. destruct Hs as [Hs1 Hs2].
    apply Forall_cons_iff in Hns. destruct Hns as [Hn1 Hn2]. simpl in Hc.
    destruct (simple_items e n c) as [a c1] eqn:E1.
    destruct (simple_compile e ns c1) as [b c2] eqn:E2. inversion Hc; subst items c'. clear Hc.
    assert (Herr1 : c_err c1 = false).
    { destruct (c_err c1) eqn:E; auto.
      pose proof (simple_compile_err e ns c1 E) as H. rewrite E2 in H. simpl in H. congruence. }
    simpl in Hsuf. rewrite <- app_assoc in Hsuf.
    destruct (node_complete path e d n c a c1 s piece (concat pieces ++ rest)
                Hs1 Hn1 Hp E1 Herr1 Hat Hsuf Hinv) as [s1 [N1 [N2 N3]]].
    destruct (at_path_consumed _ _ _ _ Hat N2) as [Hat1 _].
    assert (Hsuf1 : suf s1 = concat pieces ++ rest).
    { destruct N2 as [N2 _]. rewrite Hsuf in N2. eapply app_inv_head; eauto. }
    destruct (IH c1 b c2 s1 rest Hs2 Hn2 E2 Herr Hat1 Hsuf1 N3) as [s2 [L1 [L2 L3]]].
    exists s2. split; [apply sem_list_app; eauto|]. split; [|auto].
    simpl. eapply consumed_trans; eauto.
Qed.

(* ---- plainness of the compiled regex --------------------------------------------------- *)
Lemma plain_cat_list : forall l, forallb plain l = true -> plain (cat_list l) = true.
Proof.
  induction l as [|r l IH]; intros H; simpl in *; auto.
  apply andb_true_iff in H. destruct H as [H1 H2]. destruct l as [|r2 l]; auto.
  change (plain r && plain (cat_list (r2 :: l)) = true). rewrite H1. simpl. apply IH. auto.
Qed.

Lemma plain_lits : forall t, forallb plain (map chr_lit t) = true.
Proof. induction t; simpl; auto. Qed.

Lemma plain_simple_items : forall e n c, forallb plain (fst (simple_items e n c)) = true.
Proof.
  intros e n c. destruct n as [t|name rep|rep|k|k suffix].
  - simpl. apply plain_lits.
  - destruct rep; unfold simple_items.
    + unfold back_ref. destruct (lookup name (c_names c)); reflexivity.
    + destruct (open_group name c) as [g c1]. unfold fst, forallb. rewrite andb_true_r.
      change (plain (cat_list (var_body e name)) = true).
      apply plain_cat_list. unfold var_body. destruct (lookup name e) as [v|]; [|reflexivity].
      destruct (value_text v); [apply plain_lits|reflexivity].
  - reflexivity.
  - unfold simple_items. destruct (open_group (star_name k) c). reflexivity.
  - unfold simple_items. destruct (open_group (star_name k) c) as [g c1].
    unfold fst, forallb. rewrite andb_true_r.
    change (plain (cat_list (rx_any_plus :: map chr_lit suffix)) && true = true).
    rewrite andb_true_r.
    apply (plain_cat_list (rx_any_plus :: map chr_lit suffix)). simpl. apply plain_lits.
Qed.

Lemma plain_simple_compile : forall e ns c, forallb plain (fst (simple_compile e ns c)) = true.
Proof.
  induction ns as [|n ns IH]; intros c; simpl; auto.
  pose proof (plain_simple_items e n c) as H1.
  destruct (simple_items e n c) as [a c1]. pose proof (IH c1) as H2.
  destruct (simple_compile e ns c1) as [b c2]. simpl in *.
  rewrite forallb_app, H1, H2. reflexivity.
Qed.

(* ---- the theorem ---------------------------------------------------------------------------- *)
Definition compiles (M : matcher) : Prop :=
  exists r names, regex_of_pattern (m_env M) (m_pat M) = Ok (r, names).

Lemma finv_init : forall path e d, finv path e d (mkcst 1 [] false) (st_at path 0).
Proof. intros. constructor; simpl; intros; discriminate. Qed.

Theorem match_complete : forall M d pieces,
  simple M -> compiles M -> Forall var_not_star (p_nodes (m_pat M)) ->
  Forall2 (piece_for (m_env M) d) (p_nodes (m_pat M)) pieces ->
  exists d', match_ M (concat pieces) = Ok (Some d').
Proof.
  intros M d pieces HS [r [names Hr]] Hns HF. pose proof HS as [Hs [Hroot Hn]].
  set (path := concat pieces).
  unfold match_. rewrite (regex_of_simple M HS) in *.
  destruct (simple_compile (m_env M) (p_nodes (m_pat M)) (mkcst 1 [] false)) as [items c] eqn:Ec.
  destruct (c_err c) eqn:Eerr; [discriminate|]. simpl.
  assert (Hsuf : suf (st_at path 0) = concat pieces ++ []) by (simpl; rewrite app_nil_r; reflexivity).
  destruct (nodes_complete path (m_env M) d _ pieces _ _ _ _ [] Hs Hns HF Ec Eerr
              (at_path_start path) Hsuf (finv_init path (m_env M) d)) as [sF [L1 [L2 L3]]].
  assert (HsF : suf sF = []).
  { destruct L2 as [L2 _]. simpl in L2. fold path in L2.
    rewrite <- (app_nil_r path) in L2 at 1. apply app_inv_head in L2. auto. }
  assert (Hsem : sem (cat_list (items ++ [Eol false])) (st_at path 0) sF).
  { apply sem_cat_list, sem_list_app. exists sF. split; auto.
    econstructor; [|constructor]. constructor. unfold at_eol. rewrite HsF. reflexivity. }
  assert (Hplain : plain (cat_list (items ++ [Eol false])) = true).
  { apply plain_cat_list. rewrite forallb_app.
    pose proof (plain_simple_compile (m_env M) (p_nodes (m_pat M)) (mkcst 1 [] false)) as Hp.
    rewrite Ec in Hp. simpl in Hp. rewrite Hp. reflexivity. }
  destruct (rmatch_complete _ path sF Hplain Hsem) as [x Hx]. rewrite Hx.
  (* the post-processing is the identity: no android_locale group *)
  apply rmatch_sem in Hx. destruct Hx as [sG [HsemG HxG]]. subst x.
  apply sem_cat_list, sem_list_app in HsemG. destruct HsemG as [s1 [Hsa Hsb]].
  destruct (nodes_sound path (m_env M) _ _ _ _ _ _ Hs Ec Eerr Hsa (at_path_start path)
              (inv_init path (m_env M))) as [ps [_ [I2 _]]].
  assert (Hna : has_key s_android_locale (groupdict path (c_names c) (mkres 0 (pos sG) (caps sG))) = false).
  { unfold has_key. rewrite lookup_groupdict.
    rewrite (notin_lookup_none _ _ (inv_noandroid _ _ _ _ I2)). reflexivity. }
  unfold add_locale. rewrite Hna. simpl. eexists. reflexivity.
Qed.

(* the same pieces are what the pattern expands to under the sub environment *)
Lemma expand_node_piece : forall f e d n piece,
  NoDup (map fst d) -> NoDup (map fst e) ->
  simple_node e n = true -> node_piece e d n = Some piece ->
  expand_node (S (S f)) (sub_env d e) true n = Ok (IStr piece).
Proof.
  intros f e d n piece Hd He Hs Hp. rewrite expand_node_S.
  destruct n as [t|name rep|rep|k|k suffix]; simpl in Hs, Hp.
  - inversion Hp; subst. reflexivity.
  - apply andb_true_iff in Hs. destruct Hs as [_ Hv].
    rewrite lookup_sub_env by auto. unfold var_value in Hp.
    destruct (lookup name e) as [v|] eqn:El.
    + destruct v as [s|p]; simpl in Hp.
      * inversion Hp; subst. reflexivity.
      * destruct (lit_only p) eqn:Elit; [|discriminate]. inversion Hp; subst.
        destruct (expand_lit_only f (remove name (sub_env d e)) true true p Elit) as [_ H].
        rewrite H. reflexivity.
    + destruct (lookup name d) as [[t|]|]; try discriminate. inversion Hp; subst. reflexivity.
  - discriminate.
  - destruct (lookup (star_name k) e) eqn:El; [discriminate|].
    rewrite lookup_sub_env, El by auto.
    destruct (lookup (star_name k) d) as [[t|]|]; try discriminate. inversion Hp; subst. reflexivity.
  - destruct (lookup (star_name k) e) eqn:El; [discriminate|].
    rewrite lookup_sub_env, El by auto.
    destruct (lookup (star_name k) d) as [[t|]|]; try discriminate; inversion Hp; subst; reflexivity.
Qed.

Lemma expand_children_pieces : forall f e d ns pieces,
  NoDup (map fst d) -> NoDup (map fst e) -> forallb (simple_node e) ns = true ->
  Forall2 (fun n piece => node_piece e d n = Some piece) ns pieces ->
  expand_children (expand_node (S (S f)) (sub_env d e) true) false ns = Ok (map IStr pieces).
Proof.
  intros f e d ns pieces Hd He Hs HF. induction HF as [|n piece ns pieces Hp HF IH]; simpl; auto.
  simpl in Hs. apply andb_true_iff in Hs. destruct Hs as [Hs1 Hs2].
  rewrite (expand_node_piece f e d n piece) by auto. rewrite IH by auto. reflexivity.
Qed.

Theorem expand_pieces : forall M d pieces, simple M -> NoDup (map fst d) ->
  Forall2 (fun n piece => node_piece (m_env M) d n = Some piece) (p_nodes (m_pat M)) pieces ->
  expand_pattern (sub_env d (m_env M)) false (m_pat M) = Ok (concat pieces).
Proof.
  intros M d pieces [Hs [Hr Hn]] Hd HF.
  unfold expand_pattern, expand_with. rewrite Hr. simpl.
  unfold expand_fuel. replace (2 * length (sub_env d (m_env M)) + 3)
    with (S (S (2 * length (sub_env d (m_env M)) + 1))) by lia.
  rewrite (expand_children_pieces _ (m_env M) d _ pieces) by auto. simpl.
  rewrite join_strs. reflexivity.
Qed.
