(* C07: the unknown-entity warnings and the number / length verdicts of the
   model of DTDChecker.check. *)
From Coq Require Import NArith ZArith List Bool Arith Lia.
From CL Require Import Base.Sx Base.Res Base.Str Regex.Rx Generated.RxC07 Generated.C07Facts
  Model.CSS Model.XmlContent Model.CheckDTD Proofs.CheckDTDProofs Proofs.CheckDTDSpec.
Import ListNotations.

(* "Referencing unknown entity `" and what follows the name *)
Definition unknown_prefix : str := match t_unknown with inl p :: _ => p | _ => [] end.
Definition unknown_close : str := match t_unknown with [_; _; inl q] => q | _ => [] end.

Definition is_unknown_warning (i : issue) : bool :=
  negb (i_error i) && str_eqb (i_cat i) (snd y_unknown) && starts_with unknown_prefix (i_msg i).

Definition is_issue (y : ylit) (i : issue) : bool :=
  Bool.eqb (i_error i) (fst (fst y)) && str_eqb (i_cat i) (snd y) && str_eqb (i_msg i) (snd (fst y)).

Lemma render_unknown : forall key, render t_unknown [key] = unknown_prefix ++ key ++ unknown_close.
Proof. intros. vm_compute. reflexivity. Qed.

Lemma unknown_issue_msg : forall suffix key,
  i_msg (unknown_issue suffix key) = unknown_prefix ++ key ++ unknown_close ++ suffix.
Proof.
  intros. unfold unknown_issue, var_issue. unfold i_msg. rewrite render_unknown.
  rewrite <- !app_assoc. reflexivity.
Qed.

Lemma starts_with_app : forall p s, starts_with p (p ++ s) = true.
Proof. induction p as [|x p IH]; simpl; intros; [reflexivity|]. rewrite N.eqb_refl. apply IH. Qed.

Lemma unknown_issue_is : forall suffix key, is_unknown_warning (unknown_issue suffix key) = true.
Proof.
  intros. unfold is_unknown_warning. rewrite unknown_issue_msg, starts_with_app.
  reflexivity.
Qed.

Lemma mismatch_not_unknown : forall ctx key, is_unknown_warning (mismatch_issue ctx key) = false.
Proof. intros. vm_compute. reflexivity. Qed.

Section Verdicts.
Variable sax : str -> sax_out.
Variable uesc : str -> option (nat * str).

Ltac seg_none := apply filter_none; intros i Hi.

(* one warning per unknown name, in sorted order, naming it *)
Theorem unknown_warnings : forall cache reference android ref l10n issues cache',
  check sax uesc cache reference android ref l10n = Ok (issues, cache') ->
  exists reflist inContext l10nlist,
    known_entities cache reference (e_val ref) = Ok (reflist, cache') /\
    entities_for_value (e_val ref) = Ok inContext /\
    entities_for_value (e_val l10n) = Ok l10nlist /\
    filter is_unknown_warning issues =
      map (unknown_issue (warn_suffix reflist inContext)) (missing_names reflist l10nlist).
Proof.
  intros cache reference android ref l10n issues cache' H.
  destruct (check_inv sax uesc _ _ _ _ _ _ _ H)
    as [enc [reflist [inContext [l10nlist [e_l10n [style [andr
       [Henc [Hk [Hctx [Hl [Hs [Ha [He ->]]]]]]]]]]]]]].
  exists reflist, inContext, l10nlist. repeat split; try assumption.
  rewrite !filter_app.
  assert (E1 : filter is_unknown_warning enc = []).
  { seg_none. unfold is_unknown_warning. rewrite (check_base_cat _ _ Henc i Hi).
    replace (str_eqb (snd y_encoding) (snd y_unknown)) with false by (vm_compute; reflexivity).
    rewrite andb_false_r. reflexivity. }
  assert (E2 : filter is_unknown_warning (w_ref_of sax reflist ref) = []).
  { unfold w_ref_of. destruct (ref_unparseable sax reflist ref); [|reflexivity]. vm_compute. reflexivity. }
  assert (E3 : filter is_unknown_warning e_l10n = []).
  { subst e_l10n. destruct (l10n_error sax _ l10n) as [[[line col] msg]|]; [|reflexivity].
    cbn [filter]. unfold is_unknown_warning, var_issue. cbn [i_error].
    replace (fst y_xmlparse) with true by (vm_compute; reflexivity). reflexivity. }
  assert (E4 : filter is_unknown_warning
                 (map (unknown_issue (warn_suffix reflist inContext)) (missing_names reflist l10nlist)) =
               map (unknown_issue (warn_suffix reflist inContext)) (missing_names reflist l10nlist)).
  { apply filter_all. intros i Hi. apply in_map_iff in Hi. destruct Hi as [k [<- _]].
    apply unknown_issue_is. }
  assert (E5 : filter is_unknown_warning
                 (w_mismatch_of inContext l10nlist (missing_names reflist l10nlist)) = []).
  { unfold w_mismatch_of. destruct (notnil inContext && notnil l10nlist); [|reflexivity].
    seg_none. apply in_map_iff in Hi. destruct Hi as [k [<- _]]. apply mismatch_not_unknown. }
  assert (E6 : filter is_unknown_warning (w_num_of (e_val ref) (e_val l10n)) = []).
  { unfold w_num_of. destruct (_ && _); [vm_compute|]; reflexivity. }
  assert (E7 : filter is_unknown_warning (e_len_of (e_val ref) (e_val l10n)) = []).
  { unfold e_len_of. destruct (_ && _); [vm_compute|]; reflexivity. }
  assert (E8 : filter is_unknown_warning style = []).
  { seg_none. destruct (maybe_style_cat _ _ _ Hs i Hi) as [->|[_ Hc]]; [vm_compute; reflexivity|].
    unfold is_unknown_warning. rewrite Hc.
    replace (str_eqb (snd y_css_warn) (snd y_unknown)) with false by (vm_compute; reflexivity).
    rewrite andb_false_r. reflexivity. }
  assert (E9 : filter is_unknown_warning andr = []).
  { seg_none. destruct android; [|inversion Ha; subst; contradiction].
    destruct (process_android_err _ _ _ Ha i Hi) as [Hr _].
    unfold is_unknown_warning. rewrite Hr. reflexivity. }
  rewrite E1, E2, E3, E4, E5, E6, E7, E8, E9. simpl. rewrite app_nil_r. reflexivity.
Qed.

Lemma is_issue_self : forall y p, is_issue y (lit_issue y p) = true.
Proof.
  intros [[e m] c] p. unfold is_issue, lit_issue. simpl.
  rewrite !str_eqb_refl, Bool.eqb_reflx. reflexivity.
Qed.

Lemma is_issue_eq : forall y i, is_issue y i = true ->
  i_error i = fst (fst y) /\ i_cat i = snd y /\ i_msg i = snd (fst y).
Proof.
  intros y i H. unfold is_issue in H. apply andb_true_iff in H. destruct H as [H H3].
  apply andb_true_iff in H. destruct H as [H1 H2].
  apply Bool.eqb_prop in H1. apply str_eqb_eq in H2, H3. auto.
Qed.

(* the issues of [y]'s kind in check's output are exactly those of segment [seg] *)
Lemma only_segment : forall (y : ylit) cache reference android ref l10n issues cache',
  check sax uesc cache reference android ref l10n = Ok (issues, cache') ->
  str_eqb (snd y_encoding) (snd y) = false ->
  is_issue y (lit_issue y_cant_parse (PTuple 0 0)) = false ->
  str_eqb (snd y_xmlparse) (snd y) = false ->
  str_eqb (snd y_unknown) (snd y) = false ->
  str_eqb (snd y_mismatch) (snd y) = false ->
  is_issue y (lit_issue y_css_spec (PInt 0)) = false ->
  Bool.eqb (fst y_css_warn) (fst (fst y)) && str_eqb (snd y_css_warn) (snd y) = false ->
  str_eqb (snd y_android_quote) (snd y) = false ->
  filter (is_issue y) issues =
    filter (is_issue y) (w_num_of (e_val ref) (e_val l10n) ++ e_len_of (e_val ref) (e_val l10n)).
Proof.
  intros y cache reference android ref l10n issues cache' H F1 F2 F3 F4 F5 F6 F7 F8.
  destruct (check_inv sax uesc _ _ _ _ _ _ _ H)
    as [enc [reflist [inContext [l10nlist [e_l10n [style [andr
       [Henc [Hk [Hctx [Hl [Hs [Ha [He ->]]]]]]]]]]]]]].
  rewrite !filter_app.
  assert (E1 : filter (is_issue y) enc = []).
  { seg_none. unfold is_issue. rewrite (check_base_cat _ _ Henc i Hi), F1.
    rewrite andb_false_r. reflexivity. }
  assert (E2 : filter (is_issue y) (w_ref_of sax reflist ref) = []).
  { unfold w_ref_of. destruct (ref_unparseable sax reflist ref); [|reflexivity]. cbn [filter]. rewrite F2. reflexivity. }
  assert (E3 : filter (is_issue y) e_l10n = []).
  { subst e_l10n. destruct (l10n_error sax _ l10n) as [[[line col] msg]|]; [|reflexivity].
    cbn [filter]. unfold is_issue, var_issue. cbn [i_cat]. rewrite F3.
    rewrite andb_false_r. reflexivity. }
  assert (E4 : filter (is_issue y)
                 (map (unknown_issue (warn_suffix reflist inContext)) (missing_names reflist l10nlist)) = []).
  { seg_none. apply in_map_iff in Hi. destruct Hi as [k [<- _]].
    unfold is_issue, unknown_issue, var_issue. cbn [i_cat]. rewrite F4, andb_false_r. reflexivity. }
  assert (E5 : filter (is_issue y)
                 (w_mismatch_of inContext l10nlist (missing_names reflist l10nlist)) = []).
  { unfold w_mismatch_of. destruct (notnil inContext && notnil l10nlist); [|reflexivity].
    seg_none. apply in_map_iff in Hi. destruct Hi as [k [<- _]].
    unfold is_issue, mismatch_issue, tpl_issue. cbn [i_cat]. rewrite F5, andb_false_r. reflexivity. }
  assert (E8 : filter (is_issue y) style = []).
  { seg_none. destruct (maybe_style_cat _ _ _ Hs i Hi) as [->|[He' Hc]]; [exact F6|].
    unfold is_issue. rewrite He', Hc.
    apply andb_false_iff in F7. destruct F7 as [F7|F7]; rewrite F7; [reflexivity|].
    rewrite andb_false_r. reflexivity. }
  assert (E9 : filter (is_issue y) andr = []).
  { seg_none. destruct android; [|inversion Ha; subst; contradiction].
    destruct (process_android_err _ _ _ Ha i Hi) as [_ Hc].
    unfold is_issue. rewrite Hc, F8, andb_false_r. reflexivity. }
  rewrite E1, E2, E3, E4, E5, E8, E9. simpl. rewrite !app_nil_r. reflexivity.
Qed.

Lemma In_filter_issue : forall y p l, In (lit_issue y p) l <-> In (lit_issue y p) (filter (is_issue y) l).
Proof. intros. rewrite filter_In, is_issue_self. tauto. Qed.

(* reference is a CSS length  ->  (error <-> the localization is not one) *)
Theorem length_verdict : forall cache reference android ref l10n issues cache',
  check sax uesc cache reference android ref l10n = Ok (issues, cache') ->
  (In (lit_issue y_css_length (PInt 0)) issues <->
   is_match rx_c07_length (e_val ref) = true /\ is_match rx_c07_length (e_val l10n) = false).
Proof.
  intros cache reference android ref l10n issues cache' H.
  rewrite In_filter_issue.
  rewrite (only_segment y_css_length _ _ _ _ _ _ _ H) by (vm_compute; reflexivity).
  rewrite <- In_filter_issue. unfold w_num_of, e_len_of.
  destruct (is_match rx_c07_length (e_val ref)), (is_match rx_c07_length (e_val l10n)); simpl;
    destruct (is_match rx_c07_num (e_val ref) && negb (is_match rx_c07_num (e_val l10n))); simpl;
    split; try tauto; try (intros [? ?]; discriminate);
    try (intros [H1|H1]; [apply (f_equal i_cat) in H1; vm_compute in H1; discriminate | tauto]);
    try (intros [H1|H1]; [apply (f_equal i_cat) in H1; vm_compute in H1; discriminate | contradiction]);
    intros _; simpl; auto.
Qed.

(* reference is a number  ->  (warning <-> the localization is not one) *)
Theorem number_verdict : forall cache reference android ref l10n issues cache',
  check sax uesc cache reference android ref l10n = Ok (issues, cache') ->
  (In (lit_issue y_number (PInt 0)) issues <->
   is_match rx_c07_num (e_val ref) = true /\ is_match rx_c07_num (e_val l10n) = false).
Proof.
  intros cache reference android ref l10n issues cache' H.
  rewrite In_filter_issue.
  rewrite (only_segment y_number _ _ _ _ _ _ _ H) by (vm_compute; reflexivity).
  rewrite <- In_filter_issue. unfold w_num_of, e_len_of.
  destruct (is_match rx_c07_num (e_val ref)), (is_match rx_c07_num (e_val l10n)); simpl;
    destruct (is_match rx_c07_length (e_val ref) && negb (is_match rx_c07_length (e_val l10n))); simpl;
    split; try tauto; try (intros [? ?]; discriminate);
    try (intros [H1|H1]; [apply (f_equal i_cat) in H1; vm_compute in H1; discriminate | tauto]);
    try (intros [H1|H1]; [apply (f_equal i_cat) in H1; vm_compute in H1; discriminate | contradiction]);
    intros _; simpl; auto.
Qed.
End Verdicts.
