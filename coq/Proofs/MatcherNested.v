(* Nested variable values: a variable bound to a value that itself contains
   {other} variables, to any depth.  For patterns made of literals and
   (first-occurrence) variables whose expansion with raise_missing=True succeeds
   -- every variable at every depth has a value, no cycle is cut -- the compiled
   regular expression is literal characters inside nested groups, the engine
   runs through it deterministically, the matcher matches its own expansion and
   every variable of the pattern is bound to its own expansion. *)
From Coq Require Import NArith List Bool Arith Lia.
From CL Require Import Base.Sx Base.Res Base.Str Regex.Rx Regex.RxLemmas
  Model.Pattern Model.Matcher Proofs.MatcherBase Proofs.MatcherSpec Proofs.MatcherCompile
  Proofs.MatcherSound Proofs.MatcherExpand Proofs.MatcherComplete.
Import ListNotations.

Local Arguments expand_node : simpl never.
Local Arguments rx_node : simpl never.
Local Arguments open_group : simpl never.

(* ---- literal characters and groups: a deterministic run -------------------------------- *)
Fixpoint glit (r : rx) : bool :=
  match r with
  | Eps => true
  | Chr false [(a, b)] => N.eqb a b
  | Cat a b => glit a && glit b
  | Grp _ r' => glit r'
  | _ => false
  end.

Fixpoint rtext (r : rx) : str :=
  match r with
  | Chr _ [(a, _)] => [a]
  | Cat a b => rtext a ++ rtext b
  | Grp _ r' => rtext r'
  | _ => []
  end.

Fixpoint gcaps (r : rx) (p : nat) (cs : list (nat * (nat * nat))) : list (nat * (nat * nat)) :=
  match r with
  | Cat a b => gcaps b (p + length (rtext a)) (gcaps a p cs)
  | Grp n r' => (n, (p, p + length (rtext r'))) :: gcaps r' p cs
  | _ => cs
  end.

Fixpoint grps (r : rx) : list nat :=
  match r with
  | Cat a b => grps a ++ grps b
  | Grp n r' => n :: grps r'
  | _ => []
  end.

Lemma glit_run : forall r, glit r = true -> forall s k rest, suf s = rtext r ++ rest ->
  m r s k = k (mkst (rev (rtext r) ++ pre s) rest (pos s + length (rtext r))
                    (gcaps r (pos s) (caps s))).
Proof.
  induction r; intros Hg s k rest Hs; simpl in Hg; try discriminate.
  - destruct s as [p0 s0 n0 c0]. simpl in *. subst. rewrite Nat.add_0_r. reflexivity.
  - destruct neg; [discriminate|]. destruct rs as [|[a b] [|]]; try discriminate.
    apply N.eqb_eq in Hg. subst b. simpl in *. rewrite Hs.
    rewrite N.leb_refl. simpl. unfold advance. rewrite Nat.add_1_r. reflexivity.
  - apply andb_true_iff in Hg. destruct Hg as [H1 H2]. simpl in *.
    rewrite <- app_assoc in Hs. rewrite (IHr1 H1 s _ _ Hs).
    rewrite (IHr2 H2 _ k rest); [|reflexivity]. simpl.
    rewrite rev_app_distr, <- app_assoc, app_length, Nat.add_assoc. reflexivity.
  - simpl in *. rewrite (IHr Hg s _ rest Hs). reflexivity.
Qed.

(* ---- lists of items ------------------------------------------------------------------------ *)
Fixpoint gcaps_list (l : list rx) (p : nat) (cs : list (nat * (nat * nat))) :=
  match l with
  | [] => cs
  | x :: l' => gcaps_list l' (p + length (rtext x)) (gcaps x p cs)
  end.

Definition grps_list (l : list rx) : list nat := concat (map grps l).
Definition text_list (l : list rx) : str := concat (map rtext l).

Lemma glit_cat_list : forall l, forallb glit l = true -> glit (cat_list l) = true.
Proof.
  induction l as [|x l IH]; intros H; simpl in *; auto.
  apply andb_true_iff in H. destruct H as [H1 H2]. destruct l as [|y l]; auto.
  change (glit x && glit (cat_list (y :: l)) = true). rewrite H1. simpl. auto.
Qed.

Lemma rtext_cat_list : forall l, rtext (cat_list l) = text_list l.
Proof.
  unfold text_list. induction l as [|x l IH]; simpl; auto. destruct l as [|y l].
  - simpl. rewrite app_nil_r. reflexivity.
  - change (rtext x ++ rtext (cat_list (y :: l)) = rtext x ++ concat (map rtext (y :: l))).
    rewrite IH. reflexivity.
Qed.

Lemma gcaps_cat_list : forall l p cs, gcaps (cat_list l) p cs = gcaps_list l p cs.
Proof.
  induction l as [|x l IH]; intros p cs; simpl; auto. destruct l as [|y l].
  - reflexivity.
  - change (gcaps (cat_list (y :: l)) (p + length (rtext x)) (gcaps x p cs) =
            gcaps_list (y :: l) (p + length (rtext x)) (gcaps x p cs)). apply IH.
Qed.

Lemma grps_cat_list : forall l, grps (cat_list l) = grps_list l.
Proof.
  unfold grps_list. induction l as [|x l IH]; simpl; auto. destruct l as [|y l].
  - simpl. rewrite app_nil_r. reflexivity.
  - change (grps x ++ grps (cat_list (y :: l)) = grps x ++ concat (map grps (y :: l))).
    rewrite IH. reflexivity.
Qed.

Lemma gcaps_list_app : forall a b p cs,
  gcaps_list (a ++ b) p cs = gcaps_list b (p + length (text_list a)) (gcaps_list a p cs).
Proof.
  unfold text_list. induction a as [|x a IH]; intros b p cs; simpl.
  - rewrite Nat.add_0_r. reflexivity.
  - rewrite IH, app_length, Nat.add_assoc. reflexivity.
Qed.

Lemma get_cap_skip : forall r g p cs, ~ In g (grps r) -> get_cap g (gcaps r p cs) = get_cap g cs.
Proof.
  induction r; intros g p cs H; simpl in *; auto.
  - rewrite in_app_iff in H. rewrite IHr2, IHr1; tauto.
  - destruct (Nat.eqb g n) eqn:E; [apply Nat.eqb_eq in E; subst; tauto|]. apply IHr. tauto.
Qed.

Lemma get_cap_skip_list : forall l g p cs, ~ In g (grps_list l) ->
  get_cap g (gcaps_list l p cs) = get_cap g cs.
Proof.
  unfold grps_list. induction l as [|x l IH]; intros g p cs H; simpl in *; auto.
  rewrite in_app_iff in H. rewrite IH, get_cap_skip; tauto.
Qed.

Lemma glit_run_list : forall l1 l2 s k rest, forallb glit l1 = true ->
  suf s = text_list l1 ++ rest ->
  m (cat_list (l1 ++ l2)) s k =
  m (cat_list l2) (mkst (rev (text_list l1) ++ pre s) rest (pos s + length (text_list l1))
                        (gcaps_list l1 (pos s) (caps s))) k.
Proof.
  unfold text_list. induction l1 as [|x l1 IH]; intros l2 s k rest Hg Hs.
  - destruct s as [p0 s0 n0 c0]. simpl in *. subst. rewrite Nat.add_0_r. reflexivity.
  - simpl in Hg. apply andb_true_iff in Hg. destruct Hg as [Hx Hl]. simpl in Hs.
    rewrite <- app_assoc in Hs.
    destruct (l1 ++ l2) as [|y t] eqn:E.
    + apply app_eq_nil in E. destruct E; subst l1 l2. simpl in *.
      rewrite app_nil_r in *. rewrite (glit_run x Hx s k rest Hs). reflexivity.
    + change (cat_list ((x :: l1) ++ l2)) with (cat_list (x :: (l1 ++ l2))). rewrite E.
      change (cat_list (x :: y :: t)) with (Cat x (cat_list (y :: t))). simpl m.
      rewrite (glit_run x Hx s _ _ Hs).
      change (match t with [] => y | _ :: _ => Cat y (cat_list t) end) with (cat_list (y :: t)).
      rewrite <- E.
      rewrite (IH l2 _ k rest Hl); [|reflexivity]. simpl.
      rewrite rev_app_distr, <- app_assoc, app_length, Nat.add_assoc. reflexivity.
Qed.

(* ---- the grammar: literals and first-occurrence variables, at every depth ------------------ *)
Definition pv_node (n : node) : bool :=
  match n with
  | NLit _ => true
  | NVar name false => is_ascii name && negb (str_eqb name s_android_locale)
  | _ => false
  end.

Definition pv_value (v : evalue) : bool :=
  match v with
  | EVLit _ => true
  | EVPat p => forallb pv_node (p_nodes p) && match p_root p with None => true | Some _ => false end
  end.

Definition pv_env (e : env) : bool := forallb (fun kv => pv_value (snd kv)) e.

Lemma pv_env_remove : forall k e, pv_env e = true -> pv_env (remove k e) = true.
Proof.
  unfold pv_env, remove. induction e as [|[k' v] e IH]; intros H; simpl in *; auto.
  apply andb_true_iff in H. destruct H as [H1 H2].
  destruct (negb (str_eqb k k')); simpl; auto. rewrite H1. simpl. auto.
Qed.

Lemma pv_env_lookup : forall k e v, pv_env e = true -> lookup k e = Some v -> pv_value v = true.
Proof.
  unfold pv_env. intros k e v H Hl. apply lookup_in in Hl. rewrite forallb_forall in H.
  apply (H _ Hl).
Qed.

(* what compiling a piece of pattern does to the compile state *)
Definition seg_ok (c c' : cst) (items : list rx) (t : str) : Prop :=
  forallb glit items = true /\ text_list items = t /\
  c_next c <= c_next c' /\
  (forall g, In g (grps_list items) -> c_next c <= g /\ g < c_next c') /\
  (c_err c = true -> c_err c' = true) /\
  (forall x g, lookup x (c_names c) = Some g -> lookup x (c_names c') = Some g) /\
  (forall x, In x (map fst (c_names c')) ->
             In x (map fst (c_names c)) \/ x <> s_android_locale).

(* the group of a variable: its name leads to it and it spans the variable's text *)
Definition binds (c' : cst) (items : list rx) (name t : str) : Prop :=
  c_err c' = false ->
  exists g before after,
    lookup name (c_names c') = Some g /\ g < c_next c' /\
    text_list items = before ++ t ++ after /\
    forall p cs, get_cap g (gcaps_list items p cs) =
                 Some (p + length before, p + length before + length t).

Lemma seg_ok_refl_lits : forall c s, seg_ok c c (map chr_lit s) s.
Proof.
  intros c s. unfold seg_ok, text_list, grps_list. repeat split; auto.
  - induction s; simpl; auto. rewrite N.eqb_refl. auto.
  - induction s; simpl; auto. f_equal. auto.
  - exfalso. induction s; simpl in *; auto.
  - exfalso. induction s; simpl in *; auto.
Qed.

Lemma seg_ok_nil : forall c, seg_ok c c [] [].
Proof. intros c. apply (seg_ok_refl_lits c []). Qed.

Lemma seg_ok_app : forall c c1 c2 a b ta tb,
  seg_ok c c1 a ta -> seg_ok c1 c2 b tb -> seg_ok c c2 (a ++ b) (ta ++ tb).
Proof.
  intros c c1 c2 a b ta tb [A1 [A2 [A3 [A4 [A5 [A6 A7]]]]]] [B1 [B2 [B3 [B4 [B5 [B6 B7]]]]]].
  unfold seg_ok, text_list, grps_list in *. repeat split.
  - rewrite forallb_app, A1, B1. reflexivity.
  - rewrite map_app, concat_app, A2, B2. reflexivity.
  - lia.
  - rewrite map_app, concat_app, in_app_iff in H. destruct H as [H|H];
      [apply A4 in H|apply B4 in H]; lia.
  - rewrite map_app, concat_app, in_app_iff in H. destruct H as [H|H];
      [apply A4 in H|apply B4 in H]; lia.
  - auto.
  - auto.
  - intros x Hx. apply B7 in Hx. destruct Hx as [Hx|Hx]; auto.
Qed.

(* expand_children with raise_missing = True: every child expanded *)
Lemma children_all : forall (en : node -> result item) ns its,
  expand_children en true ns = Ok its -> Forall2 (fun n i => en n = Ok i) ns its.
Proof.
  induction ns as [|n ns IH]; intros its H; simpl in H.
  - inversion H. constructor.
  - destruct (en n) as [i|t] eqn:E.
    + destruct (expand_children en true ns) as [r|] eqn:E2; [|discriminate]. simpl in H.
      inversion H; subst. constructor; auto.
    + destruct t; discriminate.
Qed.

Lemma children_same : forall (en : node -> result item) ns its,
  expand_children en true ns = Ok its -> expand_children en false ns = Ok its.
Proof.
  induction ns as [|n ns IH]; intros its H; simpl in *; auto.
  destruct (en n) as [i|t] eqn:E.
  - destruct (expand_children en true ns) as [r|] eqn:E2; [|discriminate]. simpl in H.
    rewrite (IH r eq_refl). exact H.
  - destruct t; discriminate.
Qed.

Lemma pv_expand_str : forall F e rm n i, pv_node n = true -> expand_node F e rm n = Ok i ->
  exists t, i = IStr t.
Proof.
  intros F e rm n i Hp H. destruct F as [|F]; [discriminate|]. rewrite expand_node_S in H.
  destruct n as [s|name [|]|rep|k|k suffix]; try discriminate.
  - inversion H. eauto.
  - destruct (lookup name e) as [[s|p]|]; try discriminate.
    + inversion H. eauto.
    + destruct (expand_with _ rm p); [|discriminate]. inversion H. eauto.
Qed.

Lemma join_strs_inv : forall its t, (forall i, In i its -> exists s, i = IStr s) ->
  join_items its = Ok t -> exists ts, its = map IStr ts /\ t = concat ts.
Proof.
  induction its as [|i its IH]; intros t Hs H; simpl in H.
  - inversion H. exists []. auto.
  - destruct (Hs i (or_introl eq_refl)) as [s Hi]. subst i.
    destruct (join_items its) as [r|] eqn:E; [|discriminate]. simpl in H. inversion H; subst.
    destruct (IH r (fun i Hin => Hs i (or_intror Hin)) eq_refl) as [ts [H1 H2]].
    exists (s :: ts). subst. auto.
Qed.

(* the texts of the nodes of a value that expands with raise_missing = True *)
Lemma value_texts : forall F e p t, forallb pv_node (p_nodes p) = true -> p_root p = None ->
  expand_with (expand_node F e) true p = Ok t ->
  exists ts, t = concat ts /\
    Forall2 (fun n s => expand_node F e true n = Ok (IStr s)) (p_nodes p) ts.
Proof.
  intros F e p t Hpv Hr H. unfold expand_with in H. rewrite Hr in H. simpl in H.
  destruct (expand_children (expand_node F e true) true (p_nodes p)) as [its|] eqn:E; [|discriminate].
  simpl in H. destruct (join_items its) as [b|] eqn:Ej; [|discriminate]. simpl in H.
  inversion H; subst b. apply children_all in E.
  assert (Hstr : forall i, In i its -> exists s, i = IStr s).
  { clear - E Hpv. revert Hpv. induction E as [|n i ns its Hn E IH]; intros Hpv i0 Hin; [contradiction|].
    simpl in Hpv. apply andb_true_iff in Hpv. destruct Hpv as [H1 H2]. destruct Hin as [Hin|Hin].
    - subst. eapply pv_expand_str; eauto.
    - apply IH; auto. }
  destruct (join_strs_inv its t Hstr Ej) as [ts [H1 H2]]. exists ts. split; auto.
  subst its. clear - E. remember (map IStr ts) as its. revert ts Heqits.
  induction E as [|n i ns its Hn E IH]; intros ts Heq; destruct ts; simpl in Heq; try discriminate.
  - constructor.
  - inversion Heq; subst. constructor; auto.
Qed.

(* ---- a list of nodes, given what one node does ----------------------------------------------- *)
Section Children.
Variable rn : node -> cst -> result (list rx * cst).
Variable E : node -> str -> Prop.
Hypothesis node_ok : forall n c items c' t, pv_node n = true -> E n t ->
  rn n c = Ok (items, c') ->
  seg_ok c c' items t /\ (forall name, n = NVar name false -> binds c' items name t).

Lemma children_ok : forall ns ts, Forall2 E ns ts -> forall c items c',
  forallb pv_node ns = true -> rx_children rn ns c = Ok (items, c') ->
  seg_ok c c' items (concat ts) /\
  forall name, In (NVar name false) ns -> exists t, E (NVar name false) t /\ binds c' items name t.
Proof.
  intros ns ts HF. induction HF as [|n t ns ts Hn HF IH]; intros c items c' Hpv Hc; simpl in *.
  - inversion Hc; subst. split; [apply seg_ok_nil|intros name []].
  - apply andb_true_iff in Hpv. destruct Hpv as [Hp1 Hp2].
    destruct (rn n c) as [[a c1]|] eqn:E1; [|discriminate]. simpl in Hc.
    destruct (rx_children rn ns c1) as [[b c2]|] eqn:E2; [|discriminate]. simpl in Hc.
    inversion Hc; subst items c'. clear Hc.
    destruct (node_ok n c a c1 t Hp1 Hn E1) as [Sa Ba].
    destruct (IH c1 b c2 Hp2 E2) as [Sb Bb].
    split; [eapply seg_ok_app; eauto|].
    intros name Hin.
    destruct Sa as [A1 [A2 [A3 [A4 [A5 [A6 A7]]]]]]. destruct Sb as [B1 [B2 [B3 [B4 [B5 [B6 B7]]]]]].
    destruct Hin as [Hin|Hin].
    + subst n. exists t. split; [exact Hn|]. intros Herr.
      assert (Herr1 : c_err c1 = false).
      { destruct (c_err c1) eqn:Ee; auto. rewrite (B5 eq_refl) in Herr. discriminate. }
      destruct (Ba name eq_refl Herr1) as [g [before [after [G1 [G2 [G3 G4]]]]]].
      exists g, before, (after ++ text_list b). split; [auto|]. split; [lia|]. split.
      * unfold text_list in *. rewrite map_app, concat_app, G3, <- !app_assoc. reflexivity.
      * intros p cs. rewrite gcaps_list_app, get_cap_skip_list; [apply G4|].
        intro Hg. apply B4 in Hg. lia.
    + destruct (Bb name Hin) as [t' [Et Bt]]. exists t'. split; [exact Et|]. intros Herr.
      destruct (Bt Herr) as [g [before [after [G1 [G2 [G3 G4]]]]]].
      exists g, (text_list a ++ before), after. split; [auto|]. split; [auto|]. split.
      * unfold text_list in *. rewrite map_app, concat_app, G3, <- !app_assoc. reflexivity.
      * intros p cs. rewrite gcaps_list_app, G4, app_length. f_equal. f_equal; lia.
Qed.
End Children.

(* ---- a group around a compiled body --------------------------------------------------------------- *)
Lemma group_wrap : forall name c g c1 c2 b t,
  open_group name c = (g, c1) -> seg_ok c1 c2 b t -> str_eqb name s_android_locale = false ->
  seg_ok c c2 [Grp g (cat_list b)] t /\ binds c2 [Grp g (cat_list b)] name t.
Proof.
  intros name c g c1 c2 b t Ho [B1 [B2 [B3 [B4 [B5 [B6 B7]]]]]] Hna.
  unfold open_group in Ho. inversion Ho; subst g c1. clear Ho. simpl in *.
  assert (Ht : text_list [Grp (c_next c) (cat_list b)] = t).
  { unfold text_list. simpl. rewrite app_nil_r, rtext_cat_list. exact B2. }
  split.
  - unfold seg_ok. split; [simpl; rewrite glit_cat_list; auto|]. split; [exact Ht|].
    split; [lia|]. split; [|split; [|split]].
    + unfold grps_list. simpl. rewrite app_nil_r, grps_cat_list. intros g [Hg|Hg].
      * subst. lia.
      * apply B4 in Hg. lia.
    + intro He. apply B5. rewrite He. reflexivity.
    + intros x g Hl. apply B6. rewrite lookup_app, Hl. reflexivity.
    + intros x Hx. apply B7 in Hx. destruct Hx as [Hx|Hx]; auto.
      rewrite map_app, in_app_iff in Hx. simpl in Hx. destruct Hx as [Hx|[Hx|[]]]; auto.
      right. intro Ea. subst. rewrite str_eqb_refl in Hna. discriminate.
  - intros Herr.
    assert (Herr1 : (c_err c || match lookup name (c_names c) with Some _ => true | None => false end
                     || negb (valid_group_name name)) = false).
    { match goal with |- ?x = false => destruct x eqn:Ee; auto end.
      rewrite (B5 eq_refl) in Herr. discriminate. }
    apply orb_false_iff in Herr1. destruct Herr1 as [Herr1 _].
    apply orb_false_iff in Herr1. destruct Herr1 as [_ Hdup].
    destruct (lookup name (c_names c)) eqn:El; [discriminate|].
    exists (c_next c), [], []. split; [apply B6, lookup_snoc_new; auto|]. split; [lia|].
    split; [rewrite app_nil_r; simpl; exact Ht|].
    intros p cs. simpl. rewrite Nat.eqb_refl, Nat.add_0_r.
    rewrite rtext_cat_list, B2. reflexivity.
Qed.

(* ---- one node, by induction on the compile fuel ---------------------------------------------------- *)
Definition expands_to (e : env) (n : node) (t : str) : Prop :=
  exists F, expand_node F e true n = Ok (IStr t).

Lemma node_nested : forall f e, length e < f -> pv_env e = true ->
  forall n c items c' t, pv_node n = true -> expands_to e n t ->
  rx_node f e n c = Ok (items, c') ->
  seg_ok c c' items t /\ (forall name, n = NVar name false -> binds c' items name t).
Proof.
  induction f as [|f IH]; intros e Hlen He n c items c' t Hpv [F HF] Hc; [lia|].
  rewrite rx_node_S in Hc. destruct F as [|F]; [discriminate|]. rewrite expand_node_S in HF.
  destruct n as [s|name [|]|rep|k|k suffix]; try discriminate.
  - inversion HF; subst. inversion Hc; subst. split; [apply seg_ok_refl_lits|intros; discriminate].
  - simpl in Hpv. apply andb_true_iff in Hpv. destruct Hpv as [Hasc Hna].
    apply negb_true_iff in Hna. rewrite Hasc in Hc. simpl in Hc. unfold named_group in Hc.
    destruct (open_group name c) as [g c1] eqn:Ho.
    assert (Hbody : exists b c2, seg_ok c1 c2 b t /\ items = [Grp g (cat_list b)] /\ c' = c2).
    { destruct (lookup name e) as [[s|p]|] eqn:El; try discriminate.
      - inversion HF; subst. simpl in Hc. inversion Hc; subst.
        exists (map chr_lit t), c'. split; [apply seg_ok_refl_lits|auto].
      - destruct (expand_with (expand_node F (remove name e)) true p) as [s|] eqn:Ew; [|discriminate].
        simpl in HF. inversion HF; subst s.
        pose proof (pv_env_lookup _ _ _ He El) as Hv. simpl in Hv.
        apply andb_true_iff in Hv. destruct Hv as [Hnodes Hroot].
        destruct (p_root p) eqn:Er; [discriminate|].
        destruct (value_texts F (remove name e) p t Hnodes Er Ew) as [ts [Ht HF2]].
        unfold rx_pattern_with in Hc. rewrite Er in Hc. simpl in Hc.
        destruct (rx_children (rx_node f (remove name e)) (p_nodes p) c1) as [[b c2]|] eqn:Ec;
          [|discriminate].
        simpl in Hc. inversion Hc; subst items c'.
        assert (Hlen' : length (remove name e) < f).
        { pose proof (remove_length_lt _ _ _ El). lia. }
        destruct (children_ok (rx_node f (remove name e)) (expands_to (remove name e))
                    (IH (remove name e) Hlen' (pv_env_remove name e He))
                    (p_nodes p) ts) with (c := c1) (items := b) (c' := c2) as [Sb _]; auto.
        { eapply Forall2_imp; [|exact HF2]. intros n0 s0 H0. exists F. exact H0. }
        exists b, c2. subst t. auto. }
    destruct Hbody as [b [c2 [Sb [Hi Hc2]]]]. subst items c'.
    destruct (group_wrap name c g c1 c2 b t Ho Sb Hna) as [S1 B1].
    split; [exact S1|]. intros name' Hn. inversion Hn; subst. exact B1.
Qed.

(* ---- the theorem ---------------------------------------------------------------------------------------- *)
Definition nested_ok (M : matcher) : Prop :=
  p_root (m_pat M) = None /\ forallb pv_node (p_nodes (m_pat M)) = true /\ pv_env (m_env M) = true.

Lemma slice_mid : forall (a t b : str), slice (a ++ t ++ b) (length a) (length a + length t) = t.
Proof.
  intros a t b. unfold slice. replace (length a + length t - length a) with (length t) by lia.
  rewrite skipn_app, Nat.sub_diag, skipn_all. simpl.
  rewrite firstn_app, Nat.sub_diag, firstn_all. simpl. apply app_nil_r.
Qed.

Theorem nested_expand_match : forall M path, nested_ok M -> compiles M ->
  expand_pattern (m_env M) true (m_pat M) = Ok path ->
  str_of M = Ok path /\
  exists d, match_ M path = Ok (Some d) /\
    forall name, In (NVar name false) (p_nodes (m_pat M)) ->
      exists t, expand_node (expand_fuel (m_env M)) (m_env M) true (NVar name false) = Ok (IStr t) /\
                lookup name d = Some (Some t).
Proof.
  intros M path [Hr [Hpv He]] [r [names Hreg]] Hexp.
  set (e := m_env M) in *.
  (* the expansion, node by node *)
  pose proof Hexp as Hexp'. unfold expand_pattern in Hexp'.
  destruct (value_texts _ _ _ _ Hpv Hr Hexp') as [ts [Hpath HF]].
  split.
  { unfold str_of, expand_pattern, expand_with in *. fold e. fold e in Hexp. rewrite Hr in *. simpl in *.
    destruct (expand_children (expand_node (expand_fuel e) e true) true (p_nodes (m_pat M)))
      as [its|] eqn:Ec; [|discriminate].
    rewrite (children_same _ _ _ Ec). exact Hexp. }
  (* the compiled regular expression *)
  unfold regex_of_pattern, rx_pattern_with in Hreg. fold e in Hreg. rewrite Hr in Hreg. simpl in Hreg.
  destruct (rx_children (rx_node (rx_fuel e) e) (p_nodes (m_pat M)) (mkcst 1 [] false))
    as [[items c]|] eqn:Ec; [|discriminate].
  simpl in Hreg. destruct (c_err c) eqn:Eerr; [discriminate|]. inversion Hreg; subst r names. clear Hreg.
  destruct (children_ok (rx_node (rx_fuel e) e)
              (fun n s => expand_node (expand_fuel e) e true n = Ok (IStr s))) with
      (ns := p_nodes (m_pat M)) (ts := ts) (c := mkcst 1 [] false) (items := items) (c' := c)
    as [[S1 [S2 [S3 [S4 [S5 [S6 S7]]]]]] HB]; auto.
  { intros n c0 it c0' t Hn Ht Hc. apply (node_nested (rx_fuel e) e) with (c := c0); auto;
      try (unfold rx_fuel; lia); try (exists (expand_fuel e); exact Ht). }
  (* the engine runs through it *)
  assert (Hm : rmatch (cat_list (items ++ [Eol false])) path 0 =
               MSome (mkres 0 (length path) (gcaps_list items 0 []))).
  { unfold rmatch, run_at. simpl (length path <? 0).
    assert (Hs : suf (st_at path 0) = text_list items ++ []).
    { simpl. rewrite app_nil_r, S2, Hpath. reflexivity. }
    rewrite (glit_run_list items [Eol false] _ _ [] S1 Hs). simpl.
    rewrite S2, <- Hpath. reflexivity. }
  unfold match_. unfold regex_of_pattern, rx_pattern_with. fold e. rewrite Hr. cbn [bind].
  rewrite Ec. cbn [bind app]. rewrite Eerr. cbn [bind]. rewrite Hm.
  set (x := mkres 0 (length path) (gcaps_list items 0 [])).
  assert (Hna : has_key s_android_locale (groupdict path (c_names c) x) = false).
  { unfold has_key. rewrite lookup_groupdict.
    rewrite (notin_lookup_none s_android_locale (c_names c)); [reflexivity|].
    intro Hin. apply S7 in Hin. destruct Hin as [[]|Hin]. apply Hin. reflexivity. }
  unfold add_locale. rewrite Hna. simpl.
  eexists. split; [reflexivity|].
  intros name Hin. destruct (HB name Hin) as [t [Et Bt]]. exists t. split; [exact Et|].
  destruct (Bt Eerr) as [g [before [after [G1 [G2 [G3 G4]]]]]].
  rewrite lookup_groupdict, G1. simpl. unfold group_text, group, x. simpl. rewrite G4. simpl.
  assert (Hp : path = before ++ t ++ after) by congruence.
  rewrite Hp. simpl. rewrite slice_mid. reflexivity.
Qed.
