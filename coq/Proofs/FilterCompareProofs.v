(* C14, in-file clause: closed forms of the missing-entity branch of
   ContentComparer.compare under observers with filters. *)
From Coq Require Import NArith List Bool Arith Lia.
From CL Require Import Base.Str Generated.FilterFacts Model.FilterCompare.
Import ListNotations.

Definition fverd (g : option (str -> action)) (k : str) : action :=
  match g with Some h => h k | None => AError end.

(* an observer with a filter that says `ignore` records nothing *)
Definition skips (g : option (str -> action)) (k : str) : bool :=
  match g with Some h => is_ignore (h k) | None => false end.

(* the verdict ObserverList.notify returns *)
Definition combined (fs : list (option (str -> action))) (k : str) : action :=
  let rvs := map (fun g => fverd g k) fs in
  if forallb is_ignore rvs then AIgnore
  else if existsb is_error rvs then AError else AWarning.

Definition shown_keys (shown : bool) (p : str -> bool) (keys : list str) : list str :=
  if shown then filter p keys else [].

Definition add_details (shown : bool) (keys : list str) (o : observer) : observer :=
  mkobs (o_filter o)
        (o_details o ++ shown_keys shown (fun k => negb (skips (o_filter o) k)) keys)
        (o_summary o).

Lemma observer_notify_spec : forall shown o k,
  observer_notify shown o k = (fverd (o_filter o) k, add_details shown [k] o).
Proof.
  intros shown [g d s] k. unfold observer_notify, add_details, shown_keys, skips, fverd. simpl.
  destruct g as [h|]; simpl.
  - destruct (is_ignore (h k)); simpl; destruct shown; simpl; rewrite ?app_nil_r; reflexivity.
  - destruct shown; simpl; rewrite ?app_nil_r; reflexivity.
Qed.

Lemma add_details_filter : forall shown keys o, o_filter (add_details shown keys o) = o_filter o.
Proof. reflexivity. Qed.

Lemma add_details_app : forall shown k1 k2 o,
  add_details shown k2 (add_details shown k1 o) = add_details shown (k1 ++ k2) o.
Proof.
  intros shown k1 k2 [g d s]. unfold add_details, shown_keys. simpl.
  destruct shown; simpl; [rewrite filter_app, app_assoc|rewrite app_nil_r]; reflexivity.
Qed.

Lemma add_details_nil : forall shown o, add_details shown [] o = o.
Proof.
  intros shown [g d s]. unfold add_details, shown_keys. simpl.
  destruct shown; simpl; rewrite app_nil_r; reflexivity.
Qed.

Lemma list_notify_spec : forall shown obs own k,
  o_filter own = None ->
  list_notify shown obs own k =
  (combined (map o_filter obs) k,
   map (add_details shown [k]) obs,
   if is_ignore (combined (map o_filter obs) k) then own else add_details shown [k] own).
Proof.
  intros shown obs own k Hown. unfold list_notify, combined.
  rewrite !map_map.
  rewrite (map_ext (fun o => fst (observer_notify shown o k)) (fun o => fverd (o_filter o) k)).
  2:{ intro o. rewrite observer_notify_spec. reflexivity. }
  rewrite (map_ext (fun o => snd (observer_notify shown o k)) (add_details shown [k])).
  2:{ intro o. rewrite observer_notify_spec. reflexivity. }
  destruct (forallb is_ignore (map (fun o => fverd (o_filter o) k) obs)); [reflexivity|].
  rewrite observer_notify_spec. simpl.
  destruct (existsb is_error (map (fun o => fverd (o_filter o) k) obs)); reflexivity.
Qed.

Definition is_report (a : action) : bool := negb (is_ignore a) && negb (is_error a).

Lemma compare_loop_spec : forall shown keys st,
  o_filter (c_own st) = None ->
  let fs := map o_filter (c_obs st) in
  let r := compare_loop shown keys st in
  c_missings r = c_missings st ++ filter (fun k => is_error (combined fs k)) keys /\
  c_missing r = c_missing st + length (filter (fun k => is_error (combined fs k)) keys) /\
  c_report r = c_report st + length (filter (fun k => is_report (combined fs k)) keys) /\
  c_obs r = map (add_details shown keys) (c_obs st) /\
  c_own r = mkobs None
                  (o_details (c_own st) ++
                   shown_keys shown (fun k => negb (is_ignore (combined fs k))) keys)
                  (o_summary (c_own st)).
Proof.
  intros shown keys. induction keys as [|k keys IH]; intros st Hown; simpl.
  - rewrite !app_nil_r, !Nat.add_0_r. repeat split.
    + rewrite (map_ext _ (fun o => o)); [symmetry; apply map_id|]. intro o. apply add_details_nil.
    + destruct (c_own st) as [g d s]. simpl in *. subst g. unfold shown_keys.
      destruct shown; simpl; rewrite app_nil_r; reflexivity.
  - rewrite (list_notify_spec shown (c_obs st) (c_own st) k Hown).
    set (fs := map o_filter (c_obs st)).
    assert (Hfs : map o_filter (map (add_details shown [k]) (c_obs st)) = fs).
    { rewrite map_map. reflexivity. }
    assert (Hobs : forall keys', map (add_details shown keys') (map (add_details shown [k]) (c_obs st)) =
                                 map (add_details shown (k :: keys')) (c_obs st)).
    { intro keys'. rewrite map_map. apply map_ext. intro o. apply add_details_app. }
    destruct (is_ignore (combined fs k)) eqn:Ei; [|destruct (is_error (combined fs k)) eqn:Ee].
    + (* ignored: not counted, not shown, not merged *)
      assert (Ee : is_error (combined fs k) = false).
      { unfold is_ignore, is_error in *. destruct (combined fs k); simpl in *; congruence. }
      specialize (IH (mkcmp (c_missings st) (c_missing st) (c_report st)
                            (map (add_details shown [k]) (c_obs st)) (c_own st)) Hown).
      simpl in IH. rewrite Hfs in IH. destruct IH as (I1 & I2 & I3 & I4 & I5).
      assert (Er : is_report (combined fs k) = false) by (unfold is_report; rewrite Ei; reflexivity).
      rewrite Ee, Er. simpl. repeat split; try assumption.
      * rewrite I4. apply Hobs.
      * rewrite I5. unfold shown_keys. simpl. rewrite Ei. reflexivity.
    + (* error: missing, merged *)
      specialize (IH (mkcmp (c_missings st ++ [k]) (S (c_missing st)) (c_report st)
                            (map (add_details shown [k]) (c_obs st))
                            (add_details shown [k] (c_own st))) Hown).
      simpl in IH. rewrite Hfs in IH. destruct IH as (I1 & I2 & I3 & I4 & I5).
      assert (Er : is_report (combined fs k) = false) by (unfold is_report; rewrite Ei, Ee; reflexivity).
      rewrite Er. simpl. repeat split.
      * rewrite I1, <- app_assoc. reflexivity.
      * rewrite I2. simpl. lia.
      * exact I3.
      * rewrite I4. apply Hobs.
      * rewrite I5. rewrite Hown. unfold shown_keys, skips. simpl. rewrite Ei.
        destruct shown; simpl; rewrite <- ?app_assoc; reflexivity.
    + (* warning: report only *)
      specialize (IH (mkcmp (c_missings st) (c_missing st) (S (c_report st))
                            (map (add_details shown [k]) (c_obs st))
                            (add_details shown [k] (c_own st))) Hown).
      simpl in IH. rewrite Hfs in IH. destruct IH as (I1 & I2 & I3 & I4 & I5).
      assert (Er : is_report (combined fs k) = true) by (unfold is_report; rewrite Ei, Ee; reflexivity).
      rewrite Er. simpl. repeat split.
      * exact I1.
      * exact I2.
      * rewrite I3. simpl. lia.
      * rewrite I4. apply Hobs.
      * rewrite I5. rewrite Hown. unfold shown_keys, skips. simpl. rewrite Ei.
        destruct shown; simpl; rewrite <- ?app_assoc; reflexivity.
Qed.

(* updateStats: the counters reach an observer unless its filter ignores the file *)
Definition summary_for (g : option (str -> action)) (missing report : nat) : nat * nat :=
  match g with
  | Some h => if is_ignore (h []) then (0, 0) else (missing, report)
  | None => (missing, report)
  end.

Theorem compare_missing_spec : forall shown fs keys,
  let r := compare_missing shown fs keys in
  let merged := filter (fun k => is_error (combined fs k)) keys in
  let reported := filter (fun k => is_report (combined fs k)) keys in
  c_missings r = merged /\
  c_missing r = length merged /\
  c_report r = length reported /\
  map o_details (c_obs r) =
    map (fun g => shown_keys shown (fun k => negb (skips g k)) keys) fs /\
  map o_summary (c_obs r) = map (fun g => summary_for g (length merged) (length reported)) fs /\
  o_details (c_own r) = shown_keys shown (fun k => negb (is_ignore (combined fs k))) keys /\
  o_summary (c_own r) = (length merged, length reported).
Proof.
  intros shown fs keys. unfold compare_missing.
  pose proof (compare_loop_spec shown keys
                (mkcmp [] 0 0 (map new_observer fs) (new_observer None)) eq_refl) as H.
  simpl in H. rewrite map_map in H. simpl in H. rewrite map_id in H.
  destruct H as (I1 & I2 & I3 & I4 & I5). simpl.
  rewrite I1, I2, I3, I4, I5. simpl. repeat split.
  - rewrite !map_map. apply map_ext. intro g. unfold update_stats. simpl.
    destruct g as [h|]; [destruct (is_ignore (h []))|]; reflexivity.
  - rewrite !map_map. apply map_ext. intro g. unfold update_stats, summary_for. simpl.
    destruct g as [h|]; [destruct (is_ignore (h []))|]; reflexivity.
Qed.

(* one project: the list verdict is the project's verdict *)
Lemma combined_single : forall g k, combined [Some g] k = g k.
Proof.
  intros g k. unfold combined. simpl. unfold is_ignore, is_error. destruct (g k); reflexivity.
Qed.

Lemma filter_ext' {A} (p q : A -> bool) (l : list A) :
  (forall x, p x = q x) -> filter p l = filter q l.
Proof. intro H. induction l as [|x l IH]; simpl; [reflexivity|]. rewrite H, IH. reflexivity. Qed.

Theorem in_file_single : forall shown (g : str -> action) keys,
  let r := compare_missing shown [Some g] keys in
  let merged := filter (fun k => is_error (g k)) keys in
  let reported := filter (fun k => action_beq (g k) AWarning) keys in
  c_missings r = merged /\
  c_missing r = length merged /\
  c_report r = length reported /\
  map o_details (c_obs r) = [shown_keys shown (fun k => negb (is_ignore (g k))) keys] /\
  map o_summary (c_obs r) =
    [if is_ignore (g []) then (0, 0) else (length merged, length reported)].
Proof.
  intros shown g keys. destruct (compare_missing_spec shown [Some g] keys) as (H1 & H2 & H3 & H4 & H5 & _).
  assert (E1 : filter (fun k => is_error (combined [Some g] k)) keys = filter (fun k => is_error (g k)) keys).
  { apply filter_ext'. intro k. rewrite combined_single. reflexivity. }
  assert (E2 : filter (fun k => is_report (combined [Some g] k)) keys =
               filter (fun k => action_beq (g k) AWarning) keys).
  { apply filter_ext'. intro k. rewrite combined_single. unfold is_report, is_ignore, is_error.
    destruct (g k); reflexivity. }
  rewrite E1, E2 in *. simpl in H4, H5. repeat split; assumption.
Qed.
