(* Shape of merged entry lists: when in both dicts every entry that is no whitespace is
   directly followed by a whitespace entry (long enough after a standalone comment), the
   same holds of merge_two's result, in which moreover no two whitespace entries are
   adjacent.  Built on the key-level lemma Proofs/MergeShapeKeys.v (spec_keys_nfk) and
   the C20 anchor theorem. *)
From Coq Require Import ZArith NArith List Bool Arith Lia.
From CL Require Import Base.Sx Base.Res Base.Str Model.AddRemove Proofs.AddRemoveProofs
                       Proofs.AddRemoveSpec Model.Channels Proofs.ChannelsProofs Proofs.ChannelsSpec
                       Model.Serializer Proofs.SerializerProofs Proofs.SerializerSpec
                       Proofs.MergeShapeKeys.
Import ListNotations.
Local Open Scope nat_scope.

Section S.
Variable m : nat.   (* least length of the whitespace wanted after a standalone comment *)

Definition cneed (e : centry) : nat := if is_comment e then m else 0.
Definition clen (e : centry) : nat := length (c_text e).
Definition nf (l : list centry) : Prop := nfk is_white cneed clen l.

Fixpoint noadj (l : list centry) : Prop :=
  match l with
  | a :: (b :: _) as t => (is_white a = false \/ is_white b = false) /\ noadj t
  | _ => True
  end.

Lemma noadj_snoc a p e : noadj (a ++ [p]) -> (is_white p = false \/ is_white e = false) ->
  noadj (a ++ [p; e]).
Proof.
  induction a as [|x a IH]; cbn; intros H Hd; [auto|].
  destruct a as [|y a']; cbn in *.
  - destruct H as [H _]. auto.
  - destruct H as [H1 H2]. split; [exact H1|]. apply IH; assumption.
Qed.

Lemma noadj_replace_last a p e : noadj (a ++ [p]) -> is_white p = true -> is_white e = true ->
  noadj (a ++ [e]).
Proof.
  induction a as [|x a IH]; cbn; intros H Hp He; [auto|].
  destruct a as [|y a']; cbn in *.
  - destruct H as [[H|H] _]; [|congruence]. split; [left; exact H|exact I].
  - destruct H as [H1 H2]. split; [exact H1|]. apply IH; assumption.
Qed.

(* ---- folding whitespace runs (prune of merge_two / prune_whitespace) ---------------------- *)
Definition pws (l : list centry) : list centry := rev (fold_left prune_ws_step l []).

Lemma pws_inv l : forall acc, nf (rev acc ++ l) -> noadj (rev acc) ->
  nf (rev (fold_left prune_ws_step l acc)) /\ noadj (rev (fold_left prune_ws_step l acc)).
Proof.
  induction l as [|e l IH]; intros acc Hn Ha; cbn [fold_left].
  - rewrite app_nil_r in Hn. auto.
  - unfold prune_ws_step at 2 4. destruct acc as [|pe acc'].
    + apply IH; [exact Hn|exact I].
    + destruct (is_white e && is_white pe) eqn:Ew.
      * apply andb_true_iff in Ew. destruct Ew as [He Hpe]. cbn [rev] in Hn, Ha.
        rewrite <- app_assoc in Hn. cbn [app] in Hn.
        destruct (length (c_text pe) <? length (c_text e)) eqn:El.
        -- apply Nat.ltb_lt in El. apply IH.
           ++ cbn [rev]. rewrite <- app_assoc. cbn [app].
              apply (nfk_replace_first is_white cneed clen (rev acc') pe e l Hn Hpe He).
              unfold clen. lia.
           ++ cbn [rev]. eapply noadj_replace_last; eassumption.
        -- apply IH.
           ++ cbn [rev]. rewrite <- app_assoc. cbn [app].
              apply (nfk_drop_second is_white cneed clen (rev acc') pe e l Hn Hpe He).
           ++ exact Ha.
      * apply IH.
        -- cbn [rev] in *. rewrite <- !app_assoc in *. exact Hn.
        -- cbn [rev] in *. rewrite <- app_assoc. cbn [app]. apply noadj_snoc; [exact Ha|].
           apply andb_false_iff in Ew. destruct Ew; auto.
Qed.

Lemma pws_shape l : nf l -> nf (pws l) /\ noadj (pws l).
Proof. intros H. apply (pws_inv l []); [exact H|exact I]. Qed.

Lemma pws_plain l : forall acc, noadj (rev acc ++ l) ->
  fold_left prune_ws_step l acc = rev l ++ acc.
Proof.
  induction l as [|e l IH]; intros acc H; [reflexivity|]. cbn [fold_left].
  assert (Hstep : prune_ws_step acc e = e :: acc).
  { unfold prune_ws_step. destruct acc as [|pe acc']; [reflexivity|].
    destruct (is_white e && is_white pe) eqn:E; [|reflexivity]. exfalso.
    apply andb_true_iff in E. destruct E as [E1 E2]. cbn [rev] in H. rewrite <- app_assoc in H. cbn [app] in H.
    clear - H E1 E2. induction (rev acc') as [|x t IHt]; cbn in H.
    - destruct H as [[H|H] _]; congruence.
    - destruct t as [|y t']; cbn in *; [destruct H as [_ [[H|H] _]]; congruence|]. apply IHt. apply H. }
  rewrite Hstep, IH.
  - cbn [rev]. rewrite <- app_assoc. reflexivity.
  - cbn [rev]. rewrite <- app_assoc. exact H.
Qed.

Lemma pws_noadj l : noadj l -> pws l = l.
Proof. intros H. unfold pws. rewrite pws_plain by exact H. rewrite app_nil_r. apply rev_involutive. Qed.

Lemma prune_placeholders_pws es :
  prune_placeholders es = pws (filter (fun e => negb (is_placeholder e)) es).
Proof. reflexivity. Qed.

(* ---- the values of merge_two ------------------------------------------------------------------ *)
Lemma prune_vals cs : forall acc,
  map snd (fold_left prune_step cs acc) =
  fold_left prune_ws_step (map snd (somes cs)) (map snd acc).
Proof.
  induction cs as [|[k [e|]] cs IH]; intros acc.
  - reflexivity.
  - rewrite somes_cons_some. cbn [fold_left map snd]. rewrite IH. f_equal.
    unfold prune_step, prune_ws_step. cbn [snd fst].
    destruct acc as [|[pk pe] acc']; [reflexivity|]. cbn [map snd].
    destruct (is_white e && is_white pe); [|reflexivity].
    destruct (length (c_text pe) <? length (c_text e)); reflexivity.
  - rewrite somes_cons_none. cbn [fold_left]. unfold prune_step at 2. cbn [snd]. apply IH.
Qed.

Lemma merge_two_dvalues N O keep : wf N -> wf O ->
  dvalues (merge_two N O keep) = pws (map snd (somes (merge_contents N O keep))).
Proof.
  intros HN HO. rewrite (merge_two_eq N O keep HN HO). unfold dvalues, pws.
  rewrite map_rev, prune_vals. reflexivity.
Qed.

(* ---- kinds are decided by the keys --------------------------------------------------------------- *)
Definition is_dc (k : dkey) : bool := match k with DC _ _ => true | _ => false end.

Lemma key_ok_kinds k e : key_ok (k, e) -> is_white e = is_ws_key k /\ is_comment e = is_dc k.
Proof.
  unfold key_ok. cbn. destruct k; cbn; intros [H1 H2].
  - unfold keyed, is_comment, is_white, is_section in *. destruct (c_kind e); try discriminate; auto.
  - unfold is_comment, is_white in *. destruct (c_kind e); try discriminate; auto.
  - unfold is_comment, is_white in *. destruct (c_kind e); try discriminate; auto.
  - unfold is_section, is_comment, is_white in *. destruct (c_kind e); try discriminate; auto.
Qed.

Definition dummy : centry := mkc CWhite [] [] [] 0.
Definition vald (d : dict) (k : dkey) : centry :=
  match od_get dkey_eqb k d with Some e => e | None => dummy end.

Lemma dvalues_vald d : NoDup (dkeys d) -> dvalues d = map (vald d) (dkeys d).
Proof.
  intros H. unfold dvalues, dkeys. rewrite map_map. apply map_ext_in. intros [k e] Hin. cbn.
  unfold vald. rewrite (In_od_get dkey_eqb dkey_eqb_eq k e d H Hin). reflexivity.
Qed.

Section Two.
Variables (N O : dict) (keep : bool).
Hypothesis HN : wf N.
Hypothesis HO : wf O.
Hypothesis Hdis : ws_disjoint (dkeys N) (dkeys O).
(* no StickyEntry among the older values (get_older_entity would fall back to the newer dict) *)
Hypothesis Hst : keep = false -> Forall (fun p => is_sticky (snd p) = false) O.

Definition valm (k : dkey) : centry :=
  match get_entity keep N O k with Some e => e | None => dummy end.

Lemma get_in d k : wf d -> In k (dkeys d) -> exists e, od_get dkey_eqb k d = Some e /\ In (k, e) d.
Proof.
  intros Hd Hk. destruct (od_get dkey_eqb k d) as [e|] eqn:E.
  - exists e. split; [reflexivity|]. apply (od_get_In dkey_eqb dkey_eqb_eq). exact E.
  - apply (od_get_None dkey_eqb dkey_eqb_eq) in E. contradiction.
Qed.

Lemma get_entity_total k : In k (dkeys N) \/ In k (dkeys O) ->
  exists e, get_entity keep N O k = Some e /\ (In (k, e) N \/ In (k, e) O) /\
            (~ In k (dkeys O) -> In (k, e) N) /\ (~ In k (dkeys N) -> In (k, e) O).
Proof.
  intros Hk.
  assert (G : get_entity keep N O k =
              if keep then match od_get dkey_eqb k N with Some e => Some e | None => od_get dkey_eqb k O end
              else match od_get dkey_eqb k O with
                   | None => od_get dkey_eqb k N
                   | Some e => if is_sticky e then od_get dkey_eqb k N else Some e
                   end) by (destruct keep; reflexivity).
  rewrite G. clear G.
  destruct (od_get dkey_eqb k N) as [eN|] eqn:EN, (od_get dkey_eqb k O) as [eO|] eqn:EO.
  - pose proof (od_get_In dkey_eqb dkey_eqb_eq _ _ _ EN) as IN.
    pose proof (od_get_In dkey_eqb dkey_eqb_eq _ _ _ EO) as IO.
    assert (KO : In k (dkeys O)) by (eapply od_get_Some_key; [apply dkey_eqb_eq|exact EO]).
    assert (KN : In k (dkeys N)) by (eapply od_get_Some_key; [apply dkey_eqb_eq|exact EN]).
    destruct keep.
    + exists eN. split; [reflexivity|]. split; [auto|]. split; intros Hx; auto; contradiction.
    + assert (is_sticky eO = false) as ->.
      { specialize (Hst eq_refl). rewrite Forall_forall in Hst. apply (Hst (k, eO) IO). }
      exists eO. split; [reflexivity|]. split; [auto|]. split; intros Hx; auto; contradiction.
  - pose proof (od_get_In dkey_eqb dkey_eqb_eq _ _ _ EN) as IN.
    assert (KN : In k (dkeys N)) by (eapply od_get_Some_key; [apply dkey_eqb_eq|exact EN]).
    destruct keep; exists eN; (split; [reflexivity|]); (split; [auto|]); split; intros Hx; auto; contradiction.
  - pose proof (od_get_In dkey_eqb dkey_eqb_eq _ _ _ EO) as IO.
    assert (KO : In k (dkeys O)) by (eapply od_get_Some_key; [apply dkey_eqb_eq|exact EO]).
    destruct keep.
    + exists eO. split; [reflexivity|]. split; [auto|]. split; intros Hx; auto; contradiction.
    + assert (is_sticky eO = false) as ->.
      { specialize (Hst eq_refl). rewrite Forall_forall in Hst. apply (Hst (k, eO) IO). }
      exists eO. split; [reflexivity|]. split; [auto|]. split; intros Hx; auto; contradiction.
  - apply (od_get_None dkey_eqb dkey_eqb_eq) in EN, EO. destruct Hk; contradiction.
Qed.

Notation ks := (map snd (addremove dkey_eqb (dkeys N) (dkeys O))).

Lemma contents_vals : map snd (somes (merge_contents N O keep)) = map valm ks.
Proof.
  rewrite merge_contents_map, somes_map_vals.
  assert (H : forall k, In k ks -> olist (get_entity keep N O k) = [valm k]).
  { intros k Hk. apply (ar_keys_In _ _ _ (proj1 HN) (proj1 HO)) in Hk.
    destruct (get_entity_total k Hk) as (e & E & _). unfold valm. rewrite E. reflexivity. }
  induction ks as [|k l IH]; [reflexivity|]. cbn. rewrite (H k (or_introl eq_refl)). cbn. f_equal.
  apply IH. intros k' Hk'. apply H. right. exact Hk'.
Qed.

Lemma key_ok_in d k e : wf d -> In (k, e) d -> key_ok (k, e).
Proof. intros [_ H] Hin. rewrite Forall_forall in H. apply H. exact Hin. Qed.

(* the merged value under a key has the kind the key says, and is the owner's entry for a
   whitespace key *)
Lemma valm_kinds k : In k (dkeys N) \/ In k (dkeys O) ->
  is_white (valm k) = is_ws_key k /\ is_comment (valm k) = is_dc k.
Proof.
  intros Hk. destruct (get_entity_total k Hk) as (e & E & [H|H] & _); unfold valm; rewrite E;
    apply key_ok_kinds.
  - exact (key_ok_in N k e HN H).
  - exact (key_ok_in O k e HO H).
Qed.

Lemma vald_kinds d k : wf d -> In k (dkeys d) ->
  is_white (vald d k) = is_ws_key k /\ is_comment (vald d k) = is_dc k.
Proof.
  intros Hd Hk. destruct (get_in d k Hd Hk) as (e & E & Hin). unfold vald. rewrite E.
  apply key_ok_kinds. exact (key_ok_in d k e Hd Hin).
Qed.

Lemma valm_ws_N k : In k (dkeys N) -> is_ws_key k = true -> valm k = vald N k.
Proof.
  intros Hk Hw. assert (Hn : ~ In k (dkeys O)).
  { intros Hin. apply (Hdis k); [destruct k; cbn in *; congruence|exact Hk|exact Hin]. }
  destruct (get_entity_total k (or_introl Hk)) as (e & E & _ & H1 & _). specialize (H1 Hn).
  unfold valm, vald. rewrite E. rewrite (In_od_get dkey_eqb dkey_eqb_eq k e N (proj1 HN) H1). reflexivity.
Qed.

Lemma valm_ws_O k : In k (dkeys O) -> is_ws_key k = true -> valm k = vald O k.
Proof.
  intros Hk Hw. assert (Hn : ~ In k (dkeys N)).
  { intros Hin. apply (Hdis k); [destruct k; cbn in *; congruence|exact Hin|exact Hk]. }
  destruct (get_entity_total k (or_intror Hk)) as (e & E & _ & _ & H1). specialize (H1 Hn).
  unfold valm, vald. rewrite E. rewrite (In_od_get dkey_eqb dkey_eqb_eq k e O (proj1 HO) H1). reflexivity.
Qed.

Lemma nfk_keys_of d : wf d -> (forall k, In k (dkeys d) -> In k (dkeys N) \/ In k (dkeys O)) ->
  (forall k, In k (dkeys d) -> is_ws_key k = true -> valm k = vald d k) ->
  nf (dvalues d) ->
  nfk (fun k => is_white (valm k)) (fun k => cneed (valm k)) (fun k => clen (valm k)) (dkeys d).
Proof.
  intros Hd Hsub Hws Hnf. unfold nf in Hnf. rewrite (dvalues_vald d (proj1 Hd)) in Hnf.
  apply (proj1 (nfk_map (vald d) is_white cneed clen (dkeys d))) in Hnf. eapply nfk_ext; [|exact Hnf].
  intros k Hk. cbn. destruct (vald_kinds d k Hd Hk) as [V1 V2].
  destruct (valm_kinds k (Hsub k Hk)) as [M1 M2].
  split; [congruence|]. split.
  - intros _. unfold cneed. rewrite V2, M2. reflexivity.
  - intros Hw. rewrite Hws; [reflexivity|exact Hk|congruence].
Qed.

Theorem merge_two_shape : nf (dvalues N) -> nf (dvalues O) ->
  nf (dvalues (merge_two N O keep)) /\ noadj (dvalues (merge_two N O keep)).
Proof.
  intros HnN HnO. rewrite (merge_two_dvalues N O keep HN HO). apply pws_shape.
  rewrite contents_vals. unfold nf. apply (proj2 (nfk_map valm is_white cneed clen _)).
  rewrite (addremove_anchor dkey_eqb dkey_eqb_eq _ _ (proj1 HN) (proj1 HO)).
  apply (spec_keys_nfk dkey_eqb dkey_eqb_eq).
  - apply (nfk_keys_of N HN); [auto|apply valm_ws_N|exact HnN].
  - apply (nfk_keys_of O HO); [auto|apply valm_ws_O|exact HnO].
  - intros k H1 H2. destruct (valm_kinds k (or_introl H1)) as [M1 _]. rewrite M1.
    destruct (is_ws_key k) eqn:E; [|reflexivity]. exfalso.
    apply (Hdis k); [destruct k; cbn in *; congruence|exact H1|exact H2].
Qed.

Lemma ks_sub : incl (dkeys O) (dkeys N) -> ks = dkeys N.
Proof.
  intros Hi. rewrite <- (addremove_left_order dkey_eqb dkey_eqb_eq _ _ (proj1 HN) (proj1 HO)) at 2.
  symmetry. apply filter_all. apply Forall_forall. intros k Hk.
  apply (mem_In dkey_eqb dkey_eqb_eq). apply (ar_keys_In _ _ _ (proj1 HN) (proj1 HO)) in Hk.
  destruct Hk as [Hk|Hk]; [exact Hk|apply Hi; exact Hk].
Qed.

Lemma merge_two_sub_dvalues : incl (dkeys O) (dkeys N) ->
  dvalues (merge_two N O keep) = pws (map valm (dkeys N)).
Proof. intros Hi. rewrite (merge_two_dvalues N O keep HN HO), contents_vals, (ks_sub Hi). reflexivity. Qed.

(* the older dict only has keys of the newer one (the new entities of serialize): the key
   order is the newer dict's, the shape is kept *)
Theorem merge_two_shape_sub : incl (dkeys O) (dkeys N) -> nf (dvalues N) ->
  nf (dvalues (merge_two N O keep)) /\ noadj (dvalues (merge_two N O keep)).
Proof.
  intros Hi HnN. rewrite (merge_two_dvalues N O keep HN HO). apply pws_shape.
  rewrite contents_vals. unfold nf. apply (proj2 (nfk_map valm is_white cneed clen _)).
  assert (E : ks = dkeys N).
  { rewrite <- (addremove_left_order dkey_eqb dkey_eqb_eq _ _ (proj1 HN) (proj1 HO)) at 2.
    symmetry. apply filter_all. apply Forall_forall. intros k Hk.
    apply (mem_In dkey_eqb dkey_eqb_eq). apply (ar_keys_In _ _ _ (proj1 HN) (proj1 HO)) in Hk.
    destruct Hk as [Hk|Hk]; [exact Hk|apply Hi; exact Hk]. }
  rewrite E. apply (nfk_keys_of N HN); [auto|apply valm_ws_N|exact HnN].
Qed.
End Two.

(* entry lists related entry by entry in what the shape looks at *)
Definition shape_rel (a b : centry) : Prop :=
  is_white a = is_white b /\ is_comment a = is_comment b /\
  (is_white a = true -> length (c_text a) = length (c_text b)).

Lemma nf_rel l : forall l', Forall2 shape_rel l l' -> nf l -> nf l'.
Proof.
  induction l as [|x l IH]; intros l' HF; inversion HF as [|? x' ? l0' Hx Hl]; subst; [auto|].
  intros [H1 H2]. split; [|apply IH; assumption].
  destruct Hx as (X1 & X2 & _). intros Hw. rewrite <- X1 in Hw. specialize (H1 Hw).
  destruct l as [|w l0]; [contradiction|]. inversion Hl as [|? w' ? ? Hwr _]; subst.
  destruct Hwr as (W1 & _ & W3). destruct H1 as [A1 A2]. cbn. split; [rewrite <- W1; exact A1|].
  unfold cneed, clen in *. rewrite <- X2, <- (W3 A1). exact A2.
Qed.

Lemma nf_map_rel (f : centry -> centry) l : (forall e, shape_rel e (f e)) -> nf l -> nf (map f l).
Proof.
  intros Hf. apply nf_rel. induction l; constructor; auto.
Qed.
End S.
