(* FluentParser.walk trims a Junk entry by
     start += re.match("[ \t\r\n]*", content).end()
     ws, we = re.search("[ \t\r\n]*$", content).span(); end -= we - ws
   after replacing white-space-only content by "".  This file evaluates the two
   generated expressions through the engine on EVERY content and shows that the
   two amounts removed never meet: lead + trail < length content, so the trimmed
   junk span is non-empty and lies inside the entry's span.

   - the lead match is the maximal run of white space at the start;
   - an attempt of "[ws]*$" at a position that still has a non-white-space character
     ahead fails (the greedy run stops at or before that character, and `$`
     without MULTILINE accepts only at the end or before a final "\n", which is
     neither the non-white-space character nor a character followed by it);
   - hence the search starts its match after the last non-white-space character. *)
From Coq Require Import NArith List Bool Arith Lia.
From CL Require Import Base.Sx Base.Res Base.Str Regex.Rx Regex.RxLemmas Model.Entry Model.Parse
  Model.ParseFluent Generated.RxParser Proofs.ClassLoop Proofs.ClassLoop2.
Import ListNotations.

Local Arguments Nat.ltb : simpl never.
Local Arguments Nat.leb : simpl never.
Local Arguments Nat.eqb : simpl never.
Local Arguments chr_ok : simpl never.

(* ---- the class ------------------------------------------------------------------------ *)
Definition WSC : cset := [(32, 32); (9, 9); (13, 13); (10, 10)]%N.
Definition is_ws (c : N) : bool := existsb (N.eqb c) ftl_ws.

Lemma lead_shape : rx_ftl_lead = Rep true 0 None (Chr false WSC).
Proof. reflexivity. Qed.

Lemma trail_shape : rx_ftl_trail = Cat (Rep true 0 None (Chr false WSC)) (Eol false).
Proof. reflexivity. Qed.

Lemma point_range : forall a c : N, (N.leb a c && N.leb c a)%bool = N.eqb c a.
Proof.
  intros a c. destruct (N.eqb c a) eqn:E.
  - apply N.eqb_eq in E. subst. rewrite N.leb_refl. reflexivity.
  - apply N.eqb_neq in E. destruct (N.leb a c) eqn:E1; [|reflexivity].
    destruct (N.leb c a) eqn:E2; [|reflexivity].
    apply N.leb_le in E1. apply N.leb_le in E2. exfalso. apply E. lia.
Qed.

Lemma chr_ok_ws : forall c, chr_ok false WSC c = is_ws c.
Proof.
  intros c. unfold chr_ok, in_ranges, is_ws, ftl_ws, WSC. cbn [existsb fst snd xorb].
  rewrite !point_range. destruct (_ || _)%bool; reflexivity.
Qed.

Lemma ws_not_nl : forall c, chr_ok false WSC c = false -> N.eqb c nlc = false.
Proof.
  intros c H. rewrite chr_ok_ws in H. unfold is_ws, ftl_ws in H. cbn [existsb] in H.
  unfold nlc. destruct (N.eqb c 10); [|reflexivity].
  rewrite !orb_true_r in H. discriminate.
Qed.

(* a content that is not white space only has a non-white-space character *)
Lemma all_ws_false : forall content, all_ws content = false ->
  exists a c b, content = a ++ c :: b /\ chr_ok false WSC c = false.
Proof.
  induction content as [|d t IH]; intros H; [discriminate|].
  unfold all_ws in H. cbn [forallb] in H. fold (is_ws d) in H.
  destruct (is_ws d) eqn:Ed.
  - simpl in H. apply IH in H. destruct H as [a [c [b [E Hc]]]].
    exists (d :: a), c, b. split; [rewrite E; reflexivity|exact Hc].
  - exists [], d, t. split; [reflexivity|]. rewrite chr_ok_ws. exact Ed.
Qed.

(* ---- runs and zippers ------------------------------------------------------------------- *)
Lemma run_le_app : forall neg cls (a : str) c b, chr_ok neg cls c = false ->
  run neg cls None (a ++ c :: b) <= length a.
Proof.
  intros neg cls. induction a as [|d a IH]; intros c b Hc; simpl.
  - rewrite Hc. lia.
  - destruct (chr_ok neg cls d); [|lia]. specialize (IH c b Hc). lia.
Qed.

Lemma suf_fwd : forall n z, suf (fwd n z) = skipn n (suf z).
Proof.
  induction n as [|n IH]; intros z; [reflexivity|].
  simpl. destruct (suf z) as [|c t] eqn:E; [rewrite E; reflexivity|].
  rewrite IH. reflexivity.
Qed.

(* ---- the lead match ---------------------------------------------------------------------- *)
Lemma lead_run : forall content : str,
  lead rx_ftl_lead content = run false WSC None content.
Proof.
  intros content. unfold lead, omatch, rmatch.
  assert (Hl : (length content <? 0) = false) by (apply Nat.ltb_ge; lia). rewrite Hl.
  unfold run_at. rewrite lead_shape, m_rep_class; [|intros s'; discriminate|exact I].
  assert (Hz : (0 <=? run false WSC None (suf (st_at content 0))) = true)
    by (apply Nat.leb_le; lia).
  rewrite Hz. cbn [m_end].
  pose proof (run_le false WSC None (suf (st_at content 0))) as Hr.
  destruct (fwd_spec _ (st_at content 0) Hr) as [Hp _]. rewrite Hp. reflexivity.
Qed.

Lemma lead_nil : lead rx_ftl_lead [] = 0.
Proof. reflexivity. Qed.

(* the lead stops at or before any non-white-space character *)
Lemma lead_le : forall (a : str) c b, chr_ok false WSC c = false ->
  lead rx_ftl_lead (a ++ c :: b) <= length a.
Proof. intros a c b Hc. rewrite lead_run. apply run_le_app. exact Hc. Qed.

(* ---- one attempt of [ws]*$ with a non-white-space character ahead fails ------------------ *)
Lemma at_eol_ahead : forall j (a : str) c b z, chr_ok false WSC c = false ->
  suf z = a ++ c :: b -> j <= length a -> at_eol false (fwd j z) = false.
Proof.
  intros j a c b z Hc Hs Hj. unfold at_eol. rewrite suf_fwd, Hs.
  rewrite skipn_app. replace (j - length a) with 0 by lia. cbn [skipn].
  destruct (skipn j a) as [|d t]; cbn [app].
  - rewrite (ws_not_nl c Hc). reflexivity.
  - cbn [orb]. destruct (t ++ c :: b) eqn:E; [destruct t; discriminate|].
    apply andb_false_r.
Qed.

Lemma trail_attempt_fails : forall (a : str) c b z k, chr_ok false WSC c = false ->
  suf z = a ++ c :: b -> m rx_ftl_trail z k = Fail.
Proof.
  intros a c b z k Hc Hs. rewrite trail_shape.
  change (m (Cat (Rep true 0 None (Chr false WSC)) (Eol false)) z k)
    with (m (Rep true 0 None (Chr false WSC)) z (fun s' => m (Eol false) s' k)).
  assert (Hrun : run false WSC None (suf z) <= length a)
    by (rewrite Hs; apply run_le_app; exact Hc).
  assert (Hk : forall j, j <= length a -> m (Eol false) (fwd j z) k = Fail).
  { intros j Hj. cbn [m]. rewrite (at_eol_ahead j a c b z Hc Hs Hj). reflexivity. }
  rewrite m_rep_class_desc; [|exact I|].
  - destruct (0 <=? run false WSC None (suf z)); [|reflexivity]. apply Hk. exact Hrun.
  - intros j Hj _. apply Hk. lia.
Qed.

(* ---- the search starts after every non-white-space character ------------------------------ *)
Lemma trail_search_after : forall (a : str) c b fuel z x, chr_ok false WSC c = false ->
  suf z = a ++ c :: b -> search_from rx_ftl_trail fuel z None = MSome x ->
  pos z + length a < m_start x.
Proof.
  induction a as [|d a IH]; intros c b fuel z x Hc Hs H;
    (destruct fuel as [|f]; [discriminate|]); rewrite search_from_S in H;
    unfold run_at in H; rewrite (trail_attempt_fails _ c b z _ Hc Hs) in H;
    rewrite Hs in H; cbn [app] in H.
  - apply search_from_some in H. destruct H as [H _]. simpl in H. simpl. lia.
  - apply (IH c b) in H; [|exact Hc|reflexivity]. simpl in H. simpl. lia.
Qed.

Lemma trail_nil : trail rx_ftl_trail [] = 0.
Proof. reflexivity. Qed.

(* the trailing match lies entirely after any non-white-space character *)
Lemma trail_le : forall (a : str) c b, chr_ok false WSC c = false ->
  trail rx_ftl_trail (a ++ c :: b) <= length (a ++ c :: b) - length a - 1.
Proof.
  intros a c b Hc. unfold trail, osearch.
  destruct (rsearch rx_ftl_trail (a ++ c :: b) 0) as [|x|] eqn:E; try lia.
  pose proof (rsearch_span _ _ _ _ E) as [_ [_ [He _]]].
  unfold rsearch in E.
  destruct (length (a ++ c :: b) <? 0); [discriminate|].
  apply (trail_search_after a c b) in E; [|exact Hc|reflexivity].
  simpl in E. lia.
Qed.

(* the same two bounds stated with an index *)
Lemma lead_le_index : forall (content : str) q c, nth_error content q = Some c ->
  is_ws c = false -> lead rx_ftl_lead content <= q.
Proof.
  intros content q c Hn Hc. apply nth_error_split in Hn.
  destruct Hn as [a [b [E Hl]]]. subst content q. apply lead_le. rewrite chr_ok_ws. exact Hc.
Qed.

Lemma trail_le_index : forall (content : str) q c, nth_error content q = Some c ->
  is_ws c = false -> trail rx_ftl_trail content <= length content - q - 1.
Proof.
  intros content q c Hn Hc. apply nth_error_split in Hn.
  destruct Hn as [a [b [E Hl]]]. subst content q. apply trail_le. rewrite chr_ok_ws. exact Hc.
Qed.

(* ---- the theorem --------------------------------------------------------------------------- *)
Theorem ftl_trim_ok : forall content : str, content <> [] ->
  lead rx_ftl_lead (trim_content content) + trail rx_ftl_trail (trim_content content)
  < length content.
Proof.
  intros content Hne. unfold trim_content. destruct (all_ws content) eqn:Ea.
  - rewrite lead_nil, trail_nil. destruct content; [contradiction|simpl; lia].
  - apply all_ws_false in Ea. destruct Ea as [a [c [b [E Hc]]]]. subst content.
    pose proof (lead_le a c b Hc). pose proof (trail_le a c b Hc).
    rewrite app_length in *. simpl length in *. lia.
Qed.

(* " \n x\n\t\n": lead 3, trail 3, length 7 *)
Example ftl_trim_ok_ex :
  let content := [32; 10; 32; 120; 10; 9; 10]%N in
  content <> [] /\ all_ws content = false /\
  lead rx_ftl_lead (trim_content content) = 3 /\
  trail rx_ftl_trail (trim_content content) = 3.
Proof. cbv zeta. split; [discriminate|]. vm_compute. auto. Qed.

(* white space only: nothing is trimmed *)
Example ftl_trim_ok_ws :
  let content := [32; 10; 9; 13; 10]%N in
  content <> [] /\ all_ws content = true /\
  lead rx_ftl_lead (trim_content content) = 0 /\
  trail rx_ftl_trail (trim_content content) = 0.
Proof. cbv zeta. split; [discriminate|]. vm_compute. auto. Qed.

Print Assumptions ftl_trim_ok.
