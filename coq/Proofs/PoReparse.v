(* C15 for PO: the re-parse clause from the block theorem of C02 (blocks_po).  Entries of a
   legal PO block list as merge.py sees them (the key of a message is the MEANING of its msgid
   items, followed by \x04 and the meaning of its msgctxt items when there is a msgctxt — the
   rendering of the key tuple (msgid, msgctxt) the harness hands to the model), and back: a
   well-shaped entry list is the text of a legal block list, one block per entry. *)
From Coq Require Import ZArith NArith List Bool Arith Lia.
From CL Require Import Base.Sx Base.Res Base.Str Model.Entry Model.Parse Model.ParseFormats
                       Proofs.C02Roundtrip Proofs.C02BlocksRx Proofs.C02Po Proofs.C02BlocksPoRx
                       Proofs.C02BlocksPo
                       Model.AddRemove Proofs.AddRemoveProofs Proofs.AddRemoveSpec
                       Model.Channels Proofs.ChannelsProofs Proofs.ChannelsSpec
                       Proofs.MergeShapeKeys Proofs.MergeShape Model.Serializer Proofs.SerializerProofs
                       Proofs.SerializerSpec Proofs.SerializerFinal Proofs.ReparsePartial.
From CL Require Proofs.C02Blocks Proofs.PropsShape Proofs.MergeReparse15 Proofs.MergeEntriesShape
                Proofs.SerializeReparse16 Proofs.PropsWrap.
Import ListNotations.
Local Open Scope nat_scope.
Local Notation mem := C02Roundtrip.mem.
Local Arguments ctext : simpl never.
Local Arguments msg_text : simpl never.

Local Notation ws_centry := PropsShape.ws_centry.
Local Notation cflush := PropsShape.cflush.
Local Notation strip_fields := PropsShape.strip_fields.

Definition pmeaning (its : list pitem) : str := concat (map (fun it => meaning_item (snd it)) its).
Definition pkey (ctxt : option (list pitem * str)) (idl : list pitem) : str :=
  pmeaning idl ++ match ctxt with Some (ci, _) => 4%N :: pmeaning ci | None => [] end.
Definition pent_text cs iw ctxt idl w2 strl : str := ctext cs ++ iw ++ msg_text ctxt idl w2 strl.
Definition pent_centry (cs : list cline) (iw : str) ctxt idl (w2 : str) strl : centry :=
  mkc CEntity (pkey ctxt idl) (pent_text cs iw ctxt idl w2 strl) (s_msgstr ++ items_text strl) 0.
Definition pcom_centry (cs : list cline) : centry := mkc CComment (ctext cs) (ctext cs) [] 0.

(* [w]: the whitespace pending (adjacent whitespace blocks form ONE entry) *)
Fixpoint pcents (w : str) (bs : list pblock) : list centry :=
  match bs with
  | [] => cflush w
  | PBlank x :: rest => pcents (w ++ x) rest
  | PComment cs :: rest => cflush w ++ pcom_centry cs :: pcents [] rest
  | PEntity cs iw ctxt idl w2 strl :: rest =>
      cflush w ++ pent_centry cs iw ctxt idl w2 strl :: pcents [] rest
  end.
Definition pcentries_of (bs : list pblock) : list centry := pcents [] bs.

Lemma pcents_text bs : forall w, concat (map c_text (pcents w bs)) = w ++ pfile_text bs.
Proof.
  induction bs as [|b rest IH]; intros w; cbn [pcents].
  - rewrite PropsShape.cflush_text. cbn. rewrite app_nil_r. reflexivity.
  - rewrite pfile_text_cons. destruct b; cbn [ptext].
    + rewrite IH. rewrite app_assoc. reflexivity.
    + rewrite map_app, concat_app, PropsShape.cflush_text. cbn [map concat c_text pcom_centry]. rewrite IH. reflexivity.
    + rewrite map_app, concat_app, PropsShape.cflush_text. cbn [map concat c_text pent_centry]. rewrite IH. reflexivity.
Qed.

Theorem pcentries_text bs : concat (map c_text (pcentries_of bs)) = pfile_text bs.
Proof. apply (pcents_text bs []). Qed.

(* kinds: the parse of a block list has no Junk, and as many entries of each kind, in the same
   order, as [pcents] *)
Definition ckind_of (k : kind) : ckind :=
  match k with
  | KEntity => CEntity | KComment => CComment | KWhitespace => CWhite | KJunk => CJunk
  | KSection => CSection | KInstruction => COther
  end.

Lemma flush_kinds off (w : str) : map (fun e => ckind_of (e_kind e)) (flush off (length w)) = map c_kind (cflush w).
Proof. destruct w; reflexivity. Qed.

Lemma pents_kinds bs : forall off (w : str),
  map (fun e => ckind_of (e_kind e)) (pents off (length w) bs) = map c_kind (pcents w bs).
Proof.
  induction bs as [|b rest IH]; intros off w; cbn [pents pcents].
  - apply flush_kinds.
  - destruct b.
    + rewrite <- app_length. apply IH.
    + rewrite !map_app, flush_kinds. cbn [map]. f_equal. f_equal. apply (IH _ []).
    + rewrite !map_app, flush_kinds. cbn [map]. f_equal. f_equal. apply (IH _ []).
Qed.

Definition plic_free (b : pblock) : Prop :=
  match b with PEntity cs _ _ _ _ _ => contains s_License (ctext cs) = false | _ => True end.

Lemma plic_any bs : Forall plic_free bs -> forall off, plic off bs = true.
Proof.
  induction 1 as [|b bs Hb _ IH]; intros off; [reflexivity|].
  destruct b; cbn [plic]; try reflexivity; [apply IH|].
  unfold plic_free in Hb. rewrite Hb. apply orb_true_r.
Qed.

Section Dec.
Variable m : nat.

Inductive pdec : centry -> Prop :=
| pdec_ent e cs iw ctxt idl w2 strl :
    legal_pblockb (PEntity cs iw ctxt idl w2 strl) = true -> contains s_License (ctext cs) = false ->
    strip e = strip (pent_centry cs iw ctxt idl w2 strl) -> pdec e
| pdec_com e cs :
    cs <> [] -> forallb legal_cline_p cs = true -> strip e = strip (pcom_centry cs) -> pdec e
| pdec_ws e w :
    strip e = strip (ws_centry w) -> w <> [] -> all_ws w = true ->
    (m <= length w -> 2 <= count_char 10%N w) -> pdec e.

Lemma pdec_strip e e' : strip e = strip e' -> pdec e -> pdec e'.
Proof.
  intros Hs H. destruct H as [e cs iw ctxt idl w2 strl H1 H2 H3|e cs H1 H2 H3|e w H1 H2 H3 H4].
  - eapply pdec_ent; eauto. congruence.
  - eapply pdec_com; eauto. congruence.
  - eapply pdec_ws; eauto. congruence.
Qed.

Lemma pdec_white e : pdec e -> is_white e = true ->
  strip e = strip (ws_centry (c_text e)) /\ c_text e <> [] /\ all_ws (c_text e) = true /\
  (m <= length (c_text e) -> 2 <= count_char 10%N (c_text e)).
Proof.
  intros H Hw. destruct H as [e cs iw ctxt idl w2 strl _ _ Q|e cs _ _ Q|e w Q H2 H3 H4].
  - apply strip_fields in Q. unfold is_white in Hw. destruct Q as [Q _]. cbn in Q. rewrite Q in Hw. discriminate.
  - apply strip_fields in Q. unfold is_white in Hw. destruct Q as [Q _]. cbn in Q. rewrite Q in Hw. discriminate.
  - destruct (strip_fields _ _ Q) as (_ & _ & T & _). cbn in T. rewrite T. auto.
Qed.

Lemma join_nil out : Forall pdec out -> map strip (PropsShape.join [] out) = map strip out.
Proof.
  intros H. destruct out as [|e0 t]; [reflexivity|]. cbn [PropsShape.join].
  destruct (is_white e0) eqn:E; [|reflexivity]. cbn [app map]. f_equal.
  destruct (pdec_white e0 (Forall_inv H) E) as (Q & _). symmetry. exact Q.
Qed.

(* one block per entry *)
Lemma pshape_blocks out : nf m out -> noadj out -> Forall pdec out ->
  exists bs, Forall legal_pblock bs /\ psep bs = true /\ Forall plic_free bs /\
             pfile_text bs = concat (map c_text out) /\
             (forall w, map strip (pcents w bs) = map strip (PropsShape.join w out)) /\
             (forall w0 t, out = w0 :: t -> is_white w0 = true -> exists bs', bs = PBlank (c_text w0) :: bs').
Proof.
  induction out as [|x out IH]; intros Hnf Hna Hdec.
  - exists []. repeat split; try constructor. intros w0 t H; discriminate.
  - destruct Hnf as [Hn1 Hn2]. pose proof (Forall_inv Hdec) as Hx. pose proof (Forall_inv_tail Hdec) as Hdec'.
    assert (Hna' : noadj out) by (destruct out; [exact I|apply Hna]).
    destruct (IH Hn2 Hna' Hdec') as (bs & B1 & B2 & B3 & B4 & B5 & B6).
    destruct Hx as [e cs iw ctxt idl w2 strl L1 L2 L3|e cs C1 C2 C3|e w W0 W1 W2 W3].
    + destruct (strip_fields _ _ L3) as (K1 & K2 & K3 & K4). cbn in K1, K2, K3, K4.
      assert (Hw : is_white e = false) by (unfold is_white; rewrite K1; reflexivity).
      exists (PEntity cs iw ctxt idl w2 strl :: bs). repeat split.
      * constructor; [exact L1|exact B1].
      * cbn [psep]. exact B2.
      * constructor; [exact L2|exact B3].
      * rewrite pfile_text_cons. cbn [map concat ptext]. rewrite K3, B4. reflexivity.
      * intros w0. cbn [pcents]. rewrite (PropsShape.join_nonws w0 (e :: out)) by exact Hw.
        rewrite !map_app. cbn [map]. rewrite (B5 []), (join_nil out Hdec'), L3. reflexivity.
      * intros w0 t H Hw0. apply MergeReparse15.cons_inv in H. destruct H as [<- _]. congruence.
    + destruct (strip_fields _ _ C3) as (K1 & K2 & K3 & K4). cbn in K1, K2, K3, K4.
      assert (Hw : is_white e = false) by (unfold is_white; rewrite K1; reflexivity).
      specialize (Hn1 Hw). destruct out as [|w0 out']; [contradiction|]. destruct Hn1 as [Hww Hneed].
      destruct (B6 w0 out' eq_refl Hww) as (bs' & Ebs).
      destruct (pdec_white w0 (Forall_inv Hdec') Hww) as (_ & _ & _ & Q4).
      assert (Hnl : 2 <= count_char 10%N (c_text w0)).
      { apply Q4. unfold cneed, is_comment, clen in Hneed. rewrite K1 in Hneed. exact Hneed. }
      exists (PComment cs :: bs). repeat split.
      * constructor; [|exact B1]. unfold legal_pblock. cbn [legal_pblockb]. rewrite C2.
        destruct cs; [contradiction|reflexivity].
      * rewrite Ebs. cbn [psep]. rewrite Ebs in B2. cbn [psep] in B2. rewrite B2, andb_true_r.
        apply Nat.leb_le. exact Hnl.
      * constructor; [exact I|exact B3].
      * rewrite pfile_text_cons. cbn [map concat ptext]. rewrite K3. cbn [map concat] in B4. rewrite B4. reflexivity.
      * intros w1. cbn [pcents]. rewrite (PropsShape.join_nonws w1 (e :: w0 :: out')) by exact Hw.
        rewrite !map_app. cbn [map]. rewrite (B5 []), (join_nil (w0 :: out') Hdec'), C3. reflexivity.
      * intros w1 t H Hw1. apply MergeReparse15.cons_inv in H. destruct H as [<- _]. congruence.
    + destruct (strip_fields _ _ W0) as (K1 & K2 & K3 & K4). cbn in K1, K2, K3, K4.
      assert (Hwe : is_white e = true) by (unfold is_white; rewrite K1; reflexivity).
      pose proof (PropsShape.noadj_after_ws e out Hna Hwe) as Hnext.
      exists (PBlank (c_text e) :: bs). repeat split.
      * constructor; [|exact B1]. unfold legal_pblock. cbn [legal_pblockb]. rewrite K3, W2.
        destruct w; [contradiction|reflexivity].
      * cbn [psep]. exact B2.
      * constructor; [exact I|exact B3].
      * rewrite pfile_text_cons. cbn [map concat ptext]. rewrite B4. reflexivity.
      * intros w1. cbn [pcents PropsShape.join]. rewrite Hwe, (B5 (w1 ++ c_text e)).
        rewrite (PropsShape.join_nonws _ out Hnext), map_app.
        destruct (w1 ++ c_text e) eqn:E.
        { exfalso. apply app_eq_nil in E. destruct E as [_ E]. rewrite K3 in E. contradiction. }
        reflexivity.
      * intros w1 t H _. apply MergeReparse15.cons_inv in H. destruct H as [<- _]. eauto.
Qed.
End Dec.

(* ---- C15 ---------------------------------------------------------------------------------------------- *)
Section P.
Variable m : nat.

Definition pwsok (e : centry) : Prop :=
  is_white e = true -> m <= length (c_text e) -> 2 <= count_char 10%N (c_text e).

Lemma all_ws_app a b : all_ws a = true -> all_ws b = true -> all_ws (a ++ b) = true.
Proof. unfold all_ws. intros. rewrite forallb_app. apply andb_true_iff. auto. Qed.

Lemma pcents_In bs : Forall legal_pblock bs -> forall w e, all_ws w = true -> In e (pcents w bs) ->
  (exists w0, e = ws_centry w0 /\ w0 <> [] /\ all_ws w0 = true) \/
  (exists cs, In (PComment cs) bs /\ e = pcom_centry cs) \/
  (exists cs iw ctxt idl w2 strl, In (PEntity cs iw ctxt idl w2 strl) bs /\
                                  e = pent_centry cs iw ctxt idl w2 strl).
Proof.
  induction 1 as [|b rest Hb _ IH]; intros w e Hw Hin; cbn [pcents] in Hin.
  - apply MergeReparse15.cflush_In in Hin. destruct Hin as [-> Hn]. left. exists w. auto.
  - assert (Lift : forall w', all_ws w' = true -> In e (pcents w' rest) ->
              (exists w0, e = ws_centry w0 /\ w0 <> [] /\ all_ws w0 = true) \/
              (exists cs, In (PComment cs) (b :: rest) /\ e = pcom_centry cs) \/
              (exists cs iw ctxt idl w2 strl, In (PEntity cs iw ctxt idl w2 strl) (b :: rest) /\
                                              e = pent_centry cs iw ctxt idl w2 strl)).
    { intros w' Hw' Hin'. destruct (IH w' e Hw' Hin') as [H|[(cs & H1 & H2)|(cs & iw & c & i & w2 & s & H1 & H2)]].
      - left; exact H.
      - right; left. exists cs. split; [right; exact H1|exact H2].
      - right; right. exists cs, iw, c, i, w2, s. split; [right; exact H1|exact H2]. }
    destruct b as [x|cs|cs iw ctxt idl w2 strl].
    + apply (Lift (w ++ x)); [|exact Hin]. apply all_ws_app; [exact Hw|].
      unfold legal_pblock in Hb. cbn in Hb. apply andb_true_iff in Hb. apply Hb.
    + apply in_app_or in Hin. destruct Hin as [Hin|[Hin|Hin]].
      * apply MergeReparse15.cflush_In in Hin. destruct Hin as [-> Hn]. left. exists w. auto.
      * right; left. exists cs. split; [left; reflexivity|symmetry; exact Hin].
      * apply (Lift []); [reflexivity|exact Hin].
    + apply in_app_or in Hin. destruct Hin as [Hin|[Hin|Hin]].
      * apply MergeReparse15.cflush_In in Hin. destruct Hin as [-> Hn]. left. exists w. auto.
      * right; right. exists cs, iw, ctxt, idl, w2, strl. split; [left; reflexivity|symmetry; exact Hin].
      * apply (Lift []); [reflexivity|exact Hin].
Qed.

Definition pversion_ok (bs : list pblock) : Prop :=
  Forall legal_pblock bs /\ Forall plic_free bs /\
  ukeys (pcentries_of bs) /\ nf m (pcentries_of bs) /\ Forall pwsok (pcentries_of bs).

Lemma pcentries_dec bs : pversion_ok bs -> Forall (pdec m) (pcentries_of bs).
Proof.
  intros (Hleg & Hlic & _ & _ & Hws). apply Forall_forall. intros e He.
  rewrite Forall_forall in Hws, Hlic. pose proof (Hws e He) as Hwe.
  destruct (pcents_In bs Hleg [] e eq_refl He) as [(w0 & -> & N0 & W0)|[(cs & H1 & ->)|(cs & iw & c & i & w2 & s & H1 & ->)]].
  - apply (pdec_ws m _ w0); [reflexivity|exact N0|exact W0|]. intros Hl. apply (Hwe eq_refl Hl).
  - rewrite Forall_forall in Hleg. pose proof (Hleg _ H1) as L. unfold legal_pblock in L. cbn in L.
    apply andb_true_iff in L. destruct L as [L1 L2].
    apply (pdec_com m _ cs); [destruct cs; [discriminate|discriminate]|exact L2|reflexivity].
  - rewrite Forall_forall in Hleg. apply (pdec_ent m _ cs iw c i w2 s); [exact (Hleg _ H1)|exact (Hlic _ H1)|reflexivity].
Qed.

Lemma pcents_noadj bs : forall w, noadj (pcents w bs).
Proof.
  induction bs as [|b rest IH]; intros w; cbn [pcents].
  - destruct w; cbn; exact I.
  - destruct b; [apply IH| |]; (apply MergeReparse15.noadj_flush; [reflexivity|]);
      (apply MergeReparse15.noadj_nonws; [reflexivity|apply IH]).
Qed.

Lemma strip_kinds l l' : map strip l = map strip l' -> map c_kind l = map c_kind l'.
Proof.
  revert l'. induction l as [|x l IH]; intros [|y l'] H; cbn in H; try discriminate; [reflexivity|].
  apply MergeReparse15.cons_inv in H. destruct H as [Hx Hl]. cbn. f_equal; [|apply IH; exact Hl].
  destruct (strip_fields _ _ Hx) as (K & _). exact K.
Qed.

(* the merged text of legal PO versions is the text of a legal block list whose entries (as
   merge.py sees them) are the merged entry list; it re-parses to that list's entries: no
   Junk, the same kinds in the same order *)
Theorem merge_reparse_po name (bss : list (list pblock)) txt :
  Forall pversion_ok bss ->
  merge_channels name (map pcentries_of bss) = Ok txt ->
  exists out bs,
    merge_entries (map pcentries_of bss) = Ok out /\ txt = concat (map c_text out) /\
    Forall legal_pblock bs /\ padjacent_ok bs /\ pfile_text bs = txt /\
    map strip (pcentries_of bs) = map strip out /\
    walk_po txt = Ok (pentries_of bs) /\
    map (fun e => ckind_of (e_kind e)) (pentries_of bs) = map c_kind out /\
    Forall (fun e => e_kind e <> KJunk) (pentries_of bs).
Proof.
  intros Hok H. destruct (merge_channels_inv _ _ _ H) as (out & Ho & ->). exists out.
  assert (Hu : Forall ukeys (map pcentries_of bss)).
  { apply Forall_forall. intros v Hv. apply in_map_iff in Hv. destruct Hv as (bs & <- & Hb).
    rewrite Forall_forall in Hok. apply (Hok bs Hb). }
  assert (Hn : Forall (nf m) (map pcentries_of bss)).
  { apply Forall_forall. intros v Hv. apply in_map_iff in Hv. destruct Hv as (bs & <- & Hb).
    rewrite Forall_forall in Hok. apply (Hok bs Hb). }
  assert (Ha : Forall noadj (map pcentries_of bss)).
  { apply Forall_forall. intros v Hv. apply in_map_iff in Hv. destruct Hv as (bs & <- & Hb). apply pcents_noadj. }
  destruct (MergeEntriesShape.merge_entries_shape m _ out Hu Hn Ha Ho) as (S1 & S2 & S3).
  assert (Hd : Forall (pdec m) out).
  { apply Forall_forall. intros e He. destruct (S3 e He) as (v & e0 & Hv & He0 & Hs).
    apply in_map_iff in Hv. destruct Hv as (bs & <- & Hb). rewrite Forall_forall in Hok.
    pose proof (pcentries_dec bs (Hok bs Hb)) as D. rewrite Forall_forall in D.
    eapply pdec_strip; [symmetry; exact Hs|apply D; exact He0]. }
  destruct (pshape_blocks m out S1 S2 Hd) as (bs & B1 & B2 & B3 & B4 & B5 & _).
  assert (Hadj : padjacent_ok bs).
  { unfold padjacent_ok, padjacent_okb. rewrite B2, (plic_any bs B3 0). reflexivity. }
  assert (Hst : map strip (pcentries_of bs) = map strip out).
  { unfold pcentries_of. rewrite (B5 []). apply (join_nil m out Hd). }
  assert (Hk : map (fun e => ckind_of (e_kind e)) (pentries_of bs) = map c_kind out).
  { exact (eq_trans (pents_kinds bs 0 []) (strip_kinds _ _ Hst)). }
  exists bs. unfold serialize_legacy. repeat split; try assumption.
  - rewrite <- B4. apply blocks_po; assumption.
  - assert (Hnj : Forall (fun k => k <> CJunk) (map c_kind out)).
    { apply Forall_forall. intros k Hk'. apply in_map_iff in Hk'. destruct Hk' as (e & <- & He).
      rewrite Forall_forall in Hd. destruct (Hd e He) as [? ? ? ? ? ? ? _ _ Q|? ? _ _ Q|? ? Q _ _ _];
        apply strip_fields in Q; destruct Q as [Q _]; cbn in Q; rewrite Q; discriminate. }
    rewrite <- Hk in Hnj. apply Forall_forall. intros e He Hj.
    rewrite Forall_forall in Hnj. apply (Hnj (ckind_of (e_kind e))); [apply in_map_iff; exists e; auto|].
    rewrite Hj. reflexivity.
Qed.

(* ---- C16 ---------------------------------------------------------------------------------------------- *)
(* a raw value of a PO message is its whole msgstr clause: "msgstr" and a non-empty list of
   quoted items *)
Definition legal_po_raw (raw : str) : Prop :=
  exists strl, raw = s_msgstr ++ items_text strl /\ legal_items strl = true.

Lemma pcentries_plain bs : Forall legal_pblock bs -> Forall MergeEntriesShape.plain (pcentries_of bs).
Proof.
  intros Hl. apply Forall_forall. intros e He. unfold MergeEntriesShape.plain.
  destruct (pcents_In bs Hl [] e eq_refl He) as [(w0 & -> & _)|[(cs & _ & ->)|(cs & iw & c & i & w2 & s & _ & ->)]]; cbn; auto 8.
Qed.

Lemma text_pre_pent e cs iw ctxt idl w2 strl :
  strip e = strip (pent_centry cs iw ctxt idl w2 strl) ->
  PropsWrap.text_pre e = ctext cs ++ iw ++ ctxt_text ctxt ++ s_msgid ++ items_text idl ++ w2.
Proof.
  intros H. destruct (strip_fields _ _ H) as (_ & _ & K3 & K4). cbn [c_text c_val pent_centry] in K3, K4.
  unfold PropsWrap.text_pre. rewrite K3, K4. unfold pent_text, msg_text.
  set (P0 := ctext cs ++ iw ++ ctxt_text ctxt ++ s_msgid ++ items_text idl ++ w2).
  replace (ctext cs ++ iw ++ ctxt_text ctxt ++ s_msgid ++ items_text idl ++ w2 ++ s_msgstr ++ items_text strl)
    with (P0 ++ (s_msgstr ++ items_text strl)) by (unfold P0; rewrite <- !app_assoc; reflexivity).
  rewrite app_length.
  replace (length P0 + length (s_msgstr ++ items_text strl) - length (s_msgstr ++ items_text strl))
    with (length P0 + 0) by lia.
  rewrite firstn_app_2. cbn [firstn]. rewrite app_nil_r. reflexivity.
Qed.

Theorem serialize_reparse_po rbs obs wrap nd name txt :
  pversion_ok rbs -> pversion_ok obs -> NoDup (map fst nd) -> SerializeReparse16.props_wrap wrap ->
  (forall k raw, In (k, Some raw) nd -> legal_po_raw raw) ->
  let R := number 0 (pcentries_of rbs) in
  let L := number (length (pcentries_of rbs)) (pcentries_of obs) in
  serialize wrap name R L nd = Ok txt ->
  exists out bs,
    serialize_entries wrap R L nd = Ok out /\ txt = concat (map c_text out) /\
    map fst (PropsShape.krecs out) = filter (has_value L nd) (refkeys R) /\
    Forall legal_pblock bs /\ padjacent_ok bs /\ pfile_text bs = txt /\
    map strip (pcentries_of bs) = map strip out /\
    walk_po txt = Ok (pentries_of bs) /\
    map (fun e => ckind_of (e_kind e)) (pentries_of bs) = map c_kind out /\
    Forall (fun e => e_kind e <> KJunk) (pentries_of bs).
Proof.
  intros Hr Ho Hnd Hw Hraw R L H.
  pose proof (SerializeReparse16.props_wrap_ok wrap Hw) as Hwo.
  destruct (serialize_inv wrap name R L nd txt H) as (out & Hout & ->).
  pose proof (pcentries_dec rbs Hr) as DR. pose proof (pcentries_dec obs Ho) as DL.
  destruct Hr as (Lr & Cr & Ur & Nr & Wr). destruct Ho as (Lo & Co & Uo & No & Wo).
  pose proof (pcentries_plain rbs Lr) as PlR. pose proof (pcentries_plain obs Lo) as PlL.
  destruct (MergeEntriesShape.serialize_entries_shape m _ _ PlR PlL Ur Uo Nr No wrap nd Hnd Hwo out Hout) as (S1 & S2).
  assert (Hd : Forall (pdec m) out).
  { apply Forall_forall. intros e He.
    destruct (serialize_sources wrap R L nd out Hout e He) as [_ [(Hin & _ & _)|[(Hin & _ & _)|(r & raw & Hr1 & Hr2 & Hr3 & Hr4)]]].
    - destruct (SerializeReparse16.number_In_strip _ _ _ Hin) as (e0 & H0 & Hs).
      rewrite Forall_forall in DR. eapply pdec_strip; [symmetry; exact Hs|apply DR; exact H0].
    - destruct (SerializeReparse16.number_In_strip _ _ _ Hin) as (e0 & H0 & Hs).
      rewrite Forall_forall in DL. eapply pdec_strip; [symmetry; exact Hs|apply DL; exact H0].
    - destruct (SerializeReparse16.number_In_strip _ _ _ Hr1) as (r0 & Hr0 & Hs).
      destruct (pcents_In rbs Lr [] r0 eq_refl Hr0) as [(w0 & E & _)|[(cs & _ & E)|(cs & iw & c & i & w2 & s & Hb & E)]].
      + exfalso. unfold is_entity in Hr2. rewrite (SerializeReparse16.strip_kind_eq _ _ Hs), E in Hr2. discriminate.
      + exfalso. unfold is_entity in Hr2. rewrite (SerializeReparse16.strip_kind_eq _ _ Hs), E in Hr2. discriminate.
      + subst r0. rewrite Forall_forall in Lr, Cr. pose proof (Lr _ Hb) as Lb. pose proof (Cr _ Hb) as Cb.
        destruct (Hraw _ _ Hr3) as (strl' & -> & Ls).
        rewrite (Hw r _ e Hr4). destruct (strip_fields _ _ Hs) as (_ & K2 & _ & _). cbn in K2.
        apply (pdec_ent m _ cs iw c i w2 strl'); [|exact Cb|].
        * unfold legal_pblock in Lb. cbn [legal_pblockb] in Lb |- *.
          apply andb_true_iff in Lb. destruct Lb as [Lb _]. rewrite Lb. exact Ls.
        * unfold strip, literal, pent_centry. cbn [c_kind c_key c_text c_val]. rewrite K2.
          rewrite (text_pre_pent r cs iw c i w2 s Hs). unfold pent_text, msg_text.
          rewrite <- !app_assoc. reflexivity. }
  destruct (pshape_blocks m out S1 S2 Hd) as (bs & B1 & B2 & B3 & B4 & B5 & _).
  assert (Hadj : padjacent_ok bs).
  { unfold padjacent_ok, padjacent_okb. rewrite B2, (plic_any bs B3 0). reflexivity. }
  assert (Hst : map strip (pcentries_of bs) = map strip out).
  { unfold pcentries_of. rewrite (B5 []). apply (join_nil m out Hd). }
  assert (Hk : map (fun e => ckind_of (e_kind e)) (pentries_of bs) = map c_kind out).
  { exact (eq_trans (pents_kinds bs 0 []) (strip_kinds _ _ Hst)). }
  exists out, bs. unfold serialize_legacy. repeat split; try assumption.
  - rewrite SerializeReparse16.krecs_cent, map_map. cbn [fst].
    apply (entities_keys_thm wrap R L nd).
    + apply (MergeEntriesShape.guR _ PlR Ur).
    + apply (MergeEntriesShape.guL _ _ PlL Uo).
    + exact Hnd.
    + exact Hwo.
    + exact Hout.
  - rewrite <- B4. apply blocks_po; assumption.
  - assert (Hnj : Forall (fun k => k <> CJunk) (map c_kind out)).
    { apply Forall_forall. intros k Hk'. apply in_map_iff in Hk'. destruct Hk' as (e & <- & He).
      rewrite Forall_forall in Hd. destruct (Hd e He) as [? ? ? ? ? ? ? _ _ Q|? ? _ _ Q|? ? Q _ _ _];
        apply strip_fields in Q; destruct Q as [Q _]; cbn in Q; rewrite Q; discriminate. }
    rewrite <- Hk in Hnj. apply Forall_forall. intros e He Hj.
    rewrite Forall_forall in Hnj. apply (Hnj (ckind_of (e_kind e))); [apply in_map_iff; exists e; auto|].
    rewrite Hj. reflexivity.
Qed.
End P.
