(* C02, properties: PropertiesEntityMixin.val on raw values rendered from tokens is the
   concatenation of the token meanings.  The generated escape expression is shown to
   have the shape
        \\ ( (u hex{1,4}) | (newline blank* ) | (not-newline) )
   with groups 1 (2|3|4); one match attempt is computed with the class-loop lemma
   (Proofs/ClassLoop.v), the scan with Proofs/SubLocal.v. *)
From Coq Require Import NArith List Bool Arith Lia.
From CL Require Import Base.Sx Base.Res Base.Str Regex.Rx Regex.RxLemmas Model.Entry Model.Parse
  Generated.RxC02 Generated.C02Facts Model.Unescape Proofs.UnescapeProofs Proofs.SubLocal
  Proofs.ClassLoop.
Import ListNotations.

Local Arguments Nat.ltb : simpl never.
Local Arguments Nat.leb : simpl never.
Local Arguments N.eqb : simpl never.
Local Arguments N.leb : simpl never.
Local Arguments N.ltb : simpl never.
Local Arguments chr_ok : simpl never.
Local Arguments run : simpl never.
Local Arguments fwd : simpl never.

(* ---- the shape of the generated expression ---------------------------------------- *)
Definition props_shape (ucls hexcls nlcls blankcls notcls : cset) : rx :=
  Cat (Chr false [(92, 92)%N])
      (Grp 1 (Alt (Grp 2 (Cat (Chr false ucls) (Rep true 1 (Some 4) (Chr false hexcls))))
                  (Alt (Grp 3 (Cat (Chr false nlcls) (Rep true 0 None (Chr false blankcls))))
                       (Grp 4 (Chr true notcls))))).

Definition props_classes : cset * cset * cset * cset * cset :=
  match rx_c02_props_escape with
  | Cat _ (Grp _ (Alt (Grp _ (Cat (Chr _ u) (Rep _ _ _ (Chr _ h))))
                      (Alt (Grp _ (Cat (Chr _ n) (Rep _ _ _ (Chr _ b)))) (Grp _ (Chr _ x))))) =>
      (u, h, n, b, x)
  | _ => ([], [], [], [], [])
  end.

Definition ucls := fst (fst (fst (fst props_classes))).
Definition hexcls := snd (fst (fst (fst props_classes))).
Definition nlcls := snd (fst (fst props_classes)).
Definition blankcls := snd (fst props_classes).
Definition notcls := snd props_classes.

Lemma props_escape_shape : rx_c02_props_escape = props_shape ucls hexcls nlcls blankcls notcls.
Proof. vm_compute. reflexivity. Qed.

Lemma group_numbers :
  g_c02_props_escape_uni = 2 /\ g_c02_props_escape_nl = 3 /\ g_c02_props_escape_single = 4.
Proof. vm_compute. auto. Qed.

(* ---- one match attempt ---------------------------------------------------------------- *)
Section Attempt.
Variables (U H NL B X : cset).
Let E := props_shape U H NL B X.

Definition hexrun (t : str) : nat := run false H (Some 4) t.
Definition blankrun (t : str) : nat := run false B None t.

Definition props_here (sf : str) : option (nat * capsf) :=
  match sf with
  | c :: d :: t =>
      if is_bs c then
        if chr_ok false U d && (1 <=? hexrun t) then
          Some (2 + hexrun t, fun p => [(1, (p + 1, p + (2 + hexrun t))); (2, (p + 1, p + (2 + hexrun t)))])
        else if chr_ok false NL d then
          Some (2 + blankrun t, fun p => [(1, (p + 1, p + (2 + blankrun t))); (3, (p + 1, p + (2 + blankrun t)))])
        else if chr_ok true X d then
          Some (2, fun p => [(1, (p + 1, p + 2)); (4, (p + 1, p + 2))])
        else None
      else None
  | _ => None
  end.

Lemma orelse_fail : forall b, orelse Fail b = b tt.
Proof. reflexivity. Qed.
Lemma orelse_done : forall x b, orelse (Done x) b = Done x.
Proof. reflexivity. Qed.
Lemma m_Cat : forall a b s k, m (Cat a b) s k = m a s (fun s' => m b s' k).
Proof. reflexivity. Qed.
Lemma m_Alt : forall a b s k, m (Alt a b) s k = orelse (m a s k) (fun _ => m b s k).
Proof. reflexivity. Qed.
Lemma m_Grp : forall n r s k, m (Grp n r) s k = m r s (fun s' => k (set_cap n (pos s, pos s') s')).
Proof. reflexivity. Qed.
Lemma m_Chr : forall neg rs s k,
  m (Chr neg rs) s k = match suf s with
                       | c :: t => if chr_ok neg rs c then k (advance s c t) else Fail
                       | [] => Fail
                       end.
Proof. reflexivity. Qed.

Ltac never_fail := intros ?s'; cbv beta iota; discriminate.

Lemma props_here_ok : forall pr sf p,
  run_at E (mkst pr sf p []) (fun _ => true) =
  match props_here sf with
  | Some (n, cf) => MSome (mkres p (p + n) (cf p))
  | None => MNone
  end.
Proof.
  intros pr sf p. unfold run_at, E, props_shape.
  destruct sf as [|c [|d t]].
  - reflexivity.
  - (* a lone last character *)
    rewrite m_Cat, m_Chr. cbn [suf]. destruct (chr_ok false [(92, 92)%N] c); [|reflexivity].
    rewrite m_Grp, m_Alt, m_Grp, m_Cat, m_Chr. unfold advance at 1. cbn [suf].
    rewrite orelse_fail, m_Alt, m_Grp, m_Cat, m_Chr. unfold advance at 1. cbn [suf].
    rewrite orelse_fail, m_Grp, m_Chr. unfold advance at 1. cbn [suf]. reflexivity.
  - unfold props_here. rewrite m_Cat, m_Chr. cbn [suf]. fold (is_bs c).
    destruct (is_bs c); [|reflexivity].
    unfold advance. cbn [pre suf pos caps].
    rewrite m_Grp, m_Alt. cbn [pos].
    (* first alternative: u + hex digits *)
    rewrite m_Grp, m_Cat, m_Chr. cbn [suf pos].
    destruct (chr_ok false U d) eqn:EU.
    + unfold advance at 1. cbn [pre suf pos caps].
      rewrite m_rep_class; [| never_fail | simpl; lia].
      cbn [suf]. fold (hexrun t).
      destruct (1 <=? hexrun t) eqn:E1.
      * simpl andb. cbv iota.
        rewrite fwd_mkst by (unfold hexrun; apply run_le).
        cbv beta iota. rewrite orelse_done. unfold set_cap. cbn [pre suf pos caps].
        replace (S (S p) + hexrun t) with (p + (2 + hexrun t)) by lia.
        replace (S p) with (p + 1) by lia. reflexivity.
      * simpl andb. cbv iota. rewrite orelse_fail.
        (* second alternative *)
        rewrite m_Alt, m_Grp, m_Cat, m_Chr. cbn [suf pos].
        destruct (chr_ok false NL d) eqn:EN.
        -- unfold advance at 1. cbn [pre suf pos caps].
           rewrite m_rep_class; [| never_fail | exact I].
           cbn [suf]. fold (blankrun t). replace (0 <=? blankrun t) with true by reflexivity.
           rewrite fwd_mkst by (unfold blankrun; apply run_le).
           cbv beta iota. rewrite orelse_done. unfold set_cap. cbn [pre suf pos caps].
           replace (S (S p) + blankrun t) with (p + (2 + blankrun t)) by lia.
           replace (S p) with (p + 1) by lia. reflexivity.
        -- rewrite orelse_fail, m_Grp, m_Chr. cbn [suf pos].
           destruct (chr_ok true X d); [|reflexivity].
           unfold advance, set_cap. cbn [pre suf pos caps].
           replace (S (S p)) with (p + 2) by lia. replace (S p) with (p + 1) by lia. reflexivity.
    + simpl andb. cbv iota. rewrite orelse_fail.
      rewrite m_Alt, m_Grp, m_Cat, m_Chr. cbn [suf pos].
      destruct (chr_ok false NL d) eqn:EN.
      * unfold advance at 1. cbn [pre suf pos caps].
        rewrite m_rep_class; [| never_fail | exact I].
        cbn [suf]. fold (blankrun t). replace (0 <=? blankrun t) with true by reflexivity.
        rewrite fwd_mkst by (unfold blankrun; apply run_le).
        cbv beta iota. rewrite orelse_done. unfold set_cap. cbn [pre suf pos caps].
        replace (S (S p) + blankrun t) with (p + (2 + blankrun t)) by lia.
        replace (S p) with (p + 1) by lia. reflexivity.
      * rewrite orelse_fail, m_Grp, m_Chr. cbn [suf pos].
        destruct (chr_ok true X d); [|reflexivity].
        unfold advance, set_cap. cbn [pre suf pos caps].
        replace (S (S p)) with (p + 2) by lia. replace (S p) with (p + 1) by lia. reflexivity.
Qed.

Lemma props_here_len : forall sf n cf, props_here sf = Some (n, cf) -> 0 < n /\ n <= length sf.
Proof.
  intros sf n cf Hh. destruct sf as [|c [|d t]]; try discriminate.
  unfold props_here in Hh. destruct (is_bs c); [|discriminate].
  pose proof (run_le false H (Some 4) t). pose proof (run_le false B None t).
  destruct (chr_ok false U d && (1 <=? hexrun t)).
  - inversion Hh; subst. unfold hexrun. simpl. lia.
  - destruct (chr_ok false NL d).
    + inversion Hh; subst. unfold blankrun. simpl. lia.
    + destruct (chr_ok true X d); inversion Hh; subst. simpl. lia.
Qed.
End Attempt.

(* ---- the callback ------------------------------------------------------------------- *)
Definition here_g : str -> option (nat * capsf) := props_here ucls hexcls nlcls blankcls notcls.

Definition single_value (c : N) : N :=
  match lookup c known_escapes with Some v => v | None => c end.

(* what unescape(m) returns, from the text at the match *)
Definition props_repl (sf : str) : result str :=
  match sf with
  | c :: d :: t =>
      if chr_ok false ucls d && (1 <=? hexrun hexcls t) then
        match py_int uni_base (firstn (hexrun hexcls t) t) with
        | Ok n => py_chr n
        | Raise e => Raise e
        end
      else if chr_ok false nlcls d then Ok []
      else Ok [single_value d]
  | _ => Raise TypeError
  end.

Lemma slice_cons2 : forall (a : str) c d t j,
  slice (a ++ c :: d :: t) (length a + 1) (length a + S (S j)) = d :: firstn j t.
Proof.
  intros. rewrite slice_app. unfold slice. simpl skipn.
  replace (S (S j) - 1) with (S j) by lia. reflexivity.
Qed.

Lemma props_f_ok : forall a sf n cf, here_g sf = Some (n, cf) ->
  props_unescape (a ++ sf) (mkres (length a) (length a + n) (cf (length a))) = props_repl sf.
Proof.
  intros a sf n cf Hh. destruct sf as [|c [|d t]]; try discriminate.
  unfold here_g, props_here in Hh. destruct (is_bs c); [|discriminate].
  destruct group_numbers as [G2 [G3 G4]].
  unfold props_unescape, group_text, group, props_repl. rewrite G2, G3, G4. cbn [m_caps].
  destruct (chr_ok false ucls d && (1 <=? hexrun hexcls t)) eqn:E1.
  - inversion Hh; subst n cf. simpl get_cap. unfold span_text. cbn [fst snd].
    rewrite slice_cons2. reflexivity.
  - destruct (chr_ok false nlcls d) eqn:E2.
    + inversion Hh; subst n cf. simpl get_cap. unfold span_text. cbn [fst snd].
      rewrite slice_cons2. reflexivity.
    + destruct (chr_ok true notcls d); [|discriminate].
      inversion Hh; subst n cf. simpl get_cap. unfold span_text. cbn [fst snd].
      rewrite slice_cons2. reflexivity.
Qed.

Theorem props_val_scan : forall raw,
  props_val raw = loc_spec here_g props_repl (S (length raw)) raw.
Proof.
  intros raw. unfold props_val. rewrite props_escape_shape.
  apply (rsub_with_loc (props_shape ucls hexcls nlcls blankcls notcls) here_g
           (props_here_ok ucls hexcls nlcls blankcls notcls)
           (props_here_len ucls hexcls nlcls blankcls notcls)
           props_unescape props_repl props_f_ok).
Qed.

(* ---- the classes of the generated expression, in plain terms ------------------------- *)
Definition is_hex (c : N) : bool :=
  (N.leb 48 c && N.leb c 57) || (N.leb 97 c && N.leb c 102) || (N.leb 65 c && N.leb c 70).
Definition is_blank (c : N) : bool := N.eqb c 32 || N.eqb c 9.

Lemma single_class : forall a c, chr_ok false [(a, a)] c = N.eqb c a.
Proof.
  intros a c. unfold chr_ok, in_ranges. simpl. rewrite orb_false_r.
  destruct (N.eqb_spec c a) as [->|Hne].
  - rewrite N.leb_refl. reflexivity.
  - destruct (N.leb_spec a c); destruct (N.leb_spec c a); simpl; try reflexivity. lia.
Qed.

Lemma ucls_spec : forall c, chr_ok false ucls c = N.eqb c 117.
Proof. intros c. change ucls with [(117, 117)%N]. apply single_class. Qed.
Lemma nlcls_spec : forall c, chr_ok false nlcls c = N.eqb c 10.
Proof. intros c. change nlcls with [(10, 10)%N]. apply single_class. Qed.
Lemma notcls_spec : forall c, chr_ok true notcls c = negb (N.eqb c 10).
Proof.
  intros c. change notcls with [(10, 10)%N].
  pose proof (single_class 10 c) as Hs. unfold chr_ok in *.
  destruct (in_ranges c [(10, 10)%N]); simpl in *; rewrite <- Hs; reflexivity.
Qed.
Lemma hexcls_spec : forall c, chr_ok false hexcls c = is_hex c.
Proof.
  intros c. change hexcls with [(48, 57); (97, 102); (65, 70)]%N.
  unfold chr_ok, in_ranges, is_hex. simpl. rewrite orb_false_r, orb_assoc.
  match goal with |- (if ?b then true else false) = _ => destruct b; reflexivity end.
Qed.
Lemma blankcls_spec : forall c, chr_ok false blankcls c = is_blank c.
Proof.
  intros c. change blankcls with [(32, 32); (9, 9)]%N.
  pose proof (single_class 32 c) as H1. pose proof (single_class 9 c) as H2.
  unfold chr_ok, in_ranges, is_blank in *. simpl in *. rewrite orb_false_r in *.
  rewrite <- H1, <- H2.
  destruct ((32 <=? c)%N && (c <=? 32)%N); destruct ((9 <=? c)%N && (c <=? 9)%N); reflexivity.
Qed.

(* ---- runs over a known prefix -------------------------------------------------------- *)
Definition head_is (ok : N -> bool) (l : str) : bool :=
  match l with c :: _ => ok c | [] => false end.

Lemma run_exact_bounded : forall cls ds rest b,
  forallb (chr_ok false cls) ds = true -> length ds <= b ->
  (length ds = b \/ head_is (chr_ok false cls) rest = false) ->
  run false cls (Some b) (ds ++ rest) = length ds.
Proof.
  intros cls. induction ds as [|d ds IH]; intros rest b Hall Hb Hend.
  - simpl app. simpl length. destruct rest as [|c r]; [reflexivity|].
    unfold run. destruct b as [|b]; [reflexivity|].
    destruct Hend as [Hend|Hend]; [simpl in Hend; lia|]. simpl in Hend. rewrite Hend. reflexivity.
  - simpl in Hall. apply andb_true_iff in Hall. destruct Hall as [Hd Hall].
    destruct b as [|b]; [simpl in Hb; lia|].
    simpl app. unfold run. fold run. rewrite Hd. simpl length. f_equal.
    apply IH; auto; [simpl in Hb; lia|]. destruct Hend as [Hend|Hend]; [left; simpl in Hend; lia|right; exact Hend].
Qed.

Lemma run_exact_unbounded : forall cls ds rest,
  forallb (chr_ok false cls) ds = true -> head_is (chr_ok false cls) rest = false ->
  run false cls None (ds ++ rest) = length ds.
Proof.
  intros cls. induction ds as [|d ds IH]; intros rest Hall Hend.
  - simpl app. simpl length. destruct rest as [|c r]; [reflexivity|].
    unfold run. simpl in Hend. rewrite Hend. reflexivity.
  - simpl in Hall. apply andb_true_iff in Hall. destruct Hall as [Hd Hall].
    simpl app. unfold run. fold run. rewrite Hd. simpl length. f_equal. apply IH; auto.
Qed.

(* ---- hexadecimal numerals --------------------------------------------------------------- *)
Definition digit_value (c : N) : N :=
  if N.leb c 57 then (c - 48)%N else if N.leb c 70 then (c - 55)%N else (c - 87)%N.
Definition hex_value (ds : str) : N := fold_left (fun acc d => (acc * 16 + digit_value d)%N) ds 0%N.

Lemma hex_digit_value : forall c, is_hex c = true ->
  hex_digit c = Some (digit_value c) /\ (digit_value c < 16)%N.
Proof.
  intros c Hc. unfold is_hex in Hc. unfold hex_digit, digit_value.
  destruct (N.leb_spec 48 c); destruct (N.leb_spec c 57); destruct (N.leb_spec 97 c);
    destruct (N.leb_spec c 102); destruct (N.leb_spec 65 c); destruct (N.leb_spec c 70);
    simpl in *; try discriminate; split; try reflexivity; try lia.
Qed.

Lemma int_digits_hex : forall ds acc, forallb is_hex ds = true ->
  int_digits 16 acc ds = Ok (fold_left (fun a d => (a * 16 + digit_value d)%N) ds acc).
Proof.
  induction ds as [|d ds IH]; intros acc H; [reflexivity|].
  simpl in H. apply andb_true_iff in H. destruct H as [Hd H].
  destruct (hex_digit_value d Hd) as [E1 E2]. simpl. rewrite E1.
  destruct (N.ltb_spec (digit_value d) 16); [|lia]. apply IH. exact H.
Qed.

Lemma hex_value_bound : forall ds, forallb is_hex ds = true -> length ds <= 4 ->
  (hex_value ds < 65536)%N.
Proof.
  intros ds H L. unfold hex_value.
  destruct ds as [|a [|b [|c [|d [|e ds]]]]]; simpl in L; try lia; simpl in *;
    repeat match goal with
           | Hx : _ && _ = true |- _ => apply andb_true_iff in Hx; destruct Hx
           | Hx : is_hex _ = true |- _ => apply hex_digit_value in Hx; destruct Hx as [_ Hx]
           end; lia.
Qed.

(* ---- the token grammar of a raw value and its meaning ------------------------------------- *)
Inductive ptok :=
| TPlain (c : N)               (* any character but a backslash *)
| TUni (ds : list N)           (* backslash u and 1 to 4 hexadecimal digits *)
| TCont (ind : list N)         (* backslash, newline, indentation: a line continuation *)
| TSingle (c : N).             (* backslash and any character but newline *)

Definition tok_ok (t : ptok) : bool :=
  match t with
  | TPlain c => negb (N.eqb c 92)
  | TUni ds => (1 <=? length ds) && (length ds <=? 4) && forallb is_hex ds
  | TCont ind => forallb is_blank ind
  | TSingle c => negb (N.eqb c 10)
  end.

Definition render_tok (t : ptok) : str :=
  match t with
  | TPlain c => [c]
  | TUni ds => 92%N :: 117%N :: ds
  | TCont ind => 92%N :: 10%N :: ind
  | TSingle c => [92%N; c]
  end.

(* n r t stand for newline, carriage return, tab; every other character for itself *)
Definition single_meaning (c : N) : N :=
  if N.eqb c 110 then 10%N else if N.eqb c 114 then 13%N else if N.eqb c 116 then 9%N else c.

Definition meaning_tok (t : ptok) : str :=
  match t with
  | TPlain c => [c]
  | TUni ds => [hex_value ds]
  | TCont _ => []
  | TSingle c => [single_meaning c]
  end.

Definition render_toks (ts : list ptok) : str := concat (map render_tok ts).
Definition meaning_toks (ts : list ptok) : str := concat (map meaning_tok ts).

(* what may follow a token: a short \u escape (and a bare \u) is not followed by a
   hexadecimal digit, a continuation's indentation is maximal *)
Definition follows_ok (t : ptok) (rest : str) : bool :=
  match t with
  | TPlain _ => true
  | TUni ds => Nat.eqb (length ds) 4 || negb (head_is is_hex rest)
  | TCont _ => negb (head_is is_blank rest)
  | TSingle c => negb (N.eqb c 117) || negb (head_is is_hex rest)
  end.

Fixpoint toks_ok (ts : list ptok) : bool :=
  match ts with
  | [] => true
  | t :: rest => tok_ok t && follows_ok t (render_toks rest) && toks_ok rest
  end.

Lemma single_value_meaning : forall c, single_value c = single_meaning c.
Proof.
  intros c. unfold single_value, single_meaning.
  change known_escapes with [(110, 10); (114, 13); (116, 9); (92, 92)]%N. simpl.
  destruct (N.eqb c 110); [reflexivity|]. destruct (N.eqb c 114); [reflexivity|].
  destruct (N.eqb c 116); [reflexivity|].
  destruct (N.eqb_spec c 92) as [->|_]; reflexivity.
Qed.

Lemma head_is_ext : forall f g l, (forall c, f c = g c) -> head_is f l = head_is g l.
Proof. intros f g l H. destruct l; simpl; auto. Qed.

Lemma forallb_ext' : forall (f g : N -> bool) l, (forall c, f c = g c) -> forallb f l = forallb g l.
Proof. intros f g l H. induction l; simpl; [reflexivity|]. rewrite H, IHl. reflexivity. Qed.

(* one step of the scan *)
Lemma scan_plain : forall c rest fu, c <> 92%N ->
  loc_spec here_g props_repl (S fu) (c :: rest) =
  match loc_spec here_g props_repl fu rest with Ok tl => Ok (c :: tl) | Raise e => Raise e end.
Proof.
  intros c rest fu Hc. cbn [loc_spec].
  assert (Hh : here_g (c :: rest) = None).
  { unfold here_g, props_here. destruct rest; [reflexivity|]. rewrite (is_bs_neq c Hc). reflexivity. }
  rewrite Hh. reflexivity.
Qed.

Lemma scan_hit : forall sf fu n cf r, here_g sf = Some (n, cf) -> props_repl sf = Ok r ->
  loc_spec here_g props_repl (S fu) sf =
  match loc_spec here_g props_repl fu (skipn n sf) with Ok tl => Ok (r ++ tl) | Raise e => Raise e end.
Proof. intros sf fu n cf r Hh Hr. cbn [loc_spec]. rewrite Hh, Hr. reflexivity. Qed.

Lemma bs92 : is_bs 92 = true.
Proof. apply is_bs_iff. reflexivity. Qed.

Theorem scan_tokens : forall ts fuel, toks_ok ts = true -> length (render_toks ts) < fuel ->
  loc_spec here_g props_repl fuel (render_toks ts) = Ok (meaning_toks ts).
Proof.
  induction ts as [|t ts IH]; intros fuel Hok Hf.
  - destruct fuel; [simpl in Hf; lia|]. reflexivity.
  - simpl in Hok. apply andb_true_iff in Hok. destruct Hok as [Hok Hrest].
    apply andb_true_iff in Hok. destruct Hok as [Ht Hfol].
    unfold render_toks, meaning_toks in *. simpl concat. simpl concat in Hf.
    set (rest := concat (map render_tok ts)) in *.
    destruct fuel as [|fu]; [lia|].
    destruct t as [c|ds|ind|c].
    + (* plain *)
      simpl in Ht. apply negb_true_iff in Ht. apply N.eqb_neq in Ht.
      simpl app. rewrite scan_plain by exact Ht.
      rewrite IH; auto. simpl in Hf. lia.
    + (* \u + digits *)
      simpl in Ht. apply andb_true_iff in Ht. destruct Ht as [Ht Hhex].
      apply andb_true_iff in Ht. destruct Ht as [L1 L4].
      apply Nat.leb_le in L1, L4.
      assert (Hall : forallb (chr_ok false hexcls) ds = true)
        by (rewrite (forallb_ext' _ is_hex); auto; apply hexcls_spec).
      assert (Hrun : hexrun hexcls (ds ++ rest) = length ds).
      { apply run_exact_bounded; auto. simpl in Hfol. apply orb_true_iff in Hfol.
        destruct Hfol as [Hfol|Hfol]; [left; apply Nat.eqb_eq; exact Hfol|right].
        rewrite (head_is_ext _ is_hex) by apply hexcls_spec.
        apply negb_true_iff. exact Hfol. }
      simpl render_tok. simpl app.
      assert (Hh : here_g (92 :: 117 :: ds ++ rest)%N =
                   Some (2 + length ds, fun p => [(1, (p + 1, p + (2 + length ds)));
                                                  (2, (p + 1, p + (2 + length ds)))])).
      { unfold here_g, props_here. rewrite bs92, ucls_spec, Hrun.
        replace (1 <=? length ds) with true by (symmetry; apply Nat.leb_le; lia). reflexivity. }
      assert (Hr : props_repl (92 :: 117 :: ds ++ rest)%N = Ok [hex_value ds]).
      { unfold props_repl. rewrite ucls_spec, Hrun.
        replace (1 <=? length ds) with true by (symmetry; apply Nat.leb_le; lia).
        simpl andb. cbv iota.
        replace (firstn (length ds) (ds ++ rest)) with ds
          by (rewrite firstn_app, Nat.sub_diag, firstn_all; simpl; rewrite app_nil_r; reflexivity).
        unfold py_int. destruct ds as [|d0 ds0]; [simpl in L1; lia|].
        change uni_base with 16%N. rewrite int_digits_hex by exact Hhex.
        fold (hex_value (d0 :: ds0)). unfold py_chr.
        pose proof (hex_value_bound (d0 :: ds0) Hhex L4).
        destruct (N.ltb_spec (hex_value (d0 :: ds0)) 1114112); [reflexivity|lia]. }
      rewrite (scan_hit _ fu _ _ _ Hh Hr).
      replace (skipn (2 + length ds) (92 :: 117 :: ds ++ rest)%N) with rest
        by (simpl; rewrite skipn_app, skipn_all, Nat.sub_diag; reflexivity).
      rewrite IH; auto. simpl in Hf. rewrite app_length in Hf. lia.
    + (* continuation *)
      simpl in Ht.
      assert (Hall : forallb (chr_ok false blankcls) ind = true)
        by (rewrite (forallb_ext' _ is_blank); auto; apply blankcls_spec).
      assert (Hrun : blankrun blankcls (ind ++ rest) = length ind).
      { apply run_exact_unbounded; auto.
        rewrite (head_is_ext _ is_blank) by apply blankcls_spec.
        simpl in Hfol. apply negb_true_iff. exact Hfol. }
      simpl render_tok. simpl app.
      assert (Hh : here_g (92 :: 10 :: ind ++ rest)%N =
                   Some (2 + length ind, fun p => [(1, (p + 1, p + (2 + length ind)));
                                                   (3, (p + 1, p + (2 + length ind)))])).
      { unfold here_g, props_here. rewrite bs92, ucls_spec, nlcls_spec, Hrun. reflexivity. }
      assert (Hr : props_repl (92 :: 10 :: ind ++ rest)%N = Ok []).
      { unfold props_repl. rewrite ucls_spec, nlcls_spec. reflexivity. }
      rewrite (scan_hit _ fu _ _ _ Hh Hr).
      replace (skipn (2 + length ind) (92 :: 10 :: ind ++ rest)%N) with rest
        by (simpl; rewrite skipn_app, skipn_all, Nat.sub_diag; reflexivity).
      rewrite IH; auto. simpl in Hf. rewrite app_length in Hf. lia.
    + (* backslash + one character *)
      simpl in Ht. apply negb_true_iff in Ht.
      simpl render_tok. simpl app.
      assert (Hu : chr_ok false ucls c && (1 <=? hexrun hexcls rest) = false).
      { rewrite ucls_spec. simpl in Hfol. apply orb_true_iff in Hfol.
        destruct Hfol as [Hfol|Hfol].
        - apply negb_true_iff in Hfol. rewrite Hfol. reflexivity.
        - assert (Hz : hexrun hexcls rest = 0).
          { apply negb_true_iff in Hfol.
            pose proof (run_exact_bounded hexcls [] rest 4 eq_refl) as Hx.
            simpl in Hx. apply Hx; [lia|]. right.
            rewrite (head_is_ext _ is_hex) by apply hexcls_spec. exact Hfol. }
          rewrite Hz. apply andb_false_r. }
      assert (Hh : here_g (92 :: c :: rest)%N =
                   Some (2, fun p => [(1, (p + 1, p + 2)); (4, (p + 1, p + 2))])).
      { unfold here_g, props_here. rewrite bs92, Hu, nlcls_spec, Ht, notcls_spec, Ht. reflexivity. }
      assert (Hr : props_repl (92 :: c :: rest)%N = Ok [single_meaning c]).
      { unfold props_repl. rewrite Hu, nlcls_spec, Ht, single_value_meaning. reflexivity. }
      rewrite (scan_hit _ fu _ _ _ Hh Hr). simpl skipn.
      rewrite IH; auto. simpl in Hf. lia.
Qed.

Theorem unescape_properties : forall ts, toks_ok ts = true ->
  props_val (render_toks ts) = Ok (meaning_toks ts).
Proof.
  intros ts H. rewrite props_val_scan. apply scan_tokens; auto.
Qed.
