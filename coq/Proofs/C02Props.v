(* C02, properties: PropertiesEntityMixin.val on raw values rendered from tokens is the
   concatenation of the token meanings.  The generated escape expression is shown to
   have the shape
        \\ ( (u hex{1,4}) | (newline blank* ) | (not-newline) )
   with groups 1 (2|3|4); one match attempt is computed with the class-loop lemma
   (Proofs/ClassLoop.v), the scan with Proofs/SubLocal.v. *)
From Coq Require Import NArith List Bool Arith Lia.
From CL Require Import Base.Sx Base.Res Base.Str Regex.Rx Regex.RxLemmas Model.Entry Model.Parse
  Generated.RxC02 Generated.C02Facts Model.Unescape Proofs.UnescapeProofs Proofs.SubLocal
  Proofs.ClassLoop.
Import ListNotations.

Local Arguments Nat.ltb : simpl never.
Local Arguments Nat.leb : simpl never.
Local Arguments N.eqb : simpl never.
Local Arguments N.leb : simpl never.
Local Arguments N.ltb : simpl never.
Local Arguments chr_ok : simpl never.
Local Arguments run : simpl never.
Local Arguments fwd : simpl never.

(* ---- the shape of the generated expression ---------------------------------------- *)
Definition props_shape (ucls hexcls nlcls blankcls notcls : cset) : rx :=
  Cat (Chr false [(92, 92)%N])
      (Grp 1 (Alt (Grp 2 (Cat (Chr false ucls) (Rep true 1 (Some 4) (Chr false hexcls))))
                  (Alt (Grp 3 (Cat (Chr false nlcls) (Rep true 0 None (Chr false blankcls))))
                       (Grp 4 (Chr true notcls))))).

Definition props_classes : cset * cset * cset * cset * cset :=
  match rx_c02_props_escape with
  | Cat _ (Grp _ (Alt (Grp _ (Cat (Chr _ u) (Rep _ _ _ (Chr _ h))))
                      (Alt (Grp _ (Cat (Chr _ n) (Rep _ _ _ (Chr _ b)))) (Grp _ (Chr _ x))))) =>
      (u, h, n, b, x)
  | _ => ([], [], [], [], [])
  end.

Definition ucls := fst (fst (fst (fst props_classes))).
Definition hexcls := snd (fst (fst (fst props_classes))).
Definition nlcls := snd (fst (fst props_classes)).
Definition blankcls := snd (fst props_classes).
Definition notcls := snd props_classes.

Lemma props_escape_shape : rx_c02_props_escape = props_shape ucls hexcls nlcls blankcls notcls.
Proof. vm_compute. reflexivity. Qed.

Lemma group_numbers :
  g_c02_props_escape_uni = 2 /\ g_c02_props_escape_nl = 3 /\ g_c02_props_escape_single = 4.
Proof. vm_compute. auto. Qed.

(* ---- one match attempt ---------------------------------------------------------------- *)
Section Attempt.
Variables (U H NL B X : cset).
Let E := props_shape U H NL B X.

Definition hexrun (t : str) : nat := run false H (Some 4) t.
Definition blankrun (t : str) : nat := run false B None t.

Definition props_here (sf : str) : option (nat * capsf) :=
  match sf with
  | c :: d :: t =>
      if is_bs c then
        if chr_ok false U d && (1 <=? hexrun t) then
          Some (2 + hexrun t, fun p => [(1, (p + 1, p + (2 + hexrun t))); (2, (p + 1, p + (2 + hexrun t)))])
        else if chr_ok false NL d then
          Some (2 + blankrun t, fun p => [(1, (p + 1, p + (2 + blankrun t))); (3, (p + 1, p + (2 + blankrun t)))])
        else if chr_ok true X d then
          Some (2, fun p => [(1, (p + 1, p + 2)); (4, (p + 1, p + 2))])
        else None
      else None
  | _ => None
  end.

Lemma orelse_fail : forall b, orelse Fail b = b tt.
Proof. reflexivity. Qed.
Lemma orelse_done : forall x b, orelse (Done x) b = Done x.
Proof. reflexivity. Qed.
Lemma m_Cat : forall a b s k, m (Cat a b) s k = m a s (fun s' => m b s' k).
Proof. reflexivity. Qed.
Lemma m_Alt : forall a b s k, m (Alt a b) s k = orelse (m a s k) (fun _ => m b s k).
Proof. reflexivity. Qed.
Lemma m_Grp : forall n r s k, m (Grp n r) s k = m r s (fun s' => k (set_cap n (pos s, pos s') s')).
Proof. reflexivity. Qed.
Lemma m_Chr : forall neg rs s k,
  m (Chr neg rs) s k = match suf s with
                       | c :: t => if chr_ok neg rs c then k (advance s c t) else Fail
                       | [] => Fail
                       end.
Proof. reflexivity. Qed.

Ltac never_fail := intros ?s'; cbv beta iota; discriminate.

Lemma props_here_ok : forall pr sf p,
  run_at E (mkst pr sf p []) (fun _ => true) =
  match props_here sf with
  | Some (n, cf) => MSome (mkres p (p + n) (cf p))
  | None => MNone
  end.
Proof.
  intros pr sf p. unfold run_at, E, props_shape.
  destruct sf as [|c [|d t]].
  - reflexivity.
  - (* a lone last character *)
    rewrite m_Cat, m_Chr. cbn [suf]. destruct (chr_ok false [(92, 92)%N] c); [|reflexivity].
    rewrite m_Grp, m_Alt, m_Grp, m_Cat, m_Chr. unfold advance at 1. cbn [suf].
    rewrite orelse_fail, m_Alt, m_Grp, m_Cat, m_Chr. unfold advance at 1. cbn [suf].
    rewrite orelse_fail, m_Grp, m_Chr. unfold advance at 1. cbn [suf]. reflexivity.
  - unfold props_here. rewrite m_Cat, m_Chr. cbn [suf]. fold (is_bs c).
    destruct (is_bs c); [|reflexivity].
    unfold advance. cbn [pre suf pos caps].
    rewrite m_Grp, m_Alt. cbn [pos].
    (* first alternative: u + hex digits *)
    rewrite m_Grp, m_Cat, m_Chr. cbn [suf pos].
    destruct (chr_ok false U d) eqn:EU.
    + unfold advance at 1. cbn [pre suf pos caps].
      rewrite m_rep_class; [| never_fail | simpl; lia].
      cbn [suf]. fold (hexrun t).
      destruct (1 <=? hexrun t) eqn:E1.
      * simpl andb. cbv iota.
        rewrite fwd_mkst by (unfold hexrun; apply run_le).
        cbv beta iota. rewrite orelse_done. unfold set_cap. cbn [pre suf pos caps].
        f_equal. f_equal; [lia|]. repeat f_equal; lia.
      * simpl andb. cbv iota. rewrite orelse_fail.
        (* second alternative *)
        rewrite m_Alt, m_Grp, m_Cat, m_Chr. cbn [suf pos].
        destruct (chr_ok false NL d) eqn:EN.
        -- unfold advance at 1. cbn [pre suf pos caps].
           rewrite m_rep_class; [| never_fail | exact I].
           cbn [suf]. fold (blankrun t). replace (0 <=? blankrun t) with true by reflexivity.
           rewrite fwd_mkst by (unfold blankrun; apply run_le).
           cbv beta iota. rewrite orelse_done. unfold set_cap. cbn [pre suf pos caps].
           f_equal. f_equal; [lia|]. repeat f_equal; lia.
        -- rewrite orelse_fail, m_Grp, m_Chr. cbn [suf pos].
           destruct (chr_ok true X d); [|reflexivity].
           unfold advance, set_cap. cbn [pre suf pos caps].
           f_equal. f_equal; [lia|]. repeat f_equal; lia.
    + simpl andb. cbv iota. rewrite orelse_fail.
      rewrite m_Alt, m_Grp, m_Cat, m_Chr. cbn [suf pos].
      destruct (chr_ok false NL d) eqn:EN.
      * unfold advance at 1. cbn [pre suf pos caps].
        rewrite m_rep_class; [| never_fail | exact I].
        cbn [suf]. fold (blankrun t). replace (0 <=? blankrun t) with true by reflexivity.
        rewrite fwd_mkst by (unfold blankrun; apply run_le).
        cbv beta iota. rewrite orelse_done. unfold set_cap. cbn [pre suf pos caps].
        f_equal. f_equal; [lia|]. repeat f_equal; lia.
      * rewrite orelse_fail, m_Grp, m_Chr. cbn [suf pos].
        destruct (chr_ok true X d); [|reflexivity].
        unfold advance, set_cap. cbn [pre suf pos caps].
        f_equal. f_equal; [lia|]. repeat f_equal; lia.
Qed.

Lemma props_here_len : forall sf n cf, props_here sf = Some (n, cf) -> 0 < n /\ n <= length sf.
Proof.
  intros sf n cf H. destruct sf as [|c [|d t]]; try discriminate.
  unfold props_here in H. destruct (is_bs c); [|discriminate].
  pose proof (run_le false H0 (Some 4) t). pose proof (run_le false B None t).
  destruct (chr_ok false U d && (1 <=? hexrun t)).
  - inversion H; subst. unfold hexrun. simpl. lia.
  - destruct (chr_ok false NL d).
    + inversion H; subst. unfold blankrun. simpl. lia.
    + destruct (chr_ok true X d); inversion H; subst. simpl. lia.
Qed.
End Attempt.
