(* C17, second clause: "Positions attached to check messages never fall before
   the start of their entity or beyond the end of the file."

   Part A  the offset-to-(line, column) map is monotone (lexicographically) on
           [0, |s|]; a position a0 <= a + pos <= |s| therefore resolves between
           the position of a0 and the position of the end of the text.
   Part B  Model/CheckProps.v   (PropertiesChecker)
   Part C  Model/CheckAndroid.v (AndroidChecker)   -- one position is REFUTED
   Part D  Model/CheckFluent.v  (FluentChecker)
   Part E  Model/Robust.v       (base Checker: the U+FFFD warning)          *)
From Coq Require Import ZArith NArith List Bool Arith Lia.
From CL Require Import Base.Sx Base.Res Base.Str Regex.Rx Regex.RxLemmas
  Model.LineCol Proofs.LineColProofs.
From CL Require Model.CheckProps Model.CheckAndroid Model.CheckFluent Model.Robust
  Proofs.CheckAndroidScan Proofs.CheckAndroidQuoting Model.Unescape Proofs.SubLocal
  Proofs.C02Props.
Import ListNotations.

Local Arguments Nat.ltb : simpl never.
Local Arguments Nat.leb : simpl never.
Local Arguments N.eqb : simpl never.

(* ======================================================================== *)
(* Part A: monotonicity of linecol                                          *)
(* ======================================================================== *)

(* (line, column) pairs in reading order *)
Definition lex_le (a b : nat * nat) : Prop :=
  fst a < fst b \/ (fst a = fst b /\ snd a <= snd b).

Lemma lex_le_refl a : lex_le a a.
Proof. right. split; reflexivity. Qed.

Lemma lex_le_trans a b c : lex_le a b -> lex_le b c -> lex_le a c.
Proof. unfold lex_le. intros [H|[H1 H2]] [H'|[H1' H2']]; lia. Qed.

Lemma count_nl_app a b : count_nl (a ++ b) = count_nl a + count_nl b.
Proof. unfold count_nl. rewrite filter_app, app_length. reflexivity. Qed.

Lemma cur_app n a b : cur n (a ++ b) = cur (cur n a) b.
Proof.
  revert n; induction a as [|c a IH]; intros n; cbn; [reflexivity|].
  destruct (N.eqb c nl); apply IH.
Qed.

Lemma firstn_split_le {T} (s : list T) p q :
  p <= q -> firstn q s = firstn p s ++ firstn (q - p) (skipn p s).
Proof.
  revert s q; induction p as [|p IH]; intros s q H.
  - rewrite Nat.sub_0_r. reflexivity.
  - destruct q as [|q]; [lia|]. destruct s as [|c s]; [cbn; rewrite firstn_nil; reflexivity|].
    cbn [firstn skipn app Nat.sub]. rewrite (IH s q) by lia. reflexivity.
Qed.

Lemma linecol_lex_mono s p q :
  p <= q -> q <= length s ->
  lex_le (1 + count_nl (firstn p s), 1 + cur 0 (firstn p s))
         (1 + count_nl (firstn q s), 1 + cur 0 (firstn q s)).
Proof.
  intros Hpq Hq. rewrite (firstn_split_le s p q Hpq).
  set (a := firstn p s). set (b := firstn (q - p) (skipn p s)).
  rewrite count_nl_app, cur_app. unfold lex_le. cbn [fst snd].
  destruct (count_nl b) as [|k] eqn:Eb; [right|left; lia].
  split; [lia|]. rewrite (cur_acc (cur 0 a) b), Eb. cbn. lia.
Qed.

(* the monotonicity lemma: offsets in order resolve to positions in order *)
Theorem linecol_mono s p q :
  p <= q -> q <= length s ->
  exists lp lq, linecol s p = Some lp /\ linecol s q = Some lq /\ lex_le lp lq.
Proof.
  intros Hpq Hq.
  rewrite (linecol_spec s p) by lia. rewrite (linecol_spec s q) by lia.
  eexists; eexists; split; [reflexivity|split; [reflexivity|]].
  apply linecol_lex_mono; assumption.
Qed.

(* An entity starts at a0; its value occupies [a, b) of the text s.  A checker
   position pos <= b - a, resolved as value_position does (linecol (a + pos)),
   lies between the position of the entity start and the position of the end of
   the file. *)
Theorem resolved_between s a0 a b pos :
  a0 <= a -> a <= b -> b <= length s -> pos <= b - a ->
  exists l0 lp le,
    linecol s a0 = Some l0 /\ linecol s (a + pos) = Some lp /\
    linecol s (length s) = Some le /\
    lex_le l0 lp /\ lex_le lp le.
Proof.
  intros H0 Hab Hb Hp.
  destruct (linecol_mono s a0 (a + pos)) as (l0 & lp & E0 & Ep & L1); [lia|lia|].
  destruct (linecol_mono s (a + pos) (length s)) as (lp' & le & Ep' & Ee & L2); [lia|lia|].
  rewrite Ep in Ep'. inversion Ep'; subst lp'.
  exists l0, lp, le. auto.
Qed.

(* regex match starts lie inside the text searched *)
Lemma rfinditer_starts r s l :
  rfinditer r s = Some l -> Forall (fun x => m_start x <= length s) l.
Proof.
  intros H. apply rfinditer_spans in H. eapply Forall_impl; [|exact H].
  cbn. intros x [H1 H2]. lia.
Qed.

(* ======================================================================== *)
(* Part B: PropertiesChecker                                                *)
(* ======================================================================== *)
Module PropsB.
Import CL.Generated.Tables CL.Generated.RxC06 CL.Generated.C06Facts CL.Model.Difflib CL.Model.CheckProps.

Lemma finditer_starts r s ms :
  finditer r s = Ok ms -> Forall (fun x => m_start x <= length s) ms.
Proof.
  unfold finditer. destruct (rfinditer r s) as [l|] eqn:E; [|discriminate].
  intros H; inversion H; subst. apply rfinditer_starts with r. exact E.
Qed.

(* PrintfException positions: a match start or the constant 0 *)
Lemma specs_loop_pos s n : forall ms hasNumber specs p e,
  Forall (fun x => m_start x <= n) ms ->
  specs_loop s ms hasNumber specs = Ok (SErr p e) -> p <= n.
Proof.
  induction ms as [|x ms IH]; intros hasNumber specs p e HF H; cbn [specs_loop] in H.
  - destruct (hasNumber && negb (forallb truthy_spec specs)); inversion H; subst. lia.
  - inversion HF as [|? ? Hx HF']; subst.
    destruct (gtext s g_printf_good x) as [good|]; [|inversion H; subst; exact Hx].
    destruct (str_eqb good lit_pe_escaped); [eapply IH; eassumption|].
    destruct (_ || _); [inversion H; subst; exact Hx|].
    destruct (gtext s g_printf_number x) as [nt|]; [|eapply IH; eassumption].
    destruct (py_int nt) as [k|t]; [|discriminate].
    destruct k as [|k].
    + destruct (length specs); [discriminate|]. eapply IH; eassumption.
    + destruct (_ <=? _); eapply IH; eassumption.
Qed.

Theorem get_printf_specs_pos v p e :
  get_printf_specs v = Ok (SErr p e) -> p <= length v.
Proof.
  unfold get_printf_specs. destruct (finditer rx_printf v) as [ms|t] eqn:E; [|discriminate].
  apply specs_loop_pos. apply finditer_starts with rx_printf. exact E.
Qed.

(* a finding of the value kind with an offset into a text of length n *)
Definition val_ok (n : nat) (f : finding) : Prop := f_entpos f = false /\ f_pos f <= n.
Definition ent_ok (n : nat) (f : finding) : Prop := f_entpos f = true /\ f_pos f <= n.

Lemma printf_findings_ok n msgs warn : Forall (val_ok n) (printf_findings msgs warn).
Proof.
  unfold printf_findings. apply Forall_app. split.
  - destruct (nonempty msgs); constructor; [|constructor].
    split; cbn; [reflexivity|]. unfold lit_pf_err_pos. lia.
  - destruct warn; constructor; [|constructor].
    split; cbn; [reflexivity|]. unfold lit_pf_warn_pos. lia.
Qed.

Lemma compare_specs_ok n r l fs : compare_specs r l = Ok fs -> Forall (val_ok n) fs.
Proof.
  unfold compare_specs. destruct (specs_eqb r l); [intros H; inversion H; constructor|].
  destruct (_ <=? _); [discriminate|].
  destruct (get_opcodes spec_eqb r l) as [ops|]; [|discriminate].
  destruct (walk_ops r l ops [] None) as [[msgs warn]|t]; [|discriminate].
  intros H; inversion H; subst. apply printf_findings_ok.
Qed.

Theorem check_printf_ok refSpecs v fs :
  check_printf refSpecs v = Ok fs -> Forall (val_ok (length v)) fs.
Proof.
  unfold check_printf. destruct (get_printf_specs v) as [[p e|specs]|t] eqn:E; [| |discriminate].
  - intros H; inversion H; subst. constructor; [|constructor]. split; [reflexivity|].
    cbn. eapply get_printf_specs_pos. exact E.
  - apply compare_specs_ok.
Qed.

Lemma plural_count_findings_ok n known v : Forall (val_ok n) (plural_count_findings known v).
Proof.
  unfold plural_count_findings. destruct known as [[|c cs]|]; try constructor.
  apply Forall_app; split; (destruct (_ <? _); [|apply Forall_nil]);
    (apply Forall_cons; [|apply Forall_nil]); (split; cbn; [reflexivity|]);
    unfold lit_plural_few_pos, lit_plural_many_pos; lia.
Qed.

Lemma plural_var_findings_ok n a b : Forall (val_ok n) (plural_var_findings a b).
Proof.
  unfold plural_var_findings. destruct (some_missing a b).
  - constructor; [|constructor]. split; cbn; [reflexivity|]. unfold lit_plural_unused_pos. lia.
  - destruct (some_missing b a); constructor; [|constructor].
    split; cbn; [reflexivity|]. unfold lit_plural_extra_pos. lia.
Qed.

Theorem check_plural_ok n loc rv lv fs :
  check_plural loc rv lv = Ok fs -> Forall (val_ok n) fs.
Proof.
  unfold check_plural. destruct (get_plural loc) as [known|t]; [|discriminate].
  destruct (plural_vars rv) as [[|p ps]|t]; [| |discriminate].
  - intros H; inversion H; subst. apply plural_count_findings_ok.
  - destruct (plural_vars lv) as [lp|t]; [|discriminate].
    intros H; inversion H; subst. apply Forall_app; split.
    + apply plural_count_findings_ok.
    + apply plural_var_findings_ok.
Qed.

Theorem encoding_findings_ok c fs :
  encoding_findings c = Ok fs -> Forall (ent_ok (length (l10n_all c))) fs.
Proof.
  unfold encoding_findings. destruct (finditer rx_mochibake (l10n_all c)) as [ms|t] eqn:E; [|discriminate].
  intros H; injection H as <-. apply finditer_starts in E.
  induction E as [|x ms Hx E IH]; cbn [map]; [apply Forall_nil|].
  apply Forall_cons; [split; [reflexivity|exact Hx]|exact IH].
Qed.

Theorem escape_findings_ok raw fs :
  escape_findings raw = Ok fs -> Forall (val_ok (length raw)) fs.
Proof.
  unfold escape_findings. destruct (finditer rx_c06_escape raw) as [ms|t] eqn:E; [|discriminate].
  intros H; injection H as <-. apply finditer_starts in E.
  induction E as [|x ms Hx E IH]; cbn [flat_map]; [apply Forall_nil|].
  apply Forall_app; split; [|exact IH].
  destruct (gtext raw g_c06_escape_single x) as [[|c t]|]; try apply Forall_nil.
  match goal with |- context [if ?b then _ else _] => destruct b end; [apply Forall_nil|].
  apply Forall_cons; [|apply Forall_nil]. split; [reflexivity|exact Hx].
Qed.

(* PropertiesChecker.check: the result is the encoding warnings (EntityPos
   offsets into l10nEnt.all), then the escape warnings (offsets into
   l10nEnt.raw_val), then the plural / printf results (offsets into
   l10nEnt.val); every offset is a nat not beyond the end of its text. *)
Theorem check_bounds c fs :
  check c = Ok fs ->
  exists enc escs rest, fs = enc ++ escs ++ rest /\
    Forall (ent_ok (length (l10n_all c))) enc /\
    Forall (val_ok (length (l10n_raw c))) escs /\
    Forall (val_ok (length (l10n_val c))) rest.
Proof.
  unfold check. destruct (encoding_findings c) as [enc|t] eqn:Eenc; [|discriminate].
  apply encoding_findings_ok in Eenc.
  destruct (is_plural c) as [[|]|t]; [| |discriminate].
  - destruct (check_plural _ _ _) as [r|t] eqn:Ep; [|discriminate].
    intros H; inversion H; subst. exists enc, [], r. cbn.
    repeat split; auto. eapply check_plural_ok; exact Ep.
  - destruct (escape_findings (l10n_raw c)) as [escs|t] eqn:Ee; [|discriminate].
    apply escape_findings_ok in Ee.
    destruct (get_printf_specs (ref_val c)) as [r|t]; [|discriminate].
    assert (Hnone : Ok (enc ++ escs) = Ok fs ->
      exists enc0 escs0 rest, fs = enc0 ++ escs0 ++ rest /\
        Forall (ent_ok (length (l10n_all c))) enc0 /\
        Forall (val_ok (length (l10n_raw c))) escs0 /\
        Forall (val_ok (length (l10n_val c))) rest).
    { intros H; inversion H; subst. exists enc, escs, []. rewrite app_nil_r. auto. }
    destruct r as [p e|[|sp specs]]; try exact Hnone.
    destruct (check_printf _ _) as [pf|t] eqn:Epf; [|discriminate].
    intros H; inversion H; subst. exists enc, escs, pf.
    repeat split; auto. eapply check_printf_ok; exact Epf.
Qed.

(* every value offset is inside the source text of the value (raw_val, the
   text the value span covers) provided unescaping did not make the value
   longer than its source *)
Corollary check_bounds_raw c fs :
  length (l10n_val c) <= length (l10n_raw c) ->
  check c = Ok fs ->
  Forall (fun f => if f_entpos f then f_pos f <= length (l10n_all c)
                   else f_pos f <= length (l10n_raw c)) fs.
Proof.
  intros Hlen H. destruct (check_bounds c fs H) as (enc & escs & rest & -> & H1 & H2 & H3).
  repeat (apply Forall_app; split); (eapply Forall_impl; [|eassumption]);
    intros f [Hk Hp]; rewrite Hk; lia.
Qed.

End PropsB.

(* ======================================================================== *)
(* Part C: AndroidChecker                                                   *)
(* ======================================================================== *)
Module AndroidB.
Import CL.Generated.RxC09 CL.Generated.C09Facts CL.Model.CheckAndroid
  CL.Proofs.CheckAndroidScan CL.Proofs.CheckAndroidQuoting.

Lemma finditer_starts r s ms :
  finditer r s = Ok ms -> Forall (fun x => m_start x <= length s) ms.
Proof.
  unfold finditer. destruct (rfinditer r s) as [l|] eqn:E; [|discriminate].
  intros H; injection H as <-. apply rfinditer_starts with r. exact E.
Qed.

(* silencer.sub("  ", s) keeps the length: every match of '\\.|""' is two
   characters long (through CheckAndroidQuoting.silence_chars, which is about the
   expression as generated today) *)
Lemma step_sil_two l n : step_sil l = Some n -> n = 2 /\ 2 <= length l.
Proof.
  intros H. pose proof (step_sil_bound l n H) as [_ Hb].
  destruct l as [|a t]; [discriminate|]. cbn in H.
  destruct (_ || _); inversion H; subst. split; [reflexivity|exact Hb].
Qed.

Lemma subst_sil_length : forall l skip, skip <= length l ->
  length (subst step_sil [32; 32]%N l skip) + skip = length l.
Proof.
  induction l as [|c t IH]; intros skip Hs; cbn [length] in *.
  - cbn. lia.
  - destruct skip as [|k]; cbn [subst].
    + destruct (step_sil (c :: t)) as [n|] eqn:E.
      * apply step_sil_two in E. destruct E as [-> Hl]. cbn [length] in Hl.
        cbn [Nat.sub app length]. specialize (IH 1 ltac:(lia)). lia.
      * cbn [length]. specialize (IH 0 ltac:(lia)). lia.
    + specialize (IH k ltac:(lia)). lia.
Qed.

Lemma silence_length s s' : silence s = Ok s' -> length s' = length s.
Proof.
  rewrite silence_chars. intros H; injection H as <-. unfold silenced.
  pose proof (subst_sil_length s 0 ltac:(lia)). lia.
Qed.

(* an issue with a plain int position not beyond n *)
Definition int_ok (n : nat) (i : issue) : Prop :=
  exists p, i_pos i = PInt p /\ p <= n.
Definition ent_ok (n : nat) (i : issue) : Prop :=
  exists p, i_pos i = PEnt p /\ p <= n.

Lemma lit_issue_ok n y p : p <= n -> int_ok n (lit_issue y p).
Proof. intros H. exists p. split; [reflexivity|exact H]. Qed.

Lemma map_lit_ok n y ms :
  Forall (fun x => m_start x <= n) ms ->
  Forall (int_ok n) (map (fun x => lit_issue y (m_start x)) ms).
Proof.
  induction 1 as [|x ms Hx _ IH]; cbn [map]; [apply Forall_nil|].
  apply Forall_cons; [apply lit_issue_ok; exact Hx|exact IH].
Qed.

Theorem check_apostrophes_ok s is :
  check_apostrophes s = Ok is -> Forall (int_ok (length s)) is.
Proof.
  unfold check_apostrophes, bind.
  destruct (finditer rx_c09_dq s) as [dq|t] eqn:Edq; [|discriminate].
  destruct (silence s) as [s'|t] eqn:Es; [|discriminate].
  apply silence_length in Es. apply finditer_starts in Edq.
  destruct (is_quoted s').
  - intros H; injection H as <-. apply Forall_app; split; [|apply Forall_nil].
    apply map_lit_ok; exact Edq.
  - destruct (finditer rx_c09_apos s') as [ap|t] eqn:Eap; [|discriminate].
    apply finditer_starts in Eap. rewrite Es in Eap.
    intros H; injection H as <-. apply Forall_app; split; apply map_lit_ok; assumption.
Qed.

(* get_params: the positions of the conflicts are match starts *)
Definition occ_ok (n : nat) (o : occ) : Prop := snd o <= n.

Lemma occ_of_match_ok n s x o : m_start x <= n -> occ_of_match s x = Ok o -> occ_ok n o.
Proof.
  intros Hx. unfold occ_of_match, bind.
  destruct (group g_c09_params_format x) as [[a b]|]; [|discriminate].
  destruct (group g_c09_params_order x) as [[a' b']|].
  - destruct (a' <? b').
    + destruct (nth_error s a') as [c|]; [|discriminate].
      destruct (int_of_digit c); [|discriminate]. intros H; injection H as <-. exact Hx.
    + intros H; injection H as <-. exact Hx.
  - intros H; injection H as <-. exact Hx.
Qed.

Lemma mapM_occ_ok n s : forall ms os,
  Forall (fun x => m_start x <= n) ms -> mapM (occ_of_match s) ms = Ok os ->
  Forall (occ_ok n) os.
Proof.
  induction ms as [|x ms IH]; intros os HF; cbn [mapM]; unfold bind.
  - intros H; injection H as <-. apply Forall_nil.
  - inversion HF as [|? ? Hx HF']; subst.
    destruct (occ_of_match s x) as [o|t] eqn:Eo; [|discriminate].
    destruct (mapM (occ_of_match s) ms) as [os'|t] eqn:Em; [|discriminate].
    intros H; injection H as <-. apply Forall_cons.
    + eapply occ_of_match_ok; eassumption.
    + apply IH; [exact HF'|reflexivity].
Qed.

Definition errs_ok (n : nat) (st : pstate) : Prop :=
  Forall (fun e : str * nat => snd e <= n) (ps_errors st).

Lemma pstep_ok n st o : errs_ok n st -> occ_ok n o -> errs_ok n (pstep st o).
Proof.
  unfold errs_ok, occ_ok. intros Hst Ho. destruct o as [[ex fmt] start]. cbn [snd] in Ho.
  unfold pstep. destruct (pget _ _) as [f2|]; [|exact Hst].
  destruct (str_eqb f2 fmt); [exact Hst|]. cbn [ps_errors].
  apply Forall_app; split; [exact Hst|]. apply Forall_cons; [exact Ho|apply Forall_nil].
Qed.

Lemma fold_pstep_ok n : forall os st,
  Forall (occ_ok n) os -> errs_ok n st -> errs_ok n (fold_left pstep os st).
Proof.
  induction os as [|o os IH]; intros st HF Hst; cbn [fold_left]; [exact Hst|].
  inversion HF; subst. apply IH; [assumption|]. apply pstep_ok; assumption.
Qed.

Theorem get_params_ok s st : get_params s = Ok st -> errs_ok (length s) st.
Proof.
  unfold get_params, scan_params, bind.
  destruct (finditer rx_c09_params s) as [ms|t] eqn:E; [|discriminate].
  destruct (mapM (occ_of_match s) ms) as [os|t] eqn:Em; [|discriminate].
  intros H; injection H as <-. unfold params_of_occs. apply fold_pstep_ok.
  - eapply mapM_occ_ok; [|exact Em]. apply finditer_starts with rx_c09_params. exact E.
  - apply Forall_nil.
Qed.

Lemma var_issues_ok n y es :
  Forall (fun e : str * nat => snd e <= n) es -> Forall (int_ok n) (map (var_issue y) es).
Proof.
  induction 1 as [|e es He _ IH]; cbn [map]; [apply Forall_nil|].
  apply Forall_cons; [|exact IH]. exists (snd e). split; [reflexivity|exact He].
Qed.

Lemma flat_map_ok {T} n (f : T -> list issue) l :
  (forall x, Forall (int_ok n) (f x)) -> Forall (int_ok n) (flat_map f l).
Proof.
  intros Hf. induction l as [|x l IH]; cbn [flat_map]; [apply Forall_nil|].
  apply Forall_app; split; [apply Hf|exact IH].
Qed.

Lemma check_params_st_ok n params count l :
  errs_ok n l -> Forall (int_ok n) (check_params_st params count l).
Proof.
  intros Hl. unfold check_params_st. repeat (apply Forall_app; split).
  - apply var_issues_ok. exact Hl.
  - apply flat_map_ok. intros kv. unfold l10n_param_issue.
    destruct (pget _ _) as [f|].
    + destruct (str_eqb _ _); [apply Forall_nil|].
      apply Forall_cons; [apply lit_issue_ok; lia|apply Forall_nil].
    + apply Forall_cons; [|apply Forall_nil]. exists 0. split; [reflexivity|lia].
  - apply flat_map_ok. intros kv. unfold ref_param_issue.
    destruct (mem_nat _ _); [apply Forall_nil|].
    apply Forall_cons; [|apply Forall_nil]. exists 0. split; [reflexivity|lia].
  - destruct (_ && _); [|apply Forall_nil].
    apply Forall_cons; [apply lit_issue_ok; lia|apply Forall_nil].
Qed.

Theorem check_params_ok params count s is :
  check_params params count s = Ok is -> Forall (int_ok (length s)) is.
Proof.
  unfold check_params, bind. destruct (get_params s) as [l|t] eqn:E; [|discriminate].
  intros H; injection H as <-. apply check_params_st_ok. apply get_params_ok. exact E.
Qed.

(* the conflicts get_params finds INSIDE THE REFERENCE, which check_string
   attaches to the localized entity with their offsets into the reference text *)
Definition ref_conflicts (ref : node) : list issue :=
  match get_params (text_content ref) with
  | Ok r => map (var_issue y_ref_conflict) (ps_errors r)
  | Raise _ => []
  end.

Lemma ref_conflicts_ok ref : Forall (int_ok (length (text_content ref))) (ref_conflicts ref).
Proof.
  unfold ref_conflicts. destruct (get_params (text_content ref)) as [r|t] eqn:E; [|apply Forall_nil].
  apply var_issues_ok. apply get_params_ok. exact E.
Qed.

(* check_string: everything except the reference's own conflicts is an offset
   into the localized value *)
Theorem check_string_ok ref l10n is :
  check_string ref l10n = Ok is ->
  Forall (fun i => int_ok (length (val l10n)) i \/ In i (ref_conflicts ref)) is.
Proof.
  unfold check_string.
  assert (Hone : forall y, Forall (fun i => int_ok (length (val l10n)) i \/ In i (ref_conflicts ref))
                                  [lit_issue y 0]).
  { intros y. apply Forall_cons; [left; apply lit_issue_ok; lia|apply Forall_nil]. }
  destruct (not_translatable _); [intros H; injection H as <-; apply Hone|].
  destruct (no_at_string [e_node l10n]); [intros H; injection H as <-; apply Hone|].
  set (w := if no_at_string [ref] then [lit_issue y_at_string_ref 0] else []).
  assert (Hw : Forall (fun i => int_ok (length (val l10n)) i \/ In i (ref_conflicts ref)) w).
  { unfold w. destruct (no_at_string [ref]); [apply Hone|apply Forall_nil]. }
  destruct (non_simple_data _).
  - intros H; injection H as <-. apply Forall_app; split; [exact Hw|apply Hone].
  - unfold bind.
    destruct (check_apostrophes (val l10n)) as [ap|t] eqn:Eap; [|discriminate].
    destruct (get_params (text_content ref)) as [r|t] eqn:Er; [|discriminate].
    destruct (check_params _ _ _) as [cp|t] eqn:Ecp; [|discriminate].
    intros H; injection H as <-. repeat (apply Forall_app; split).
    + exact Hw.
    + apply check_apostrophes_ok in Eap. eapply Forall_impl; [|exact Eap]. intros; left; assumption.
    + apply Forall_forall. intros i Hi. right. unfold ref_conflicts. rewrite Er. exact Hi.
    + apply check_params_ok in Ecp. eapply Forall_impl; [|exact Ecp]. intros; left; assumption.
Qed.

Lemma check_base_ok l10n is :
  check_base l10n = Ok is -> Forall (ent_ok (length (e_all l10n))) is.
Proof.
  unfold check_base, bind.
  destruct (finditer rx_c09_mochibake (e_all l10n)) as [ms|t] eqn:E; [|discriminate].
  intros H; injection H as <-. apply finditer_starts in E.
  induction E as [|x ms Hx _ IH]; cbn [map]; [apply Forall_nil|].
  apply Forall_cons; [|exact IH]. exists (m_start x). split; [reflexivity|exact Hx].
Qed.

(* where a position of AndroidChecker.check points *)
Definition pos_ok (ref l10n : entity) (i : issue) : Prop :=
  ent_ok (length (e_all l10n)) i \/ int_ok (length (val l10n)) i \/
  In i (ref_conflicts (e_node ref)).

(* AndroidChecker.check, all inputs: every position is an EntityPos offset into
   l10nEnt.all, or an int offset into l10nEnt.val, each a nat not beyond the end
   of that text -- EXCEPT the "Conflicting formatting" warnings about the
   reference string, whose int offsets index the REFERENCE's text content. *)
Theorem check_bounds ref l10n is :
  check ref l10n = Ok is -> Forall (pos_ok ref l10n) is.
Proof.
  unfold check, bind. destruct (check_base l10n) as [enc|t] eqn:Eb; [|discriminate].
  apply check_base_ok in Eb.
  assert (Henc : Forall (pos_ok ref l10n) enc).
  { eapply Forall_impl; [|exact Eb]. intros; left; assumption. }
  assert (Hone : forall y, Forall (pos_ok ref l10n) (enc ++ [lit_issue y 0])).
  { intros y. apply Forall_app; split; [exact Henc|].
    apply Forall_cons; [right; left; apply lit_issue_ok; lia|apply Forall_nil]. }
  destruct (negb (str_eqb (n_name (e_node ref)) (n_name (e_node l10n))));
    [intros H; injection H as <-; apply Hone|].
  destruct (negb (str_eqb (n_name (e_node ref)) s_string));
    [intros H; injection H as <-; apply Hone|].
  destruct (check_string (e_node ref) l10n) as [rest|t] eqn:Es; [|discriminate].
  intros H; injection H as <-. apply Forall_app; split; [exact Henc|].
  apply check_string_ok in Es. eapply Forall_impl; [|exact Es].
  intros i [Hi|Hi]; right; [left|right]; assumption.
Qed.

(* ... and those are bounded by the reference text *)
Theorem ref_conflicts_bound ref :
  Forall (int_ok (length (text_content (e_node ref)))) (ref_conflicts (e_node ref)).
Proof. apply ref_conflicts_ok. Qed.

(* when the reference string has no conflicting formatters, the bound holds
   without exception *)
Corollary check_bounds_clean_ref ref l10n is :
  ref_conflicts (e_node ref) = [] ->
  check ref l10n = Ok is ->
  Forall (fun i => ent_ok (length (e_all l10n)) i \/ int_ok (length (val l10n)) i) is.
Proof.
  intros Hc H. apply check_bounds in H. eapply Forall_impl; [|exact H].
  unfold pos_ok. rewrite Hc. intros i [Hi|[Hi|[]]]; auto.
Qed.

(* REFUTED for the reference conflicts: the reference "%1$s %1$d" against the
   localized value "x" yields the warning "Conflicting formatting, %1$d vs %1$s"
   at offset 5 of a value of length 1 (checks/android.py check_string:
   `for error, pos in errors: yield ("warning", pos, error, "android")` with
   pos = m.start() in the reference). *)
Definition wit_ref : entity :=
  mkent (mknode s_string None [Text [37; 49; 36; 115; 32; 37; 49; 36; 100]%N] []) [97]%N [].
Definition wit_l10n : entity :=
  mkent (mknode s_string None [Text [120]%N] []) [97]%N [].

Theorem check_bounds_refuted :
  exists ref l10n is i p,
    check ref l10n = Ok is /\ In i is /\ i_pos i = PInt p /\ length (val l10n) < p.
Proof.
  exists wit_ref, wit_l10n. eexists. eexists. exists 5.
  split; [vm_compute; reflexivity|].
  split; [left; reflexivity|]. split; [reflexivity|]. vm_compute. lia.
Qed.

End AndroidB.

(* ======================================================================== *)
(* Part D: FluentChecker                                                    *)
(* ======================================================================== *)
Module FluentB.
Import CL.Generated.RxC08 CL.Generated.C08Facts CL.Model.Ftl CL.Model.CheckFluent.

(* The span starts of the AST are data handed over by fluent.syntax (an oracle).
   [*_in P]: every span start the checker can read in the node satisfies P. *)
Section In.
Variable P : nat -> Prop.

Fixpoint expr_in (e : expr) : Prop :=
  match e with
  | EStr _ | ENum _ | EVar _ => True
  | EMsg p _ _ => P p
  | ETerm p _ _ args => P p /\ match args with Some es => exprs_in es | None => True end
  | EFun _ args => exprs_in args
  | ESel sel vs => expr_in sel /\ variants_in vs
  | EPlace e' => expr_in e'
  end
with exprs_in (es : exprs) : Prop :=
  match es with
  | ENil => True
  | ECons e es' => expr_in e /\ exprs_in es'
  end
with pattern_in (p : pattern) : Prop :=
  match p with
  | PNil => True
  | PText _ p' => pattern_in p'
  | PPlace e p' => expr_in e /\ pattern_in p'
  end
with variants_in (vs : variants) : Prop :=
  match vs with
  | VNil => True
  | VCons _ kpos _ v vs' => P kpos /\ pattern_in v /\ variants_in vs'
  end.

Definition attr_in (a : attribute) : Prop := P (a_pos a) /\ pattern_in (a_value a).

Definition entry_in (l : entry) : Prop :=
  match e_value l with Some (vp, pat) => P vp /\ pattern_in pat | None => True end /\
  Forall attr_in (e_attrs l).

Definition keys_in (keys : list (vkey * nat)) : Prop := Forall (fun k => P (snd k)) keys.

Definition ev_in (e : event) : Prop :=
  match e with
  | EvMsgRef p _ _ => P p
  | EvTermRef p _ _ => P p
  | EvSelect keys => keys_in keys
  end.

Lemma variant_keys_in vs : variants_in vs -> keys_in (variant_keys vs).
Proof.
  induction vs as [|k kpos d v vs IH]; cbn; intros H; [apply Forall_nil|].
  destruct H as (H1 & _ & H3). apply Forall_cons; [exact H1|apply IH; exact H3].
Qed.

Fixpoint walk_expr_in (e : expr) {struct e} :
  expr_in e -> forall deep, Forall ev_in (walk_expr deep e)
with walk_exprs_in (es : exprs) {struct es} :
  exprs_in es -> forall deep, Forall ev_in (walk_exprs deep es)
with walk_pattern_in (p : pattern) {struct p} :
  pattern_in p -> forall deep, Forall ev_in (walk_pattern deep p)
with walk_variants_in (vs : variants) {struct vs} :
  variants_in vs -> forall deep, Forall ev_in (walk_variants deep vs).
Proof.
  - destruct e as [v|v|id|p id a|p id a args|id args|sel vs|e'];
      cbn [expr_in walk_expr]; intros H deep.
    + apply Forall_nil.
    + apply Forall_nil.
    + apply Forall_nil.
    + apply Forall_cons; [exact H|apply Forall_nil].
    + destruct H as [Hp Ha]. apply Forall_cons; [exact Hp|].
      destruct deep; [|apply Forall_nil]. destruct args as [es|]; [|apply Forall_nil].
      apply (walk_exprs_in es Ha).
    + apply (walk_exprs_in args H).
    + destruct H as [Hs Hv]. apply Forall_app; split; [|apply Forall_app; split].
      * destruct deep; [apply (walk_expr_in sel Hs)|apply Forall_nil].
      * apply (walk_variants_in vs Hv).
      * apply Forall_cons; [apply variant_keys_in; exact Hv|apply Forall_nil].
    + apply (walk_expr_in e' H).
  - destruct es as [|e es']; cbn [exprs_in walk_exprs]; intros H deep.
    + apply Forall_nil.
    + destruct H as [H1 H2]. apply Forall_app; split;
        [apply (walk_expr_in e H1)|apply (walk_exprs_in es' H2)].
  - destruct p as [|v p'|e p']; cbn [pattern_in walk_pattern]; intros H deep.
    + apply Forall_nil.
    + apply (walk_pattern_in p' H).
    + destruct H as [H1 H2]. apply Forall_app; split;
        [apply (walk_expr_in e H1)|apply (walk_pattern_in p' H2)].
  - destruct vs as [|k kpos d v vs']; cbn [variants_in walk_variants]; intros H deep.
    + apply Forall_nil.
    + destruct H as (_ & H2 & H3). apply Forall_app; split;
        [apply (walk_pattern_in v H2)|apply (walk_variants_in vs' H3)].
Qed.

(* ---- messages: position 0 (the whole entry) or a span start of the entry ---- *)
Definition msg_ok (m : msg) : Prop := m_pos m = 0 \/ P (m_pos m).
Definition msgs_ok (l : list msg) : Prop := Forall msg_ok l.

Lemma emit_ok y k p args : p = 0 \/ P p -> msg_ok (emit y k p args).
Proof. intros H. exact H. Qed.

Lemma msgs_app a b : msgs_ok a -> msgs_ok b -> msgs_ok (a ++ b).
Proof. intros. apply Forall_app; split; assumption. Qed.

Lemma msgs_one m : msg_ok m -> msgs_ok [m].
Proof. intros. apply Forall_cons; [assumption|apply Forall_nil]. Qed.

(* the duplicate scan reports positions of its items only *)
Section DupIn.
Context {T : Type} (eqb : T -> T -> bool).
Definition item_in (it : T * nat) : Prop := P (snd it).
Definition out_in (x : bool * nat * T) : Prop := P (snd (fst x)).

Lemma dup_inner_in left : item_in left -> forall rest right wl warned,
  Forall item_in rest -> Forall out_in (fst (dup_inner eqb left right rest wl warned)).
Proof.
  intros Hl. induction rest as [|r rest IH]; intros right wl warned HF; cbn [dup_inner].
  - apply Forall_nil.
  - inversion HF as [|? ? Hr HF']; subst. destruct (eqb (fst left) (fst r)).
    + specialize (IH (S right) true (right :: warned) HF').
      destruct (dup_inner eqb left (S right) rest true (right :: warned)) as [out w].
      cbn [fst] in *. apply Forall_app; split.
      * destruct wl; [apply Forall_nil|]. apply Forall_cons; [exact Hl|apply Forall_nil].
      * apply Forall_cons; [exact Hr|exact IH].
    + apply IH. exact HF'.
Qed.

Lemma dup_outer_in : forall items left warned,
  Forall item_in items -> Forall out_in (dup_outer eqb left items warned).
Proof.
  induction items as [|it rest IH]; intros left warned HF; cbn [dup_outer].
  - apply Forall_nil.
  - inversion HF as [|? ? Hi HF']; subst.
    destruct (existsb (Nat.eqb left) warned); [apply IH; exact HF'|].
    pose proof (dup_inner_in it Hi rest (S left) false warned HF') as Hin.
    destruct (dup_inner eqb it (S left) rest false warned) as [out w]. cbn [fst] in Hin.
    apply Forall_app; split; [exact Hin|apply IH; exact HF'].
Qed.

Lemma dups_in items : Forall item_in items -> Forall out_in (dups eqb items).
Proof. apply dup_outer_in. Qed.
End DupIn.

Lemma dup_attr_msgs_ok attrs : Forall attr_in attrs -> msgs_ok (dup_attr_msgs attrs).
Proof.
  intros H. unfold dup_attr_msgs.
  assert (Hit : Forall item_in (map (fun a => (a_name a, a_pos a)) attrs)).
  { induction H as [|a attrs [Ha _] _ IH]; cbn [map]; [apply Forall_nil|].
    apply Forall_cons; [exact Ha|exact IH]. }
  apply (dups_in str_eqb) in Hit.
  induction Hit as [|[[isleft pos] name] l Hx _ IH]; cbn [map]; [apply Forall_nil|].
  apply Forall_cons; [|exact IH]. right. exact Hx.
Qed.

Lemma dup_variant_msgs_ok keys : keys_in keys -> msgs_ok (dup_variant_msgs keys).
Proof.
  intros H. unfold dup_variant_msgs. apply (dups_in vkey_eqb) in H.
  induction H as [|[[isleft pos] k] l Hx _ IH]; cbn [map]; [apply Forall_nil|].
  apply Forall_cons; [|exact IH]. right. exact Hx.
Qed.

Lemma plural_msgs_ok known keys : keys_in keys -> msgs_ok (plural_msgs known keys).
Proof.
  intros H. unfold plural_msgs. destruct known as [[|c kp]|]; try apply Forall_nil.
  destruct (existsb _ _); [|apply Forall_nil].
  destruct (sorted_set _) as [|m ms]; [apply Forall_nil|].
  destruct keys as [|[k p0] keys]; [apply Forall_nil|].
  inversion H; subst. apply msgs_one. right. assumption.
Qed.

Lemma check_variants_ok known keys : keys_in keys -> msgs_ok (check_variants known keys).
Proof.
  intros H. apply msgs_app; [apply dup_variant_msgs_ok|apply plural_msgs_ok]; exact H.
Qed.

(* the CSS messages are about the whole entry *)
Lemma check_style_ok rm lm errs : msgs_ok (fst (check_style rm lm errs)).
Proof.
  unfold check_style.
  destruct lm as [[|kv lm]|]; cbn [fst]; try (apply msgs_one; left; reflexivity).
  destruct errs as [[|e errs]|]; cbn [fst]; try (apply msgs_one; left; reflexivity).
  - destruct (css_l10n_loop (kv :: lm) rm []) as [rm' msgs]. cbn [fst].
    destruct (fold_left _ rm' msgs); [apply Forall_nil|apply msgs_one; left; reflexivity].
  - destruct (css_l10n_loop (kv :: lm) rm []) as [rm' msgs]. cbn [fst].
    destruct (fold_left _ rm' msgs); [apply Forall_nil|apply msgs_one; left; reflexivity].
Qed.

Lemma lstyle_ok a rc : msgs_ok (fst (lstyle a rc)).
Proof.
  unfold lstyle. destruct (negb _); [apply Forall_nil|].
  destruct (pattern_variants (a_value a)) as [t|]; [|apply Forall_nil].
  destruct (parse_css_spec t) as [m e].
  destruct rc as [|[d|]]; try apply check_style_ok.
  pose proof (check_style_ok d m e) as H. destruct (check_style d m e) as [out d']. exact H.
Qed.

Lemma obsolete_ref_ok rrefs p ref term : P p -> msgs_ok (obsolete_ref rrefs p ref term).
Proof.
  intros H. unfold obsolete_ref. destruct (dhas _ _ _); [apply Forall_nil|].
  apply msgs_one. right. exact H.
Qed.

Lemma lvisit_event_ok known rrefs acc e :
  msgs_ok (snd acc) -> ev_in e -> msgs_ok (snd (lvisit_event known rrefs acc e)).
Proof.
  intros Ha He. destruct e as [p id attr|p id attr|keys]; cbn [lvisit_event ev_in] in *.
  - cbn [snd]. apply msgs_app; [exact Ha|apply obsolete_ref_ok; exact He].
  - destruct attr; [exact Ha|]. cbn [snd].
    apply msgs_app; [exact Ha|apply obsolete_ref_ok; exact He].
  - cbn [snd]. apply msgs_app; [exact Ha|apply check_variants_ok; exact He].
Qed.

Lemma fold_lvisit_event_ok known rrefs : forall evs acc,
  Forall ev_in evs -> msgs_ok (snd acc) ->
  msgs_ok (snd (fold_left (lvisit_event known rrefs) evs acc)).
Proof.
  induction evs as [|e evs IH]; intros acc HF Ha; cbn [fold_left]; [exact Ha|].
  inversion HF; subst. apply IH; [assumption|]. apply lvisit_event_ok; assumption.
Qed.

Definition apos_in (m : list (str * nat)) : Prop := Forall (fun p => P (snd p)) m.

Lemma dset_in k v m : P v -> apos_in m -> apos_in (dset str_eqb k v m).
Proof.
  intros Hv. induction m as [|[k' v'] m IH]; intros Hm; cbn [dset].
  - apply Forall_cons; [exact Hv|apply Forall_nil].
  - inversion Hm as [|? ? Hk Hm']; subst. destruct (str_eqb k k').
    + apply Forall_cons; [exact Hv|exact Hm'].
    + apply Forall_cons; [exact Hk|apply IH; exact Hm'].
Qed.

Definition lstate_ok (st : lstate) : Prop := msgs_ok (l_msgs st) /\ apos_in (l_attr_pos st).

Lemma lvisit_attr_ok known R st a : lstate_ok st -> attr_in a -> lstate_ok (lvisit_attr known R st a).
Proof.
  intros [Hm Hp] [Ha Hv]. unfold lvisit_attr.
  pose proof (fold_lvisit_event_ok known (dict_at (Some (a_name a)) (r_refs R))
                (walk_pattern false (a_value a))
                (dict_at (Some (a_name a)) (l_refs st), l_msgs st)
                (walk_pattern_in (a_value a) Hv false) Hm) as Hf.
  destruct (fold_left _ _ _) as [s ms]. cbn [snd] in Hf.
  pose proof (lstyle_ok a (l_ref_css st)) as Hs.
  destruct (lstyle a (l_ref_css st)) as [out rc]. cbn [fst] in Hs.
  split; cbn [l_msgs l_attr_pos].
  - apply msgs_app; assumption.
  - apply dset_in; assumption.
Qed.

Lemma fold_lvisit_attr_ok known R : forall attrs st,
  Forall attr_in attrs -> lstate_ok st -> lstate_ok (fold_left (lvisit_attr known R) attrs st).
Proof.
  induction attrs as [|a attrs IH]; intros st HF Hst; cbn [fold_left]; [exact Hst|].
  inversion HF; subst. apply IH; [assumption|]. apply lvisit_attr_ok; assumption.
Qed.

Lemma events_of_value_in deep l : entry_in l -> Forall ev_in (events_of_value deep l).
Proof.
  intros [Hv _]. unfold events_of_value. destruct (e_value l) as [[vp pat]|]; [|apply Forall_nil].
  apply walk_pattern_in. apply Hv.
Qed.

Lemma value_msgs_ok R l : entry_in l -> msgs_ok (value_msgs R l).
Proof.
  intros [Hv _]. unfold value_msgs. destruct (e_value l) as [[vp pat]|], (r_has_value R);
    try apply Forall_nil.
  - apply msgs_one. right. apply Hv.
  - apply msgs_one. left. reflexivity.
Qed.

Lemma attr_msgs_ok rpos lpos : apos_in lpos -> msgs_ok (attr_msgs rpos lpos).
Proof.
  intros H. unfold attr_msgs. apply msgs_app.
  - induction rpos as [|p rpos IH]; cbn [flat_map]; [apply Forall_nil|].
    apply msgs_app; [|exact IH]. destruct (dhas _ _ _); [apply Forall_nil|].
    apply msgs_one. left. reflexivity.
  - induction H as [|p lpos' Hp _ IH]; cbn [flat_map]; [apply Forall_nil|].
    apply msgs_app; [|exact IH]. destruct (dhas _ _ _); [apply Forall_nil|].
    apply msgs_one. right. exact Hp.
Qed.

Lemma lvisit_ok known R l : entry_in l -> msgs_ok (l_msgs (lvisit known R l)).
Proof.
  intros Hl. unfold lvisit.
  pose proof (fold_lvisit_event_ok known (dict_at None (r_refs R))
                (events_of_value false l) ([], dup_attr_msgs (e_attrs l))
                (events_of_value_in false l Hl)
                (dup_attr_msgs_ok (e_attrs l) (proj2 Hl))) as Hf.
  destruct (fold_left _ _ _) as [s ms]. cbn [snd] in Hf.
  pose proof (fold_lvisit_attr_ok known R (e_attrs l) (mkl [(None, s)] [] ms (r_css R))
                (proj2 Hl) (conj Hf (Forall_nil _))) as [H1 H2].
  cbn [l_msgs]. apply msgs_app; [exact H1|]. apply msgs_app.
  - apply value_msgs_ok. exact Hl.
  - apply attr_msgs_ok. exact H2.
Qed.

Lemma missing_ref_msgs_ok rrefs lrefs : msgs_ok (missing_ref_msgs rrefs lrefs).
Proof.
  unfold missing_ref_msgs. induction rrefs as [|kd rrefs IH]; cbn [flat_map]; [apply Forall_nil|].
  apply msgs_app; [|exact IH]. clear IH. destruct kd as [k d]. cbn [fst snd].
  induction d as [|rt d IHd]; cbn [flat_map]; [apply Forall_nil|].
  apply msgs_app; [|exact IHd]. destruct (mem_str _ _); [apply Forall_nil|].
  apply msgs_one. left. reflexivity.
Qed.

Lemma check_message_ok known r l : entry_in l -> msgs_ok (check_message known r l).
Proof.
  intros Hl. unfold check_message. apply msgs_app;
    [apply lvisit_ok; exact Hl|apply missing_ref_msgs_ok].
Qed.

Lemma check_term_ok known l : entry_in l -> msgs_ok (check_term known l).
Proof.
  intros Hl. unfold check_term. apply msgs_app; [apply dup_attr_msgs_ok; apply Hl|].
  assert (He : Forall ev_in (term_events l)).
  { unfold term_events. apply Forall_app; split; [apply events_of_value_in; exact Hl|].
    destruct Hl as [_ Ha]. induction Ha as [|a attrs [_ Hv] _ IH]; cbn [flat_map]; [apply Forall_nil|].
    apply Forall_app; split; [apply walk_pattern_in; exact Hv|exact IH]. }
  induction He as [|e evs He _ IH]; cbn [flat_map]; [apply Forall_nil|].
  apply msgs_app; [|exact IH]. destruct e; try apply Forall_nil.
  apply check_variants_ok. exact He.
Qed.

Lemma entry_msgs_ok known r l : entry_in l -> msgs_ok (entry_msgs known r l).
Proof.
  intros Hl. unfold entry_msgs. destruct (e_term l);
    [apply check_term_ok|apply check_message_ok]; exact Hl.
Qed.

Lemma insert_msg_ok x s : msg_ok x -> msgs_ok s -> msgs_ok (insert_msg x s).
Proof.
  intros Hx. induction s as [|y s IH]; intros Hs; cbn [insert_msg].
  - apply msgs_one. exact Hx.
  - inversion Hs; subst. destruct (_ <? _).
    + apply Forall_cons; [assumption|apply IH; assumption].
    + apply Forall_cons; [exact Hx|exact Hs].
Qed.

Lemma sort_msgs_ok l : msgs_ok l -> msgs_ok (sort_msgs l).
Proof.
  unfold sort_msgs. induction 1 as [|x l Hx _ IH]; cbn [fold_right]; [apply Forall_nil|].
  apply insert_msg_ok; assumption.
Qed.

End In.

(* the entry occupies [start, start + n) of the resource *)
Definition in_span (start n p : nat) : Prop := start <= p <= start + n.

(* what FluentChecker.check yields: an EntityPos offset into l10nEnt.all for the
   encoding warning, otherwise an int relative to the start of the entry; they
   are Z in the model because `pos - l10n_entry.span.start` is a subtraction *)
Definition issue_ok (nall n : nat) (i : issue) : Prop :=
  if i_entitypos i then (0 <= i_pos i <= Z.of_nat nall)%Z
  else (0 <= i_pos i <= Z.of_nat n)%Z.

Lemma rebase_ok nall start n m :
  msg_ok (in_span start n) m -> issue_ok nall n (rebase start m).
Proof.
  unfold msg_ok, in_span, issue_ok, rebase. cbn [i_entitypos i_pos].
  destruct (m_pos m) as [|p]; [lia|]. intros [H|H]; lia.
Qed.

Lemma encoding_issues_ok all key n is :
  encoding_issues all key = Ok is -> Forall (issue_ok (length all) n) is.
Proof.
  unfold encoding_issues. destruct (rfinditer rx_c08_mochibake all) as [ms|] eqn:E; [|discriminate].
  intros H; injection H as <-. apply rfinditer_starts in E.
  induction E as [|x ms Hx _ IH]; cbn [map]; [apply Forall_nil|].
  apply Forall_cons; [|exact IH]. unfold issue_ok. cbn [i_entitypos i_pos]. lia.
Qed.

(* FluentChecker.check, all locales, references, localized entries whose span
   starts lie inside the entry (the fluent.syntax contract: a node's span is
   inside its parent's): every position is a non-negative offset not beyond the
   end of the text it indexes (l10nEnt.all for the encoding warning, the entry
   text otherwise).  Nothing is assumed about the reference entry. *)
Theorem check_bounds locale r l all key n is :
  entry_in (in_span (e_pos l) n) l ->
  check locale r l all key = Ok is ->
  Forall (issue_ok (length all) n) is.
Proof.
  intros Hl. unfold check, bind.
  destruct (encoding_issues all key) as [enc|t] eqn:Ee; [|discriminate].
  destruct (get_plural locale) as [known|t]; [|discriminate].
  intros H; injection H as <-. apply Forall_app; split.
  - eapply encoding_issues_ok. exact Ee.
  - pose proof (sort_msgs_ok _ _ (entry_msgs_ok _ known r l Hl)) as Hs.
    induction Hs as [|m ms Hm _ IH]; cbn [map]; [apply Forall_nil|].
    apply Forall_cons; [apply rebase_ok; exact Hm|exact IH].
Qed.

(* the premise is satisfiable and the result not trivial: an entry at offset 10
   of length 25 with a message reference at 16 and two attributes "a" at 20, 30;
   U+FFFD at offset 1 of entity.all *)
Definition ex_l : entry :=
  mkentry false 10 (Some (14, PPlace (EMsg 16 [98]%N None) PNil))
    [mkattr [97]%N 20 (PText [120]%N PNil); mkattr [97]%N 30 (PText [121]%N PNil)].
Definition ex_r : entry := mkentry false 0 None [].

Example check_bounds_example :
  entry_in (in_span (e_pos ex_l) 25) ex_l /\
  match check None ex_r ex_l [120; 65533]%N [107]%N with
  | Ok is => map (fun i => (i_entitypos i, i_pos i)) is =
             [(true, 1); (false, 4); (false, 6); (false, 10); (false, 20); (false, 20)]%Z
  | Raise _ => False
  end.
Proof.
  split; [|vm_compute; reflexivity].
  unfold entry_in, attr_in, in_span. cbn.
  repeat split; try lia. repeat (apply Forall_cons; [cbn; lia|]). apply Forall_nil.
Qed.

End FluentB.

(* ======================================================================== *)
(* Part E: the base Checker (U+FFFD warning) and its resolution             *)
(* ======================================================================== *)
Module BaseB.
Import CL.Generated.RxC05 CL.Generated.C05Facts CL.Model.Robust.

(* Checker.check: EntityPos offsets into entity.all, not beyond its end *)
Definition ent_ok (n : nat) (f : finding) : Prop :=
  exists off, f_pos f = EntPos off /\ off <= n.

Theorem encoding_findings_bounds all key fs :
  encoding_findings all key = Ok fs -> Forall (ent_ok (length all)) fs.
Proof.
  unfold encoding_findings, finditer, bind.
  destruct (rfinditer rx_c05_mochibake all) as [ms|] eqn:E; [|discriminate].
  intros H; injection H as <-. apply rfinditer_starts in E.
  induction E as [|x ms Hx _ IH]; cbn [map]; [apply Forall_nil|].
  apply Forall_cons; [|exact IH]. exists (m_start x). split; [reflexivity|exact Hx].
Qed.

Lemma mapM_Forall {A B} (f : A -> result B) (Pa : A -> Prop) (Q : B -> Prop) :
  (forall x y, Pa x -> f x = Ok y -> Q y) ->
  forall l ys, Forall Pa l -> mapM f l = Ok ys -> Forall Q ys.
Proof.
  intros Hf. induction l as [|x l IH]; intros ys HF; cbn [mapM]; unfold bind.
  - intros H; injection H as <-. apply Forall_nil.
  - inversion HF; subst. destruct (f x) as [y|t] eqn:Ey; [|discriminate].
    destruct (mapM f l) as [ys'|t] eqn:Em; [|discriminate].
    intros H; injection H as <-. apply Forall_cons; [eapply Hf; eassumption|].
    apply IH; [assumption|reflexivity].
Qed.

Lemma slice_length_le (s : str) a b : length (slice s a b) <= b - a.
Proof. unfold slice. rewrite firstn_length. lia. Qed.

(* a resolved (line, column) between the entity start and the end of the file *)
Definition between (s : str) (a0 : nat) (x : entry) : Prop :=
  exists l0 le, linecol s a0 = Some l0 /\ linecol s (length s) = Some le /\
                lex_le l0 (d_line x, d_col x) /\ lex_le (d_line x, d_col x) le.

(* An entity WITHOUT an attached comment (entity.all starts where the entity's
   span starts): the encoding warnings of compare and lint are reported between
   the start of the entity and the end of the file. *)
Theorem check_entity_between s e es :
  e_start e = fst (e_span e) ->
  fst (e_span e) <= snd (e_span e) -> snd (e_span e) <= length s ->
  check_entity s e = Ok es ->
  Forall (between s (fst (e_span e))) es.
Proof.
  intros Hst Hab Hb. unfold check_entity, bind.
  destruct (encoding_findings (ent_all s e) (ent_key s e)) as [fs|t] eqn:Ef; [|discriminate].
  apply encoding_findings_bounds in Ef. unfold resolve_all.
  apply (mapM_Forall _ (ent_ok (length (ent_all s e)))); [|exact Ef].
  intros f x (off & Hpos & Hoff). unfold bind. rewrite Hpos.
  unfold resolve, position.
  assert (Hz : (Z.of_nat off <? 0)%Z = false) by (apply Z.ltb_ge; lia).
  rewrite Hz, Nat2Z.id.
  assert (Hlen : off <= snd (e_span e) - fst (e_span e)).
  { unfold ent_all in Hoff. rewrite Hst in Hoff.
    pose proof (slice_length_le s (fst (e_span e)) (snd (e_span e))). lia. }
  destruct (resolved_between s (fst (e_span e)) (fst (e_span e)) (snd (e_span e)) off
              (le_n _) Hab Hb Hlen) as (l0 & lp & le & E0 & Ep & Ee & L1 & L2).
  rewrite Ep. cbn [of_opt]. intros H; injection H as <-. cbn [d_line d_col].
  exists l0, le. destruct lp as [l c]. cbn [fst snd]. auto.
Qed.

(* REFUTED with an attached comment (known finding
   encoding-warning-position-with-pre-comment): the offset into entity.all is
   added to the start of the entity WITHOUT its comment.
   "# a long comment here\nk = v\ufffd w\n": entity.all = [0, 30), span [22, 30);
   U+FFFD at offset 27 of entity.all is resolved at 22 + 27 = 49 > 31 = |file|:
   reported (3, 19), the file ends at (3, 1). *)
Definition wit_s : str :=
  [35; 32; 97; 32; 108; 111; 110; 103; 32; 99; 111; 109; 109; 101; 110; 116; 32; 104; 101;
   114; 101; 10; 107; 32; 61; 32; 118; 65533; 32; 119; 10]%N.
Definition wit_e : ent := mk_ent 0 (22, 30) (22, 23) (Some (26, 30)).

Theorem check_entity_between_refuted :
  exists s e es x le,
    e_start e <= fst (e_span e) /\ fst (e_span e) <= snd (e_span e) /\
    snd (e_span e) <= length s /\
    check_entity s e = Ok es /\ In x es /\
    linecol s (length s) = Some le /\ ~ lex_le (d_line x, d_col x) le.
Proof.
  exists wit_s, wit_e. eexists. eexists. exists (3, 1).
  split; [vm_compute; lia|]. split; [vm_compute; lia|]. split; [vm_compute; lia|].
  split; [vm_compute; reflexivity|]. split; [left; reflexivity|].
  split; [vm_compute; reflexivity|].
  unfold lex_le. cbn. lia.
Qed.

End BaseB.

(* ======================================================================== *)
(* Part B': PropertiesEntityMixin.val never is longer than raw_val          *)
(* ======================================================================== *)
Module PropsValB.
Import CL.Model.Unescape CL.Proofs.UnescapeProofs CL.Proofs.SubLocal CL.Proofs.C02Props.
Local Arguments chr_ok : simpl never.

(* a left-to-right substitution whose replacements are not longer than what they
   replace does not lengthen the text *)
Lemma loc_spec_length (here : str -> option (nat * capsf)) (repl : str -> result str) :
  (forall sf n cf, here sf = Some (n, cf) -> 0 < n /\ n <= length sf) ->
  (forall sf n cf r, here sf = Some (n, cf) -> repl sf = Ok r -> length r <= n) ->
  forall fuel sf v, loc_spec here repl fuel sf = Ok v -> length v <= length sf.
Proof.
  intros Hlen Hrepl. induction fuel as [|fu IH]; intros sf v H; cbn [loc_spec] in H; [discriminate|].
  destruct (here sf) as [[n cf]|] eqn:Eh.
  - destruct (repl sf) as [r|t] eqn:Er; [|discriminate].
    destruct (loc_spec here repl fu (skipn n sf)) as [tl|t] eqn:Et; [|discriminate].
    injection H as <-. apply IH in Et. rewrite skipn_length in Et.
    pose proof (Hlen _ _ _ Eh). pose proof (Hrepl _ _ _ _ Eh Er).
    rewrite app_length. lia.
  - destruct sf as [|c t]; [injection H as <-; cbn; lia|].
    destruct (loc_spec here repl fu t) as [tl|e] eqn:Et; [|discriminate].
    injection H as <-. apply IH in Et. cbn [length]. lia.
Qed.

Lemma props_repl_length sf n cf r :
  here_g sf = Some (n, cf) -> props_repl sf = Ok r -> length r <= n.
Proof.
  unfold here_g, props_here, props_repl. destruct sf as [|c [|d t]]; try discriminate.
  destruct (is_bs c); [|discriminate].
  destruct (chr_ok false ucls d && (1 <=? hexrun hexcls t)).
  - intros H; injection H as <- _.
    destruct (py_int _ _) as [k|e]; [|discriminate]. unfold py_chr.
    destruct (N.ltb k 1114112); [|discriminate]. intros H; injection H as <-. cbn. lia.
  - destruct (chr_ok false nlcls d).
    + intros H; injection H as <- _. intros H; injection H as <-. cbn. lia.
    + destruct (chr_ok true notcls d); [|discriminate].
      intros H; injection H as <- _. intros H; injection H as <-. cbn. lia.
Qed.

(* PropertiesEntityMixin.val (Model/Unescape.props_val) on every raw value *)
Theorem props_val_length raw v : props_val raw = Ok v -> length v <= length raw.
Proof.
  rewrite props_val_scan. apply loc_spec_length.
  - apply props_here_len.
  - apply props_repl_length.
Qed.

End PropsValB.

(* ======================================================================== *)
(* Part F: checker positions, resolved as Entry.position / value_position   *)
(*         resolve them, lie between the entity start and the end of file   *)
(* ======================================================================== *)

(* Entry.position(off) on the span sp (LineCol.position) gives a (line, column)
   not before the one of offset a0 and not after the one of the end of s *)
Definition resolves_between (s : list N) (a0 : nat) (sp : nat * nat) (off : Z) : Prop :=
  exists l0 lp le,
    linecol s a0 = Some l0 /\ position s sp off = Some lp /\
    linecol s (length s) = Some le /\ lex_le l0 lp /\ lex_le lp le.

Lemma position_between s a0 a b off :
  a0 <= a -> a <= b -> b <= length s -> (0 <= off <= Z.of_nat (b - a))%Z ->
  resolves_between s a0 (a, b) off.
Proof.
  intros H0 Hab Hb Hoff. unfold resolves_between, position. cbn [fst snd].
  assert (Hz : (off <? 0)%Z = false) by (apply Z.ltb_ge; lia). rewrite Hz.
  apply (resolved_between s a0 a b (Z.to_nat off)); lia.
Qed.

(* .properties: the entity (without attached comment) spans [a0, e), its value
   [a, b); raw_val is the text of the value span, entity.all the text of the
   entity span, and unescaping did not lengthen the value.  Every result of
   PropertiesChecker.check resolves between the entity start and the end of the
   file: EntityPos through position (added to a0), ints through value_position
   (added to a). *)
Theorem props_resolved_between s c fs a0 a b e :
  a0 <= a -> a <= b -> b <= e -> e <= length s ->
  length (CheckProps.l10n_all c) <= e - a0 ->
  length (CheckProps.l10n_raw c) <= b - a ->
  length (CheckProps.l10n_val c) <= length (CheckProps.l10n_raw c) ->
  CheckProps.check c = Ok fs ->
  Forall (fun f => resolves_between s a0
                     (if CheckProps.f_entpos f then (a0, e) else (a, b))
                     (Z.of_nat (CheckProps.f_pos f))) fs.
Proof.
  intros H0 Hab Hbe He Hall Hraw Hval H.
  apply (PropsB.check_bounds_raw c fs Hval) in H. eapply Forall_impl; [|exact H].
  intros f Hf. cbv beta in Hf. revert Hf. destruct (CheckProps.f_entpos f); intros Hf; cbv iota in Hf |- *;
    apply position_between; lia.
Qed.

(* Fluent: the entry spans [start, start + n) of s, entity.all is its text;
   both kinds of positions are added to the entry start *)
Theorem fluent_resolved_between s locale r l all key n is :
  FluentB.entry_in (FluentB.in_span (Ftl.e_pos l) n) l ->
  Ftl.e_pos l + n <= length s -> length all <= n ->
  CheckFluent.check locale r l all key = Ok is ->
  Forall (fun i => resolves_between s (Ftl.e_pos l) (Ftl.e_pos l, Ftl.e_pos l + n)
                     (CheckFluent.i_pos i)) is.
Proof.
  intros Hl Hn Hall H. apply (FluentB.check_bounds locale r l all key n is Hl) in H.
  eapply Forall_impl; [|exact H]. intros i Hi. unfold FluentB.issue_ok in Hi.
  apply position_between; try lia. cbv beta in Hi. revert Hi. destruct (CheckFluent.i_entitypos i); lia.
Qed.

(* Android: AndroidEntity.position / value_position return (0, offset): the
   offset itself is reported as the column, so the statement about the offsets
   (AndroidB.check_bounds, AndroidB.check_bounds_refuted) is the whole story. *)

(* the same with the value tied to raw_val the way the parser does it
   (PropertiesEntityMixin.val = Unescape.props_val raw_val) instead of the
   length premise *)
Theorem props_resolved_between_val s c fs a0 a b e :
  a0 <= a -> a <= b -> b <= e -> e <= length s ->
  length (CheckProps.l10n_all c) <= e - a0 ->
  length (CheckProps.l10n_raw c) <= b - a ->
  Unescape.props_val (CheckProps.l10n_raw c) = Ok (CheckProps.l10n_val c) ->
  CheckProps.check c = Ok fs ->
  Forall (fun f => resolves_between s a0
                     (if CheckProps.f_entpos f then (a0, e) else (a, b))
                     (Z.of_nat (CheckProps.f_pos f))) fs.
Proof.
  intros H0 Hab Hbe He Hall Hraw Hval. apply props_resolved_between; try assumption.
  apply PropsValB.props_val_length. exact Hval.
Qed.

(* ---- the premises hold of non-trivial values ----------------------------------------- *)
(* file "k=ab\q %S %<U+FFFD>": entity [0, 12), value [2, 11) = raw_val "ab\q %S %",
   val "abq %S %", reference value "%S": the encoding warning at offset 11 of
   entity.all, the unknown escape at offset 2 of raw_val, the lone % at offset 7
   of val *)
Definition ex_raw : str := [97; 98; 92; 113; 32; 37; 83; 32; 37]%N.
Definition ex_file : str := ([107; 61] ++ ex_raw ++ [65533])%N.
Definition ex_c : CheckProps.check_in :=
  CheckProps.mkin None [107]%N [37; 83]%N [107]%N ex_file
                  [97; 98; 113; 32; 37; 83; 32; 37]%N ex_raw None.

Example props_example :
  Unescape.props_val (CheckProps.l10n_raw ex_c) = Ok (CheckProps.l10n_val ex_c) /\
  length (CheckProps.l10n_all ex_c) <= 12 - 0 /\ length (CheckProps.l10n_raw ex_c) <= 11 - 2 /\
  12 <= length ex_file /\
  match CheckProps.check ex_c with
  | Ok fs => map (fun f => (CheckProps.f_entpos f, CheckProps.f_pos f)) fs =
             [(true, 11); (false, 2); (false, 7)]
  | Raise _ => False
  end.
Proof. vm_compute. repeat split; lia. Qed.

(* Android: a localized value with a doubled quote, an apostrophe and a
   conflicting formatter; a clean reference *)
Definition ex_android_ref : CheckAndroid.entity :=
  CheckAndroid.mkent (CheckAndroid.mknode C09Facts.s_string None
                        [CheckAndroid.Text [37; 49; 36; 115]%N] []) [97]%N [].
Definition ex_android_l10n : CheckAndroid.entity :=
  CheckAndroid.mkent (CheckAndroid.mknode C09Facts.s_string None
                        [CheckAndroid.Text [34; 34; 32; 39; 32; 37; 49; 36; 115; 32; 37; 49; 36; 100]%N] [])
                     [97]%N [120; 65533]%N.

Example android_example :
  AndroidB.ref_conflicts (CheckAndroid.e_node ex_android_ref) = [] /\
  match CheckAndroid.check ex_android_ref ex_android_l10n with
  | Ok is => map CheckAndroid.i_pos is =
             [CheckAndroid.PEnt 1; CheckAndroid.PInt 0; CheckAndroid.PInt 3; CheckAndroid.PInt 10]
  | Raise _ => False
  end.
Proof. vm_compute. split; reflexivity. Qed.

(* base Checker: "k = v<U+FFFD> w\n", no comment: reported at (1, 6) *)
Definition ex_base_s : str := [107; 32; 61; 32; 118; 65533; 32; 119; 10]%N.
Definition ex_base_e : Robust.ent := Robust.mk_ent 0 (0, 8) (0, 1) (Some (4, 8)).

Example base_example :
  Robust.e_start ex_base_e = fst (Robust.e_span ex_base_e) /\
  fst (Robust.e_span ex_base_e) <= snd (Robust.e_span ex_base_e) /\
  snd (Robust.e_span ex_base_e) <= length ex_base_s /\
  match Robust.check_entity ex_base_s ex_base_e with
  | Ok es => map (fun x => (Robust.d_line x, Robust.d_col x)) es = [(1, 6)]
  | Raise _ => False
  end.
Proof. vm_compute. repeat split; lia. Qed.
