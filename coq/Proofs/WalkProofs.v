(* C01, generic part: a getNext that satisfies the step contract makes
   Parser.walk terminate with entries that tile the text and lose nothing. *)
From Coq Require Import NArith List Bool Arith Lia.
From CL Require Import Base.Sx Base.Res Base.Str Regex.Rx Model.Entry Model.Parse
  Proofs.WalkSpec.
Import ListNotations.

Local Arguments Nat.ltb : simpl never.
Local Arguments Nat.leb : simpl never.

(* ---- slices ---------------------------------------------------------------- *)
Lemma skipn_add : forall (A : Type) (l : list A) a b, skipn b (skipn a l) = skipn (a + b) l.
Proof.
  intros A l a. revert l. induction a as [|a IH]; intros l b; simpl.
  - reflexivity.
  - destruct l as [|x l]; [apply skipn_nil|apply IH].
Qed.

Lemma slice_skipn : forall (s : str) a b, a <= b -> b <= length s ->
  slice s a b ++ skipn b s = skipn a s.
Proof.
  intros s a b Hab Hb. unfold slice.
  replace (skipn b s) with (skipn (b - a) (skipn a s)).
  - apply firstn_skipn.
  - rewrite skipn_add. f_equal. lia.
Qed.

Lemma skipn_length_nil : forall (s : str) n, length s <= n -> skipn n s = [].
Proof. intros s n H. apply skipn_all2. exact H. Qed.

(* ---- the loop ---------------------------------------------------------------- *)
Lemma walk_loop_S : forall {C} (gn : C -> str -> nat -> entry * C) f c s off,
  walk_loop gn (S f) c s off =
  if off <? length s then
    let (e, c') := gn c s off in
    match walk_loop gn f c' s (snd (e_span e)) with
    | Ok es => Ok (e :: es)
    | Raise t => Raise t
    end
  else Ok [].
Proof. reflexivity. Qed.

Lemma walk_loop_done : forall {C} (gn : C -> str -> nat -> entry * C) f c s off,
  length s <= off -> walk_loop gn f c s off = Ok [].
Proof.
  intros C gn f c s off H. destruct f; simpl;
    (destruct (off <? length s) eqn:E; [apply Nat.ltb_lt in E; lia|reflexivity]).
Qed.

(* the invariant, from an arbitrary offset; the step contract is only needed
   for this text and from [lo] on (the DTD parser is special at offset 0) *)
Lemma walk_loop_from : forall {C} (gn : C -> str -> nat -> entry * C) s lo,
  (forall c off, lo <= off -> off < length s ->
     entry_ok s off (fst (gn c s off)) /\ spans_inside (fst (gn c s off))) ->
  forall fuel c off, lo <= off -> off <= length s -> length s - off < fuel ->
  exists es,
    walk_loop gn fuel c s off = Ok es /\
    length es <= length s - off /\
    concat (map (all_text s) es) = skipn off s /\
    tiles s off es /\
    Forall spans_inside es.
Proof.
  intros C gn s lo Hgn. induction fuel as [|f IH]; intros c off Hlo Hoff Hf.
  - lia.
  - rewrite walk_loop_S. destruct (off <? length s) eqn:E.
    + apply Nat.ltb_lt in E.
      pose proof (Hgn c off Hlo E) as [Hok Hin].
      destruct (gn c s off) as [e c'] eqn:G. simpl in Hok, Hin.
      destruct Hok as [H1 [H2 [H3 [H4 H5]]]].
      destruct (IH c' (snd (e_span e))) as [es [W [L [Cc [T Fa]]]]]; [lia|lia|lia|].
      rewrite W. exists (e :: es). split; [reflexivity|]. split; [simpl; lia|].
      split; [|split].
      * simpl. rewrite Cc. unfold all_text. rewrite H1. apply slice_skipn; lia.
      * simpl. repeat split; auto.
      * constructor; auto.
    + apply Nat.ltb_ge in E. exists []. split; [reflexivity|]. split; [simpl; lia|].
      split; [|split].
      * simpl. symmetry. apply skipn_length_nil. exact E.
      * simpl. exact E.
      * constructor.
Qed.

Lemma walk_loop_spec : forall {C} (gn : C -> str -> nat -> entry * C),
  gn_contract gn ->
  forall s fuel c off, off <= length s -> length s - off < fuel ->
  exists es,
    walk_loop gn fuel c s off = Ok es /\
    length es <= length s - off /\
    concat (map (all_text s) es) = skipn off s /\
    tiles s off es /\
    Forall spans_inside es.
Proof.
  intros C gn Hgn s fuel c off Hoff Hf.
  apply (walk_loop_from gn s 0); auto. lia.
Qed.

Lemma walk_localizable_ok : forall {C} (gn : C -> str -> nat -> entry * C) c0 s es,
  walk gn c0 s = Ok es -> walk_localizable gn c0 s = Ok (filter is_localizable es).
Proof. intros C gn c0 s es H. unfold walk_localizable. rewrite H. reflexivity. Qed.

Theorem walk_lossless : forall {C} (gn : C -> str -> nat -> entry * C),
  gn_contract gn -> forall c0 s, lossless gn c0 s.
Proof.
  intros C gn Hgn c0 s. unfold lossless.
  destruct (walk_loop_spec gn Hgn s (S (length s)) c0 0) as [es [W [L [Cc [T Fa]]]]];
    [lia|lia|].
  exists es. split; [exact W|]. split; [lia|]. split; [exact Cc|]. split; [exact T|].
  split; [exact Fa|]. apply walk_localizable_ok. exact W.
Qed.

(* ---- DTD: the walk with the byte-order-mark exception ------------------------- *)
(* the step contract of the DTD getNext: ordinary from offset 1 on; at offset 0
   the entry starts after a leading mark; the text that is only the mark gives
   the zero-width Junk (1,1) *)
Definition dtd_contract (gn : unit -> str -> nat -> entry * unit) : Prop :=
  forall s,
    (forall c off, 1 <= off -> off < length s ->
       entry_ok s off (fst (gn c s off)) /\ spans_inside (fst (gn c s off))) /\
    (skip_of s < length s ->
       entry_ok s (skip_of s) (fst (gn tt s 0)) /\ spans_inside (fst (gn tt s 0))) /\
    (s = [bom] -> fst (gn tt s 0) = mk_junk (1, 1)).

Lemma skipn_skip_of : forall s, skipn (skip_of s) s = body_of s.
Proof.
  intros [|c s]; simpl; [reflexivity|]. destruct (N.eqb c bom); reflexivity.
Qed.

Lemma skip_of_le : forall s, skip_of s <= 1.
Proof. intros [|c s]; simpl; [lia|]. destruct (N.eqb c bom); lia. Qed.

Lemma skip_of_only_bom : forall s, 0 < length s -> length s <= skip_of s -> s = [bom].
Proof.
  intros [|c s] H1 H2; simpl in *; [lia|].
  destruct (N.eqb c bom) eqn:E; [|lia].
  apply N.eqb_eq in E. subst c. destruct s; [reflexivity|simpl in H2; lia].
Qed.

Theorem walk_lossless_dtd : forall gn, dtd_contract gn -> forall s, lossless_dtd gn s.
Proof.
  intros gn Hgn s. unfold lossless_dtd. destruct (Hgn s) as [Hstep [Hfirst Hbom]].
  assert (Hall : exists es, walk gn tt s = Ok es /\ length es <= length s /\
                 concat (map (all_text s) es) = body_of s /\
                 (s = [bom] \/ tiles s (skip_of s) es) /\ Forall spans_inside es).
  { unfold walk. rewrite walk_loop_S. destruct (0 <? length s) eqn:E.
    - apply Nat.ltb_lt in E.
      destruct (Nat.lt_ge_cases (skip_of s) (length s)) as [Hlt|Hge].
      + destruct (Hfirst Hlt) as [Hok Hin].
        destruct (gn tt s 0) as [e c'] eqn:G. simpl in Hok, Hin.
        destruct Hok as [H1 [H2 [H3 [H4 H5]]]].
        destruct (walk_loop_from gn s 1 Hstep (length s) c' (snd (e_span e)))
          as [es [W [L [Cc [T Fa]]]]]; [lia|lia|lia|].
        rewrite W. exists (e :: es). split; [reflexivity|]. split; [simpl; lia|].
        split; [|split].
        * simpl. rewrite Cc. unfold all_text. rewrite H1, <- skipn_skip_of.
          apply slice_skipn; lia.
        * right. simpl. repeat split; auto.
        * constructor; auto.
      + pose proof (skip_of_only_bom s E Hge) as Hs. specialize (Hbom Hs).
        destruct (gn tt s 0) as [e c'] eqn:G. simpl in Hbom. subst e. simpl.
        rewrite walk_loop_done; [|subst s; simpl; lia].
        exists [mk_junk (1, 1)]. split; [reflexivity|]. split; [simpl; lia|].
        split; [|split].
        * subst s. reflexivity.
        * left. exact Hs.
        * constructor; [|constructor]. intro Hk. discriminate.
    - apply Nat.ltb_ge in E. destruct s; [|simpl in E; lia].
      exists []. split; [reflexivity|]. split; [simpl; lia|]. split; [reflexivity|].
      split; [right; simpl; lia|constructor]. }
  destruct Hall as [es [W [L [Cc [T Fa]]]]]. exists es.
  split; [exact W|]. split; [exact L|]. split; [exact Cc|]. split; [exact T|].
  split; [exact Fa|]. apply walk_localizable_ok. exact W.
Qed.
